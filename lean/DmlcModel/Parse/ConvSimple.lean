/-
A concrete instance of the numeric conversions `Conv` for the executable driver and for the
non-vacuity examples (temporary stand-in for the C14 model of strtonum.h):

  * `real`  : dmlc::strtof  (ParseFloat<float, false>)   – exact `Rat` arithmetic + round-to-nearest-even
              after every floating-point operation of the C++ (uint64 -> float, double division,
              double -> float, float add, float scale products, float multiply / divide)
  * `index` : ParseUnsignedInt<uintN_t>(p, 0, 10)          – CHECK on a minus sign, wrap-around mod 2^N
  * `qid`   : (uint64_t) libc atoll                         – saturating
  * `cell`  : dmlc::strtof / libc strtoll(base) with the end pointer

Every conversion is *by construction* a function of the token at the start position
(`tokenAt`: skip white space, then the maximal run of bytes a number literal can be made of), which is
what makes the locality contract `Conv.Local` of the theorems immediate for it.
-/
import DmlcModel.Parse.Model

namespace DmlcModel.Parse.ConvSimple
open DmlcModel DmlcModel.Parse

def isDigitB (b : UInt8) : Bool := Gen.Parse.isdigit b.toNat
def isAlphaB (b : UInt8) : Bool := (97 ≤ b.toNat && b.toNat ≤ 122) || (65 ≤ b.toNat && b.toNat ≤ 90)
/-- bytes a number literal (decimal, hex, inf, nan(...), suffix f) can consist of -/
def isNumCh (b : UInt8) : Bool :=
  isDigitB b || isAlphaB b || b == 43 || b == 45 || b == 46 || b == 95 || b == 40 || b == 41
/-- dmlc::isspace -/
def isSpDmlc (b : UInt8) : Bool := Gen.Parse.isspace b.toNat
/-- libc isspace in the C locale -/
def isSpLibc (b : UInt8) : Bool := Gen.Parse.isspace b.toNat || b == 11

/-- number of white-space bytes skipped and the token that follows -/
def tokenAt (sp : UInt8 → Bool) (mem : Bytes) (p : Nat) : Nat × Bytes :=
  let s := mem.drop p
  ((s.takeWhile sp).length, (s.dropWhile sp).takeWhile isNumCh)

/-! ### rounding -/

/-- `⌊log2 q⌋` for `q > 0` -/
def ilog2 (q : Rat) : Int :=
  let e : Int := (q.num.natAbs.log2 : Int) - (q.den.log2 : Int)
  if (2 : Rat) ^ e ≤ q then e else e - 1

def roundHalfEven (q : Rat) : Int :=
  let f := q.floor
  let r := q - (f : Rat)
  if r < 1 / 2 then f else if 1 / 2 < r then f + 1 else if f % 2 = 0 then f else f + 1

/-- round `q ≥ 0` to `prec` significant bits, least exponent of an ulp `emin` (gradual underflow) -/
def rndTo (prec : Nat) (emin : Int) (q : Rat) : Rat :=
  if q ≤ 0 then 0 else
  let e := max (ilog2 q - ((prec : Int) - 1)) emin
  (roundHalfEven (q / (2 : Rat) ^ e) : Rat) * (2 : Rat) ^ e

/-- magnitude of a binary32 value -/
inductive FV where
  | fin (q : Rat)
  | inf

def rnd24 (q : Rat) : FV :=
  let r := rndTo 24 (-149) q
  if (2 : Rat) ^ (128 : Nat) ≤ r then .inf else .fin r

def rnd53 (q : Rat) : Rat := rndTo 53 (-1074) q   -- no overflow possible for the operands below

/-- binary32 bit pattern of a (rounded) magnitude and a sign -/
def bitsOf (neg : Bool) (v : FV) : Nat :=
  let s := if neg then 0x80000000 else 0
  match v with
  | .inf => s + 0x7f800000
  | .fin q =>
    if q ≤ 0 then s else
    let e := ilog2 q
    if e < -126 then s + (q * (2 : Rat) ^ (149 : Nat)).floor.toNat
    else s + ((e + 127).toNat <<< 23) + ((q / (2 : Rat) ^ e - 1) * (2 : Rat) ^ (23 : Nat)).floor.toNat

/-! ### scanners over a token -/

def digitsVal (modulus : Nat) (ds : Bytes) : Nat :=
  ds.foldl (fun a b => (a * 10 + (b.toNat - 48)) % modulus) 0

/-- length of the longest prefix of `s` that matches `pat` case-insensitively (`(*p | 32) == pat[i]`) -/
def matchCI : List Nat → Bytes → Nat
  | [], _ => 0
  | _, [] => 0
  | c :: cs, b :: bs => if (b.toNat ||| 32) == c then 1 + matchCI cs bs else 0

def fmul (a : FV) (b : Rat) : FV := match a with | .inf => .inf | .fin q => rnd24 (q * b)
def fdiv (a : FV) (b : Rat) : FV := match a with | .inf => .inf | .fin q => rnd24 (q / b)

def scaleLoop8 : Nat → Nat → Rat → Rat × Nat
  | 0, ex, s => (s, ex)
  | fuel + 1, ex, s =>
    if ex ≥ 8 then
      match rnd24 (s * 100000000) with
      | .fin s' => scaleLoop8 fuel (ex - 8) s'
      | .inf => (s, 0)   -- unreachable: the exponent is clipped to 38
    else (s, ex)

def scaleLoop1 : Nat → Nat → Rat → Rat
  | 0, _, s => s
  | fuel + 1, ex, s =>
    if ex > 0 then
      match rnd24 (s * 10) with
      | .fin s' => scaleLoop1 fuel (ex - 1) s'
      | .inf => s
    else s

/-- 3.402823466f and 1.175494351f -/
def kMaxSig : Rat := match rnd24 (3402823466 / 1000000000) with | .fin q => q | .inf => 0
def kMinSig : Rat := match rnd24 (1175494351 / 1000000000) with | .fin q => q | .inf => 0

/-- `ParseFloat<float, false>` on a token (no leading white space): bit pattern and bytes consumed -/
def parseFloatTok (t : Bytes) : Res (Nat × Nat) :=
  let (neg, r, n) : Bool × Bytes × Nat := match t with
    | 45 :: r => (true, r, 1)
    | 43 :: r => (false, r, 1)
    | _ => (false, t, 0)
  let i := matchCI [105, 110, 102, 105, 110, 105, 116, 121] r
  if i == 3 || i == 8 then .ok (bitsOf neg .inf, n + i) else
  let j := matchCI [110, 97, 110] r
  if j == 3 then
    let r := r.drop 3
    match r with
    | 40 :: r' =>
      let body := r'.takeWhile fun b => isDigitB b || isAlphaB b || b == 95
      match r'.drop body.length with
      | 41 :: _ => .ok (quietNaN, n + 3 + 1 + body.length + 1)
      | _ => .error .check
    | _ => .ok (quietNaN, n + 3)
  else
  let ds := r.takeWhile isDigitB
  let r := r.drop ds.length
  let n := n + ds.length
  let v : FV := rnd24 (digitsVal (2 ^ 64) ds : Nat)
  let (v, r, n) : FV × Bytes × Nat := match r with
    | 46 :: r' =>
      let fs := r'.takeWhile isDigitB
      let used := fs.take 19
      let val2 : Nat := digitsVal (2 ^ 64) used
      let pow10 : Nat := 10 ^ used.length
      let d : Rat := rnd53 (rnd53 (val2 : Nat) / rnd53 (pow10 : Nat))
      let f : Rat := match rnd24 d with | .fin q => q | .inf => 0
      let v' := match v with | .fin q => rnd24 (q + f) | .inf => .inf
      (v', r'.drop fs.length, n + 1 + fs.length)
    | _ => (v, r, n)
  let (v, r, n) : FV × Bytes × Nat :=
    if (match r with | b :: _ => b == 101 || b == 69 | [] => false) then
      let r := r.drop 1
      let (frac, r, n) : Bool × Bytes × Nat := match r with
        | 45 :: r' => (true, r', n + 2)
        | 43 :: r' => (false, r', n + 2)
        | _ => (false, r, n + 1)
      let es := r.takeWhile isDigitB
      let ex0 := digitsVal (2 ^ 32) es
      let ex := if ex0 > 38 then 38 else ex0
      let v := match v with
        | .fin q => if ex == 38 && ((!frac && kMaxSig < q) || (frac && q < kMinSig)) then
                      FV.fin (if frac then kMinSig else kMaxSig) else FV.fin q
        | .inf => FV.inf
      let (s8, ex') := scaleLoop8 6 ex 1
      let s := scaleLoop1 9 ex' s8
      (if frac then fdiv v s else fmul v s, r.drop es.length, n + es.length)
    else (v, r, n)
  let n := match r with | 102 :: _ => n + 1 | 70 :: _ => n + 1 | _ => n
  .ok (bitsOf neg v, n)

/-- `ParseUnsignedInt<uintN_t>(p, 0, 10)` on a token -/
def parseUnsignedTok (iw : Nat) (t : Bytes) : Res Nat :=
  match t with
  | 45 :: _ => .error .check
  | 43 :: r => .ok (digitsVal (2 ^ iw) (r.takeWhile isDigitB))
  | _ => .ok (digitsVal (2 ^ iw) (t.takeWhile isDigitB))

def hexVal? (b : UInt8) : Option Nat :=
  if isDigitB b then some (b.toNat - 48)
  else if 97 ≤ b.toNat && b.toNat ≤ 102 then some (b.toNat - 87)
  else if 65 ≤ b.toNat && b.toNat ≤ 70 then some (b.toNat - 55)
  else none

def digitsIn (base : Nat) (s : Bytes) : List Nat :=
  (s.takeWhile fun b => match hexVal? b with | some d => d < base | none => false).filterMap hexVal?

/-- libc `strtoll(tok, &end, base)` for `base ∈ {0, 10}` on a token: (value as an `Int`, clamped to the
range of `long long`; bytes consumed, 0 = no conversion) -/
def strtollTok (base : Nat) (t : Bytes) : Int × Nat :=
  let (neg, r, n) : Bool × Bytes × Nat := match t with
    | 45 :: r => (true, r, 1)
    | 43 :: r => (false, r, 1)
    | _ => (false, t, 0)
  let (b, r, n) : Nat × Bytes × Nat :=
    if base == 0 then
      match r with
      | 48 :: x :: h :: _ =>
        if (x == 120 || x == 88) && (hexVal? h).isSome then (16, r.drop 2, n + 2)
        else (8, r, n)
      | 48 :: _ => (8, r, n)
      | _ => (10, r, n)
    else (base, r, n)
  let ds := digitsIn b r
  if ds.isEmpty then (0, 0) else
  let mag : Nat := ds.foldl (fun a d => a * b + d) 0
  let v : Int := if neg then - (mag : Int) else (mag : Int)
  let v := if v > 9223372036854775807 then 9223372036854775807
           else if v < -9223372036854775808 then -9223372036854775808 else v
  (v, n + ds.length)

def twos (w : Nat) (v : Int) : Nat := (v % (2 ^ w : Nat)).toNat

/-- the cell types of the CSV parser -/
inductive DT where
  | f32 | i32 | i64
  deriving DecidableEq, Repr

def real (mem : Bytes) (p : Nat) : Res Nat :=
  (parseFloatTok (tokenAt isSpDmlc mem p).2).map (·.1)

def index (iw : Nat) (mem : Bytes) (p : Nat) : Res Nat :=
  parseUnsignedTok iw (tokenAt isSpDmlc mem p).2

def qid (mem : Bytes) (p : Nat) : Res Nat :=
  .ok (twos 64 (strtollTok 10 (tokenAt isSpLibc mem p).2).1)

def cell (dt : DT) (mem : Bytes) (p : Nat) : Res (Nat × Nat) :=
  match dt with
  | .f32 =>
    let (ws, t) := tokenAt isSpDmlc mem p
    (parseFloatTok t).map fun (v, n) => (v, p + ws + n)
  | .i32 =>
    let (ws, t) := tokenAt isSpLibc mem p
    let (v, n) := strtollTok Gen.Parse.csvBase32 t
    .ok (twos 32 v, if n == 0 then p else p + ws + n)
  | .i64 =>
    let (ws, t) := tokenAt isSpLibc mem p
    let (v, n) := strtollTok Gen.Parse.csvBase64 t
    .ok (twos 64 v, if n == 0 then p else p + ws + n)

/-- the conversions of a parser with `iw`-bit indices and cell type `dt` -/
def conv (iw : Nat) (dt : DT) : Conv :=
  { real := real, index := index iw, qid := qid, cell := cell dt }

end DmlcModel.Parse.ConvSimple
