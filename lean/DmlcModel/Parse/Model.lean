/-
Executable model of the text parsers of dmlc-core (C11, C12):
  include/dmlc/strtonum.h   ParsePair, ParseTriple
  src/data/libsvm_parser.h  IgnoreCommentAndBlank, LibSVMParser::ParseBlock
  src/data/libfm_parser.h   LibFMParser::ParseBlock
  src/data/csv_parser.h     CSVParser::ParseBlock
  src/data/text_parser.h    BackFindEndLine, IgnoreUTF8BOM, FillData
  src/data/parser.h         ParserImpl::Next
  src/data/row_block.h      RowBlockContainer::GetBlock, include/dmlc/data.h RowBlock::operator[]

Core Lean only.  Memory is `mem : Bytes` = every byte the code may legally read: the block, then the
bytes that follow it in the buffer up to and including a terminating NUL.  Pointers are positions
(`Nat`) into `mem`; a read at a position `≥ mem.length` is the outcome `Err.oob`.  All loops are the
C++ pointer loops (`scan`), all decisions that are plain expressions come from `Gen.Parse`.

The numeric conversions (`Str2Type<T>` = dmlc::strtof / ParseUnsignedInt, libc `atoll`, and the CSV
cell conversion dmlc::strtof / libc strtoll) are the parameter `conv`; values are bit patterns
(`Nat`): binary32 for `real_t`, two's complement for the integer cell types.

`Fixes` says which of the repairs of findings C11-F1..F5 and C12-F3 the source carries (read off the source
by `Gen.Parse.fix*`), so the same model follows the pinned and the repaired code.
-/
import DmlcModel.Basic
import DmlcModel.Gen.Parse

namespace DmlcModel.Parse
open DmlcModel

inductive Err where
  | check   -- CHECK / LOG(FATAL): a thrown dmlc::Error
  | oob     -- read outside `mem` / outside a container array (undefined behaviour in C++)
  deriving DecidableEq, Repr, Inhabited

abbrev Res (α : Type) := Except Err α

/-- which repairs the source carries -/
structure Fixes where
  pairGuard : Bool
  tripleGuard : Bool
  qidGuard : Bool
  svmEolSkip : Bool
  csvBlankGuard : Bool
  csvBomGuard : Bool
  /-- C12-F3 (fixes/C12-3.diff): the blank-cell guard also stops at the delimiter -/
  csvDelimGuard : Bool
  deriving DecidableEq, Repr

def Fixes.current : Fixes :=
  ⟨Gen.Parse.fixPairGuard, Gen.Parse.fixTripleGuard, Gen.Parse.fixQidGuard, Gen.Parse.fixSvmEolSkip,
   Gen.Parse.fixCsvBlankGuard, Gen.Parse.fixCsvBomGuard, Gen.Parse.fixCsvDelimGuard⟩
def Fixes.pinned : Fixes := ⟨false, false, false, false, false, false, false⟩
def Fixes.repaired : Fixes := ⟨true, true, true, true, true, true, true⟩

/-- the numeric conversions, started at a position of `mem` -/
structure Conv where
  /-- `Str2Type<real_t>(mem + p)` = `dmlc::strtof(p, 0)`: binary32 bit pattern -/
  real : Bytes → Nat → Res Nat
  /-- `Str2Type<IndexType>(mem + p)` = `ParseUnsignedInt<IndexType>(p, 0, 10)` (CHECKs on a minus sign) -/
  index : Bytes → Nat → Res Nat
  /-- `static_cast<uint64_t>(atoll(mem + p))` (libc) -/
  qid : Bytes → Nat → Res Nat
  /-- the CSV cell conversion `strtof(p, &endptr)` / `strtoll(p, &endptr, base)`: value and `endptr` -/
  cell : Bytes → Nat → Res (Nat × Nat)

/-! ## character classes (Gen) on bytes -/
def isEolB (b : UInt8) : Bool := Gen.Parse.backIsEol b.toNat
def isBlankB (b : UInt8) : Bool := Gen.Parse.isblank b.toNat
def isSpaceB (b : UInt8) : Bool := Gen.Parse.isspace b.toNat
def isDigitCharB (b : UInt8) : Bool := Gen.Parse.isdigitchars b.toNat
def notDigitCharB (b : UInt8) : Bool := !Gen.Parse.isdigitchars b.toNat
/-- the CSV blank-cell guard of the repaired source: `isspace(*cell) || *cell == '\v'` -/
def isCellSpaceB (b : UInt8) : Bool := Gen.Parse.isspace b.toNat || b.toNat == 11

/-! ## pointer loops -/

/-- `while (p != stop && pred(*p)) ++p;` over the bytes `bs = mem.drop p` -/
def scanGo (pred : UInt8 → Bool) (stop : Nat) : Bytes → Nat → Res Nat
  | [], p => if p = stop then .ok p else .error .oob
  | b :: bs, p => if p = stop then .ok p else if pred b then scanGo pred stop bs (p + 1) else .ok p

def scan (pred : UInt8 → Bool) (mem : Bytes) (stop p : Nat) : Res Nat :=
  scanGo pred stop (mem.drop p) p

/-- `while (pred(*p) && p != stop) ++p;` (CSV: the byte is read before the bound is tested) -/
def scanRdGo (pred : UInt8 → Bool) (stop : Nat) : Bytes → Nat → Res Nat
  | [], _ => .error .oob
  | b :: bs, p => if pred b && p != stop then scanRdGo pred stop bs (p + 1) else .ok p

def scanRd (pred : UInt8 → Bool) (mem : Bytes) (stop p : Nat) : Res Nat :=
  scanRdGo pred stop (mem.drop p) p

def byteAt (mem : Bytes) (p : Nat) : Res UInt8 :=
  match mem[p]? with
  | some b => .ok b
  | none => .error .oob

/-! ## ParsePair / ParseTriple (strtonum.h) -/

structure PairOut where
  r : Nat
  endp : Nat
  v1 : Nat := 0
  v2 : Nat := 0
  v3 : Nat := 0
  deriving Repr, DecidableEq

def parsePair (fx : Fixes) (c1 c2 : Bytes → Nat → Res Nat) (mem : Bytes) (begin stop : Nat) : Res PairOut := do
  let p ← scan notDigitCharB mem stop begin
  if p = stop then return { r := 0, endp := stop }
  let q ← scan isDigitCharB mem stop p
  let v1 ← c1 mem p
  let p ← scan isBlankB mem stop q
  if p = stop then return { r := 1, endp := p, v1 := v1 }
  let b ← byteAt mem p
  if b != 58 then return { r := 1, endp := p, v1 := v1 }
  let p ← scan notDigitCharB mem stop (p + 1)
  if fx.pairGuard && p = stop then return { r := 1, endp := stop, v1 := v1 }
  let q ← scan isDigitCharB mem stop p
  let v2 ← c2 mem p
  return { r := 2, endp := q, v1 := v1, v2 := v2 }

def parseTriple (fx : Fixes) (c1 c2 c3 : Bytes → Nat → Res Nat) (mem : Bytes) (begin stop : Nat) : Res PairOut := do
  let p ← scan notDigitCharB mem stop begin
  if p = stop then return { r := 0, endp := stop }
  let q ← scan isDigitCharB mem stop p
  let v1 ← c1 mem p
  let p ← scan isBlankB mem stop q
  if p = stop then return { r := 1, endp := p, v1 := v1 }
  let b ← byteAt mem p
  if b != 58 then return { r := 1, endp := p, v1 := v1 }
  let p ← scan notDigitCharB mem stop (p + 1)
  if fx.tripleGuard && p = stop then return { r := 1, endp := stop, v1 := v1 }
  let q ← scan isDigitCharB mem stop p
  let v2 ← c2 mem p
  let p ← scan isBlankB mem stop q
  if p = stop then return { r := 2, endp := p, v1 := v1, v2 := v2 }
  let b ← byteAt mem p
  if b != 58 then return { r := 2, endp := p, v1 := v1, v2 := v2 }
  let p ← scan notDigitCharB mem stop (p + 1)
  if fx.tripleGuard && p = stop then return { r := 2, endp := stop, v1 := v1, v2 := v2 }
  let q ← scan isDigitCharB mem stop p
  let v3 ← c3 mem p
  return { r := 3, endp := q, v1 := v1, v2 := v2, v3 := v3 }

/-! ## IgnoreCommentAndBlank (libsvm_parser.h): returns the new position `beg + advanced` -/

def icbGo (lineEnd : Nat) : Bytes → Nat → Res Nat
  | [], p => if p = lineEnd then .ok lineEnd else .error .oob
  | b :: bs, p =>
    if p = lineEnd then .ok lineEnd
    else if Gen.Parse.icbIsComment b.toNat Gen.Parse.commentSymbol then .ok lineEnd
    else if Gen.Parse.icbStops b.toNat then .ok p
    else icbGo lineEnd bs (p + 1)

def ignoreCommentAndBlank (mem : Bytes) (beg lineEnd : Nat) : Res Nat :=
  icbGo lineEnd (mem.drop beg) beg

/-! ## containers, rows -/

/-- `RowBlockContainer<IndexType, DType>` (the arrays; `max_field` / `max_index` are not touched by the parsers) -/
structure Container where
  offset : List Nat := [0]
  label : List Nat := []
  weight : List Nat := []
  qid : List Nat := []
  field : List Nat := []
  index : List Nat := []
  value : List Nat := []
  deriving Repr, DecidableEq

def Container.size (c : Container) : Nat := c.offset.length - 1

/-- `Row<IndexType, DType>` as handed out by `RowBlock::operator[]`: a NULL pointer is `none`.  The
`field` / `value` pointers of a row of length 0 cannot be observed and are reported as `none`. -/
structure Row where
  label : Option Nat
  weight : Option Nat
  qid : Option Nat
  field : Option (List Nat)
  index : List Nat
  value : Option (List Nat)
  deriving Repr, DecidableEq

def slice (xs : List Nat) (a b : Nat) : List Nat := (xs.drop a).take (b - a)

/-- `GetBlock()`: the consistency CHECKs (the ones on weight / qid / field exist only in the repaired
source of finding C13; absent they are `true`) -/
def getBlockOk (c : Container) : Bool :=
  match c.offset.getLast? with
  | none => false
  | some last =>
    (c.label.length == 0 || c.label.length + 1 == c.offset.length) &&
    (last == c.index.length) &&
    Gen.Parse.gbValueCheck last c.value.length &&
    Gen.Parse.gbWeightCheck c.weight.length c.offset.length &&
    Gen.Parse.gbQidCheck c.qid.length c.offset.length &&
    Gen.Parse.gbFieldCheck c.field.length c.index.length

/-- element `i` of an array that is either absent (`BeginPtr` of an empty vector is NULL) or must
have an element `i` -/
def optAt (xs : List Nat) (i : Nat) : Res (Option Nat) :=
  if xs.isEmpty then .ok none else
  match xs[i]? with
  | some x => .ok (some x)
  | none => .error .oob

def optSlice (xs : List Nat) (a b : Nat) : Res (Option (List Nat)) :=
  if xs.isEmpty || a == b then .ok none
  else if b ≤ xs.length then .ok (some (slice xs a b)) else .error .oob

/-- `block[rowid]` -/
def rowAt (c : Container) (i : Nat) : Res Row := do
  let a ← match c.offset[i]? with | some a => pure a | none => .error .oob
  let b ← match c.offset[i + 1]? with | some b => pure b | none => .error .oob
  let label ← optAt c.label i
  let weight ← optAt c.weight i
  let qid ← optAt c.qid i
  let field ← optSlice c.field a b
  let value ← optSlice c.value a b
  if b ≤ c.index.length then
    return { label, weight, qid, field, index := slice c.index a b, value }
  else .error .oob

/-- the rows of the block handed out for a container (`GetBlock` then `operator[]` for every row) -/
def rowsOf (c : Container) : Res (List Row) :=
  if getBlockOk c then (List.range c.size).mapM (rowAt c) else .error .check

/-! ## LibSVMParser::ParseBlock -/

structure SvmLine where
  label : Nat
  weight : Option Nat
  qid : Option Nat
  feats : List (Nat × Option Nat)
  deriving Repr, DecidableEq

def hasPrefixAt (mem : Bytes) (p : Nat) (pre : List Nat) : Bool :=
  ((mem.drop p).take pre.length).map UInt8.toNat == pre

/-- the feature loop `while (p != lend) { IgnoreCommentAndBlank; ParsePair<IndexType, real_t>; … }` -/
def svmFeats (fx : Fixes) (conv : Conv) (mem : Bytes) (lend : Nat) : Nat → Nat → List (Nat × Option Nat) →
    Res (List (Nat × Option Nat))
  | 0, _, _ => .error .oob
  | fuel + 1, p, acc =>
    if p = lend then .ok acc.reverse else do
    let p ← ignoreCommentAndBlank mem p lend
    let o ← parsePair fx conv.index conv.real mem p lend
    if Gen.Parse.svmNoFeature o.r then svmFeats fx conv mem lend fuel o.endp acc
    else
      let v := if Gen.Parse.svmHasValue o.r then some o.v2 else none
      svmFeats fx conv mem lend fuel o.endp ((o.v1, v) :: acc)

/-- one iteration of the line loop for the line `[lbegin, lend)`; `none` = "empty line" -/
def svmLine (fx : Fixes) (conv : Conv) (mem : Bytes) (lbegin lend stop : Nat) : Res (Option SvmLine) := do
  let p ← if fx.svmEolSkip then scan isEolB mem lend lbegin else pure lbegin
  let p ← ignoreCommentAndBlank mem p lend
  let o ← parsePair fx conv.real conv.real mem p lend
  if Gen.Parse.svmEmptyLine o.r then return none
  let weight := if Gen.Parse.svmHasWeight o.r then some o.v2 else none
  let p ← scan (fun b => Gen.Parse.svmQidSkips b.toNat) mem stop o.endp
  let (p, qid) ←
    if p != lend && hasPrefixAt mem p Gen.Parse.qidPrefix then do
      let p := p + Gen.Parse.qidAdvance
      let convert ← if fx.qidGuard then
          (if p = lend then pure false else do
            let b ← byteAt mem p
            pure (Gen.Parse.isdigitchars b.toNat))
        else pure true
      let q ← if convert then conv.qid mem p else pure 0
      let p ← scan (fun b => Gen.Parse.svmQidDigit b.toNat) mem lend p
      pure (p, some q)
    else pure (p, none)
  let feats ← svmFeats fx conv mem lend (lend + 1 - p) p []
  return some { label := o.v1, weight, qid, feats }

def svmPush (c : Container) (l : SvmLine) : Container :=
  { c with
    weight := match l.weight with | some w => c.weight ++ [w] | none => c.weight
    offset := if Gen.Parse.svmPushOffset c.label.length then c.offset ++ [c.index.length] else c.offset
    label := c.label ++ [l.label]
    qid := match l.qid with | some q => c.qid ++ [q] | none => c.qid
    index := c.index ++ l.feats.map (·.1)
    value := c.value ++ l.feats.filterMap (·.2) }

/-- the line loop shared by LibSVMParser and LibFMParser:
`while (lbegin != end) { lend = lbegin + 1; while (lend != end && notEol(*lend)) ++lend; <line>; lbegin = lend; }` -/
def lineLoop {α : Type} (notEol : UInt8 → Bool) (line : Nat → Nat → Res (Option α)) (push : Container → α → Container)
    (mem : Bytes) (stop : Nat) : Nat → Nat → Container → Res Container
  | 0, _, _ => .error .oob
  | fuel + 1, lbegin, c =>
    if lbegin = stop then .ok c else do
    let lend ← scan notEol mem stop (lbegin + 1)
    let l ← line lbegin lend
    lineLoop notEol line push mem stop fuel lend (match l with | some l => push c l | none => c)

def svmLoop (fx : Fixes) (conv : Conv) (mem : Bytes) (stop : Nat) (fuel lbegin : Nat) (c : Container) : Res Container :=
  lineLoop (fun b => Gen.Parse.svmNotEol b.toNat) (fun lbegin lend => svmLine fx conv mem lbegin lend stop) svmPush
    mem stop fuel lbegin c

/-- `--e` on an `IndexType` of `iw` bits -/
def decIdx (iw : Nat) (e : Nat) : Nat := (e + 2 ^ iw - 1) % 2 ^ iw

def minIdx (iw : Nat) (xs : List Nat) : Nat := xs.foldl min (2 ^ iw - 1)

/-- `LibSVMParser<IndexType>::ParseBlock(begin, end, out)`; `mode` = `param_.indexing_mode ≥ 0` -/
def svmBlock (fx : Fixes) (conv : Conv) (iw mode : Nat) (mem : Bytes) (begin stop : Nat) : Res Container := do
  let c ← svmLoop fx conv mem stop (stop + 1 - begin) begin {}
  let c := if Gen.Parse.svmPushOffset c.label.length then { c with offset := c.offset ++ [c.index.length] } else c
  if !Gen.Parse.svmEndCheck c.label.length c.offset.length then .error .check else
  if Gen.Parse.svmDecrement mode (!c.index.isEmpty) (minIdx iw c.index) then
    return { c with index := c.index.map (decIdx iw) }
  else return c

/-! ## LibFMParser::ParseBlock -/

structure FmLine where
  label : Nat
  weight : Option Nat
  feats : List (Nat × Nat × Option Nat)   -- field, index, value
  deriving Repr, DecidableEq

def fmFeats (fx : Fixes) (conv : Conv) (mem : Bytes) (lend : Nat) : Nat → Nat → List (Nat × Nat × Option Nat) →
    Res (List (Nat × Nat × Option Nat))
  | 0, _, _ => .error .oob
  | fuel + 1, p, acc =>
    if p = lend then .ok acc.reverse else do
    let o ← parseTriple fx conv.index conv.index conv.real mem p lend
    if Gen.Parse.fmNoFeature o.r then fmFeats fx conv mem lend fuel o.endp acc
    else
      let v := if Gen.Parse.fmHasValue o.r then some o.v3 else none
      fmFeats fx conv mem lend fuel o.endp ((o.v1, o.v2, v) :: acc)

def fmLine (fx : Fixes) (conv : Conv) (mem : Bytes) (lbegin lend : Nat) : Res (Option FmLine) := do
  let o ← parsePair fx conv.real conv.real mem lbegin lend
  if Gen.Parse.fmEmptyLine o.r then return none
  let weight := if Gen.Parse.fmHasWeight o.r then some o.v2 else none
  let feats ← fmFeats fx conv mem lend (lend + 1 - o.endp) o.endp []
  return some { label := o.v1, weight, feats }

def fmPush (c : Container) (l : FmLine) : Container :=
  { c with
    weight := match l.weight with | some w => c.weight ++ [w] | none => c.weight
    offset := if Gen.Parse.fmPushOffset c.label.length then c.offset ++ [c.index.length] else c.offset
    label := c.label ++ [l.label]
    field := c.field ++ l.feats.map (·.1)
    index := c.index ++ l.feats.map (·.2.1)
    value := c.value ++ l.feats.filterMap (·.2.2) }

def fmLoop (fx : Fixes) (conv : Conv) (mem : Bytes) (stop : Nat) (fuel lbegin : Nat) (c : Container) : Res Container :=
  lineLoop (fun b => Gen.Parse.fmNotEol b.toNat) (fun lbegin lend => fmLine fx conv mem lbegin lend) fmPush
    mem stop fuel lbegin c

def fmBlock (fx : Fixes) (conv : Conv) (iw mode : Nat) (mem : Bytes) (begin stop : Nat) : Res Container := do
  let c ← fmLoop fx conv mem stop (stop + 1 - begin) begin {}
  let c := if Gen.Parse.fmPushOffset c.label.length then { c with offset := c.offset ++ [c.index.length] } else c
  if !Gen.Parse.fmFieldCheck c.field.length c.index.length then .error .check else
  if !Gen.Parse.fmEndCheck c.label.length c.offset.length then .error .check else
  if Gen.Parse.fmDecrement mode (!c.index.isEmpty) (minIdx iw c.index) (!c.field.isEmpty) (minIdx iw c.field) then
    return { c with index := c.index.map (decIdx iw), field := c.field.map (decIdx iw) }
  else return c

/-! ## CSVParser::ParseBlock -/

/-- `CSVParserParam` (+ the cell type): columns as the 32-bit patterns of the `int` parameters (-1 = 2^32-1) -/
structure CsvParam where
  labelCol : Nat
  weightCol : Nat
  delim : Nat
  isReal : Bool
  deriving Repr, DecidableEq

/-- binary32 quiet NaN, `std::numeric_limits<real_t>::quiet_NaN()` on x86-64 -/
def quietNaN : Nat := 0x7fc00000
/-- `std::isnan` on a binary32 bit pattern -/
def isNaNBits (b : Nat) : Bool := b % 0x80000000 > 0x7f800000

/-- `IgnoreUTF8BOM(&begin, &end)`: the new `begin` -/
def ignoreBOM (mem : Bytes) (begin stop : Nat) : Nat :=
  let n := Gen.Parse.bomLen
  if begin + n ≤ stop && ((mem.drop begin).take n).map UInt8.toNat == Gen.Parse.bomBytes then begin + n else begin

structure CsvLine where
  label : Option Nat := none
  weight : Nat := quietNaN
  feats : List (Nat × Nat) := []       -- (index, value), in reverse order while being built
  col : Nat := 0
  idx : Nat := 0
  deriving Repr, DecidableEq

/-- the skip loop of the blank-cell guard with `csvDelimGuard` (fixes/C12-3.diff):
`*cell != param_.delimiter[0] && (isspace(*cell) || *cell == '\v')` -/
def isCellSpaceNotDelimB (delim : Nat) (b : UInt8) : Bool := Gen.Parse.csvNotDelim b.toNat delim && isCellSpaceB b

/-- the conversion of one cell (with the blank-cell guard of the repaired source): value and `endptr`.
`csvBlankGuard` alone: `while (cell != lend && cellspace(*cell)) ++cell; if (cell == lend) missing`;
with `csvDelimGuard`: `while (cell != lend && *cell != delim && cellspace(*cell)) ++cell;
if (cell == lend || *cell == delim) missing` (`delim` = `param_.delimiter[0]`) -/
def csvCellConv (fx : Fixes) (conv : Conv) (delim : Nat) (mem : Bytes) (lend p : Nat) : Res (Nat × Nat) := do
  let blank ←
    if fx.csvBlankGuard then
      (if fx.csvDelimGuard then do
        let q ← scan (isCellSpaceNotDelimB delim) mem lend p
        if q = lend then pure true else do
          let b ← byteAt mem q
          pure (!Gen.Parse.csvNotDelim b.toNat delim)
      else do let q ← scan isCellSpaceB mem lend p; pure (q == lend))
    else pure false
  if blank then pure (0, p) else conv.cell mem p

/-- routing of one cell value: label column, weight column, or entry (`present` = the conversion consumed
something); then `++column_index` -/
def csvUpdate (prm : CsvParam) (st : CsvLine) (v : Nat) (present : Bool) : CsvLine :=
  let st :=
    if Gen.Parse.csvIsLabel (u32 st.col) prm.labelCol then { st with label := some v }
    else if Gen.Parse.csvIsWeight prm.isReal (u32 st.col) prm.weightCol then { st with weight := v }
    else if present then { st with feats := (st.idx, v) :: st.feats, idx := st.idx + 1 }
    else { st with idx := st.idx + 1 }
  { st with col := st.col + 1 }

/-- the cell loop `while (p != lend) { … }` -/
def csvCells (fx : Fixes) (conv : Conv) (prm : CsvParam) (mem : Bytes) (lend : Nat) : Nat → Nat → CsvLine → Res CsvLine
  | 0, _, _ => .error .oob
  | fuel + 1, p, st =>
    if p = lend then .ok st else do
    let ve ← csvCellConv fx conv prm.delim mem lend p
    let st := csvUpdate prm st ve.1 (Gen.Parse.csvCellPresent p ve.2)
    let q ← scanRd (fun b => Gen.Parse.csvNotDelim b.toNat prm.delim) mem lend (Gen.Parse.csvClamp ve.2 lend)
    if Gen.Parse.csvNoDelimiter q lend st.idx then .error .check else
    csvCells fx conv prm mem lend fuel (if q != lend then q + 1 else q) st

/-- `out->label.push_back(v)` happens inside the cell loop; a line may push several labels only if
`label_column` repeats, which it cannot: at most one per line -/
def csvPush (c : Container) (l : CsvLine) : Container :=
  let feats := l.feats.reverse
  { c with
    label := match l.label with | some v => c.label ++ [v] | none => c.label
    value := c.value ++ feats.map (·.2)
    index := c.index ++ feats.map (·.1)
    weight := if !isNaNBits l.weight then c.weight ++ [l.weight] else c.weight
    offset := c.offset ++ [c.index.length + feats.length] }

def csvLoop (fx : Fixes) (conv : Conv) (prm : CsvParam) (mem : Bytes) (stop : Nat) : Nat → Nat → Container → Res Container
  | 0, _, _ => .error .oob
  | fuel + 1, lbegin, c =>
    if lbegin = stop then .ok c else do
    let lbegin := ignoreBOM mem lbegin stop
    -- repaired source: `if (lbegin == end || *lbegin == '\n' || *lbegin == '\r') { skip EOLs; continue; }`
    let bomOnly ← if fx.csvBomGuard then
        (if lbegin = stop then pure true else do
          let b ← byteAt mem lbegin
          pure (Gen.Parse.csvLeadIsEol b.toNat))
      else pure false
    if bomOnly then do
      let lbegin ← scan (fun b => Gen.Parse.csvLeadIsEol b.toNat) mem stop lbegin
      csvLoop fx conv prm mem stop fuel lbegin c
    else do
    let lend ← scan (fun b => Gen.Parse.csvNotEol b.toNat) mem stop (lbegin + 1)
    let l ← csvCells fx conv prm mem lend (lend + 1 - lbegin) lbegin {}
    let lend ← scanRd (fun b => Gen.Parse.csvTrailIsEol b.toNat) mem stop lend
    csvLoop fx conv prm mem stop fuel lend (csvPush c l)

def csvBlock (fx : Fixes) (conv : Conv) (prm : CsvParam) (mem : Bytes) (begin stop : Nat) : Res Container := do
  let lbegin ← scan (fun b => Gen.Parse.csvLeadIsEol b.toNat) mem stop begin
  let c ← csvLoop fx conv prm mem stop (mem.length + 2 - lbegin) lbegin {}
  if !Gen.Parse.csvLabelCheck c.label.length c.offset.length then .error .check else
  if !Gen.Parse.csvWeightCheck c.weight.length c.offset.length then .error .check else
  return c

/-! ## TextParserBase: BackFindEndLine, FillData; ParserImpl::Next -/

/-- `BackFindEndLine(head + bptr, head)` -/
def backFind (mem : Bytes) : Nat → Res Nat
  | 0 => .ok 0
  | k + 1 => do
    let b ← byteAt mem (k + 1)
    if Gen.Parse.backIsEol b.toNat then .ok (k + 1) else backFind mem k

/-- the slice `[pbegin, pend)` of thread `tid` for a chunk of `size` bytes at position 0 of `mem` -/
def threadSlice (mem : Bytes) (size nthread tid : Nat) : Res (Nat × Nat) :=
  (backFind mem (Gen.Parse.sbegin tid (Gen.Parse.nstep size nthread) size)).bind fun pbegin =>
    (if Gen.Parse.lastThread tid nthread then
        (.ok (Gen.Parse.send tid (Gen.Parse.nstep size nthread) size) : Res Nat)
      else backFind mem (Gen.Parse.send tid (Gen.Parse.nstep size nthread) size)).bind fun pend =>
    .ok (pbegin, pend)

/-- `FillData`: one container per thread, in thread order -/
def fillData (parse : Bytes → Nat → Nat → Res Container) (mem : Bytes) (size nthread : Nat) : Res (List Container) :=
  if !Gen.Parse.fillNonEmpty size then .error .check else
  (List.range nthread).mapM fun tid => do
    let (a, b) ← threadSlice mem size nthread tid
    parse mem a b

/-- `ParserImpl::Next` over the containers of one `ParseNext`: the non-empty ones, as blocks of rows -/
def blocksOf (cs : List Container) : Res (List (List Row)) :=
  (cs.filter fun c => c.size != 0).mapM rowsOf

/-- a parser configuration = the `ParseBlock` override -/
inductive Format where
  | libsvm (iw mode : Nat)
  | libfm (iw mode : Nat)
  | csv (prm : CsvParam)
  deriving Repr, DecidableEq

def Format.parseBlock (f : Format) (fx : Fixes) (conv : Conv) (mem : Bytes) (a b : Nat) : Res Container :=
  match f with
  | .libsvm iw mode => svmBlock fx conv iw mode mem a b
  | .libfm iw mode => fmBlock fx conv iw mode mem a b
  | .csv prm => csvBlock fx conv prm mem a b

/-- the whole pipeline over a list of chunks, each given as its own memory image `(mem, size)` -/
def pipeline (f : Format) (fx : Fixes) (conv : Conv) (nthread : Nat) (chunks : List (Bytes × Nat)) :
    Res (List (List Row)) := do
  let bss ← chunks.mapM fun (mem, size) => do
    let cs ← fillData (f.parseBlock fx conv) mem size nthread
    blocksOf cs
  return bss.flatten

/-! ## lines of a text -/

/-- split at every end-of-line byte (the EOL bytes are dropped; `"a\r\nb"` gives `a`, ``, `b`) -/
def eolSplitGo : Bytes → Bytes → List Bytes
  | [], cur => [cur.reverse]
  | b :: bs, cur => if isEolB b then cur.reverse :: eolSplitGo bs [] else eolSplitGo bs (b :: cur)

def eolSplit (t : Bytes) : List Bytes := eolSplitGo t []

end DmlcModel.Parse
