/-
Lexemes, the exactness contract of the conversions, and what ParsePair / the libsvm line parser do on
rendered tokens (helper lemmas of C12).
-/
import DmlcModel.Parse.Fm
import DmlcModel.Parse.Csv
import DmlcModel.Parse.ConvSimple

namespace DmlcModel.Parse
open DmlcModel

/-- a number lexeme is spelled with number characters only (digits, sign, '.', 'e', 'E') and is not empty;
which of these strings are *numbers* is C14's business: a lexeme means whatever the conversion returns for
it when it stands alone -/
def IsLexeme (lex : Bytes) : Prop := lex ≠ [] ∧ ∀ b ∈ lex, isDigitCharB b = true

/-- bytes that may follow a lexeme: anything that is not a number character of strtonum.h nor a letter -/
def isDelimB (b : UInt8) : Bool := !isDigitCharB b && !ConvSimple.isNumCh b

/-- a lexeme followed by a delimiter converts to the value of the lexeme standing alone -/
structure Exact (g : Bytes → Res Nat) : Prop where
  exact : ∀ lex tail : Bytes, IsLexeme lex → (∀ b, tail.head? = some b → isDelimB b = true) →
    g (lex ++ tail) = g lex

/-- no NUL, no end-of-line byte -/
def Clean (s : Bytes) : Prop := ∀ b ∈ s, nonStopB b = true

theorem Clean.append {a b : Bytes} (ha : Clean a) (hb : Clean b) : Clean (a ++ b) := by
  intro x hx; simp at hx; rcases hx with h | h; exact ha x h; exact hb x h
theorem Clean.cons {x : UInt8} {a : Bytes} (hx : nonStopB x = true) (ha : Clean a) : Clean (x :: a) := by
  intro y hy; simp at hy; rcases hy with rfl | h; exact hx; exact ha y h
theorem Clean.nil : Clean [] := by intro x hx; simp at hx
theorem Clean.right {a b : Bytes} (h : Clean (a ++ b)) : Clean b := fun x hx => h x (by simp [hx])
theorem Clean.left {a b : Bytes} (h : Clean (a ++ b)) : Clean a := fun x hx => h x (by simp [hx])
theorem Clean.tail {x : UInt8} {a : Bytes} (h : Clean (x :: a)) : Clean a := fun y hy => h y (by simp [hy])
theorem Clean.takeWhile {s : Bytes} (h : Clean s) : s.takeWhile nonStopB = s := takeWhile_all _ _ h

theorem lexeme_clean {lex : Bytes} (h : IsLexeme lex) : Clean lex := fun b hb => digitChar_nonStop b (h.2 b hb)

def blanksOnly (s : Bytes) : Prop := ∀ b ∈ s, isBlankB b = true

theorem blank_nonStop (b : UInt8) (h : isBlankB b = true) : nonStopB b = true := by
  simp [isBlankB, Gen.Parse.isblank, nonStopB, isStopB, isEolB, Gen.Parse.backIsEol, ← UInt8.toNat_inj] at *; omega
theorem blanks_clean {s : Bytes} (h : blanksOnly s) : Clean s := fun b hb => blank_nonStop b (h b hb)

theorem blank_notDigit (b : UInt8) (h : isBlankB b = true) : notDigitCharB b = true := by
  simp [isBlankB, Gen.Parse.isblank, notDigitCharB, Gen.Parse.isdigitchars] at *; omega
theorem blank_isDelim (b : UInt8) (h : isBlankB b = true) : isDelimB b = true := by
  have h1 := blank_notDigit b h
  simp only [isBlankB, Gen.Parse.isblank, Bool.or_eq_true, beq_iff_eq] at h
  simp only [notDigitCharB, Bool.not_eq_true'] at h1
  have h1' : isDigitCharB b = false := h1
  have h2 : ConvSimple.isNumCh b = false := by
    simp [ConvSimple.isNumCh, ConvSimple.isDigitB, ConvSimple.isAlphaB, Gen.Parse.isdigit, ← UInt8.toNat_inj]; omega
  simp [isDelimB, h1', h2]
theorem delim_notDigit (b : UInt8) (h : isDelimB b = true) : isDigitCharB b = false := by
  simp [isDelimB] at h; exact h.1
theorem notDigit_of_digit (b : UInt8) (h : isDigitCharB b = true) : notDigitCharB b = false := by
  simp only [notDigitCharB, isDigitCharB] at *; simp [h]
theorem digit_notBlank (b : UInt8) (h : isDigitCharB b = true) : isBlankB b = false := by
  simp [isBlankB, Gen.Parse.isblank, isDigitCharB, Gen.Parse.isdigitchars] at *; omega

theorem dropWhile_lex (lex tail : Bytes) (hl : ∀ b ∈ lex, isDigitCharB b = true)
    (ht : ∀ b, tail.head? = some b → isDigitCharB b = false) :
    (lex ++ tail).dropWhile isDigitCharB = tail :=
  dropWhile_append_all isDigitCharB lex tail hl ht

theorem dropWhile_blanks (bl rest : Bytes) (hb : blanksOnly bl) (hr : ∀ b, rest.head? = some b → isBlankB b = false) :
    (bl ++ rest).dropWhile isBlankB = rest := dropWhile_append_all isBlankB bl rest hb hr

/-- head of a lexeme-led string -/
theorem lex_head {lex : Bytes} (h : IsLexeme lex) : ∃ d r, lex = d :: r ∧ isDigitCharB d = true := by
  cases lex with
  | nil => exact absurd rfl h.1
  | cons d r => exact ⟨d, r, rfl, h.2 d (by simp)⟩

/-- `ParsePair` on `lexeme tail` where the next non-blank byte is not ':': one value, blanks consumed -/
theorem pairS_one (g1 g2 : Bytes → Res Nat) (h1 : Exact g1) (lex tail : Bytes) (v1 : Nat)
    (hl : IsLexeme lex) (hc : Clean tail) (ht : ∀ b, tail.head? = some b → isDelimB b = true)
    (hnc : ∀ b, (tail.dropWhile isBlankB).head? = some b → b ≠ 58) (hv1 : g1 lex = .ok v1) :
    pairS g1 g2 (lex ++ tail) = .ok { r := 1, rest := tail.dropWhile isBlankB, v1 := v1 } := by
  obtain ⟨d, r, rfl, hd⟩ := lex_head hl
  have e1 : ((d :: r) ++ tail).dropWhile notDigitCharB = (d :: r) ++ tail := by
    simp [List.dropWhile, notDigit_of_digit d hd]
  have run1 : ((d :: r) ++ tail).takeWhile nonStopB = (d :: r) ++ tail := ((lexeme_clean hl).append hc).takeWhile
  have e2 : ((d :: r) ++ tail).dropWhile isDigitCharB = tail :=
    dropWhile_lex _ _ hl.2 (fun b hb => delim_notDigit b (ht b hb))
  unfold pairS
  rw [e1]
  simp only [List.cons_append] at run1 e2 ⊢
  simp only [run1, e2]
  have g1e := h1.exact (d :: r) tail hl ht
  simp only [List.cons_append] at g1e
  rw [g1e, hv1]
  simp only [bind, Except.bind]
  cases hd3 : tail.dropWhile isBlankB with
  | nil => rfl
  | cons b s4 =>
    have := hnc b (by rw [hd3]; rfl)
    simp [this]

/-- `ParsePair` on `lexeme₁ : lexeme₂ tail`: both values, stops exactly at `tail` -/
theorem pairS_two (g1 g2 : Bytes → Res Nat) (h1 : Exact g1) (h2 : Exact g2) (lex1 lex2 tail : Bytes) (v1 v2 : Nat)
    (hl1 : IsLexeme lex1) (hl2 : IsLexeme lex2) (hc : Clean tail)
    (ht : ∀ b, tail.head? = some b → isDelimB b = true) (hv1 : g1 lex1 = .ok v1) (hv2 : g2 lex2 = .ok v2) :
    pairS g1 g2 (lex1 ++ 58 :: (lex2 ++ tail)) = .ok { r := 2, rest := tail, v1 := v1, v2 := v2 } := by
  obtain ⟨d1, r1, rfl, hd1⟩ := lex_head hl1
  obtain ⟨d2, r2, rfl, hd2⟩ := lex_head hl2
  have hcolon_nd : isDigitCharB 58 = false := by decide
  have hcolon_delim : isDelimB 58 = true := by decide
  have hcolon_ns : nonStopB 58 = true := by decide
  have e1 : ((d1 :: r1) ++ 58 :: ((d2 :: r2) ++ tail)).dropWhile notDigitCharB
      = (d1 :: r1) ++ 58 :: ((d2 :: r2) ++ tail) := by simp [List.dropWhile, notDigit_of_digit d1 hd1]
  have c2 : Clean ((d2 :: r2) ++ tail) := (lexeme_clean hl2).append hc
  have run1 := ((lexeme_clean hl1).append (Clean.cons hcolon_ns c2)).takeWhile
  have run2 := c2.takeWhile
  have e2 : ((d1 :: r1) ++ 58 :: ((d2 :: r2) ++ tail)).dropWhile isDigitCharB = 58 :: ((d2 :: r2) ++ tail) :=
    dropWhile_lex _ _ hl1.2 (fun b hb => by simp at hb; subst hb; exact hcolon_nd)
  have e3 : ((d2 :: r2) ++ tail).dropWhile isDigitCharB = tail :=
    dropWhile_lex _ _ hl2.2 (fun b hb => delim_notDigit b (ht b hb))
  unfold pairS
  rw [e1]
  simp only [List.cons_append] at run1 run2 e2 e3 ⊢
  simp only [run1, e2]
  have g1e := h1.exact (d1 :: r1) (58 :: ((d2 :: r2) ++ tail)) hl1 (fun b hb => by simp at hb; subst hb; exact hcolon_delim)
  simp only [List.cons_append] at g1e
  rw [g1e, hv1]
  have g2e := h2.exact (d2 :: r2) tail hl2 ht
  simp only [List.cons_append] at g2e
  have e4 : (58 :: d2 :: (r2 ++ tail)).dropWhile isBlankB = 58 :: d2 :: (r2 ++ tail) := by
    simp [List.dropWhile, isBlankB, Gen.Parse.isblank]
  have e5 : (d2 :: (r2 ++ tail)).dropWhile notDigitCharB = d2 :: (r2 ++ tail) := by
    simp [List.dropWhile, notDigit_of_digit d2 hd2]
  simp only [bind, Except.bind, e4, e5, run2, g2e, hv2, e3]
  simp

/-! ## libsvm: the feature loop on rendered entries -/

structure Entry where
  field : Bytes := []       -- libfm: digits
  index : Bytes             -- digits
  value : Option Bytes      -- number lexeme

def valPart : Option Bytes → Bytes
  | some v => 58 :: v
  | none => []

/-- the end of a line: blanks, then nothing or a `#` comment -/
structure EndPart (fin : Bytes) : Prop where
  clean : Clean fin
  shape : ∃ tr c, fin = tr ++ c ∧ blanksOnly tr ∧ (c = [] ∨ ∃ c', c = 35 :: c')

theorem icbS_blanks (bl : Bytes) (hb : blanksOnly bl) : icbS bl = [] ∧ ∀ rest, icbS (bl ++ 35 :: rest) = [] := by
  induction bl with
  | nil => simp [icbS, isCommentB, Gen.Parse.icbIsComment, Gen.Parse.commentSymbol]
  | cons b bl ih =>
    have hb1 : isBlankB b = true := hb b (by simp)
    have hnc : isCommentB b = false := by
      simp [isCommentB, Gen.Parse.icbIsComment, Gen.Parse.commentSymbol, isBlankB, Gen.Parse.isblank] at hb1 ⊢
      omega
    have hns : Gen.Parse.icbStops b.toNat = false := by
      simp [Gen.Parse.icbStops]; exact hb1
    have := ih (fun x hx => hb x (by simp [hx]))
    simp [icbS, hnc, hns, this]

theorem EndPart.icbS_nil {fin : Bytes} (h : EndPart fin) (bl : Bytes) (hb : blanksOnly bl) : icbS (bl ++ fin) = [] := by
  obtain ⟨tr, c, rfl, htr, hc⟩ := h.shape
  have hbt : blanksOnly (bl ++ tr) := by intro x hx; simp at hx; rcases hx with h | h; exact hb x h; exact htr x h
  rcases hc with rfl | ⟨c', rfl⟩
  · simpa using (icbS_blanks _ hbt).1
  · simpa [List.append_assoc] using (icbS_blanks _ hbt).2 c'

theorem EndPart.head_delim {fin : Bytes} (h : EndPart fin) : ∀ b, fin.head? = some b → isDelimB b = true := by
  obtain ⟨tr, c, rfl, htr, hc⟩ := h.shape
  intro b hb
  cases tr with
  | nil =>
    rcases hc with rfl | ⟨c', rfl⟩
    · simp at hb
    · simp at hb; subst hb; decide
  | cons t tr => simp at hb; subst hb; exact blank_isDelim _ (htr _ (by simp))

theorem EndPart.drop_blank_head {fin : Bytes} (h : EndPart fin) :
    ∀ b, (fin.dropWhile isBlankB).head? = some b → b ≠ 58 := by
  obtain ⟨tr, c, rfl, htr, hc⟩ := h.shape
  rcases hc with rfl | ⟨c', rfl⟩
  · intro b hb; rw [List.append_nil, dropWhile_all isBlankB tr htr] at hb; simp at hb
  · intro b hb
    rw [dropWhile_blanks tr _ htr (by intro x hx; simp at hx; subst hx; decide)] at hb
    simp at hb; subst hb; decide

theorem EndPart.dropBlank {fin : Bytes} (h : EndPart fin) : EndPart (fin.dropWhile isBlankB) :=
  ⟨fun x hx => h.clean x ((List.dropWhile_suffix _).subset hx), by
    obtain ⟨tr, c, rfl, htr, hc⟩ := h.shape
    refine ⟨[], c, ?_, by intro x hx; simp at hx, hc⟩
    rcases hc with rfl | ⟨c', rfl⟩
    · rw [List.append_nil, dropWhile_all isBlankB tr htr]; rfl
    · rw [dropWhile_blanks tr _ htr (by intro x hx; simp at hx; subst hx; decide)]; rfl⟩

/-- the feature loop at the end of the line -/
theorem svmFeats_end (gI gR : Bytes → Res Nat) (fin bl : Bytes) (h : EndPart fin) (hb : blanksOnly bl)
    (acc : List (Nat × Option Nat)) (fuel : Nat) (hf : (bl ++ fin).length + 1 ≤ fuel) :
    svmFeatsS gI gR fuel (bl ++ fin) acc = .ok acc.reverse := by
  obtain ⟨f, rfl⟩ : ∃ f, fuel = f + 1 := ⟨fuel - 1, by omega⟩
  cases hs : bl ++ fin with
  | nil => simp [svmFeatsS]
  | cons x xs =>
    have hi := h.icbS_nil bl hb
    rw [hs] at hi
    obtain ⟨f', rfl⟩ : ∃ f', f = f' + 1 := ⟨f - 1, by rw [hs] at hf; simp at hf; omega⟩
    simp [svmFeatsS, hi, pairS, bind, Except.bind, Gen.Parse.svmNoFeature]

def entryBytes (e : Entry) : Bytes := e.index ++ valPart e.value

/-- the entries with the separator in front of each -/
def entsBytes : List (Bytes × Entry) → Bytes → Bytes
  | [], fin => fin
  | se :: rest, fin => se.1 ++ entryBytes se.2 ++ entsBytes rest fin

/-- … without the separator of the first entry -/
def entsCore : List (Bytes × Entry) → Bytes → Bytes
  | [], fin => fin
  | se :: rest, fin => entryBytes se.2 ++ entsBytes rest fin

def isSep (s : Bytes) : Prop := s ≠ [] ∧ blanksOnly s

def IsDigits (s : Bytes) : Prop := s ≠ [] ∧ ∀ b ∈ s, Gen.Parse.isdigit b.toNat = true

theorem digits_lexeme {s : Bytes} (h : IsDigits s) : IsLexeme s :=
  ⟨h.1, fun b hb => by
    have := h.2 b hb
    simp [isDigitCharB, Gen.Parse.isdigitchars, Gen.Parse.isdigit] at this ⊢; omega⟩

structure WfEntry (e : Entry) : Prop where
  index : IsDigits e.index
  value : ∀ v, e.value = some v → IsLexeme v

/-- what the entries mean -/
def expEntry (gI gR : Bytes → Res Nat) (e : Entry) : Res (Nat × Option Nat) := do
  let i ← gI e.index
  let v ← (match e.value with | some v => (gR v).map some | none => pure none : Res (Option Nat))
  pure (i, v)

def expFeats (gI gR : Bytes → Res Nat) (es : List Entry) : Res (List (Nat × Option Nat)) :=
  es.mapM (expEntry gI gR)

theorem mapM_cons_ok {α β : Type} (f : α → Res β) (x : α) (xs : List α) (ys : List β)
    (h : (x :: xs).mapM f = .ok ys) : ∃ y ys', f x = .ok y ∧ xs.mapM f = .ok ys' ∧ ys = y :: ys' := by
  rw [List.mapM_cons] at h
  cases hf : f x with
  | error e => simp [hf, bind, Except.bind] at h
  | ok y =>
    cases hr : xs.mapM f with
    | error e => simp [hf, hr, bind, Except.bind] at h
    | ok ys' =>
      simp [hf, hr, bind, Except.bind, pure, Except.pure] at h
      exact ⟨y, ys', rfl, rfl, h.symm⟩

theorem entsBytes_clean (ses : List (Bytes × Entry)) (fin : Bytes) (hfin : Clean fin)
    (hs : ∀ se ∈ ses, blanksOnly se.1 ∧ WfEntry se.2) : Clean (entsBytes ses fin) := by
  induction ses with
  | nil => exact hfin
  | cons se rest ih =>
    obtain ⟨h1, h2⟩ := hs se (by simp)
    have hv : Clean (valPart se.2.value) := by
      cases hval : se.2.value with
      | none => exact Clean.nil
      | some v => exact Clean.cons (by decide) (lexeme_clean (h2.value v hval))
    exact ((blanks_clean h1).append ((lexeme_clean (digits_lexeme h2.index)).append hv)).append
      (ih (fun x hx => hs x (by simp [hx])))

theorem entsBytes_head (ses : List (Bytes × Entry)) (fin : Bytes) (hfin : EndPart fin)
    (hs : ∀ se ∈ ses, isSep se.1) : ∀ b, (entsBytes ses fin).head? = some b → isDelimB b = true := by
  cases ses with
  | nil => exact hfin.head_delim
  | cons se rest =>
    intro b hb
    obtain ⟨hne, hbl⟩ := hs se (by simp)
    cases hsep : se.1 with
    | nil => exact absurd hsep hne
    | cons x xs =>
      simp [entsBytes, hsep] at hb; subst hb
      exact blank_isDelim _ (hbl _ (by simp [hsep]))

theorem icbS_skip (bl X : Bytes) (hb : blanksOnly bl) (hX : ∃ d r, X = d :: r ∧ isDigitCharB d = true) :
    icbS (bl ++ X) = X := by
  obtain ⟨d, r, rfl, hd⟩ := hX
  induction bl with
  | nil =>
    have hnc : isCommentB d = false := by
      simp [isCommentB, Gen.Parse.icbIsComment, Gen.Parse.commentSymbol, isDigitCharB, Gen.Parse.isdigitchars] at hd ⊢
      omega
    have hst : Gen.Parse.icbStops d.toNat = true := by
      have := digit_notBlank d hd
      simp [Gen.Parse.icbStops]; exact this
    simp [icbS, hnc, hst]
  | cons b bl ih =>
    have hb1 : isBlankB b = true := hb b (by simp)
    have hnc : isCommentB b = false := by
      simp [isCommentB, Gen.Parse.icbIsComment, Gen.Parse.commentSymbol, isBlankB, Gen.Parse.isblank] at hb1 ⊢
      omega
    have hns : Gen.Parse.icbStops b.toNat = false := by
      simp [Gen.Parse.icbStops]; exact hb1
    simp only [List.cons_append, icbS, hnc, hns, Bool.false_eq_true, if_false]
    exact ih (fun x hx => hb x (by simp [hx]))

def sepHead : List (Bytes × Entry) → Bytes
  | [] => []
  | se :: _ => se.1

theorem entsBytes_split (ses : List (Bytes × Entry)) (fin : Bytes) :
    entsBytes ses fin = sepHead ses ++ entsCore ses fin := by
  cases ses <;> simp [entsBytes, entsCore, sepHead]

theorem entsCore_head (ses : List (Bytes × Entry)) (fin : Bytes) (hne : ses ≠ []) (hw : ∀ se ∈ ses, WfEntry se.2) :
    ∃ d r, entsCore ses fin = d :: r ∧ isDigitCharB d = true := by
  cases ses with
  | nil => exact absurd rfl hne
  | cons se rest =>
    obtain ⟨d, r, hd, hdc⟩ := lex_head (digits_lexeme (hw se (by simp)).index)
    exact ⟨d, r ++ valPart se.2.value ++ entsBytes rest fin, by simp [entsCore, entryBytes, hd], hdc⟩

theorem svmFeats_render (gI gR : Bytes → Res Nat) (hI : Exact gI) (hR : Exact gR) (fin : Bytes) (hfin : EndPart fin) :
    ∀ (ses : List (Bytes × Entry)) (bl : Bytes) (acc fs : List (Nat × Option Nat)) (fuel : Nat),
      blanksOnly bl → (∀ se ∈ ses, WfEntry se.2) → (∀ se ∈ ses.tail, isSep se.1) →
      expFeats gI gR (ses.map (·.2)) = .ok fs → (bl ++ entsCore ses fin).length + 1 ≤ fuel →
      svmFeatsS gI gR fuel (bl ++ entsCore ses fin) acc = .ok (acc.reverse ++ fs) := by
  intro ses
  induction ses with
  | nil =>
    intro bl acc fs fuel hb _ _ hexp hf
    simp [expFeats, pure, Except.pure] at hexp
    subst hexp
    simpa [entsCore] using svmFeats_end gI gR fin bl hfin hb acc fuel hf
  | cons se rest ih =>
    intro bl acc fs fuel hb hw hsep hexp hf
    have hwe := hw se (by simp)
    have hidx := digits_lexeme hwe.index
    have hrestw : ∀ x ∈ rest, WfEntry x.2 := fun x hx => hw x (by simp [hx])
    have hrests : ∀ x ∈ rest, isSep x.1 := fun x hx => hsep x (by simpa using hx)
    have htailc : Clean (entsBytes rest fin) :=
      entsBytes_clean rest fin hfin.clean (fun x hx => ⟨(hrests x hx).2, hrestw x hx⟩)
    have htailh := entsBytes_head rest fin hfin hrests
    -- the expected values
    have hexp0 : (se.2 :: rest.map (·.2)).mapM (expEntry gI gR) = .ok fs := hexp
    obtain ⟨iv, fs', hiv, hre, rfl⟩ := mapM_cons_ok _ _ _ _ hexp0
    have hre' : expFeats gI gR (rest.map (·.2)) = .ok fs' := hre
    simp only [expEntry, bind, Except.bind] at hiv
    cases hgi : gI se.2.index with
    | error e => simp [hgi] at hiv
    | ok i =>
      simp only [hgi] at hiv
      obtain ⟨f, rfl⟩ : ∃ f, fuel = f + 1 := ⟨fuel - 1, by omega⟩
      obtain ⟨d, r, hd, hdc⟩ := lex_head hidx
      have hs : bl ++ entsCore (se :: rest) fin = bl ++ (se.2.index ++ valPart se.2.value ++ entsBytes rest fin) := by
        simp [entsCore, entryBytes]
      have hicb : icbS (bl ++ (se.2.index ++ valPart se.2.value ++ entsBytes rest fin))
          = se.2.index ++ valPart se.2.value ++ entsBytes rest fin :=
        icbS_skip bl _ hb ⟨d, r ++ valPart se.2.value ++ entsBytes rest fin, by simp [hd], hdc⟩
      have hne : ∃ x xs, bl ++ (se.2.index ++ valPart se.2.value ++ entsBytes rest fin) = x :: xs := by
        cases hbl : bl with
        | nil => exact ⟨d, r ++ valPart se.2.value ++ entsBytes rest fin, by simp [hd]⟩
        | cons x xs => exact ⟨x, xs ++ (se.2.index ++ valPart se.2.value ++ entsBytes rest fin), by simp⟩
      obtain ⟨x0, xs0, hx0⟩ := hne
      have hlen : (bl ++ (se.2.index ++ valPart se.2.value ++ entsBytes rest fin)).length + 1 ≤ f + 1 := by
        rw [← hs]; exact hf
      have hidxlen : 1 ≤ se.2.index.length := by rw [hd]; simp
      rw [hs]
      have hunf : svmFeatsS gI gR (f + 1) (bl ++ (se.2.index ++ valPart se.2.value ++ entsBytes rest fin)) acc
          = (pairS gI gR (icbS (bl ++ (se.2.index ++ valPart se.2.value ++ entsBytes rest fin)))).bind (fun o =>
              if Gen.Parse.svmNoFeature o.r then svmFeatsS gI gR f o.rest acc
              else svmFeatsS gI gR f o.rest ((o.v1, if Gen.Parse.svmHasValue o.r then some o.v2 else none) :: acc)) := by
        rw [hx0]; rfl
      rw [hunf, hicb]
      -- the rest of the table
      have hrest_ih : ∀ (blr : Bytes) (accr fsr : List (Nat × Option Nat)), blanksOnly blr →
          expFeats gI gR (rest.map (·.2)) = .ok fsr → (blr ++ entsCore rest fin).length + 1 ≤ f →
          svmFeatsS gI gR f (blr ++ entsCore rest fin) accr = .ok (accr.reverse ++ fsr) :=
        fun blr accr fsr hbr he hl => ih blr accr fsr f hbr hrestw
          (fun x hx => hrests x (List.mem_of_mem_tail hx)) he hl
      have hsh : blanksOnly (sepHead rest) := by
        cases rest with
        | nil => intro x hx; simp [sepHead] at hx
        | cons se' rest' => exact (hrests se' (by simp)).2
      cases hval : se.2.value with
      | some v =>
        have hv := hwe.value v hval
        simp only [hval] at hiv
        cases hgv : gR v with
        | error e => simp [hgv, Except.map] at hiv
        | ok vv =>
          simp only [hgv, Except.map, pure, Except.pure] at hiv
          cases hiv
          · skip
            have hp := pairS_two gI gR hI hR se.2.index v (entsBytes rest fin) i vv hidx hv htailc htailh hgi hgv
            simp only [valPart, List.append_assoc, List.cons_append] at hp ⊢
            rw [hp]
            simp only [Except.bind, Gen.Parse.svmNoFeature, Gen.Parse.svmHasValue]
            rw [entsBytes_split]
            have := hrest_ih (sepHead rest) ((i, some vv) :: acc) fs' hsh hre' (by
              rw [hval, entsBytes_split] at hlen; simp [valPart] at hlen ⊢; omega)
            simpa using this
      | none =>
        simp only [hval, pure, Except.pure] at hiv
        cases hiv
        · skip
          have hnc : ∀ b, ((entsBytes rest fin).dropWhile isBlankB).head? = some b → b ≠ 58 := by
            cases hrest : rest with
            | nil => simpa [entsBytes] using hfin.drop_blank_head
            | cons se' rest' =>
              intro b hbh
              obtain ⟨d', r', hd', hdc'⟩ := entsCore_head (se' :: rest') fin (by simp) (by rw [← hrest]; exact hrestw)
              rw [← hrest, entsBytes_split, dropWhile_blanks _ _ hsh (by
                intro x hx; rw [hrest, hd'] at hx; simp at hx; subst hx; exact digit_notBlank _ hdc'), hrest, hd'] at hbh
              simp at hbh; subst hbh
              intro h58; rw [h58] at hdc'; exact absurd hdc' (by decide)
          have hp := pairS_one gI gR hI se.2.index (entsBytes rest fin) i hidx htailc htailh hnc hgi
          simp only [valPart, List.append_nil] at hp ⊢
          rw [hp]
          simp only [Except.bind, Gen.Parse.svmNoFeature, Gen.Parse.svmHasValue]
          have hlen' : ((entsBytes rest fin).dropWhile isBlankB).length ≤ (entsBytes rest fin).length :=
            (List.dropWhile_suffix _).length_le
          cases hrest : rest with
          | nil =>
            subst hrest
            simp [expFeats, pure, Except.pure] at hre'
            subst hre'
            have := svmFeats_end gI gR (fin.dropWhile isBlankB) [] hfin.dropBlank (by intro x hx; simp at hx)
              ((i, none) :: acc) f (by
                rw [hval] at hlen; simp [valPart, entsBytes] at hlen hlen' ⊢; omega)
            simpa [entsBytes] using this
          | cons se' rest' =>
            obtain ⟨d', r', hd', hdc'⟩ := entsCore_head (se' :: rest') fin (by simp) (by rw [← hrest]; exact hrestw)
            have hdw : (entsBytes rest fin).dropWhile isBlankB = entsCore rest fin := by
              rw [entsBytes_split, dropWhile_blanks _ _ hsh (by
                intro x hx; rw [hrest, hd'] at hx; simp at hx; subst hx; exact digit_notBlank _ hdc')]
            rw [← hrest, hdw]
            have := hrest_ih [] ((i, none) :: acc) fs' (by intro x hx; simp at hx) hre' (by
              rw [hval] at hlen; rw [hdw] at hlen'; simp [valPart] at hlen hlen' ⊢; omega)
            simpa using this

/-! ## libsvm: a rendered line -/

theorem ents_dropBlank (ses : List (Bytes × Entry)) (fin : Bytes) (hs : ∀ se ∈ ses, isSep se.1 ∧ WfEntry se.2) :
    (entsBytes ses fin).dropWhile isBlankB = match ses with | [] => fin.dropWhile isBlankB | _ :: _ => entsCore ses fin := by
  cases ses with
  | nil => rfl
  | cons se rest =>
    obtain ⟨d, r, hd, hdc⟩ := entsCore_head (se :: rest) fin (by simp) (fun x hx => (hs x hx).2)
    rw [entsBytes_split]
    exact dropWhile_blanks _ _ (hs se (by simp)).1.2 (by
      intro x hx; rw [hd] at hx; simp at hx; subst hx; exact digit_notBlank _ hdc)

/-- the first byte behind the blanks in front of the entries is a digit or `#` (or nothing) -/
theorem ents_dropBlank_head (ses : List (Bytes × Entry)) (fin : Bytes) (hfin : EndPart fin)
    (hs : ∀ se ∈ ses, isSep se.1 ∧ WfEntry se.2) :
    ∀ b, ((entsBytes ses fin).dropWhile isBlankB).head? = some b → b ≠ 58 ∧ b ≠ 113 := by
  intro b hb
  rw [ents_dropBlank ses fin hs] at hb
  cases ses with
  | nil =>
    simp only at hb
    obtain ⟨tr, c, rfl, htr, hc⟩ := hfin.shape
    rcases hc with rfl | ⟨c', rfl⟩
    · rw [List.append_nil, dropWhile_all isBlankB tr htr] at hb; simp at hb
    · rw [dropWhile_blanks tr _ htr (by intro x hx; simp at hx; subst hx; decide)] at hb
      simp at hb; subst hb; decide
  | cons se rest =>
    obtain ⟨d, r, hd, hdc⟩ := entsCore_head (se :: rest) fin (by simp) (fun x hx => (hs x hx).2)
    simp only [hd] at hb; simp at hb; subst hb
    constructor <;> (intro h; rw [h] at hdc; exact absurd hdc (by decide))

theorem svmFeats_ents (gI gR : Bytes → Res Nat) (hI : Exact gI) (hR : Exact gR) (fin : Bytes) (hfin : EndPart fin)
    (ses : List (Bytes × Entry)) (hs : ∀ se ∈ ses, isSep se.1 ∧ WfEntry se.2) (fs : List (Nat × Option Nat))
    (hexp : expFeats gI gR (ses.map (·.2)) = .ok fs) :
    svmFeatsS gI gR ((entsBytes ses fin).length + 1) (entsBytes ses fin) [] = .ok fs ∧
    svmFeatsS gI gR (((entsBytes ses fin).dropWhile isBlankB).length + 1) ((entsBytes ses fin).dropWhile isBlankB) [] = .ok fs := by
  have hsh : blanksOnly (sepHead ses) := by
    cases ses with
    | nil => intro x hx; simp [sepHead] at hx
    | cons se rest => exact (hs se (by simp)).1.2
  have hw : ∀ se ∈ ses, WfEntry se.2 := fun x hx => (hs x hx).2
  have hsp : ∀ se ∈ ses.tail, isSep se.1 := fun x hx => (hs x (List.mem_of_mem_tail hx)).1
  constructor
  · rw [entsBytes_split]
    simpa using svmFeats_render gI gR hI hR fin hfin ses (sepHead ses) [] fs _ hsh hw hsp hexp (Nat.le_refl _)
  · rw [ents_dropBlank ses fin hs]
    cases ses with
    | nil =>
      simp [expFeats, pure, Except.pure] at hexp
      subst hexp
      simpa using svmFeats_end gI gR (fin.dropWhile isBlankB) [] hfin.dropBlank (by intro x hx; simp at hx) [] _ (Nat.le_refl _)
    | cons se rest =>
      simpa using svmFeats_render gI gR hI hR fin hfin (se :: rest) [] [] fs _ (by intro x hx; simp at hx) hw hsp hexp
        (Nat.le_refl _)

structure TRow where
  label : Bytes
  weight : Option Bytes
  qid : Option Bytes := none
  entries : List Entry

/-- the free choices inside one libsvm / libfm line -/
structure LineStyle where
  lead : Bytes              -- blanks in front of the label
  qidSep : Bytes            -- separator in front of `qid:`
  seps : List Bytes         -- separator in front of each entry
  trail : Bytes             -- blanks behind the last token
  comment : Option Bytes    -- libsvm: the text of a `#` comment

def cPart : Option Bytes → Bytes
  | some c => 35 :: c
  | none => []

def finPart (σ : LineStyle) : Bytes := σ.trail ++ cPart σ.comment

def qidPart (σ : LineStyle) : Option Bytes → Bytes
  | some q => σ.qidSep ++ ([113, 105, 100, 58] ++ q)
  | none => []

def svmContent (σ : LineStyle) (r : TRow) : Bytes :=
  σ.lead ++ (r.label ++ (valPart r.weight ++ (qidPart σ r.qid ++ entsBytes (σ.seps.zip r.entries) (finPart σ))))

structure WfLine (σ : LineStyle) (r : TRow) : Prop where
  lead : blanksOnly σ.lead
  qidSep : isSep σ.qidSep
  nseps : σ.seps.length = r.entries.length
  seps : ∀ s ∈ σ.seps, isSep s
  trail : blanksOnly σ.trail
  comment : ∀ c, σ.comment = some c → Clean c
  label : IsLexeme r.label
  weight : ∀ w, r.weight = some w → IsLexeme w
  qid : ∀ q, r.qid = some q → IsDigits q
  entries : ∀ e ∈ r.entries, WfEntry e

theorem WfLine.fin {σ : LineStyle} {r : TRow} (h : WfLine σ r) : EndPart (finPart σ) := by
  refine ⟨?_, σ.trail, cPart σ.comment, rfl, h.trail, ?_⟩
  · refine (blanks_clean h.trail).append ?_
    cases hc : σ.comment with
    | none => exact Clean.nil
    | some c => exact Clean.cons (by decide) (h.comment c hc)
  · cases σ.comment with
    | none => exact Or.inl rfl
    | some c => exact Or.inr ⟨c, rfl⟩

theorem WfLine.ses {σ : LineStyle} {r : TRow} (h : WfLine σ r) :
    (∀ se ∈ σ.seps.zip r.entries, isSep se.1 ∧ WfEntry se.2) ∧ (σ.seps.zip r.entries).map (·.2) = r.entries := by
  constructor
  · intro se hse
    exact ⟨h.seps _ (List.of_mem_zip hse).1, h.entries _ (List.of_mem_zip hse).2⟩
  · rw [List.map_snd_zip]; rw [h.nseps]; exact Nat.le_refl _

/-- what a table row means as a libsvm line -/
def expLine (gR gI gQ : Bytes → Res Nat) (r : TRow) : Res SvmLine := do
  let label ← gR r.label
  let weight ← (match r.weight with | some w => (gR w).map some | none => pure none : Res (Option Nat))
  let qid ← (match r.qid with | some q => (gQ q).map some | none => pure none : Res (Option Nat))
  let feats ← expFeats gI gR r.entries
  pure { label, weight, qid, feats }

theorem clean_dropEol (s : Bytes) (h : Clean s) : s.dropWhile isEolB = s := by
  cases s with
  | nil => rfl
  | cons b s =>
    have := h b (by simp)
    simp [nonStopB, isStopB] at this
    simp [List.dropWhile, this.2]

theorem dropWhile_idem (p : UInt8 → Bool) (s : Bytes) : (s.dropWhile p).dropWhile p = s.dropWhile p := by
  cases h : s.dropWhile p with
  | nil => rfl
  | cons b r => simp [List.dropWhile, dropWhile_head_false p s b r h]

/-- the qid stage of `svmLineS`: what is left (`s3`) and the qid -/
def svmQidStage (gQ : Bytes → Res Nat) (s2 : Bytes) : Res (Bytes × Option Nat) :=
  if !s2.isEmpty && (s2.take Gen.Parse.qidPrefix.length).map UInt8.toNat == Gen.Parse.qidPrefix then do
    let s3 := s2.drop Gen.Parse.qidAdvance
    let q ← (match s3 with
      | [] => pure 0
      | b :: _ => if Gen.Parse.isdigitchars b.toNat then gQ (s3.takeWhile nonStopB) else pure 0)
    pure (s3.dropWhile qidDigitB, some q)
  else pure (s2, none)

/-- everything `svmLineS` does behind the label pair -/
def svmAfterPair (gR gI gQ : Bytes → Res Nat) (o : PairS) : Res (Option SvmLine) := do
  if Gen.Parse.svmEmptyLine o.r then return none
  let weight := if Gen.Parse.svmHasWeight o.r then some o.v2 else none
  let sq ← svmQidStage gQ (o.rest.dropWhile qidSkipB)
  let feats ← svmFeatsS gI gR (sq.1.length + 1) sq.1 []
  return some { label := o.v1, weight, qid := sq.2, feats }

theorem svmLineS_eq (gR gI gQ : Bytes → Res Nat) (l : Bytes) :
    svmLineS gR gI gQ l = (pairS gR gR (icbS (l.dropWhile isEolB))).bind (svmAfterPair gR gI gQ) := by
  unfold svmLineS svmAfterPair svmQidStage
  simp only [bind, Except.bind, pure, Except.pure]
  cases pairS gR gR (icbS (l.dropWhile isEolB)) with
  | error e => rfl
  | ok o =>
    simp only
    by_cases hem : Gen.Parse.svmEmptyLine o.r = true
    · simp only [hem, if_true]
    · simp only [hem, Bool.false_eq_true, if_false]
      by_cases hq : (!(o.rest.dropWhile qidSkipB).isEmpty &&
          ((o.rest.dropWhile qidSkipB).take Gen.Parse.qidPrefix.length).map UInt8.toNat == Gen.Parse.qidPrefix) = true
      · simp only [hq, if_true]
        cases hs3 : (o.rest.dropWhile qidSkipB).drop Gen.Parse.qidAdvance with
        | nil =>
          simp only
        | cons b s3 =>
          simp only
      · simp only [hq, Bool.false_eq_true, if_false]

theorem qidStage_some (gQ : Bytes → Res Nat) (hQ : Exact gQ) (q E : Bytes) (qv : Nat) (hq : IsDigits q)
    (hE : Clean E) (hEh : ∀ b, E.head? = some b → isDelimB b = true) (hv : gQ q = .ok qv) :
    svmQidStage gQ ([113, 105, 100, 58] ++ (q ++ E)) = .ok (E, some qv) := by
  have hl := digits_lexeme hq
  obtain ⟨d, r, hd, hdc⟩ := lex_head hl
  subst hd
  have hp : Gen.Parse.qidPrefix = [113, 105, 100, 58] := rfl
  have ha : Gen.Parse.qidAdvance = 4 := rfl
  have hrun : (d :: (r ++ E)).takeWhile nonStopB = d :: (r ++ E) := by
    simpa using ((lexeme_clean hl).append hE).takeWhile
  have hdrop : (d :: (r ++ E)).dropWhile qidDigitB = E := by
    have hqd : (qidDigitB : UInt8 → Bool) = isDigitCharB := rfl
    rw [hqd]
    simpa using dropWhile_lex (d :: r) E hl.2 (fun b hb => delim_notDigit b (hEh b hb))
  have hgq : gQ (d :: (r ++ E)) = .ok qv := by
    have := hQ.exact (d :: r) E hl hEh
    simp only [List.cons_append] at this
    rw [this, hv]
  have hdd : Gen.Parse.isdigitchars d.toNat = true := hdc
  have hcond : (!(([113, 105, 100, 58] : Bytes) ++ ((d :: r) ++ E)).isEmpty &&
      ((([113, 105, 100, 58] : Bytes) ++ ((d :: r) ++ E)).take Gen.Parse.qidPrefix.length).map UInt8.toNat == Gen.Parse.qidPrefix) = true := by
    rfl
  unfold svmQidStage
  rw [if_pos hcond]
  have hdr : (([113, 105, 100, 58] : Bytes) ++ ((d :: r) ++ E)).drop Gen.Parse.qidAdvance = d :: (r ++ E) := rfl
  simp only [hdr, hrun, hdd, if_true, hgq, hdrop, bind, Except.bind, pure, Except.pure]

theorem qidStage_none (gQ : Bytes → Res Nat) (s2 : Bytes) (h : ∀ b, s2.head? = some b → b ≠ 113) :
    svmQidStage gQ s2 = .ok (s2, none) := by
  unfold svmQidStage
  have hp : Gen.Parse.qidPrefix = [113, 105, 100, 58] := rfl
  rw [hp]
  cases s2 with
  | nil => rfl
  | cons b s =>
    have hb := h b rfl
    have : ((!(b :: s).isEmpty && ((b :: s).take ([113, 105, 100, 58] : List Nat).length).map UInt8.toNat == [113, 105, 100, 58]) = true) = False := by
      simp only [eq_iff_iff, iff_false]
      intro hc
      simp at hc
      exact hb (by rw [← UInt8.toNat_inj]; simpa using hc.1)
    rw [if_neg (by rw [this]; exact id)]
    rfl

theorem svmLineS_render (gR gI gQ : Bytes → Res Nat) (hR : Exact gR) (hI : Exact gI) (hQ : Exact gQ)
    (σ : LineStyle) (r : TRow) (hwf : WfLine σ r) (L : SvmLine) (hexp : expLine gR gI gQ r = .ok L) :
    svmLineS gR gI gQ (svmContent σ r) = .ok (some L) := by
  obtain ⟨hses, hmap⟩ := hwf.ses
  have hfin := hwf.fin
  have hE : Clean (entsBytes (σ.seps.zip r.entries) (finPart σ)) :=
    entsBytes_clean _ _ hfin.clean (fun x hx => ⟨(hses x hx).1.2, (hses x hx).2⟩)
  have hEh := entsBytes_head (σ.seps.zip r.entries) (finPart σ) hfin (fun x hx => (hses x hx).1)
  -- the meaning of the row
  simp only [expLine, bind, Except.bind] at hexp
  cases hlv : gR r.label with
  | error e => simp [hlv] at hexp
  | ok lv =>
    simp only [hlv] at hexp
    cases hwv : (match r.weight with | some w => (gR w).map some | none => pure none : Res (Option Nat)) with
    | error e => simp [hwv] at hexp
    | ok wv =>
      simp only [hwv] at hexp
      cases hqv : (match r.qid with | some q => (gQ q).map some | none => pure none : Res (Option Nat)) with
      | error e => simp [hqv] at hexp
      | ok qv =>
        simp only [hqv] at hexp
        cases hfs : expFeats gI gR r.entries with
        | error e => simp [hfs] at hexp
        | ok fs =>
          simp only [hfs, pure, Except.pure] at hexp
          cases hexp
          have hfs' : expFeats gI gR ((σ.seps.zip r.entries).map (·.2)) = .ok fs := by rw [hmap]; exact hfs
          obtain ⟨hf1, hf2⟩ := svmFeats_ents gI gR hI hR (finPart σ) hfin _ hses fs hfs'
          -- the qid stage, on what is left behind the label pair with its blanks dropped
          have hT : Clean (qidPart σ r.qid ++ entsBytes (σ.seps.zip r.entries) (finPart σ)) := by
            refine Clean.append ?_ hE
            cases hq : r.qid with
            | none => exact Clean.nil
            | some q =>
              exact (blanks_clean hwf.qidSep.2).append (Clean.append (by intro x hx; simp at hx; rcases hx with rfl | rfl | rfl | rfl <;> decide) (lexeme_clean (digits_lexeme (hwf.qid q hq))))
          have hTh : ∀ b, (qidPart σ r.qid ++ entsBytes (σ.seps.zip r.entries) (finPart σ)).head? = some b → isDelimB b = true := by
            cases hq : r.qid with
            | none => simpa [qidPart] using hEh
            | some q =>
              intro b hb
              obtain ⟨hne, hbl⟩ := hwf.qidSep
              cases hsep : σ.qidSep with
              | nil => exact absurd hsep hne
              | cons x xs =>
                simp [qidPart, hsep] at hb; subst hb
                exact blank_isDelim _ (hbl _ (by simp [hsep]))
          have hstage : ∃ s3, svmQidStage gQ ((qidPart σ r.qid ++ entsBytes (σ.seps.zip r.entries) (finPart σ)).dropWhile isBlankB)
                = .ok (s3, qv) ∧ svmFeatsS gI gR (s3.length + 1) s3 [] = .ok fs ∧
              (∀ b, ((qidPart σ r.qid ++ entsBytes (σ.seps.zip r.entries) (finPart σ)).dropWhile isBlankB).head? = some b → b ≠ 58) := by
            cases hq : r.qid with
            | none =>
              simp only [hq, pure, Except.pure] at hqv
              cases hqv
              simp only [qidPart, List.nil_append]
              have hh := ents_dropBlank_head _ _ hfin hses
              exact ⟨_, qidStage_none gQ _ (fun b hb => (hh b hb).2), hf2, fun b hb => (hh b hb).1⟩
            | some q =>
              simp only [hq] at hqv
              cases hgq : gQ q with
              | error e => simp [hgq, Except.map] at hqv
              | ok qn =>
                simp [hgq, Except.map] at hqv
                subst hqv
                have hdw : (qidPart σ (some q) ++ entsBytes (σ.seps.zip r.entries) (finPart σ)).dropWhile isBlankB
                    = [113, 105, 100, 58] ++ (q ++ entsBytes (σ.seps.zip r.entries) (finPart σ)) := by
                  simp only [qidPart, List.append_assoc]
                  exact dropWhile_blanks _ _ hwf.qidSep.2 (by intro x hx; simp at hx; subst hx; decide)
                rw [hdw]
                exact ⟨_, qidStage_some gQ hQ q _ qn (hwf.qid q hq) hE hEh hgq, hf1, by
                  intro b hb; simp at hb; subst hb; decide⟩
          obtain ⟨s3, hst, hfeat, hnc⟩ := hstage
          have hqs : (qidSkipB : UInt8 → Bool) = isBlankB := rfl
          -- the line
          have hclean : Clean (svmContent σ r) := by
            unfold svmContent
            refine (blanks_clean hwf.lead).append ((lexeme_clean hwf.label).append (Clean.append ?_ hT))
            cases hw : r.weight with
            | none => exact Clean.nil
            | some w => exact Clean.cons (by decide) (lexeme_clean (hwf.weight w hw))
          obtain ⟨d, rr, hd, hdc⟩ := lex_head hwf.label
          rw [svmLineS_eq, clean_dropEol _ hclean]
          have hicb : icbS (svmContent σ r) = r.label ++ (valPart r.weight ++ (qidPart σ r.qid ++
              entsBytes (σ.seps.zip r.entries) (finPart σ))) :=
            icbS_skip _ _ hwf.lead ⟨d, _, by rw [hd]; rfl, hdc⟩
          rw [hicb]
          cases hw : r.weight with
          | none =>
            simp only [hw, pure, Except.pure] at hwv
            cases hwv
            have hp := pairS_one gR gR hR r.label _ lv hwf.label hT hTh hnc hlv
            simp only [valPart, List.nil_append]
            rw [hp]
            simp only [Except.bind, svmAfterPair, Gen.Parse.svmEmptyLine, Gen.Parse.svmHasWeight, hqs, dropWhile_idem,
              hst, hfeat, bind, pure, Except.pure]
            simp
          | some w =>
            simp only [hw] at hwv
            cases hgw : gR w with
            | error e => simp [hgw, Except.map] at hwv
            | ok wn =>
              simp [hgw, Except.map] at hwv
              subst hwv
              have hp := pairS_two gR gR hR hR r.label w _ lv wn hwf.label (hwf.weight w hw) hT hTh hlv hgw
              simp only [valPart, List.cons_append]
              rw [hp]
              simp only [Except.bind, svmAfterPair, Gen.Parse.svmEmptyLine, Gen.Parse.svmHasWeight, hqs,
                hst, hfeat, bind, pure, Except.pure]
              simp

/-! ## documents as sequences of terminated lines -/

def isEolStr (s : Bytes) : Prop := s ≠ [] ∧ ∀ b ∈ s, isEolB b = true

/-- lines with their end-of-line strings -/
def joinPieces (ps : List (Bytes × Bytes)) : Bytes := ps.flatMap fun p => p.1 ++ p.2

theorem eolSplit_eols (es X : Bytes) (he : ∀ b ∈ es, isEolB b = true) :
    eolSplit (es ++ X) = List.replicate es.length [] ++ eolSplit X := by
  induction es with
  | nil => rfl
  | cons e es ih =>
    rw [List.cons_append, eolSplit_eol_cons _ e (he e (by simp)), ih (fun b hb => he b (by simp [hb]))]
    rfl

theorem mapM_replicate_nil {β : Type} (f : Bytes → Res (List β)) (hnil : f [] = .ok []) (n : Nat) :
    (List.replicate n ([] : Bytes)).mapM f = .ok (List.replicate n []) := by
  induction n with
  | zero => rfl
  | succ n ih => simp [List.replicate_succ, List.mapM_cons, hnil, ih, bind, Except.bind, pure, Except.pure]

theorem flatten_replicate_nil {β : Type} (n : Nat) : (List.replicate n ([] : List β)).flatten = [] := by
  induction n with
  | zero => rfl
  | succ n ih => simp [List.replicate_succ, ih]

/-- the lines of a document made of terminated lines, parsed one by one: the rows of the pieces, nothing else -/
theorem rows_pieces (rws : Bytes → Res (List Row)) (hnil : rws [] = .ok []) (ps : List (Bytes × Bytes))
    (R : List (List Row)) (h : ps.mapM (fun p => rws p.1) = .ok R)
    (hwf : ∀ p ∈ ps, (∀ b ∈ p.1, isEolB b = false) ∧ isEolStr p.2) :
    ∃ rss, (eolSplit (joinPieces ps)).mapM rws = .ok rss ∧ rss.flatten = R.flatten := by
  induction ps generalizing R with
  | nil =>
    simp [pure, Except.pure] at h; subst h
    exact ⟨[[]], by simp [joinPieces, eolSplit, eolSplitGo, List.mapM_cons, hnil, bind, Except.bind, pure, Except.pure], rfl⟩
  | cons p ps ih =>
    obtain ⟨r0, R', h0, hR', rfl⟩ := mapM_cons_ok _ _ _ _ h
    obtain ⟨hc, hne, he⟩ := hwf p (by simp)
    obtain ⟨rss', h1, h2⟩ := ih R' hR' (fun q hq => hwf q (by simp [hq]))
    cases hp2 : p.2 with
    | nil => exact absurd hp2 hne
    | cons e es =>
      have hee : isEolB e = true := he e (by simp [hp2])
      have hes : ∀ b ∈ es, isEolB b = true := fun b hb => he b (by simp [hp2, hb])
      have hdoc : joinPieces (p :: ps) = p.1 ++ e :: (es ++ joinPieces ps) := by
        simp [joinPieces, hp2]
      rw [hdoc, eolSplit_append_eol _ _ e hee, eolSplit_noEolLine p.1 hc, eolSplit_eols es _ hes]
      refine ⟨[r0] ++ (List.replicate es.length [] ++ rss'), ?_, ?_⟩
      · rw [List.mapM_append, List.mapM_append, mapM_replicate_nil rws hnil, h1]
        simp [List.mapM_cons, h0, bind, Except.bind, pure, Except.pure]
      · simp [flatten_replicate_nil, h2]

/-! ## the meaning of a row keeps the presence of its optional parts -/

theorem expFeats_shape (gI gR : Bytes → Res Nat) (es : List Entry) (fs : List (Nat × Option Nat))
    (h : expFeats gI gR es = .ok fs) : fs.map (·.2.isSome) = es.map (·.value.isSome) := by
  induction es generalizing fs with
  | nil => simp [expFeats, pure, Except.pure] at h; subst h; rfl
  | cons e es ih =>
    obtain ⟨iv, fs', hiv, hre, rfl⟩ := mapM_cons_ok _ _ _ _ (show (e :: es).mapM (expEntry gI gR) = .ok fs from h)
    have := ih fs' hre
    simp only [List.map_cons, this, List.cons.injEq, and_true]
    simp only [expEntry, bind, Except.bind] at hiv
    cases hgi : gI e.index with
    | error x => simp [hgi] at hiv
    | ok i =>
      simp only [hgi] at hiv
      cases hv : e.value with
      | none => simp [hv, pure, Except.pure] at hiv; subst hiv; rfl
      | some v =>
        simp only [hv] at hiv
        cases hgv : gR v with
        | error x => simp [hgv, Except.map] at hiv
        | ok vv => simp [hgv, Except.map, pure, Except.pure] at hiv; subst hiv; rfl

theorem expLine_shape (gR gI gQ : Bytes → Res Nat) (r : TRow) (L : SvmLine) (h : expLine gR gI gQ r = .ok L) :
    L.weight.isSome = r.weight.isSome ∧ L.qid.isSome = r.qid.isSome ∧
      L.feats.map (·.2.isSome) = r.entries.map (·.value.isSome) := by
  simp only [expLine, bind, Except.bind] at h
  cases hlv : gR r.label with
  | error e => simp [hlv] at h
  | ok lv =>
    simp only [hlv] at h
    cases hwv : (match r.weight with | some w => (gR w).map some | none => pure none : Res (Option Nat)) with
    | error e => simp [hwv] at h
    | ok wv =>
      simp only [hwv] at h
      cases hqv : (match r.qid with | some q => (gQ q).map some | none => pure none : Res (Option Nat)) with
      | error e => simp [hqv] at h
      | ok qv =>
        simp only [hqv] at h
        cases hfs : expFeats gI gR r.entries with
        | error e => simp [hfs] at h
        | ok fs =>
          simp only [hfs, pure, Except.pure] at h
          cases h
          refine ⟨?_, ?_, expFeats_shape gI gR _ _ hfs⟩
          · cases hw : r.weight with
            | none => simp [hw, pure, Except.pure] at hwv; subst hwv; rfl
            | some w =>
              simp only [hw] at hwv
              cases hg : gR w with
              | error e => simp [hg, Except.map] at hwv
              | ok x => simp [hg, Except.map] at hwv; subst hwv; rfl
          · cases hq : r.qid with
            | none => simp [hq, pure, Except.pure] at hqv; subst hqv; rfl
            | some q =>
              simp only [hq] at hqv
              cases hg : gQ q with
              | error e => simp [hg, Except.map] at hqv
              | ok x => simp [hg, Except.map] at hqv; subst hqv; rfl

end DmlcModel.Parse
