/-
The generic step from "a block is a fold of line records over its code lines" to "the rows of a block
are the concatenation of the rows of its lines parsed alone" (shared by the three parsers).
-/
import DmlcModel.Parse.Block
import DmlcModel.Parse.Rows

namespace DmlcModel.Parse
open DmlcModel

/-! ## GetBlock on built containers -/

theorem gbWeight_ok (nw no : Nat) (h : nw = 0 ∨ nw + 1 = no) (hb : no < 2 ^ 64) :
    Gen.Parse.gbWeightCheck nw no = true := by
  unfold Gen.Parse.gbWeightCheck
  first
    | rfl
    | (have e : (nw + 1) % 18446744073709551616 = nw + 1 := Nat.mod_eq_of_lt (by omega)
       rcases h with h | h <;> simp [u64, e, h] <;> omega)

theorem gbQid_ok (nw no : Nat) (h : nw = 0 ∨ nw + 1 = no) (hb : no < 2 ^ 64) :
    Gen.Parse.gbQidCheck nw no = true := by
  unfold Gen.Parse.gbQidCheck
  first
    | rfl
    | (have e : (nw + 1) % 18446744073709551616 = nw + 1 := Nat.mod_eq_of_lt (by omega)
       rcases h with h | h <;> simp [u64, e, h] <;> omega)

theorem gbField_ok (nf ni : Nat) (h : nf = 0 ∨ nf = ni) : Gen.Parse.gbFieldCheck nf ni = true := by
  unfold Gen.Parse.gbFieldCheck
  first
    | rfl
    | (rcases h with h | h <;> simp [h])

theorem gbValue_ok (last nv : Nat) (h : last = nv ∨ nv = 0) : Gen.Parse.gbValueCheck last nv = true := by
  unfold Gen.Parse.gbValueCheck
  rcases h with h | h <;> simp [h]

theorem uniform_length (g : LineRec → Option Nat) (recs : List LineRec) (h : Uniform g recs) :
    (recs.flatMap (fun r => (g r).toList)).length = 0 ∨ (recs.flatMap (fun r => (g r).toList)).length = recs.length := by
  rcases h with h | h
  · exact Or.inr (flatMap_toList_some_length g recs h)
  · exact Or.inl (by simp [flatMap_toList_none g recs h])

theorem uniformL_length (f : LineRec → List Nat) (recs : List LineRec) (h : UniformL f recs) :
    (recs.flatMap f).length = 0 ∨ (recs.flatMap f).length = (recs.flatMap (·.idx)).length := by
  rcases h with h | h
  · exact Or.inr (flatMap_length_eq f recs h)
  · exact Or.inl (by simp [flatMap_nil_of f recs h])

theorem getLast_sums (n : Nat) (recs : List LineRec) :
    (n :: sums n recs).getLast? = some (n + (recs.flatMap (·.idx)).length) := by
  induction recs generalizing n with
  | nil => simp [sums]
  | cons r rs ih =>
    have := ih (n + r.idx.length)
    simp only [sums, List.getLast?_cons_cons, this, List.flatMap_cons, List.length_append]
    congr 1; omega

theorem getBlockOk_build (recs : List LineRec) (h : AgreeRecs recs) (hb : recs.length + 1 < 2 ^ 64) :
    getBlockOk (build recs) = true := by
  have hl := uniform_length _ recs h.label
  have hw := uniform_length _ recs h.weight
  have hq := uniform_length _ recs h.qid
  have hf := uniformL_length _ recs h.fields
  have hv := uniformL_length _ recs h.vals
  have hlast := getLast_sums 0 recs
  simp only [Nat.zero_add] at hlast
  simp only [getBlockOk, build_eq, hlast, List.length_cons, sums_length, beq_self_eq_true, Bool.and_true,
    Bool.true_and, Bool.and_eq_true, Bool.or_eq_true, beq_iff_eq]
  refine ⟨⟨⟨⟨?_, ?_⟩, ?_⟩, ?_⟩, ?_⟩
  · rcases hl with e | e
    · exact Or.inl e
    · exact Or.inr (by omega)
  · exact gbValue_ok _ _ (by rcases hv with e | e; exact Or.inr e; exact Or.inl e.symm)
  · exact gbWeight_ok _ _ (by rcases hw with e | e; exact Or.inl e; exact Or.inr (by omega)) (by omega)
  · exact gbQid_ok _ _ (by rcases hq with e | e; exact Or.inl e; exact Or.inr (by omega)) (by omega)
  · exact gbField_ok _ _ hf

/-- the rows of a container built from records that agree on their optional parts -/
theorem rowsOf_build (recs : List LineRec) (h : AgreeRecs recs) (hb : recs.length + 1 < 2 ^ 64) :
    rowsOf (build recs) = .ok (recs.map toRow) := by
  unfold rowsOf
  rw [getBlockOk_build recs h hb, if_pos rfl, build_size]
  rw [mapM_range_ok (rowAt (build recs))
    (fun i => if h : i < recs.length then toRow recs[i] else toRow ⟨none, none, none, [], [], []⟩) recs.length
    (fun i hi => by simp [hi, rowAt_build recs h i hi])]
  rw [range_map_getElem]

/-! ## list / Except plumbing -/

theorem mapM_congr {α β : Type} (f g : α → Res β) (xs : List α) (h : ∀ x ∈ xs, f x = g x) :
    xs.mapM f = xs.mapM g := by
  induction xs with
  | nil => rfl
  | cons x xs ih =>
    simp only [List.mapM_cons, h x (by simp), ih (fun y hy => h y (by simp [hy]))]

theorem mapM_map' {α β γ : Type} (h : α → β) (f : β → Res γ) (xs : List α) :
    (xs.map h).mapM f = xs.mapM (fun x => f (h x)) := by
  induction xs with
  | nil => rfl
  | cons x xs ih => simp only [List.map_cons, List.mapM_cons, ih]

theorem mapM_bind_split {α β γ : Type} (f : α → Res β) (g : β → Res γ) (xs : List α) (ys : List γ)
    (h : xs.mapM (fun x => (f x).bind g) = .ok ys) :
    ∃ zs, xs.mapM f = .ok zs ∧ zs.mapM g = .ok ys := by
  induction xs generalizing ys with
  | nil =>
    simp [pure, Except.pure] at h
    exact ⟨[], rfl, by simp [h, pure, Except.pure]⟩
  | cons x xs ih =>
    rw [List.mapM_cons] at h
    cases hr : xs.mapM (fun x => (f x).bind g) with
    | error e =>
      rw [hr] at h
      cases hf : f x with
      | error e => simp [hf, Except.bind, bind] at h
      | ok z =>
        cases hg : g z with
        | error e => simp [hf, hg, Except.bind, bind] at h
        | ok y => simp [hf, hg, Except.bind, bind] at h
    | ok ys' =>
      rw [hr] at h
      obtain ⟨zs, h1, h2⟩ := ih ys' hr
      cases hf : f x with
      | error e => simp [hf, Except.bind, bind] at h
      | ok z =>
        cases hg : g z with
        | error e => simp [hf, hg, Except.bind, bind] at h
        | ok y =>
          simp [hf, hg, Except.bind, bind, pure, Except.pure] at h
          refine ⟨z :: zs, ?_, ?_⟩
          · simp [List.mapM_cons, h1, hf, bind, Except.bind, pure, Except.pure]
          · subst h
            simp [List.mapM_cons, hg, h2, bind, Except.bind, pure, Except.pure]

theorem takeWhile_all (pred : UInt8 → Bool) (s : Bytes) (h : ∀ x ∈ s, pred x = true) : s.takeWhile pred = s := by
  induction s with
  | nil => rfl
  | cons b s ih => simp [List.takeWhile, h b (by simp), ih (fun x hx => h x (by simp [hx]))]

theorem dropWhile_all (pred : UInt8 → Bool) (s : Bytes) (h : ∀ x ∈ s, pred x = true) : s.dropWhile pred = [] := by
  induction s with
  | nil => rfl
  | cons b s ih => simp [List.dropWhile, h b (by simp), ih (fun x hx => h x (by simp [hx]))]

/-! ## lines of a text have no end-of-line byte; code lines of such a line -/

theorem eolSplitGo_noEol (s cur : Bytes) (hc : ∀ b ∈ cur, isEolB b = false) :
    ∀ l ∈ eolSplitGo s cur, ∀ b ∈ l, isEolB b = false := by
  induction s generalizing cur with
  | nil => intro l hl b hb; simp [eolSplitGo] at hl; subst hl; exact hc b (by simpa using hb)
  | cons x s ih =>
    intro l hl
    by_cases hx : isEolB x = true
    · simp only [eolSplitGo, hx, if_true, List.mem_cons] at hl
      rcases hl with rfl | hl
      · intro b hb; exact hc b (by simpa using hb)
      · exact ih [] (by simp) l hl
    · simp only [eolSplitGo, hx, if_false, Bool.false_eq_true] at hl
      exact ih (x :: cur) (by intro b hb; simp at hb; rcases hb with rfl | hb; simpa using hx; exact hc b hb) l hl

theorem eolSplit_noEol (t : Bytes) : ∀ l ∈ eolSplit t, ∀ b ∈ l, isEolB b = false :=
  eolSplitGo_noEol t [] (by simp)

theorem codeLines_single (b : UInt8) (s : Bytes) (h : ∀ x ∈ s, isEolB x = false) : codeLines (b :: s) = [b :: s] := by
  have h1 : s.takeWhile notEolB = s := takeWhile_all _ _ (fun x hx => by simp [notEolB, h x hx])
  have h2 : s.dropWhile notEolB = [] := dropWhile_all _ _ (fun x hx => by simp [notEolB, h x hx])
  rw [codeLines_cons, h1, h2]; rfl

theorem codeLinesGo_length (s cur : Bytes) : (codeLinesGo s cur).length ≤ s.length + 1 := by
  induction s generalizing cur with
  | nil => simp [codeLinesGo]
  | cons b s ih =>
    by_cases hb : isEolB b = true
    · have := ih [b]; simp [codeLinesGo, hb]; omega
    · have := ih (b :: cur); simp [codeLinesGo, hb]; omega

theorem codeLines_length (t : Bytes) : (codeLines t).length ≤ t.length := by
  cases t with
  | nil => simp [codeLines]
  | cons b s => have := codeLinesGo_length s [b]; simpa [codeLines] using this

/-! ## the generic theorem -/

/-- rows agree on which optional parts they carry (values: among the rows that have entries) -/
structure AgreeRows (rows : List Row) : Prop where
  label : (∀ r ∈ rows, r.label.isSome = true) ∨ (∀ r ∈ rows, r.label = none)
  weight : (∀ r ∈ rows, r.weight.isSome = true) ∨ (∀ r ∈ rows, r.weight = none)
  qid : (∀ r ∈ rows, r.qid.isSome = true) ∨ (∀ r ∈ rows, r.qid = none)
  value : (∀ r ∈ rows, r.index ≠ [] → r.value.isSome = true) ∨ (∀ r ∈ rows, r.value = none)

/-- the rows of one line parsed alone, in terms of its record -/
def single (recS : Bytes → Res (Option LineRec)) (l : Bytes) : Res (List Row) :=
  (recS l).bind fun o => rowsOf (build o.toList)

/-- what the per-parser lemmas establish about `rows t` = rows of `ParseBlock` on the text `t`, for texts whose
bytes all satisfy `good` (csv: no NUL inside the text): when every code line has a record, the block is the
container built from the records; a line alone is parsed to (the container of) its record -/
structure LineFormat (good : UInt8 → Bool) (rows : Bytes → Res (List Row)) (recS : Bytes → Res (Option LineRec)) : Prop where
  block_ok : ∀ t outs, (∀ b ∈ t, good b = true) → t.length + 2 < 2 ^ 64 → (codeLines t).mapM recS = .ok outs →
    rows t = rowsOf (build (outs.filterMap id))
  rows_single : ∀ l, (∀ b ∈ l, good b = true) → l.length + 2 < 2 ^ 64 → (∀ b ∈ l, isEolB b = false) →
    rows l = single recS l
  strip : ∀ L, recS (stripEol L) = recS L
  nil : recS [] = .ok none
  fields : (∀ L r, recS L = .ok (some r) → r.fields = []) ∨
    (∀ L r, recS L = .ok (some r) → r.fields.length = r.idx.length)

/-- a parser whose block (on good texts) is the fold of its line records, errors included -/
theorem LineFormat.ofBlockEq {good : UInt8 → Bool} {rows : Bytes → Res (List Row)} {recS : Bytes → Res (Option LineRec)}
    (block_eq : ∀ t, (∀ b ∈ t, good b = true) → t.length + 2 < 2 ^ 64 →
      rows t = ((codeLines t).mapM recS).bind fun outs => rowsOf (build (outs.filterMap id)))
    (strip : ∀ L, recS (stripEol L) = recS L) (nil : recS [] = .ok none)
    (fields : (∀ L r, recS L = .ok (some r) → r.fields = []) ∨
      (∀ L r, recS L = .ok (some r) → r.fields.length = r.idx.length)) :
    LineFormat good rows recS where
  block_ok := fun t outs hg hb ho => by
    rw [block_eq t hg hb, ho]; rfl
  rows_single := fun l hg hb h => by
    cases l with
    | nil =>
      rw [block_eq [] (by simp) (by simp)]
      simp [codeLines, single, nil, pure, Except.pure, Except.bind]
    | cons b s =>
      have hs : ∀ x ∈ s, isEolB x = false := fun x hx => h x (by simp [hx])
      rw [block_eq (b :: s) hg hb, codeLines_single b s hs]
      simp only [List.mapM_cons, List.mapM_nil, single, bind, Except.bind, pure, Except.pure]
      cases recS (b :: s) with
      | error e => rfl
      | ok o => cases o <;> rfl
  strip := strip
  nil := nil
  fields := fields

theorem eolSplitGo_sub (s cur : Bytes) :
    ∀ l ∈ eolSplitGo s cur, (∀ b ∈ l, b ∈ s ∨ b ∈ cur) ∧ l.length ≤ s.length + cur.length := by
  induction s generalizing cur with
  | nil => intro l hl; simp [eolSplitGo] at hl; subst hl; simp
  | cons x s ih =>
    intro l hl
    by_cases hx : isEolB x = true
    · simp only [eolSplitGo, hx, if_true, List.mem_cons] at hl
      rcases hl with rfl | hl
      · exact ⟨fun b hb => Or.inr (by simpa using hb), by simp⟩
      · obtain ⟨h1, h2⟩ := ih [] l hl
        refine ⟨fun b hb => ?_, by simp at h2 ⊢; omega⟩
        rcases h1 b hb with h | h
        · exact Or.inl (by simp [h])
        · simp at h
    · simp only [eolSplitGo, hx, if_false, Bool.false_eq_true] at hl
      obtain ⟨h1, h2⟩ := ih (x :: cur) l hl
      refine ⟨fun b hb => ?_, by simp at h2 ⊢; omega⟩
      rcases h1 b hb with h | h
      · exact Or.inl (by simp [h])
      · simp at h; rcases h with rfl | h
        · exact Or.inl (by simp)
        · exact Or.inr h

theorem eolSplit_sub (t : Bytes) : ∀ l ∈ eolSplit t, (∀ b ∈ l, b ∈ t) ∧ l.length ≤ t.length := by
  intro l hl
  obtain ⟨h1, h2⟩ := eolSplitGo_sub t [] l hl
  exact ⟨fun b hb => by rcases h1 b hb with h | h; exact h; simp at h, by simpa using h2⟩

theorem rowsOf_build_nil : rowsOf (build []) = .ok [] := by
  have h : AgreeRecs [] := ⟨Or.inr (by simp), Or.inr (by simp), Or.inr (by simp), Or.inr (by simp), Or.inr (by simp)⟩
  simpa using rowsOf_build [] h (by simp)

/-- a single record whose container passes `GetBlock` has values for all of its entries or for none -/
theorem vals_of_single_ok (r : LineRec) (rs : List Row) (h : rowsOf (build [r]) = .ok rs) :
    r.vals.length = r.idx.length ∨ r.vals = [] := by
  unfold rowsOf at h
  by_cases hg : getBlockOk (build [r]) = true
  · simp only [getBlockOk, build_eq, sums, List.flatMap_cons, List.flatMap_nil, List.append_nil] at hg
    simp only [List.getLast?_cons_cons, List.getLast?_singleton, Nat.zero_add, Bool.and_eq_true] at hg
    have hv := hg.1.1.1.2
    simp only [Gen.Parse.gbValueCheck, Bool.or_eq_true, beq_iff_eq] at hv
    rcases hv with e | e
    · exact Or.inl e.symm
    · exact Or.inr (List.eq_nil_of_length_eq_zero e)
  · simp [hg] at h

theorem mapM_mem {α β : Type} (f : α → Res β) (xs : List α) (ys : List β) (h : xs.mapM f = .ok ys) :
    ∀ y ∈ ys, ∃ x ∈ xs, f x = .ok y := by
  induction xs generalizing ys with
  | nil => simp [pure, Except.pure] at h; subst h; simp
  | cons x xs ih =>
    rw [List.mapM_cons] at h
    cases hf : f x with
    | error e => simp [hf, bind, Except.bind] at h
    | ok z =>
      cases hr : xs.mapM f with
      | error e => simp [hf, hr, bind, Except.bind] at h
      | ok zs =>
        simp [hf, hr, bind, Except.bind, pure, Except.pure] at h
        subst h
        intro y hy
        simp at hy
        rcases hy with rfl | hy
        · exact ⟨x, by simp, hf⟩
        · obtain ⟨x', hx', hfx⟩ := ih zs hr y hy
          exact ⟨x', by simp [hx'], hfx⟩

theorem mapM_length {α β : Type} (f : α → Res β) (xs : List α) (ys : List β) (h : xs.mapM f = .ok ys) :
    ys.length = xs.length := by
  induction xs generalizing ys with
  | nil => simp [pure, Except.pure] at h; subst h; rfl
  | cons x xs ih =>
    rw [List.mapM_cons] at h
    cases hf : f x with
    | error e => simp [hf, bind, Except.bind] at h
    | ok z =>
      cases hr : xs.mapM f with
      | error e => simp [hf, hr, bind, Except.bind] at h
      | ok zs =>
        simp [hf, hr, bind, Except.bind, pure, Except.pure] at h
        subst h
        simp [ih zs hr]

theorem agreeRecs_single (r : LineRec) (hv : r.vals.length = r.idx.length ∨ r.vals = [])
    (hf : r.fields.length = r.idx.length ∨ r.fields = []) : AgreeRecs [r] := by
  refine ⟨?_, ?_, ?_, ?_, ?_⟩
  · cases h : r.label <;> simp [Uniform, h]
  · cases h : r.weight <;> simp [Uniform, h]
  · cases h : r.qid <;> simp [Uniform, h]
  · rcases hf with h | h <;> simp [UniformL, h]
  · rcases hv with h | h <;> simp [UniformL, h]

/-- the rows of the lines parsed alone, in terms of the records -/
theorem outs_rows (outs : List (Option LineRec)) (rss : List (List Row))
    (hf : ∀ r, some r ∈ outs → (r.fields.length = r.idx.length ∨ r.fields = []))
    (h : outs.mapM (fun o => rowsOf (build o.toList)) = .ok rss) :
    rss.flatten = (outs.filterMap id).map toRow ∧
      ∀ r ∈ outs.filterMap id, r.vals.length = r.idx.length ∨ r.vals = [] := by
  induction outs generalizing rss with
  | nil => simp [pure, Except.pure] at h; subst h; simp
  | cons o outs ih =>
    rw [List.mapM_cons] at h
    cases ho : rowsOf (build o.toList) with
    | error e => simp [ho, bind, Except.bind] at h
    | ok rs =>
      cases hr : outs.mapM (fun o => rowsOf (build o.toList)) with
      | error e => simp [ho, hr, bind, Except.bind] at h
      | ok rss' =>
        simp [ho, hr, bind, Except.bind, pure, Except.pure] at h
        subst h
        obtain ⟨i1, i2⟩ := ih rss' (fun r hr' => hf r (by simp [hr'])) hr
        cases o with
        | none =>
          simp only [Option.toList_none, rowsOf_build_nil] at ho
          cases ho
          exact ⟨by simpa using i1, fun r hr => i2 r (by simpa using hr)⟩
        | some r =>
          simp only [Option.toList_some] at ho
          have hv := vals_of_single_ok r rs ho
          have hag := agreeRecs_single r hv (hf r (by simp))
          rw [rowsOf_build [r] hag (by simp)] at ho
          cases ho
          refine ⟨by simp [i1], ?_⟩
          intro r' hr'
          simp at hr'
          rcases hr' with rfl | hr'
          · exact hv
          · exact i2 r' (by simpa using hr')

theorem agreeRecs_of_rows (recs : List LineRec) (ha : AgreeRows (recs.map toRow))
    (hv : ∀ r ∈ recs, r.vals.length = r.idx.length ∨ r.vals = [])
    (hf : UniformL (·.fields) recs) : AgreeRecs recs := by
  refine ⟨?_, ?_, ?_, hf, ?_⟩
  · rcases ha.label with h | h
    · exact Or.inl (fun r hr => by simpa [toRow] using h (toRow r) (List.mem_map_of_mem hr))
    · exact Or.inr (fun r hr => by simpa [toRow] using h (toRow r) (List.mem_map_of_mem hr))
  · rcases ha.weight with h | h
    · exact Or.inl (fun r hr => by simpa [toRow] using h (toRow r) (List.mem_map_of_mem hr))
    · exact Or.inr (fun r hr => by simpa [toRow] using h (toRow r) (List.mem_map_of_mem hr))
  · rcases ha.qid with h | h
    · exact Or.inl (fun r hr => by simpa [toRow] using h (toRow r) (List.mem_map_of_mem hr))
    · exact Or.inr (fun r hr => by simpa [toRow] using h (toRow r) (List.mem_map_of_mem hr))
  · rcases ha.value with h | h
    · refine Or.inl (fun r hr => ?_)
      have h1 := h (toRow r) (List.mem_map_of_mem hr)
      by_cases he : r.idx = []
      · rcases hv r hr with e | e
        · exact e
        · simp [e, he]
      · have h2 := h1 (by simpa [toRow] using he)
        rcases hv r hr with e | e
        · exact e
        · simp [toRow, e] at h2
    · refine Or.inr (fun r hr => ?_)
      have h1 := h (toRow r) (List.mem_map_of_mem hr)
      by_cases he : r.idx = []
      · rcases hv r hr with e | e
        · rw [he] at e; exact List.eq_nil_of_length_eq_zero (by simpa using e)
        · exact e
      · by_cases hve : r.vals = []
        · exact hve
        · simp [toRow, he, hve] at h1

/-- **generic core of C11**: the rows of a block are the concatenation of the rows of its lines parsed alone -/
theorem LineFormat.concat_of_lines {good : UInt8 → Bool} {rows : Bytes → Res (List Row)} {recS : Bytes → Res (Option LineRec)}
    (F : LineFormat good rows recS) (t : Bytes) (hg : ∀ b ∈ t, good b = true) (hb : t.length + 2 < 2 ^ 64) (rss : List (List Row))
    (hl : (eolSplit t).mapM rows = .ok rss) (ha : AgreeRows rss.flatten) :
    rows t = .ok rss.flatten := by
  have hl1 : (eolSplit t).mapM (single recS) = .ok rss := by
    rw [← hl]; symm
    exact mapM_congr _ _ _ (fun l hl => F.rows_single l (fun b hb' => hg b ((eolSplit_sub t l hl).1 b hb'))
      (by have := (eolSplit_sub t l hl).2; omega) (eolSplit_noEol t l hl))
  have hnil : single recS [] = .ok [] := by simp [single, F.nil, Except.bind, rowsOf_build_nil]
  have hstrip : ∀ L, single recS (stripEol L) = single recS L := fun L => by simp [single, F.strip]
  -- move to the code lines
  obtain ⟨rss', hl2, hfl⟩ : ∃ rss', (codeLines t).mapM (single recS) = .ok rss' ∧ rss.flatten = rss'.flatten := by
    have hsplit := codeLines_strip t
    have key : ((codeLines t).map stripEol).mapM (single recS) = (codeLines t).mapM (single recS) := by
      rw [mapM_map']; exact mapM_congr _ _ _ (fun L _ => hstrip L)
    cases t with
    | nil =>
      simp only at hsplit
      rw [hsplit] at hl1
      simp [List.mapM_cons, hnil, bind, Except.bind, pure, Except.pure] at hl1
      exact ⟨[], by simp [codeLines, pure, Except.pure], by simp [← hl1]⟩
    | cons b s =>
      simp only at hsplit
      by_cases hbe : isEolB b = true
      · rw [hsplit, if_pos hbe, List.mapM_cons, hnil, key] at hl1
        cases hm : (codeLines (b :: s)).mapM (single recS) with
        | error e => simp [hm, bind, Except.bind] at hl1
        | ok rss' =>
          simp [hm, bind, Except.bind, pure, Except.pure] at hl1
          exact ⟨rss', rfl, by simp [← hl1]⟩
      · rw [hsplit, if_neg hbe, key] at hl1
        exact ⟨rss, hl1, rfl⟩
  obtain ⟨outs, ho1, ho2⟩ := mapM_bind_split recS (fun o => rowsOf (build o.toList)) _ _ hl2
  have hrec : ∀ r, some r ∈ outs → ∃ L, recS L = .ok (some r) := fun r hr => by
    obtain ⟨L, _, hL⟩ := mapM_mem recS _ _ ho1 (some r) hr
    exact ⟨L, hL⟩
  have hfields : ∀ r, some r ∈ outs → (r.fields.length = r.idx.length ∨ r.fields = []) := fun r hr => by
    obtain ⟨L, hL⟩ := hrec r hr
    rcases F.fields with h | h
    · exact Or.inr (h L r hL)
    · exact Or.inl (h L r hL)
  obtain ⟨hrows, hvals⟩ := outs_rows outs rss' hfields ho2
  have hU : UniformL (·.fields) (outs.filterMap id) := by
    rcases F.fields with h | h
    · refine Or.inr (fun r hr => ?_)
      obtain ⟨L, hL⟩ := hrec r (by simpa using hr)
      exact h L r hL
    · refine Or.inl (fun r hr => ?_)
      obtain ⟨L, hL⟩ := hrec r (by simpa using hr)
      exact h L r hL
  have hag : AgreeRecs (outs.filterMap id) := agreeRecs_of_rows _ (by rw [← hrows, ← hfl]; exact ha) hvals hU
  have hlen : (outs.filterMap id).length + 1 < 2 ^ 64 := by
    have h1 := List.length_filterMap_le id outs
    have h2 := mapM_length _ _ _ ho1
    have h3 := codeLines_length t
    omega
  rw [F.block_ok t outs hg hb ho1, rowsOf_build _ hag hlen, hfl, hrows]

end DmlcModel.Parse
