/-
`ParserImpl::Next` and `ThreadedParser::Next` (src/data/parser.h) as loop models.

`Model.lean` describes `ParserImpl::Next` by its specification (`blocksOf`: the non-empty containers of one
`ParseNext`, in order).  Here the two `Next` functions are modelled statement by statement – the
`data_ptr_` / `data_end_` cursor, the inner scan for a non-empty container, the call to `ParseNext`
(`ParserImpl`) respectively `iter_.Recycle(&tmp_)` then `iter_.Next(&tmp_)` (`ThreadedParser`) – so that

* the specification is a lemma about the loop (`piDrain_eq`), not an assumption,
* the prefetching wrapper is shown transparent (`tpDrain_eq_piDrain`), and
* the *lifetime* of the block a `ThreadedParser` hands out is explicit: the block returned by `Next` lies in
  the cell the parser currently holds (`tmp_`), and that cell is given back to the iterator only at the start
  of a later `Next` (`tpNext_owned`, `tpNext_balance`).  With C07 (`C07_lent_exclusive`: a lent cell is never
  handed to the producer callback) this is what makes `Value()` stable until the next call.

The iterator is represented by the list of cells it will deliver, in order (C07_order: delivery order =
production order = the order of the base parser's `ParseNext` calls).
-/
import DmlcModel.Parse.Model

namespace DmlcModel.Parse.PNext
open DmlcModel DmlcModel.Parse

/-- the inner loop of both `Next`s:
`while (data_ptr_ < data_end_) { data_ptr_ += 1; if (data[data_ptr_ - 1].Size() != 0) return true; }`.
Result: the new `data_ptr_` and the container whose block is handed out (`none`: loop ran to the end).
Indexing `data` at or beyond its size is undefined behaviour in C++ (`.oob`). -/
def scan (data : List Container) (ptr end_ : Nat) : Res (Nat × Option Container) :=
  if ptr < end_ then
    match data[ptr]? with
    | some c => if c.size != 0 then .ok (ptr + 1, some c) else scan data (ptr + 1) end_
    | none => .error .oob
  else .ok (ptr, none)
termination_by end_ - ptr

/-- `ParserImpl` state: `data_`, `data_ptr_`, `data_end_` -/
structure PI where
  data : List Container := []
  ptr : Nat := 0
  end_ : Nat := 0
  deriving Repr, DecidableEq

/-- `ParserImpl::Next`.  `src` = the container vectors the following `ParseNext` calls fill in (`[]`: `ParseNext`
returns false).  Returns the container whose block `Value()` now shows (`none` = `Next` returned false), the new
state and the rest of the source. -/
def piNext (s : PI) (src : List (List Container)) : Res (Option Container × PI × List (List Container)) :=
  match scan s.data s.ptr s.end_ with
  | .error e => .error e
  | .ok (p, some c) => .ok (some c, { s with ptr := p }, src)
  | .ok (p, none) =>
    match src with
    | [] => .ok (none, { s with ptr := p }, [])
    | d :: rest => piNext { data := d, ptr := 0, end_ := d.length } rest
termination_by src.length

/-- `ThreadedParser` state: `tmp_` (the cell lent by the iterator, `none` = NULL), the cursor, and two ghost
counters: cells taken from / given back to the iterator -/
structure TP where
  tmp : Option (List Container) := none
  ptr : Nat := 0
  end_ : Nat := 0
  taken : Nat := 0
  recycled : Nat := 0
  deriving Repr, DecidableEq

/-- the inner loop of `ThreadedParser::Next` reads `(*tmp_)[…]`: with `tmp_ == NULL` that is a null dereference -/
def tpScan (s : TP) : Res (Nat × Option Container) :=
  match s.tmp with
  | some d => scan d s.ptr s.end_
  | none => if s.ptr < s.end_ then .error .oob else .ok (s.ptr, none)

/-- `if (tmp_ != NULL) iter_.Recycle(&tmp_);` (Recycle nulls the pointer) -/
def tpRecycle (s : TP) : TP :=
  match s.tmp with
  | some _ => { s with tmp := none, recycled := s.recycled + 1 }
  | none => s

/-- `ThreadedParser::Next`.  `cells` = what the following `iter_.Next(&tmp_)` calls deliver (`[]`: returns false,
`tmp_` stays NULL). -/
def tpNext (s : TP) (cells : List (List Container)) : Res (Option Container × TP × List (List Container)) :=
  match tpScan s with
  | .error e => .error e
  | .ok (p, some c) => .ok (some c, { s with ptr := p }, cells)
  | .ok (p, none) =>
    let s1 := tpRecycle { s with ptr := p }
    match cells with
    | [] => .ok (none, s1, [])
    | d :: rest => tpNext { s1 with tmp := some d, ptr := 0, end_ := d.length, taken := s1.taken + 1 } rest
termination_by cells.length

/-! ### facts about the scan -/

theorem scan_some {data : List Container} {ptr end_ p : Nat} {c : Container}
    (h : scan data ptr end_ = .ok (p, some c)) :
    ptr < p ∧ p ≤ end_ ∧ data[p - 1]? = some c ∧ c.size ≠ 0 := by
  fun_induction scan data ptr end_ with
  | case1 ptr hlt c' hc hs =>
    simp only [Except.ok.injEq, Prod.mk.injEq, Option.some.injEq] at h
    obtain ⟨rfl, rfl⟩ := h
    refine ⟨by omega, by omega, by simpa using hc, by simpa using hs⟩
  | case2 ptr hlt c' hc hs ih =>
    have := ih h
    exact ⟨by omega, this.2.1, this.2.2.1, this.2.2.2⟩
  | case3 ptr hlt hc => cases h
  | case4 ptr hge => simp at h

theorem scan_none {data : List Container} {ptr end_ p : Nat}
    (h : scan data ptr end_ = .ok (p, none)) : p = max ptr end_ := by
  fun_induction scan data ptr end_ with
  | case1 ptr hlt c' hc hs => simp at h
  | case2 ptr hlt c' hc hs ih => have := ih h; omega
  | case3 ptr hlt hc => cases h
  | case4 ptr hge =>
    simp only [Except.ok.injEq, Prod.mk.injEq, and_true] at h
    omega

/-! ### `ParserImpl::Next` -/

theorem piNext_some {s : PI} {src : List (List Container)} {c : Container} {s' : PI}
    {src' : List (List Container)} (h : piNext s src = .ok (some c, s', src')) :
    (src'.length < src.length ∨ (src' = src ∧ s'.end_ = s.end_ ∧ s.ptr < s'.ptr)) ∧
      s'.ptr ≤ s'.end_ ∧ 1 ≤ s'.ptr ∧ s'.data[s'.ptr - 1]? = some c ∧ c.size ≠ 0 := by
  fun_induction piNext s src with
  | case1 s src e he => cases h
  | case2 s src p c' hs =>
    simp only [Except.ok.injEq, Prod.mk.injEq, Option.some.injEq] at h
    obtain ⟨rfl, rfl, rfl⟩ := h
    have := scan_some hs
    exact ⟨Or.inr ⟨rfl, rfl, this.1⟩, this.2.1, by have := this.1; simp only; omega, this.2.2.1, this.2.2.2⟩
  | case3 s p hs => simp at h
  | case4 s p hs d rest ih =>
    have := ih h
    refine ⟨Or.inl ?_, this.2⟩
    rcases this.1 with h1 | ⟨rfl, _, _⟩ <;> simp <;> omega

/-- call `Next` until it returns false; the containers handed out, in order.  Fuel-free: every call that
returns a container either advances the cursor inside the current vector or consumes the source. -/
def piDrain (s : PI) (src : List (List Container)) : Res (List Container) :=
  match _h : piNext s src with
  | .error e => .error e
  | .ok (none, _, _) => .ok []
  | .ok (some c, s', src') => (piDrain s' src').map (c :: ·)
termination_by (src.length, s.end_ - s.ptr)
decreasing_by
  have := piNext_some _h
  rcases this.1 with h1 | ⟨rfl, h2, h3⟩
  · exact Prod.Lex.left _ _ h1
  · have := this.2.1
    exact Prod.Lex.right _ (by omega)

/-- the containers `Next` hands out: the non-empty ones -/
def nonEmpty (cs : List Container) : List Container := cs.filter fun c => c.size != 0

/-- the scan over a vector with `data_end_ = data_.size()` never reads outside it, and finds the first non-empty
container at or after the cursor -/
theorem scan_spec (data : List Container) (ptr : Nat) (hp : ptr ≤ data.length) :
    ∃ p o, scan data ptr data.length = .ok (p, o) ∧ p ≤ data.length ∧
      nonEmpty (data.drop ptr) = o.toList ++ (if o.isSome then nonEmpty (data.drop p) else []) := by
  fun_induction scan data ptr data.length with
  | case1 ptr hlt c hc hs =>
    refine ⟨ptr + 1, some c, rfl, by omega, ?_⟩
    have : data.drop ptr = c :: data.drop (ptr + 1) := by
      rw [List.drop_eq_getElem_cons hlt]; congr 1
      exact (List.getElem?_eq_some_iff.mp hc).2
    simp [this, nonEmpty, List.filter_cons, hs]
  | case2 ptr hlt c hc hs ih =>
    obtain ⟨p, o, h1, h2, h3⟩ := ih (by omega)
    refine ⟨p, o, h1, h2, ?_⟩
    have : data.drop ptr = c :: data.drop (ptr + 1) := by
      rw [List.drop_eq_getElem_cons hlt]; congr 1
      exact (List.getElem?_eq_some_iff.mp hc).2
    have hs' : (c.size != 0) = false := by simpa using hs
    rw [this, nonEmpty, List.filter_cons, hs']
    simpa [nonEmpty] using h3
  | case3 ptr hlt hc =>
    exact absurd hc (by simp [List.getElem?_eq_none_iff]; omega)
  | case4 ptr hge =>
    refine ⟨ptr, none, rfl, hp, ?_⟩
    have : data.drop ptr = [] := List.drop_eq_nil_of_le (by omega)
    simp [this, nonEmpty]

/-- well-formed cursor: `data_end_ == data_.size()`, `data_ptr_ <= data_end_` (what the constructor and every
`ParseNext` establish) -/
def PI.Wf (s : PI) : Prop := s.end_ = s.data.length ∧ s.ptr ≤ s.end_

theorem piNext_spec (s : PI) (src : List (List Container)) (hw : s.Wf) :
    ∃ o s' src', piNext s src = .ok (o, s', src') ∧ s'.Wf ∧
      nonEmpty (s.data.drop s.ptr ++ src.flatten) =
        o.toList ++ (if o.isSome then nonEmpty (s'.data.drop s'.ptr ++ src'.flatten) else []) := by
  fun_induction piNext s src with
  | case1 s src e he =>
    obtain ⟨p, o, h1, _, _⟩ := scan_spec s.data s.ptr (by have := hw.1; have := hw.2; omega)
    rw [hw.1] at he; rw [he] at h1; cases h1
  | case2 s src p c hs =>
    obtain ⟨p', o, h1, h2, h3⟩ := scan_spec s.data s.ptr (by have := hw.1; have := hw.2; omega)
    rw [hw.1] at hs; rw [hs] at h1
    simp only [Except.ok.injEq, Prod.mk.injEq] at h1
    obtain ⟨rfl, rfl⟩ := h1
    refine ⟨some c, { s with ptr := p }, src, rfl, ⟨hw.1, by simp only; rw [hw.1]; exact h2⟩, ?_⟩
    simp only [nonEmpty, List.filter_append] at h3 ⊢
    simp [h3]
  | case3 s p hs =>
    obtain ⟨p', o, h1, h2, h3⟩ := scan_spec s.data s.ptr (by have := hw.1; have := hw.2; omega)
    rw [hw.1] at hs; rw [hs] at h1
    simp only [Except.ok.injEq, Prod.mk.injEq] at h1
    obtain ⟨rfl, rfl⟩ := h1
    refine ⟨none, { s with ptr := p }, [], rfl, ⟨hw.1, by simp only; rw [hw.1]; exact h2⟩, ?_⟩
    simpa [nonEmpty] using h3
  | case4 s p hs d rest ih =>
    obtain ⟨p', o, h1, h2, h3⟩ := scan_spec s.data s.ptr (by have := hw.1; have := hw.2; omega)
    rw [hw.1] at hs; rw [hs] at h1
    simp only [Except.ok.injEq, Prod.mk.injEq] at h1
    obtain ⟨rfl, rfl⟩ := h1
    obtain ⟨o, s', src', e1, e2, e3⟩ := ih ⟨rfl, by simp⟩
    refine ⟨o, s', src', e1, e2, ?_⟩
    simp only [nonEmpty, List.filter_append, List.flatten_cons, List.drop_zero] at h3 e3 ⊢
    have h3' : List.filter (fun c => c.size != 0) (List.drop s.ptr s.data) = [] := by simpa using h3
    rw [h3', List.nil_append]; exact e3

/-- **`ParserImpl::Next` hands out exactly the non-empty containers, in order** (and never reads outside `data_`) -/
theorem piDrain_eq (s : PI) (src : List (List Container)) (hw : s.Wf) :
    piDrain s src = .ok (nonEmpty (s.data.drop s.ptr ++ src.flatten)) := by
  fun_induction piDrain s src with
  | case1 s src e he =>
    obtain ⟨o, s', src', h1, _, _⟩ := piNext_spec s src hw
    rw [he] at h1; cases h1
  | case2 s src s' src' he =>
    obtain ⟨o, s2, src2, h1, _, h3⟩ := piNext_spec s src hw
    rw [he] at h1
    simp only [Except.ok.injEq, Prod.mk.injEq] at h1
    obtain ⟨rfl, rfl, rfl⟩ := h1
    simpa using h3
  | case3 s src c s' src' he ih =>
    obtain ⟨o, s2, src2, h1, h2, h3⟩ := piNext_spec s src hw
    rw [he] at h1
    simp only [Except.ok.injEq, Prod.mk.injEq] at h1
    obtain ⟨rfl, rfl, rfl⟩ := h1
    rw [ih h2, h3]; simp [Except.map]

/-- from the freshly constructed parser: the non-empty containers of all `ParseNext` results -/
theorem piDrain_fresh (src : List (List Container)) : piDrain {} src = .ok (nonEmpty src.flatten) := by
  simpa using piDrain_eq {} src ⟨rfl, Nat.le_refl _⟩

/-! ### `ThreadedParser::Next` -/

/-- what is left of the held cell -/
def TP.cur (s : TP) : List Container :=
  match s.tmp with
  | some d => d.drop s.ptr
  | none => []

/-- invariant of `ThreadedParser`: with a cell held the cursor is inside it (`data_end_ == tmp_->size()`); without
one the cursor is exhausted (so the scan never dereferences NULL); every cell taken from the iterator has been
given back, except the one held -/
def TP.Wf (s : TP) : Prop :=
  (match s.tmp with
   | some d => s.end_ = d.length ∧ s.ptr ≤ s.end_
   | none => s.end_ ≤ s.ptr) ∧
  s.taken = s.recycled + (if s.tmp.isSome then 1 else 0)

theorem TP.wf_init : ({} : TP).Wf := by simp [TP.Wf]

theorem tpNext_spec (s : TP) (cells : List (List Container)) (hw : s.Wf) :
    ∃ o s' cells', tpNext s cells = .ok (o, s', cells') ∧ s'.Wf ∧
      nonEmpty (s.cur ++ cells.flatten) =
        o.toList ++ (if o.isSome then nonEmpty (s'.cur ++ cells'.flatten) else []) ∧
      (∀ c, o = some c → ∃ d, s'.tmp = some d ∧ 1 ≤ s'.ptr ∧ d[s'.ptr - 1]? = some c) ∧
      (o = none → s'.tmp = none ∧ cells' = []) := by
  fun_induction tpNext s cells with
  | case1 s cells e he =>
    exfalso
    unfold tpScan at he
    cases ht : s.tmp with
    | none =>
      have := hw.1; rw [ht] at this he
      simp only at this he
      rw [if_neg (by omega)] at he; cases he
    | some d =>
      have := hw.1; rw [ht] at this he
      simp only at this he
      obtain ⟨p, o, h1, _, _⟩ := scan_spec d s.ptr (by omega)
      rw [this.1, h1] at he; cases he
  | case2 s cells p c hs =>
    unfold tpScan at hs
    cases ht : s.tmp with
    | none =>
      rw [ht] at hs; simp only at hs
      split at hs <;> simp at hs
    | some d =>
      have hw1 := hw.1; rw [ht] at hw1 hs
      simp only at hw1 hs
      obtain ⟨p', o, h1, h2, h3⟩ := scan_spec d s.ptr (by omega)
      rw [hw1.1, h1] at hs
      simp only [Except.ok.injEq, Prod.mk.injEq] at hs
      obtain ⟨rfl, rfl⟩ := hs
      have hf := scan_some h1
      refine ⟨some c, { s with ptr := p' }, cells, by simp [ht], ⟨?_, ?_⟩, ?_, ?_, by simp⟩
      · simp only [ht]; exact ⟨hw1.1, by omega⟩
      · simpa using hw.2
      · simp only [TP.cur, ht, nonEmpty, List.filter_append] at h3 ⊢
        simp [h3]
      · intro c' hc'
        simp only [Option.some.injEq] at hc'; subst hc'
        exact ⟨d, ht, by have := hf.1; simp only; omega, hf.2.2.1⟩
  | case3 s p hs s1 =>
    have hcur : nonEmpty s.cur = [] ∧ (s.tmp.isSome → p ≤ s.end_) ∧ s.ptr ≤ p := by
      unfold tpScan at hs
      cases ht : s.tmp with
      | none =>
        rw [ht] at hs; simp only at hs
        split at hs
        · cases hs
        · simp only [Except.ok.injEq, Prod.mk.injEq, and_true] at hs
          subst hs
          simp [TP.cur, ht, nonEmpty]
      | some d =>
        have hw1 := hw.1; rw [ht] at hw1 hs
        simp only at hw1 hs
        obtain ⟨p', o, h1, h2, h3⟩ := scan_spec d s.ptr (by omega)
        rw [hw1.1, h1] at hs
        simp only [Except.ok.injEq, Prod.mk.injEq] at hs
        obtain ⟨rfl, rfl⟩ := hs
        have := scan_none h1
        refine ⟨by simpa [TP.cur, ht] using h3, fun _ => by omega, by omega⟩
    refine ⟨none, s1, [], rfl, ?_, by rw [List.flatten_nil, List.append_nil, hcur.1]; rfl, by simp, ?_⟩
    · have hw2 := hw.2
      have hw1 := hw.1
      show (tpRecycle { s with ptr := p }).Wf
      unfold tpRecycle
      cases ht : s.tmp with
      | none =>
        rw [ht] at hw2 hw1
        simp only [ht] at hw1 ⊢
        refine ⟨?_, by simpa using hw2⟩
        simp only; omega
      | some d =>
        rw [ht] at hw2 hw1
        simp only at hw1 ⊢
        refine ⟨?_, by simp at hw2 ⊢; omega⟩
        have := scan_none (show scan d s.ptr s.end_ = .ok (p, none) by
          unfold tpScan at hs; rw [ht] at hs; exact hs)
        simp only; omega
    · intro _
      refine ⟨?_, rfl⟩
      show (tpRecycle { s with ptr := p }).tmp = none
      unfold tpRecycle
      cases ht : s.tmp <;> simp
  | case4 s p hs s1 d rest ih =>
    have hcur : nonEmpty s.cur = [] := by
      unfold tpScan at hs
      cases ht : s.tmp with
      | none => simp [TP.cur, ht, nonEmpty]
      | some d' =>
        have hw1 := hw.1; rw [ht] at hw1 hs
        simp only at hw1 hs
        obtain ⟨p', o, h1, h2, h3⟩ := scan_spec d' s.ptr (by omega)
        rw [hw1.1, h1] at hs
        simp only [Except.ok.injEq, Prod.mk.injEq] at hs
        obtain ⟨rfl, rfl⟩ := hs
        simpa [TP.cur, ht] using h3
    have hs1 : s1.tmp = none ∧ s1.taken = s1.recycled := by
      show (tpRecycle { s with ptr := p }).tmp = none ∧
        (tpRecycle { s with ptr := p }).taken = (tpRecycle { s with ptr := p }).recycled
      have hw2 := hw.2
      unfold tpRecycle
      cases ht : s.tmp <;> rw [ht] at hw2 <;> simp at hw2 ⊢ <;> omega
    obtain ⟨o, s', cells', e1, e2, e3, e4, e5⟩ := ih ⟨by simp, by simp [hs1.2]⟩
    refine ⟨o, s', cells', e1, e2, ?_, e4, e5⟩
    simp only [nonEmpty, List.filter_append, List.flatten_cons, TP.cur, List.drop_zero] at hcur e3 ⊢
    rw [hcur, List.nil_append]; exact e3

theorem tpNext_some {s : TP} {cells : List (List Container)} {c : Container} {s' : TP}
    {cells' : List (List Container)} (h : tpNext s cells = .ok (some c, s', cells')) :
    (cells'.length < cells.length ∨ (cells' = cells ∧ s'.end_ = s.end_ ∧ s.ptr < s'.ptr)) ∧ s'.ptr ≤ s'.end_ := by
  fun_induction tpNext s cells with
  | case1 s cells e he => cases h
  | case2 s cells p c' hs =>
    simp only [Except.ok.injEq, Prod.mk.injEq, Option.some.injEq] at h
    obtain ⟨rfl, rfl, rfl⟩ := h
    unfold tpScan at hs
    cases ht : s.tmp with
    | none => rw [ht] at hs; simp only at hs; split at hs <;> simp at hs
    | some d =>
      rw [ht] at hs
      have := scan_some hs
      exact ⟨Or.inr ⟨rfl, rfl, this.1⟩, this.2.1⟩
  | case3 s p hs s1 => simp at h
  | case4 s p hs s1 d rest ih =>
    have := ih h
    refine ⟨Or.inl ?_, this.2⟩
    rcases this.1 with h1 | ⟨rfl, _, _⟩ <;> simp <;> omega

/-- is the block of `c`, just handed out, inside the cell the parser holds?  (`block_.offset` points into
`(*tmp_)[data_ptr_ - 1]`) – the observation the harness makes on the real object after every `Next` -/
def TP.owns (s : TP) (c : Container) : Bool :=
  match s.tmp with
  | some d => decide (1 ≤ s.ptr) && (d[s.ptr - 1]? == some c)
  | none => false

/-- call `ThreadedParser::Next` until it returns false: the containers handed out, each with the ownership
observation made right after the call -/
def tpDrain (s : TP) (cells : List (List Container)) : Res (List (Container × Bool)) :=
  match _h : tpNext s cells with
  | .error e => .error e
  | .ok (none, _, _) => .ok []
  | .ok (some c, s', cells') => (tpDrain s' cells').map ((c, s'.owns c) :: ·)
termination_by (cells.length, s.end_ - s.ptr)
decreasing_by
  have := tpNext_some _h
  rcases this.1 with h1 | ⟨rfl, h2, h3⟩
  · exact Prod.Lex.left _ _ h1
  · have := this.2
    exact Prod.Lex.right _ (by omega)

/-- **`ThreadedParser::Next` hands out exactly the non-empty containers of the cells the iterator delivers, in
order, and each block lies in the cell the parser still holds when `Next` returns** -/
theorem tpDrain_eq (s : TP) (cells : List (List Container)) (hw : s.Wf) :
    tpDrain s cells = .ok ((nonEmpty (s.cur ++ cells.flatten)).map fun c => (c, true)) := by
  fun_induction tpDrain s cells with
  | case1 s cells e he =>
    obtain ⟨o, s', cells', h1, _⟩ := tpNext_spec s cells hw
    rw [he] at h1; cases h1
  | case2 s cells s' cells' he =>
    obtain ⟨o, s2, c2, h1, _, h3, _⟩ := tpNext_spec s cells hw
    rw [he] at h1
    simp only [Except.ok.injEq, Prod.mk.injEq] at h1
    obtain ⟨rfl, rfl, rfl⟩ := h1
    simp at h3; simp [h3]
  | case3 s cells c s' cells' he ih =>
    obtain ⟨o, s2, c2, h1, h2, h3, h4, _⟩ := tpNext_spec s cells hw
    rw [he] at h1
    simp only [Except.ok.injEq, Prod.mk.injEq] at h1
    obtain ⟨rfl, rfl, rfl⟩ := h1
    obtain ⟨d, hd, hp, hc⟩ := h4 c rfl
    have hown : s'.owns c = true := by simp [TP.owns, hd, hp, hc]
    rw [ih h2, h3, hown]; simp [Except.map]

/-- **the prefetching wrapper is transparent**: a fresh `ThreadedParser` over an iterator that delivers the base
parser's `ParseNext` results in order (C07_order) hands out the same containers as the bare `ParserImpl::Next` -/
theorem tpDrain_eq_piDrain (src : List (List Container)) :
    (tpDrain {} src).map (·.map (·.1)) = piDrain {} src := by
  rw [tpDrain_eq {} src TP.wf_init, piDrain_fresh]
  simp [TP.cur, Except.map, Function.comp_def]

/-- every block handed out is owned at the time `Next` returns (corollary, in the form the driver prints) -/
theorem tpDrain_owned (src : List (List Container)) (r : List (Container × Bool)) (h : tpDrain {} src = .ok r) :
    ∀ x ∈ r, x.2 = true := by
  rw [tpDrain_eq {} src TP.wf_init] at h
  simp only [Except.ok.injEq] at h
  subst h
  intro x hx
  obtain ⟨c, _, rfl⟩ := List.mem_map.mp hx
  rfl

/-! ### the pipelines over the loop models -/

/-- the pipeline with `ParserImpl::Next` as the loop it is: `ParseNext` per chunk (FillData), then `Next` until
false, reading the rows of each block handed out -/
def pipelineLoop (f : Format) (fx : Fixes) (conv : Conv) (nthread : Nat) (chunks : List (Bytes × Nat)) :
    Res (List (List Row)) := do
  let css ← chunks.mapM fun (mem, size) => fillData (f.parseBlock fx conv) mem size nthread
  let cs ← piDrain {} css
  cs.mapM rowsOf

/-- the same through `ThreadedParser`: the iterator delivers the `ParseNext` results in order; each block with the
ownership observation made when `Next` returned -/
def pipelineThreaded (f : Format) (fx : Fixes) (conv : Conv) (nthread : Nat) (chunks : List (Bytes × Nat)) :
    Res (List (List Row × Bool)) := do
  let css ← chunks.mapM fun (mem, size) => fillData (f.parseBlock fx conv) mem size nthread
  let cs ← tpDrain {} css
  cs.mapM fun cb => (rowsOf cb.1).map fun r => (r, cb.2)

end DmlcModel.Parse.PNext
