/-
Cutting a text at an end-of-line byte: the rows of the pieces concatenate to the rows of the whole
(for every `LineFormat`).  Thread slices cut *at* an end-of-line byte (it starts the right piece),
chunks and parts cut *after* one (it ends the left piece).
-/
import DmlcModel.Parse.Concat

namespace DmlcModel.Parse
open DmlcModel

theorem eolSplitGo_append_eol (x y cur : Bytes) (e : UInt8) (he : isEolB e = true) :
    eolSplitGo (x ++ e :: y) cur = eolSplitGo x cur ++ eolSplitGo y [] := by
  induction x generalizing cur with
  | nil => simp [eolSplitGo, he]
  | cons b x ih => by_cases hb : isEolB b = true <;> simp [eolSplitGo, hb, ih]

theorem eolSplit_append_eol (x y : Bytes) (e : UInt8) (he : isEolB e = true) :
    eolSplit (x ++ e :: y) = eolSplit x ++ eolSplit y := eolSplitGo_append_eol x y [] e he

theorem eolSplit_eol_cons (y : Bytes) (e : UInt8) (he : isEolB e = true) : eolSplit (e :: y) = [] :: eolSplit y := by
  simp [eolSplit, eolSplitGo, he]

theorem eolSplit_snoc_eol (x : Bytes) (e : UInt8) (he : isEolB e = true) : eolSplit (x ++ [e]) = eolSplit x ++ [[]] := by
  rw [eolSplit_append_eol x [] e he]; rfl

theorem mapM_append_split {α β : Type} (f : α → Res β) (xs ys : List α) (rs : List β)
    (h : (xs ++ ys).mapM f = .ok rs) :
    ∃ r1 r2, xs.mapM f = .ok r1 ∧ ys.mapM f = .ok r2 ∧ rs = r1 ++ r2 := by
  rw [List.mapM_append] at h
  cases h1 : xs.mapM f with
  | error e => simp [h1, bind, Except.bind] at h
  | ok r1 =>
    cases h2 : ys.mapM f with
    | error e => simp [h1, h2, bind, Except.bind] at h
    | ok r2 =>
      simp [h1, h2, bind, Except.bind, pure, Except.pure] at h
      exact ⟨r1, r2, rfl, rfl, h.symm⟩

theorem AgreeRows.left {a b : List Row} (h : AgreeRows (a ++ b)) : AgreeRows a := by
  refine ⟨?_, ?_, ?_, ?_⟩
  · rcases h.label with g | g
    · exact Or.inl fun r hr => g r (by simp [hr])
    · exact Or.inr fun r hr => g r (by simp [hr])
  · rcases h.weight with g | g
    · exact Or.inl fun r hr => g r (by simp [hr])
    · exact Or.inr fun r hr => g r (by simp [hr])
  · rcases h.qid with g | g
    · exact Or.inl fun r hr => g r (by simp [hr])
    · exact Or.inr fun r hr => g r (by simp [hr])
  · rcases h.value with g | g
    · exact Or.inl fun r hr => g r (by simp [hr])
    · exact Or.inr fun r hr => g r (by simp [hr])

theorem AgreeRows.right {a b : List Row} (h : AgreeRows (a ++ b)) : AgreeRows b := by
  refine ⟨?_, ?_, ?_, ?_⟩
  · rcases h.label with g | g
    · exact Or.inl fun r hr => g r (by simp [hr])
    · exact Or.inr fun r hr => g r (by simp [hr])
  · rcases h.weight with g | g
    · exact Or.inl fun r hr => g r (by simp [hr])
    · exact Or.inr fun r hr => g r (by simp [hr])
  · rcases h.qid with g | g
    · exact Or.inl fun r hr => g r (by simp [hr])
    · exact Or.inr fun r hr => g r (by simp [hr])
  · rcases h.value with g | g
    · exact Or.inl fun r hr => g r (by simp [hr])
    · exact Or.inr fun r hr => g r (by simp [hr])

/-- one cut at an end-of-line byte `e`: the pieces `x | e y` (thread slices) and `x e | y` (chunks, parts)
both give the rows of the whole text `x e y`; the hypotheses on the lines carry over to `y` -/
theorem LineFormat.cut {good : UInt8 → Bool} {rows : Bytes → Res (List Row)} {recS : Bytes → Res (Option LineRec)}
    (F : LineFormat good rows recS) (x y : Bytes) (e : UInt8) (he : isEolB e = true)
    (hg : ∀ b ∈ x ++ e :: y, good b = true) (hb : (x ++ e :: y).length + 2 < 2 ^ 64) (rss : List (List Row))
    (hl : (eolSplit (x ++ e :: y)).mapM rows = .ok rss) (ha : AgreeRows rss.flatten) :
    ∃ rsx rsy, (eolSplit x).mapM rows = .ok rsx ∧ (eolSplit y).mapM rows = .ok rsy ∧
      AgreeRows rsx.flatten ∧ AgreeRows rsy.flatten ∧
      rows x = .ok rsx.flatten ∧ rows (x ++ [e]) = .ok rsx.flatten ∧
      rows (e :: y) = .ok rsy.flatten ∧ rows y = .ok rsy.flatten ∧
      rows (x ++ e :: y) = .ok (rsx.flatten ++ rsy.flatten) := by
  have hwhole := F.concat_of_lines _ hg hb rss hl ha
  have hgx : ∀ b ∈ x, good b = true := fun b hb' => hg b (by simp [hb'])
  have hgy : ∀ b ∈ y, good b = true := fun b hb' => hg b (by simp [hb'])
  have hge : good e = true := hg e (by simp)
  rw [eolSplit_append_eol x y e he] at hl
  obtain ⟨rsx, rsy, hx, hy, rfl⟩ := mapM_append_split _ _ _ _ hl
  have hax : AgreeRows rsx.flatten := by rw [List.flatten_append] at ha; exact ha.left
  have hay : AgreeRows rsy.flatten := by rw [List.flatten_append] at ha; exact ha.right
  have hlen : x.length + 2 < 2 ^ 64 ∧ y.length + 3 < 2 ^ 64 := by
    simp only [List.length_append, List.length_cons] at hb; omega
  have hnil : rows [] = .ok [] := by
    rw [F.rows_single [] (by simp) (by simp) (by simp)]; simp [single, F.nil, Except.bind, rowsOf_build_nil]
  refine ⟨rsx, rsy, hx, hy, hax, hay, F.concat_of_lines x hgx hlen.1 rsx hx hax, ?_, ?_,
    F.concat_of_lines y hgy (by omega) rsy hy hay, by rw [hwhole, List.flatten_append]⟩
  · have h1 : (eolSplit (x ++ [e])).mapM rows = .ok (rsx ++ [[]]) := by
      rw [eolSplit_snoc_eol x e he, List.mapM_append, hx]
      simp [hnil, bind, Except.bind, pure, Except.pure]
    have := F.concat_of_lines (x ++ [e]) (by intro b hb'; simp at hb'; rcases hb' with h | rfl; exact hgx b h; exact hge) (by have := hlen.1; simp only [List.length_append, List.length_cons, List.length_nil] at hb ⊢; omega) _ h1 (by simpa using hax)
    simpa using this
  · have h1 : (eolSplit (e :: y)).mapM rows = .ok ([] :: rsy) := by
      rw [eolSplit_eol_cons y e he, List.mapM_cons, hnil, hy]
      simp [bind, Except.bind, pure, Except.pure]
    have := F.concat_of_lines (e :: y) (by intro b hb'; simp at hb'; rcases hb' with rfl | h; exact hge; exact hgy b h) (by have := hlen.2; simp only [List.length_cons]; omega) _ h1 (by simpa using hay)
    simpa using this

/-- `x₁ e₁ x₂ e₂ … z`: the pieces `xᵢ eᵢ` end with an end-of-line byte (chunks of an InputSplit, parts) -/
def joinAfter : List (Bytes × UInt8) → Bytes → Bytes
  | [], z => z
  | p :: ps, z => p.1 ++ p.2 :: joinAfter ps z

/-- any number of cuts directly after end-of-line bytes: the rows of the pieces, in order, are the rows of the text -/
theorem LineFormat.pieces_after_eol {good : UInt8 → Bool} {rows : Bytes → Res (List Row)} {recS : Bytes → Res (Option LineRec)}
    (F : LineFormat good rows recS) (ps : List (Bytes × UInt8)) (z : Bytes) (he : ∀ p ∈ ps, isEolB p.2 = true)
    (hg : ∀ b ∈ joinAfter ps z, good b = true) (hb : (joinAfter ps z).length + 2 < 2 ^ 64) (rss : List (List Row))
    (hl : (eolSplit (joinAfter ps z)).mapM rows = .ok rss) (ha : AgreeRows rss.flatten) :
    ∃ rs rz, ps.mapM (fun p => rows (p.1 ++ [p.2])) = .ok rs ∧ rows z = .ok rz ∧
      rows (joinAfter ps z) = .ok (rs.flatten ++ rz) := by
  induction ps generalizing rss with
  | nil =>
    have := F.concat_of_lines z hg hb rss hl ha
    exact ⟨[], rss.flatten, rfl, this, by simpa [joinAfter] using this⟩
  | cons p ps ih =>
    obtain ⟨rsx, rsy, _, hy, _, hay, _, h2, _, h4, h5⟩ :=
      F.cut p.1 (joinAfter ps z) p.2 (he p (by simp)) hg hb rss hl ha
    have hg' : ∀ b ∈ joinAfter ps z, good b = true := fun b hb' => hg b (by simp [joinAfter, hb'])
    have hb' : (joinAfter ps z).length + 2 < 2 ^ 64 := by
      simp only [joinAfter, List.length_append, List.length_cons] at hb; omega
    obtain ⟨rs, rz, h6, h7, h8⟩ := ih (fun q hq => he q (by simp [hq])) hg' hb' rsy hy hay
    rw [h4] at h8
    have h9 : rsy.flatten = rs.flatten ++ rz := Except.ok.inj h8
    refine ⟨rsx.flatten :: rs, rz, ?_, h7, ?_⟩
    · simp [List.mapM_cons, h2, h6, bind, Except.bind, pure, Except.pure]
    · simp only [joinAfter] at h5 ⊢
      rw [h5, h9]; simp

/-- `z (e₁ y₁) (e₂ y₂) …`: every piece but the first starts with an end-of-line byte (FillData's thread slices) -/
def joinAt (z : Bytes) (ps : List (UInt8 × Bytes)) : Bytes := z ++ ps.flatMap fun p => p.1 :: p.2

theorem LineFormat.pieces_at_eol {good : UInt8 → Bool} {rows : Bytes → Res (List Row)} {recS : Bytes → Res (Option LineRec)}
    (F : LineFormat good rows recS) (ps : List (UInt8 × Bytes)) (z : Bytes) (he : ∀ p ∈ ps, isEolB p.1 = true)
    (hg : ∀ b ∈ joinAt z ps, good b = true) (hb : (joinAt z ps).length + 3 < 2 ^ 64) (rss : List (List Row))
    (hl : (eolSplit (joinAt z ps)).mapM rows = .ok rss) (ha : AgreeRows rss.flatten) :
    ∃ rz rs, rows z = .ok rz ∧ ps.mapM (fun p => rows (p.1 :: p.2)) = .ok rs ∧
      rows (joinAt z ps) = .ok (rz ++ rs.flatten) := by
  induction ps generalizing z rss with
  | nil =>
    have hz : joinAt z [] = z := by simp [joinAt]
    rw [hz] at hl hb hg ⊢
    have := F.concat_of_lines z hg (by omega) rss hl ha
    exact ⟨rss.flatten, [], this, rfl, by simpa using this⟩
  | cons p ps ih =>
    have hshape : joinAt z (p :: ps) = z ++ p.1 :: (p.2 ++ ps.flatMap fun q => q.1 :: q.2) := by
      simp [joinAt]
    rw [hshape] at hl hb hg
    obtain ⟨rsx, rsy, _, hy, _, hay, h1, _, h3, _, h5⟩ :=
      F.cut z _ p.1 (he p (by simp)) hg (by omega) rss hl ha
    have hnil : rows [] = .ok [] := by
      rw [F.rows_single [] (by simp) (by simp) (by simp)]; simp [single, F.nil, Except.bind, rowsOf_build_nil]
    have hshape' : joinAt (p.1 :: p.2) ps = p.1 :: (p.2 ++ ps.flatMap fun q => q.1 :: q.2) := by
      simp [joinAt]
    have hl' : (eolSplit (joinAt (p.1 :: p.2) ps)).mapM rows = .ok ([] :: rsy) := by
      rw [hshape', eolSplit_eol_cons _ _ (he p (by simp)), List.mapM_cons, hnil, hy]
      simp [bind, Except.bind, pure, Except.pure]
    have hb' : (joinAt (p.1 :: p.2) ps).length + 3 < 2 ^ 64 := by
      rw [hshape']; simp only [List.length_append, List.length_cons] at hb ⊢; omega
    have hg' : ∀ b ∈ joinAt (p.1 :: p.2) ps, good b = true := by
      rw [hshape']; intro b hb''; exact hg b (by simp at hb'' ⊢; rcases hb'' with h | h | h; exact Or.inr (Or.inl h); exact Or.inr (Or.inr (Or.inl h)); exact Or.inr (Or.inr (Or.inr h)))
    obtain ⟨rz', rs', h6, h7, h8⟩ := ih (p.1 :: p.2) (fun q hq => he q (by simp [hq])) hg' hb' _ hl' (by simpa using hay)
    rw [hshape', h3] at h8
    have h9 : rsy.flatten = rz' ++ rs'.flatten := Except.ok.inj h8
    refine ⟨rsx.flatten, rz' :: rs', h1, ?_, ?_⟩
    · simp [List.mapM_cons, h6, h7, bind, Except.bind, pure, Except.pure]
    · rw [hshape, h5, h9]; simp

end DmlcModel.Parse
