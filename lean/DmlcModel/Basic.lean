/-
Shared conventions of the dmlc-core model (core Lean only: no Mathlib import here, so that the
line-protocol driver can be linked as a `lean_exe`).
-/
namespace DmlcModel

abbrev Byte := UInt8
abbrev Bytes := List UInt8

/-- wrap to the C++ `uint32_t` range -/
def u32 (n : Nat) : Nat := n % 4294967296
/-- wrap to the C++ `uint64_t` / `size_t` range -/
def u64 (n : Nat) : Nat := n % 18446744073709551616
/-- C++ unsigned subtraction on 32 bits -/
def sub32 (a b : Nat) : Nat := (a + 4294967296 - b % 4294967296) % 4294967296
/-- C++ unsigned subtraction on 64 bits -/
def sub64 (a b : Nat) : Nat := (a + 18446744073709551616 - b % 18446744073709551616) % 18446744073709551616

/-- the four little-endian bytes of a 32-bit word -/
def le32 (n : Nat) : Bytes :=
  [UInt8.ofNat (n % 256), UInt8.ofNat (n / 256 % 256), UInt8.ofNat (n / 65536 % 256),
   UInt8.ofNat (n / 16777216 % 256)]

/-- the 32-bit word read from four little-endian bytes -/
def word32 (a b c d : Byte) : Nat :=
  a.toNat + 256 * b.toNat + 65536 * c.toNat + 16777216 * d.toNat

/-- the eight little-endian bytes of a 64-bit word -/
def le64 (n : Nat) : Bytes := le32 (n % 4294967296) ++ le32 (n / 4294967296 % 4294967296)

def hexDigit (n : Nat) : Char :=
  if n < 10 then Char.ofNat (48 + n) else Char.ofNat (87 + n)

def hexOfBytes (bs : Bytes) : String :=
  String.ofList (bs.flatMap fun b => [hexDigit (b.toNat / 16), hexDigit (b.toNat % 16)])

def hexVal (c : Char) : Option Nat :=
  if '0' ≤ c ∧ c ≤ '9' then some (c.toNat - 48)
  else if 'a' ≤ c ∧ c ≤ 'f' then some (c.toNat - 87)
  else if 'A' ≤ c ∧ c ≤ 'F' then some (c.toNat - 55)
  else none

def bytesOfHexAux : List Char → Option Bytes
  | [] => some []
  | a :: b :: rest => do
      let x ← hexVal a
      let y ← hexVal b
      let r ← bytesOfHexAux rest
      pure (UInt8.ofNat (16 * x + y) :: r)
  | _ => none

/-- `-` denotes the empty byte string in the line protocol -/
def bytesOfHex (s : String) : Option Bytes :=
  if s = "-" then some [] else bytesOfHexAux s.toList

def hexOrDash (bs : Bytes) : String := if bs.isEmpty then "-" else hexOfBytes bs

end DmlcModel
