import DmlcModel.Param.Lemmas
/-!
`entryMap S` (the model of `entry_map_`): its entries are exactly the (key, position, field) triples of
the schema when the keys are pairwise distinct.  Core Lean only.
-/
namespace DmlcModel.Param
open DmlcModel

theorem bytesLt_total : ∀ (a b : Bytes), bytesLt a b = false → bytesLt b a = false → a = b := by
  intro a
  induction a with
  | nil => intro b h1 h2; cases b with
    | nil => rfl
    | cons y ys => simp [bytesLt] at h1
  | cons x xs ih =>
    intro b h1 h2
    cases b with
    | nil => simp [bytesLt] at h2
    | cons y ys =>
      unfold bytesLt at h1 h2
      by_cases hxy : x.toNat < y.toNat
      · simp [hxy] at h1
      · by_cases hyx : y.toNat < x.toNat
        · simp [hyx] at h2
        · simp [hxy, hyx] at h1 h2
          have : x.toNat = y.toNat := by omega
          have hx : x = y := UInt8.toNat_inj.mp this
          rw [hx, ih ys h1 h2]

theorem bytesLt_irrefl : ∀ (a : Bytes), bytesLt a a = false := by
  intro a
  induction a with
  | nil => rfl
  | cons x xs ih => simp [bytesLt, ih]

theorem mem_mapInsert {α : Type} (k : Bytes) (v : α) :
    ∀ (m : List (Bytes × α)) (x : Bytes × α), x ∈ mapInsert k v m → x = (k, v) ∨ x ∈ m := by
  intro m
  induction m with
  | nil => intro x h; simp [mapInsert] at h; exact Or.inl h
  | cons e rest ih =>
    intro x h
    obtain ⟨k', v'⟩ := e
    unfold mapInsert at h
    by_cases h1 : bytesLt k k' = true
    · simp only [h1, if_true] at h
      rcases List.mem_cons.mp h with h | h
      · exact Or.inl h
      · exact Or.inr h
    · by_cases h2 : bytesLt k' k = true
      · simp only [h1, h2, if_true] at h
        rcases List.mem_cons.mp h with h | h
        · exact Or.inr (h ▸ List.mem_cons_self ..)
        · rcases ih x h with h | h
          · exact Or.inl h
          · exact Or.inr (List.mem_cons_of_mem _ h)
      · simp only [h1, h2] at h
        rcases List.mem_cons.mp h with h | h
        · exact Or.inl h
        · exact Or.inr (List.mem_cons_of_mem _ h)

theorem mem_mapInsert_self {α : Type} (k : Bytes) (v : α) :
    ∀ (m : List (Bytes × α)), (k, v) ∈ mapInsert k v m := by
  intro m
  induction m with
  | nil => simp [mapInsert]
  | cons e rest ih =>
    obtain ⟨k', v'⟩ := e
    unfold mapInsert
    by_cases h1 : bytesLt k k' = true
    · simp [h1]
    · by_cases h2 : bytesLt k' k = true
      · simp only [h1, h2, if_true]
        exact List.mem_cons_of_mem _ ih
      · simp [h1, h2]

theorem mem_mapInsert_of_mem {α : Type} (k : Bytes) (v : α) :
    ∀ (m : List (Bytes × α)) (x : Bytes × α), x ∈ m → x.1 ≠ k → x ∈ mapInsert k v m := by
  intro m
  induction m with
  | nil => intro x h; simp at h
  | cons e rest ih =>
    intro x h hne
    obtain ⟨k', v'⟩ := e
    unfold mapInsert
    by_cases h1 : bytesLt k k' = true
    · simp only [h1, if_true]
      exact List.mem_cons_of_mem _ h
    · by_cases h2 : bytesLt k' k = true
      · simp only [h1, h2, if_true]
        rcases List.mem_cons.mp h with h | h
        · exact h ▸ List.mem_cons_self ..
        · exact List.mem_cons_of_mem _ (ih x h hne)
      · simp only [h1, h2]
        have hk : k = k' := bytesLt_total k k' (by simpa using h1) (by simpa using h2)
        rcases List.mem_cons.mp h with h | h
        · subst h; exact absurd hk.symm hne
        · exact List.mem_cons_of_mem _ h

/-- folding `mapInsert` never invents entries -/
theorem mem_foldl_mapInsert {α : Type} :
    ∀ (L acc : List (Bytes × α)) (x : Bytes × α),
      x ∈ L.foldl (fun m e => mapInsert e.1 e.2 m) acc → x ∈ acc ∨ x ∈ L := by
  intro L
  induction L with
  | nil => intro acc x h; exact Or.inl h
  | cons e rest ih =>
    intro acc x h
    simp only [List.foldl_cons] at h
    rcases ih _ x h with h | h
    · rcases mem_mapInsert e.1 e.2 acc x h with h | h
      · exact Or.inr (h ▸ List.mem_cons_self ..)
      · exact Or.inl h
    · exact Or.inr (List.mem_cons_of_mem _ h)

/-- with pairwise distinct keys nothing is overwritten -/
theorem foldl_mapInsert_mem {α : Type} :
    ∀ (L acc : List (Bytes × α)),
      (L.map (·.1)).Nodup → (∀ a ∈ acc, ∀ e ∈ L, a.1 ≠ e.1) →
      ∀ x, x ∈ acc ∨ x ∈ L → x ∈ L.foldl (fun m e => mapInsert e.1 e.2 m) acc := by
  intro L
  induction L with
  | nil => intro acc _ _ x h; rcases h with h | h; exact h; simp at h
  | cons e rest ih =>
    intro acc hnd hdis x h
    simp only [List.foldl_cons]
    have hnd' : (rest.map (·.1)).Nodup := by
      simp only [List.map_cons, List.nodup_cons] at hnd; exact hnd.2
    have hk : ∀ e' ∈ rest, e'.1 ≠ e.1 := by
      simp only [List.map_cons, List.nodup_cons] at hnd
      intro e' he' heq
      exact hnd.1 (heq ▸ List.mem_map_of_mem (f := (·.1)) he')
    apply ih (mapInsert e.1 e.2 acc) hnd'
    · intro a ha e' he'
      rcases mem_mapInsert e.1 e.2 acc a ha with h | h
      · subst h; exact fun heq => hk e' he' heq.symm
      · exact hdis a h e' (List.mem_cons_of_mem _ he')
    · rcases h with h | h
      · exact Or.inl (mem_mapInsert_of_mem e.1 e.2 acc x h (hdis x h e (List.mem_cons_self ..)))
      · rcases List.mem_cons.mp h with h | h
        · subst h; exact Or.inl (mem_mapInsert_self _ _ acc)
        · exact Or.inr h

theorem mem_allEntries : ∀ (S : Schema) (n : Nat) (e : Bytes × Nat × Field),
    e ∈ allEntries n S ↔ ∃ i f, S[i]? = some f ∧ e = (e.1, n + i, f) ∧ e.1 ∈ fieldKeys f := by
  intro S
  induction S with
  | nil => intro n e; simp [allEntries]
  | cons g gs ih =>
    intro n e
    simp only [allEntries, List.mem_append, fieldEntries, List.mem_map]
    constructor
    · rintro (⟨k, hk, rfl⟩ | h)
      · exact ⟨0, g, by simp, by simp, hk⟩
      · obtain ⟨i, f, hi, he, hk⟩ := (ih (n + 1) e).mp h
        exact ⟨i + 1, f, by simpa using hi, by rw [he]; simp; omega, hk⟩
    · rintro ⟨i, f, hi, he, hk⟩
      cases i with
      | zero =>
        simp at hi
        subst hi
        exact Or.inl ⟨e.1, hk, by rw [he]; simp⟩
      | succ j =>
        right
        exact (ih (n + 1) e).mpr ⟨j, f, by simpa using hi, by rw [he]; simp; omega, hk⟩

theorem allEntries_keys : ∀ (S : Schema) (n : Nat), (allEntries n S).map (·.1) = allKeys S := by
  intro S
  induction S with
  | nil => intro n; rfl
  | cons g gs ih =>
    intro n
    simp only [allEntries, List.map_append, ih (n + 1), allKeys, List.flatMap_cons, fieldEntries, List.map_map]
    congr 1
    induction fieldKeys g with
    | nil => rfl
    | cons a as iha => simp [iha]

/-- every entry of `entry_map_` is a key of the field it points to -/
theorem entryMap_sound (S : Schema) (e : Bytes × Nat × Field) (h : e ∈ entryMap S) :
    S[e.2.1]? = some e.2.2 ∧ e.1 ∈ fieldKeys e.2.2 := by
  rcases mem_foldl_mapInsert (allEntries 0 S) [] e h with h | h
  · simp at h
  · obtain ⟨i, f, hi, he, hk⟩ := (mem_allEntries S 0 e).mp h
    rw [he]
    simpa using ⟨hi, hk⟩

/-- with pairwise distinct keys every key of every field has its entry -/
theorem entryMap_complete (S : Schema) (hd : (allKeys S).Nodup) (i : Nat) (f : Field) (k : Bytes)
    (hi : S[i]? = some f) (hk : k ∈ fieldKeys f) : (k, i, f) ∈ entryMap S := by
  apply foldl_mapInsert_mem (allEntries 0 S) []
  · rw [allEntries_keys]; exact hd
  · intro a ha; simp at ha
  · right
    exact (mem_allEntries S 0 (k, i, f)).mpr ⟨i, f, hi, by simp, hk⟩

end DmlcModel.Param
