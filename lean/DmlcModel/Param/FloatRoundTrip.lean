import DmlcModel.Param.Lemmas
import DmlcModel.Param.FloatC14
import DmlcModel.Props.C14
/-!
float / double fields with the C14 model of `dmlc::stof` / `stod` as conversion: what C14 proves about re-reading
a printed value (`C14_accuracy_partial`, `C14_endptr`), transported to `FieldEntry<float/double>::Set`.
-/
namespace DmlcModel.Param
open DmlcModel DmlcModel.StrToNum DmlcModel.Props.C14

theorem cstr_append_nul : ∀ (t : Bytes), (0 : Byte) ∉ t → cstr (t ++ [0]) = t ++ [0] := by
  intro t
  induction t with
  | nil => intro _; simp [cstr]
  | cons c cs ih =>
    intro h
    have hc : c ≠ 0 := fun hc => h (by simp [hc])
    have hcs : (0 : Byte) ∉ cs := fun hm => h (List.mem_cons_of_mem _ hm)
    simp [cstr, hc, ih hcs]

/-- the contract a printed float must meet for C14's accuracy theorem to apply: the whole text is one decimal
lexeme (C14's grammar `scanNum`) within the documented limits of `ParseFloat` -/
structure PrintedDecimal (f : StrToNum.Fmt) (t : Bytes) (l : Lexeme) : Prop where
  nonul : (0 : Byte) ∉ t
  whole : scanNum (t ++ [0]) = some (.dec l, t.length)
  intDigits : l.intDigits.length ≤ 19
  fracDigits : l.fracDigits.length ≤ 19 ∨ μ f ≤ mantissaValue l
  exponent : ∀ eneg eds, l.exp = some (eneg, eds) →
    StrToNum.digitsVal eds ≤ kMaxExponent f ∧ minNormal f * (1 + δ) ≤ absQ (decimalValue l) ∧
    absQ (decimalValue l) * (1 + δ) ≤ ovfl f

/-- **C14 applied to a printed decimal**: `stof`/`stod` consume the whole text and return a finite value with
the sign of the text whose magnitude is within `tol` = 1e-6 (float) / 1e-14 (double), relatively, of the decimal
value printed — whatever `errno` was before. -/
theorem c14Conv_printed (f : StrToNum.Fmt) (stale : Bool) (t : Bytes) (l : Lexeme) (hp : PrintedDecimal f t l) :
    ∃ q, c14Conv f stale t = .ok ((⟨l.neg, .fin q⟩ : FVal).bits f) t.length ∧
      Approx (tol f) q (absQ (decimalValue l)) := by
  have h0 : (0 : Byte) ∈ t ++ [0] := by simp
  have hc := cstr_append_nul t hp.nonul
  have hl : lexemeOf (cstr (t ++ [0])) = some l := by rw [hc]; simp [lexemeOf, hp.whole]
  obtain ⟨r, q, hr, hv, her, ha⟩ := C14_accuracy_partial f true (t ++ [0]) l h0 hl hp.intDigits hp.fracDigits hp.exponent
  obtain ⟨r', hr', hend⟩ := C14_endptr f true (t ++ [0]) h0
  rw [hr] at hr'
  simp only [Except.ok.injEq] at hr'
  subst hr'
  have hnp : numPrefix (cstr (t ++ [0])) = some t.length := by rw [hc]; simp [numPrefix, hp.whole]
  rw [hnp] at hend
  simp only [Option.getD_some] at hend
  have hpos : 0 < t.length := numPrefix_pos hnp
  refine ⟨q, ?_, ha⟩
  have hne : t ≠ [] := by intro h; rw [h] at hpos; simp at hpos
  have he0 : (r.endIdx == 0) = false := by
    rw [hend]; simpa using hne
  simp [c14Conv, sto, hr, her, he0, hv, hend, ERANGE, hne]

/-- `Set` + `Check` of a float/double field on a printed decimal, with the C14 conversion -/
theorem float_field_reparse (stale : Bool) (p32 p64 : Nat → Bytes) (fld : Field) (f : StrToNum.Fmt)
    (hty : (f = .F32 ∧ fld.ty = .float) ∨ (f = .F64 ∧ fld.ty = .double))
    (t : Bytes) (l : Lexeme) (hp : PrintedDecimal f t l)
    (hck : ∀ q, Approx (tol f) q (absQ (decimalValue l)) → check fld (.flt ((⟨l.neg, .fin q⟩ : FVal).bits f)) = none) :
    ∃ q, parse (opsC14 stale p32 p64) fld t = .ok (.flt ((⟨l.neg, .fin q⟩ : FVal).bits f)) ∧
      Approx (tol f) q (absQ (decimalValue l)) := by
  obtain ⟨q, hc, ha⟩ := c14Conv_printed f stale t l hp
  refine ⟨q, ?_, ha⟩
  unfold parse applyArg setVal
  rcases hty with ⟨rfl, hty⟩ | ⟨rfl, hty⟩
  · simp [hty, opsC14, setFloat, hc, hck q ha]
  · simp [hty, opsC14, setFloat, hc, hck q ha]

/-- a field without declared bounds passes `Check` with any value -/
theorem check_unranged (fld : Field) (v : Val) (hlo : fld.lo = none) (hhi : fld.hi = none) : check fld v = none := by
  unfold check
  by_cases hc : hasCheck fld.ty = true
  · simp [hc, hlo, hhi, Gen.Param.chkBoth, Gen.Param.chkLowerFail, Gen.Param.chkUpperFail]
  · simp [hc]

end DmlcModel.Param
