import DmlcModel.Param.RunSpec
import DmlcModel.Param.Spec
import DmlcModel.Json.RoundTrip
/-! dictionary / JSON forms (lemmas for the round-trip theorems).  Core Lean only. -/
namespace DmlcModel.Param
open DmlcModel

/-- entries of `GetDict` correspond one to one to the entries of `entry_map_` -/
theorem getDictAux_spec (ops : FloatOps) (st : Struct) :
    ∀ (L : List (Bytes × Nat × Field)) (kvs : List KV), getDictAux ops st L = .ok kvs →
      (∀ kv ∈ kvs, ∃ e ∈ L, e.1 = kv.1 ∧ getString ops e.2.2 (st e.2.1) = .ok kv.2) ∧
      (∀ e ∈ L, ∃ kv ∈ kvs, e.1 = kv.1 ∧ getString ops e.2.2 (st e.2.1) = .ok kv.2) := by
  intro L
  induction L with
  | nil => intro kvs h; simp [getDictAux] at h; subst h; simp
  | cons e rest ih =>
    intro kvs h
    obtain ⟨k, i, f⟩ := e
    unfold getDictAux at h
    cases hs : getString ops f (st i) with
    | error er => simp [hs] at h
    | ok s =>
      simp only [hs] at h
      cases hr : getDictAux ops st rest with
      | error er => simp [hr] at h
      | ok r =>
        simp only [hr, Except.ok.injEq] at h
        subst h
        obtain ⟨h1, h2⟩ := ih r hr
        constructor
        · intro kv hkv
          rcases List.mem_cons.mp hkv with rfl | hkv
          · exact ⟨(k, i, f), List.mem_cons_self .., rfl, hs⟩
          · obtain ⟨e, he, h⟩ := h1 kv hkv
            exact ⟨e, List.mem_cons_of_mem _ he, h⟩
        · intro e he
          rcases List.mem_cons.mp he with rfl | he
          · exact ⟨(k, s), List.mem_cons_self .., rfl, hs⟩
          · obtain ⟨kv, hkv, h⟩ := h2 e he
            exact ⟨kv, List.mem_cons_of_mem _ hkv, h⟩

theorem lastOccK_some_mem (keys : List Bytes) : ∀ (kw : List KV) (t : Bytes),
    lastOccK keys kw = some t → ∃ k ∈ keys, (k, t) ∈ kw := by
  intro kw
  induction kw with
  | nil => intro t h; simp [lastOccK] at h
  | cons kv rest ih =>
    intro t h
    obtain ⟨k, v⟩ := kv
    simp only [lastOccK] at h
    cases hr : lastOccK keys rest with
    | some t' =>
      simp only [hr, Option.some.injEq] at h
      subst h
      obtain ⟨k', hk', hm⟩ := ih t' hr
      exact ⟨k', hk', List.mem_cons_of_mem _ hm⟩
    | none =>
      simp only [hr] at h
      by_cases hk : k ∈ keys
      · simp only [hk, if_true, Option.some.injEq] at h
        subst h
        exact ⟨k, hk, List.mem_cons_self ..⟩
      · simp [hk] at h

/-- **struct level**: if every field's string form parses back to a related value, `Init` from the
dictionary form succeeds and yields a related struct -/
theorem dict_reinit (ops : FloatOps) (S : Schema) (hS : (allKeys S).Nodup) (R : Field → Val → Val → Prop)
    (st : Struct) (kvs : List KV) (hd : dict ops S st = .ok kvs)
    (H : ∀ i f, S[i]? = some f → ∀ s, getString ops f (st i) = .ok s → ∃ v', parse ops f s = .ok v' ∧ R f (st i) v')
    (option : Nat) (collect : Bool) (st0 : Struct) :
    (runInit ops S option collect st0 kvs).err = none ∧
    (runInit ops S option collect st0 kvs).unk = [] ∧
    ∀ i f, S[i]? = some f → R f (st i) ((runInit ops S option collect st0 kvs).st i) := by
  obtain ⟨h1, h2⟩ := getDictAux_spec ops st (entryMap S) kvs hd
  -- every entry is a registered key whose text parses
  have hfind : ∀ kv ∈ kvs, ∃ i f, find S kv.1 = some (i, f) ∧ getString ops f (st i) = .ok kv.2 := by
    intro kv hkv
    obtain ⟨e, he, hk, hs⟩ := h1 kv hkv
    obtain ⟨hs1, hs2⟩ := entryMap_sound S e he
    exact ⟨e.2.1, e.2.2, by rw [← hk]; exact find_of_mem S hS _ _ _ hs1 hs2, hs⟩
  have hargs : ∀ kv ∈ kvs, argErr ops S option collect kv = none := by
    intro kv hkv
    obtain ⟨i, f, hf, hs⟩ := hfind kv hkv
    obtain ⟨v', hp, _⟩ := H i f (find_sound S _ i f hf).1 kv.2 hs
    unfold argErr
    simp only [hf]
    unfold parse at hp
    rcases ha : applyArg ops f (zeroVal f.ty) kv.2 with ⟨nv, e⟩
    rw [ha] at hp
    cases e with
    | none => rfl
    | some e => simp at hp
  have hfe : firstErr ops S option collect kvs = none := (firstErr_eq_none_iff ops S option collect kvs).mpr hargs
  have hment : ∀ (i : Nat) (f : Field), S[i]? = some f → lastOccK (fieldKeys f) kvs ≠ none := by
    intro i f hi hn
    have hm := entryMap_complete S hS i f f.name hi (by simp [fieldKeys])
    obtain ⟨kv, hkv, hk, _⟩ := h2 _ hm
    exact (lastOccK_none_iff (fieldKeys f) kvs).mp hn kv hkv (by rw [← hk]; simp [fieldKeys])
  have herr : (runInit ops S option collect st0 kvs).err = none := by
    cases he : (runInit ops S option collect st0 kvs).err with
    | none => rfl
    | some e =>
      exfalso
      rcases (runInit_error_iff ops S hS option collect st0 kvs e).mp he with h | ⟨_, _, i, f, hi, _, hl⟩
      · rw [hfe] at h; cases h
      · exact hment i f hi hl
  refine ⟨herr, ?_, ?_⟩
  · obtain ⟨_, hu⟩ := runInit_ok_spec ops S hS option collect st0 kvs herr
    rw [hu]
    cases collect
    · rfl
    · simp only [if_true, List.filter_eq_nil_iff]
      intro kv hkv
      obtain ⟨i, f, hf, _⟩ := hfind kv hkv
      simp [hf]
  · intro i f hi
    obtain ⟨hv, _⟩ := runInit_ok_spec ops S hS option collect st0 kvs herr
    have := hv i f hi
    cases hl : lastOccK (fieldKeys f) kvs with
    | none => exact absurd hl (hment i f hi)
    | some t =>
      rw [hl] at this
      simp only at this
      obtain ⟨k, hk, hm⟩ := lastOccK_some_mem _ _ _ hl
      obtain ⟨i', f', hf', hs⟩ := hfind (k, t) hm
      have hff := find_of_mem S hS i f k hi hk
      rw [hff] at hf'
      simp only [Option.some.injEq, Prod.mk.injEq] at hf'
      obtain ⟨rfl, rfl⟩ := hf'
      obtain ⟨v', hp, hR⟩ := H i f hi t hs
      rw [hp] at this
      simp only [Except.ok.injEq] at this
      rw [← this]
      exact hR

/-! ### field level: printing then parsing -/

theorem lookupEnum_of_mem : ∀ (enums : List (Bytes × Int)) (n : Bytes) (x : Int),
    (enums.map (·.1)).Nodup → (n, x) ∈ enums → lookupEnum enums n = some x := by
  intro enums
  induction enums with
  | nil => intro n x _ h; simp at h
  | cons e rest ih =>
    intro n x hnd hm
    obtain ⟨n', x'⟩ := e
    simp only [List.map_cons, List.nodup_cons] at hnd
    unfold lookupEnum
    rcases List.mem_cons.mp hm with h | h
    · simp only [Prod.mk.injEq] at h
      obtain ⟨rfl, rfl⟩ := h
      simp [List.find?]
    · have hne : n' ≠ n := by
        intro heq; subst heq
        exact hnd.1 (List.mem_map_of_mem (f := (·.1)) h)
      have hb : (n' == n) = false := by simpa using hne
      simp only [List.find?, hb]
      have := ih n x hnd.2 h
      unfold lookupEnum at this
      exact this

theorem enumName_mem (enums : List (Bytes × Int)) (x : Int) (n : Bytes)
    (h : enumName enums x = some n) : (n, x) ∈ enums := by
  unfold enumName at h
  cases hf : enums.find? (fun e => e.2 == x) with
  | none => simp [hf] at h
  | some p =>
    obtain ⟨n', x'⟩ := p
    simp only [hf, Option.some.injEq] at h
    subst h
    have h1 := List.find?_some hf
    have h2 := List.mem_of_find?_eq_some hf
    simp only [beq_iff_eq] at h1
    subst h1
    exact h2

/-- the value has the field's C++ type (machine range included) -/
def WellTyped (f : Field) (v : Val) : Prop :=
  match f.ty, v with
  | .int, .int x => inKind .i32 x
  | .uint, .int x => inKind .u32 x
  | .int64, .int x => inKind .i64 x
  | .enumInt, .int _ => True
  | .bool, .bool _ => True
  | .string, .str _ => True
  | .optInt, .oint none => True
  | .optInt, .oint (some x) => inKind .i32 x
  | .optEnum, .oint _ => True
  | .optBool, .obool _ => True
  | .float, .flt _ => True
  | .double, .flt _ => True
  | _, _ => False

/-- enumerator names are distinct, and `None` is reserved (`add_enum` enforces both) -/
def EnumNamesOk (f : Field) : Prop := (f.enums.map (·.1)).Nodup ∧ ∀ e ∈ f.enums, e.1 ≠ bNone

/-- **field level** (all kinds but float/double): the string form of a well-typed value that passes
`Check` is a literal denoting that value, so `Set`+`Check` on it give the value back -/
theorem field_roundtrip (ops : FloatOps) (f : Field) (hE : EnumsInRange f) (hN : EnumNamesOk f) (v : Val)
    (hnf : f.ty ≠ .float ∧ f.ty ≠ .double) (hwt : WellTyped f v) (hck : check f v = none) (s : Bytes)
    (hs : getString ops f v = .ok s) : parse ops f s = .ok v := by
  have hlit : literal ops f s = some v := by
    unfold literal
    unfold getString at hs
    unfold WellTyped at hwt
    cases hty : f.ty <;> rw [hty] at hs hwt <;> simp only [hty] <;> cases v <;> simp only at hs hwt
    all_goals first | (exact absurd hty hnf.1) | (exact absurd hty hnf.2) | skip
    case int.int x => cases hs; simp [intLit_decimal .i32 x hwt]
    case uint.int x => cases hs; simp [intLit_decimal .u32 x hwt]
    case int64.int x => cases hs; simp [intLit_decimal .i64 x hwt]
    case bool.bool b => cases hs; cases b <;> decide
    case string.str t => cases hs; rfl
    case enumInt.int x =>
      cases hn : enumName f.enums x with
      | none => simp [hn] at hs
      | some n =>
        simp only [hn, Except.ok.injEq] at hs
        subst hs
        simp [lookupEnum_of_mem f.enums n x hN.1 (enumName_mem _ _ _ hn)]
    case optInt.oint o =>
      cases o with
      | none => simp only at hs; cases hs; decide
      | some x => simp only at hs hwt; cases hs; simp [optIntLit_decimal x hwt]
    case optEnum.oint o =>
      cases o with
      | none => simp only at hs; cases hs; simp
      | some x =>
        simp only at hs
        cases hn : enumName f.enums x with
        | none => simp [hn] at hs
        | some n =>
          simp only [hn, Except.ok.injEq] at hs
          subst hs
          have hm := enumName_mem _ _ _ hn
          simp [hN.2 _ hm, lookupEnum_of_mem f.enums n x hN.1 hm]
    case optBool.obool o =>
      cases o with
      | none => simp only at hs; cases hs; decide
      | some b => simp only at hs; cases hs; cases b <;> decide
  unfold parse applyArg
  rw [(set_ok_iff_literal ops f hE (zeroVal f.ty) s).1 v hlit]
  simp [hck]

/-! ### JSON form: the dictionary is a key-sorted `std::map`, so C16's round trip applies -/

theorem bytesLt_eq_json : ∀ a b : Bytes, bytesLt a b = Json.bytesLt a b := by
  intro a
  induction a with
  | nil => intro b; cases b <;> rfl
  | cons x xs ih =>
    intro b
    cases b with
    | nil => rfl
    | cons y ys =>
      simp only [bytesLt, Json.bytesLt, ih ys]
      by_cases h1 : x.toNat < y.toNat
      · have : x < y := UInt8.lt_iff_toNat_lt.mpr h1
        simp [h1, this]
      · by_cases h2 : y.toNat < x.toNat
        · have hn : ¬ x < y := fun h => h1 (UInt8.lt_iff_toNat_lt.mp h)
          have hne : x ≠ y := by intro h; subst h; omega
          simp [h1, h2, hn, hne]
        · have hxy : x = y := UInt8.toNat_inj.mp (by omega)
          subst hxy
          simp [h1]

/-- keys strictly increasing above a lower bound -/
def chainK (lb : Bytes) : List Bytes → Prop
  | [] => True
  | k :: rest => bytesLt lb k = true ∧ chainK k rest

/-- keys strictly increasing -/
def incK : List Bytes → Prop
  | [] => True
  | k :: rest => chainK k rest

theorem mapInsert_chainK {α : Type} (k : Bytes) (v : α) :
    ∀ (m : List (Bytes × α)) (lb : Bytes), chainK lb (m.map (·.1)) → bytesLt lb k = true →
      chainK lb ((mapInsert k v m).map (·.1)) := by
  intro m
  induction m with
  | nil => intro lb _ h; simp [mapInsert, chainK, h]
  | cons e rest ih =>
    intro lb hc hk
    obtain ⟨k', v'⟩ := e
    simp only [List.map_cons, chainK] at hc
    unfold mapInsert
    by_cases h1 : bytesLt k k' = true
    · simp only [h1, if_true, List.map_cons, chainK]
      exact ⟨hk, trivial, hc.2⟩
    · by_cases h2 : bytesLt k' k = true
      · simp only [h1, h2, if_true, List.map_cons, chainK]
        exact ⟨hc.1, ih k' hc.2 h2⟩
      · have hkk : k = k' := bytesLt_total k k' (by simpa using h1) (by simpa using h2)
        subst hkk
        simp only [h1, List.map_cons, chainK]
        exact ⟨hk, hc.2⟩

theorem mapInsert_incK {α : Type} (k : Bytes) (v : α) (m : List (Bytes × α)) (h : incK (m.map (·.1))) :
    incK ((mapInsert k v m).map (·.1)) := by
  cases m with
  | nil => simp [mapInsert, incK, chainK]
  | cons e rest =>
    obtain ⟨k', v'⟩ := e
    simp only [List.map_cons, incK] at h
    unfold mapInsert
    by_cases h1 : bytesLt k k' = true
    · simp only [h1, if_true, List.map_cons, incK, chainK]
      exact ⟨trivial, h⟩
    · by_cases h2 : bytesLt k' k = true
      · simp only [h1, h2, if_true, List.map_cons, incK]
        exact mapInsert_chainK k v rest k' h h2
      · have hkk : k = k' := bytesLt_total k k' (by simpa using h1) (by simpa using h2)
        subst hkk
        simp only [h1, List.map_cons, incK]
        exact h

theorem foldl_mapInsert_incK {α : Type} : ∀ (L acc : List (Bytes × α)), incK (acc.map (·.1)) →
    incK ((L.foldl (fun m e => mapInsert e.1 e.2 m) acc).map (·.1)) := by
  intro L
  induction L with
  | nil => intro acc h; exact h
  | cons e rest ih => intro acc h; exact ih _ (mapInsert_incK e.1 e.2 acc h)

/-- `entry_map_` iterates in strictly increasing key order -/
theorem entryMap_incK (S : Schema) : incK ((entryMap S).map (·.1)) :=
  foldl_mapInsert_incK (allEntries 0 S) [] (by simp [incK])

theorem getDictAux_keys (ops : FloatOps) (st : Struct) :
    ∀ (L : List (Bytes × Nat × Field)) (kvs : List KV), getDictAux ops st L = .ok kvs →
      kvs.map (·.1) = L.map (·.1) := by
  intro L
  induction L with
  | nil => intro kvs h; simp [getDictAux] at h; subst h; rfl
  | cons e rest ih =>
    intro kvs h
    obtain ⟨k, i, f⟩ := e
    unfold getDictAux at h
    cases hs : getString ops f (st i) with
    | error er => simp [hs] at h
    | ok s =>
      simp only [hs] at h
      cases hr : getDictAux ops st rest with
      | error er => simp [hr] at h
      | ok r =>
        simp only [hr, Except.ok.injEq] at h
        subst h
        simp [ih r hr]

/-- the dictionary form has strictly increasing keys -/
theorem dict_incK (ops : FloatOps) (S : Schema) (st : Struct) (kvs : List KV) (h : dict ops S st = .ok kvs) :
    incK (kvs.map (·.1)) := by
  rw [getDictAux_keys ops st (entryMap S) kvs h]
  exact entryMap_incK S

theorem chainK_json (lb : Bytes) : ∀ (kvs : List KV), chainK lb (kvs.map (·.1)) →
    Json.keysIncreasing ((lb, Json.Val.str []) :: (kvs.map fun kv => (kv.1, Json.Val.str kv.2))) = true := by
  intro kvs
  induction kvs generalizing lb with
  | nil => intro _; rfl
  | cons e rest ih =>
    intro h
    simp only [List.map_cons, chainK] at h
    simp only [List.map_cons, Json.keysIncreasing, Bool.and_eq_true]
    refine ⟨by rw [← bytesLt_eq_json]; exact h.1, ?_⟩
    have := ih e.1 h.2
    cases hr : rest with
    | nil => rfl
    | cons e2 r2 =>
      rw [hr] at this
      simp only [List.map_cons, Json.keysIncreasing, Bool.and_eq_true] at this ⊢
      exact this

theorem toJson_hasType (kvs : List KV) (h : incK (kvs.map (·.1))) :
    Json.hasType jsonMapTy (toJson kvs) = true := by
  unfold jsonMapTy toJson
  simp only [Json.hasType, Bool.and_eq_true, List.all_map, List.all_eq_true]
  refine ⟨?_, fun kv _ => by simp [Json.hasType]⟩
  cases kvs with
  | nil => rfl
  | cons e rest =>
    simp only [List.map_cons, incK] at h
    have := chainK_json e.1 rest h
    cases hr : rest with
    | nil => rfl
    | cons e2 r2 =>
      rw [hr] at this
      simp only [List.map_cons, Json.keysIncreasing, Bool.and_eq_true] at this ⊢
      exact this

theorem ofJson_toJson (kvs : List KV) : ofJson (toJson kvs) = some kvs := by
  unfold toJson ofJson
  induction kvs with
  | nil => rfl
  | cons e rest ih => simp [ofJsonPairs, ofJsonStr, ih]

/-- **the map reader inverts the map writer** on every key-sorted `map<string,string>` (instance of the
C16 round trip `readTop_writeTop` at `std::map<std::string, std::string>`) -/
theorem json_map_roundtrip (kvs : List KV) (h : incK (kvs.map (·.1))) :
    ∃ bs, jsonWriteMap kvs = some bs ∧ jsonReadMap bs = some kvs := by
  have ht := toJson_hasType kvs h
  obtain ⟨bs, hw, st, hr, _, _⟩ := Json.readTop_writeTop jsonMapTy (toJson kvs) (by decide) ht [] rfl
  rw [Json.canon_eq_self jsonMapTy (toJson kvs) (by decide) ht, List.append_nil] at hr
  refine ⟨bs, by simp [jsonWriteMap, hw], ?_⟩
  simp [jsonReadMap, hr, ofJson_toJson]

end DmlcModel.Param
