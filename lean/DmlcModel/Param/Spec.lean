import DmlcModel.Param.Lemmas
/-!
"Entirely a valid literal of the field's type", per type, as recognisers written independently of the
stream mechanics of the model (`takeWhile` / `dropWhile`, positional value, range test), and the
theorems linking them to the mirrored `Set` functions (`set_ok_iff_literal`).  Core Lean only.
-/
namespace DmlcModel.Param
open DmlcModel

theorem skipWs_eq : ∀ s : Bytes, skipWs s = s.dropWhile cIsSpace := by
  intro s
  induction s with
  | nil => rfl
  | cons c cs ih => by_cases h : cIsSpace c = true <;> simp [skipWs, List.dropWhile, h, ih]

theorem wsRest_eq : ∀ s : Bytes, wsRest s = s.all (fun c => Gen.Param.dmlcIsSpace c.toNat) := by
  intro s
  induction s with
  | nil => rfl
  | cons c cs ih => by_cases h : Gen.Param.dmlcIsSpace c.toNat = true <;> simp [wsRest, h, ih]

/-- positional value of a digit string, continuing from `tv` -/
def digitsVal (tv : Nat) (ds : Bytes) : Nat := ds.foldl (fun a c => a * 10 + (c.toNat - 48)) tv

/-- the overflow-detecting digit loop computes the positional value and flags exactly `value > max` -/
theorem digitsLoop_spec (max : Nat) (hmax : 9 ≤ max) :
    ∀ (s : Bytes) (acc : Nat) (ovf : Bool) (n tv : Nat),
      ((ovf = false → acc = tv ∧ tv ≤ max) ∧ (ovf = true → tv > max)) →
      (digitsLoop max acc ovf n s).2.1 = decide (digitsVal tv (s.takeWhile isDigit) > max) ∧
      (digitsLoop max acc ovf n s).2.2.1 = n + (s.takeWhile isDigit).length ∧
      (digitsLoop max acc ovf n s).2.2.2 = s.dropWhile isDigit ∧
      (digitsVal tv (s.takeWhile isDigit) ≤ max → (digitsLoop max acc ovf n s).1 = digitsVal tv (s.takeWhile isDigit)) := by
  intro s
  induction s with
  | nil =>
    intro acc ovf n tv hinv
    cases ovf with
    | false => have := hinv.1 rfl; simp [digitsLoop, digitsVal]; omega
    | true => have := hinv.2 rfl; simp [digitsLoop, digitsVal]; omega
  | cons c cs ih =>
    intro acc ovf n tv hinv
    by_cases hd : isDigit c = true
    · have hd' : 48 ≤ c.toNat ∧ c.toNat ≤ 57 := by simpa [isDigit] using hd
      have htw : (c :: cs).takeWhile isDigit = c :: cs.takeWhile isDigit := by simp [List.takeWhile, hd]
      have hdw : (c :: cs).dropWhile isDigit = cs.dropWhile isDigit := by simp [List.dropWhile, hd]
      have hval : ∀ ds, digitsVal tv (c :: ds) = digitsVal (tv * 10 + (c.toNat - 48)) ds := by
        intro ds; simp [digitsVal]
      rw [htw, hdw, hval]
      by_cases hbig : acc > max / 10
      · have hstep : digitsLoop max acc ovf n (c :: cs) = digitsLoop max acc true (n + 1) cs := by
          simp [digitsLoop, hd, hbig]
        rw [hstep]
        have hnew : ((true = false → acc = tv * 10 + (c.toNat - 48) ∧ tv * 10 + (c.toNat - 48) ≤ max) ∧
            (true = true → tv * 10 + (c.toNat - 48) > max)) := by
          refine ⟨(fun h => by cases h), fun _ => ?_⟩
          cases ovf with
          | false => have := hinv.1 rfl; omega
          | true => have := hinv.2 rfl; omega
        have := ih acc true (n + 1) (tv * 10 + (c.toNat - 48)) hnew
        simp only [List.length_cons]
        refine ⟨this.1, by rw [this.2.1]; omega, this.2.2.1, this.2.2.2⟩
      · have hstep : digitsLoop max acc ovf n (c :: cs) =
            digitsLoop max (acc * 10 + (c.toNat - 48)) (ovf || decide (acc * 10 > max - (c.toNat - 48))) (n + 1) cs := by
          simp [digitsLoop, hd, hbig]
        rw [hstep]
        have hnew : (((ovf || decide (acc * 10 > max - (c.toNat - 48))) = false →
              acc * 10 + (c.toNat - 48) = tv * 10 + (c.toNat - 48) ∧ tv * 10 + (c.toNat - 48) ≤ max) ∧
            ((ovf || decide (acc * 10 > max - (c.toNat - 48))) = true → tv * 10 + (c.toNat - 48) > max)) := by
          cases ovf with
          | false =>
            have := hinv.1 rfl
            simp only [Bool.false_or, decide_eq_false_iff_not, decide_eq_true_eq]
            constructor
            · intro h; omega
            · intro h; omega
          | true =>
            have := hinv.2 rfl
            simp only [Bool.true_or]
            refine ⟨(fun h => by cases h), fun _ => by omega⟩
        have := ih _ _ (n + 1) (tv * 10 + (c.toNat - 48)) hnew
        simp only [List.length_cons]
        refine ⟨this.1, by rw [this.2.1]; omega, this.2.2.1, this.2.2.2⟩
    · have htw : (c :: cs).takeWhile isDigit = [] := by simp [List.takeWhile, hd]
      have hdw : (c :: cs).dropWhile isDigit = c :: cs := by simp [List.dropWhile, hd]
      have hstep : digitsLoop max acc ovf n (c :: cs) = (acc, ovf, n, c :: cs) := by
        simp [digitsLoop, hd]
      rw [htw, hdw, hstep]
      cases ovf with
      | false => have := hinv.1 rfl; simp [digitsVal]; omega
      | true => have := hinv.2 rfl; simp [digitsVal]; omega

/-! ### integer literals -/

/-- `[blanks] [sign] digits rest`: sign, magnitude and what follows the digits -/
def intParts (text : Bytes) : Option (Bool × Nat × Bytes) :=
  let t := text.dropWhile cIsSpace
  let ds := (splitSign t).2.takeWhile isDigit
  if t = [] ∨ ds = [] then none
  else some ((splitSign t).1, digitsVal 0 ds, (splitSign t).2.dropWhile isDigit)

/-- the integer denoted at the C++ type, if representable (`-n` into `unsigned` wraps) -/
def intDenote : IntKind → Bool → Nat → Option Int
  | .i32, true, m => if m ≤ 2147483648 then some (-(m : Int)) else none
  | .i32, false, m => if m ≤ 2147483647 then some (m : Int) else none
  | .i64, true, m => if m ≤ 9223372036854775808 then some (-(m : Int)) else none
  | .i64, false, m => if m ≤ 9223372036854775807 then some (m : Int) else none
  | .u32, true, m => if m ≤ 4294967295 then some (((4294967296 - m) % 4294967296 : Nat) : Int) else none
  | .u32, false, m => if m ≤ 4294967295 then some (m : Int) else none

/-- integer literal of kind `k` followed only by blanks (`dmlc::isspace`): the value -/
def intLit (k : IntKind) (text : Bytes) : Option Int :=
  match intParts text with
  | some (neg, m, rest) => if rest.all (fun c => Gen.Param.dmlcIsSpace c.toNat) then intDenote k neg m else none
  | none => none

theorem extractNum_spec (signed : Bool) (bits : Nat) (s : Bytes)
    (hmax : ∀ neg, 9 ≤ extractMax signed bits neg) :
    extractNum signed bits s =
      (if (splitSign s).2.takeWhile isDigit = [] then (0, true, (splitSign s).2.dropWhile isDigit)
       else if digitsVal 0 ((splitSign s).2.takeWhile isDigit) > extractMax signed bits (splitSign s).1 then
         ((if signed && (splitSign s).1 then (-((2 ^ (bits - 1) : Nat) : Int)) else (extractMax signed bits (splitSign s).1 : Int)),
           true, (splitSign s).2.dropWhile isDigit)
       else if (splitSign s).1 then
         ((if signed then - (digitsVal 0 ((splitSign s).2.takeWhile isDigit) : Int)
           else (((2 ^ bits - digitsVal 0 ((splitSign s).2.takeWhile isDigit)) % 2 ^ bits : Nat) : Int)),
           false, (splitSign s).2.dropWhile isDigit)
       else ((digitsVal 0 ((splitSign s).2.takeWhile isDigit) : Int), false, (splitSign s).2.dropWhile isDigit)) := by
  unfold extractNum
  simp only
  have spec := digitsLoop_spec (extractMax signed bits (splitSign s).1) (hmax _) (splitSign s).2 0 false 0 0
    ⟨fun _ => ⟨rfl, Nat.zero_le _⟩, fun h => by cases h⟩
  rcases hl : digitsLoop (extractMax signed bits (splitSign s).1) 0 false 0 (splitSign s).2 with ⟨acc, ovf, n, rest⟩
  rw [hl] at spec
  simp only at spec
  obtain ⟨hovf, hn, hrest, hacc⟩ := spec
  subst hrest
  by_cases hds : (splitSign s).2.takeWhile isDigit = []
  · have : n = 0 := by rw [hn, hds]; rfl
    simp [hds, this]
  · have hlen : (List.takeWhile isDigit (splitSign s).2).length ≠ 0 := by
      intro h; exact hds (List.eq_nil_of_length_eq_zero h)
    have hn0 : (n == 0) = false := by
      rw [hn]; simp; exact hds
    simp only [hn0, hds, if_false, Bool.false_eq_true]
    by_cases hbig : digitsVal 0 ((splitSign s).2.takeWhile isDigit) > extractMax signed bits (splitSign s).1
    · have : ovf = true := by rw [hovf]; simpa using hbig
      simp [this, hbig]
    · have : ovf = false := by rw [hovf]; simpa using hbig
      have hacc' := hacc (by omega)
      simp [this, hbig, hacc']

theorem extractMax_i64 (neg : Bool) : 9 ≤ extractMax true 64 neg := by cases neg <;> simp [extractMax]
theorem extractMax_u32 (neg : Bool) : 9 ≤ extractMax false 32 neg := by cases neg <;> simp [extractMax]

/-- extraction after the sentry, when at least one digit follows the optional sign -/
theorem extractAfterSentry_spec (k : IntKind) (s : Bytes) (hds : (splitSign s).2.takeWhile isDigit ≠ []) :
    (∀ v, intDenote k (splitSign s).1 (digitsVal 0 ((splitSign s).2.takeWhile isDigit)) = some v →
      extractAfterSentry k s = (v, false, (splitSign s).2.dropWhile isDigit)) ∧
    (intDenote k (splitSign s).1 (digitsVal 0 ((splitSign s).2.takeWhile isDigit)) = none →
      (extractAfterSentry k s).2.1 = true ∧ (extractAfterSentry k s).2.2 = (splitSign s).2.dropWhile isDigit) := by
  have hx64 := extractNum_spec true 64 s extractMax_i64
  have hx32 := extractNum_spec false 32 s extractMax_u32
  simp only [hds, if_false] at hx64 hx32
  generalize digitsVal 0 ((splitSign s).2.takeWhile isDigit) = m at hx64 hx32 ⊢
  generalize (splitSign s).2.dropWhile isDigit = rest at hx64 hx32 ⊢
  generalize (splitSign s).1 = neg at hx64 hx32 ⊢
  cases k with
  | u32 =>
    simp only [extractAfterSentry, hx32]
    cases neg with
    | false =>
      by_cases h : m ≤ 4294967295
      · simp [extractMax, intDenote, h, Nat.not_lt.mpr h]
      · simp [extractMax, intDenote, h, Nat.lt_of_not_le h]
    | true =>
      by_cases h : m ≤ 4294967295
      · simp [extractMax, intDenote, h, Nat.not_lt.mpr h]
      · simp [extractMax, intDenote, h, Nat.lt_of_not_le h]
  | i64 =>
    simp only [extractAfterSentry, hx64]
    cases neg with
    | false =>
      by_cases h : m ≤ 9223372036854775807
      · simp [extractMax, intDenote, h, Nat.not_lt.mpr h]
      · simp [extractMax, intDenote, h, Nat.lt_of_not_le h]
    | true =>
      by_cases h : m ≤ 9223372036854775808
      · simp [extractMax, intDenote, h, Nat.not_lt.mpr h]
      · simp [extractMax, intDenote, h, Nat.lt_of_not_le h]
  | i32 =>
    simp only [extractAfterSentry, hx64]
    cases neg with
    | false =>
      by_cases h : m ≤ 2147483647
      · have h1 : ¬ (9223372036854775807 < m) := by omega
        have h2 : ¬ ((m : Int) < -2147483648) := by omega
        have h3 : ¬ ((m : Int) > 2147483647) := by omega
        simp [extractMax, intDenote, h, h1, h2, h3]
      · by_cases h1 : 9223372036854775807 < m
        · simp [extractMax, intDenote, h, h1]
        · have h2 : ¬ ((m : Int) < -2147483648) := by omega
          have h3 : ((m : Int) > 2147483647) := by omega
          simp [extractMax, intDenote, h, h1, h2, h3]
    | true =>
      by_cases h : m ≤ 2147483648
      · have h1 : ¬ (9223372036854775808 < m) := by omega
        have h2 : ¬ (-(m : Int) < -2147483648) := by omega
        have h3 : ¬ (-(m : Int) > 2147483647) := by omega
        simp [extractMax, intDenote, h, h1, h2, h3]
      · by_cases h1 : 9223372036854775808 < m
        · simp [extractMax, intDenote, h, h1]
        · have h2 : (-(m : Int) < -2147483648) := by omega
          simp [extractMax, intDenote, h, h1, h2]

/-- the integer `Set` accepts exactly the literals of the type and stores their value -/
theorem setInt_char (k : IntKind) (old : Val) (text : Bytes) :
    (∀ v, intLit k text = some v → setInt k old text = (.int v, none)) ∧
    (intLit k text = none → (setInt k old text).2 = some .format) := by
  unfold setInt extract intLit intParts
  rw [skipWs_eq]
  cases ht : text.dropWhile cIsSpace with
  | nil => simp
  | cons c cs =>
    simp only
    by_cases hds : (splitSign (c :: cs)).2.takeWhile isDigit = []
    · have hx64 := extractNum_spec true 64 (c :: cs) extractMax_i64
      have hx32 := extractNum_spec false 32 (c :: cs) extractMax_u32
      simp only [hds, if_true] at hx64 hx32
      cases k <;> simp [extractAfterSentry, hx64, hx32, hds]
    · have hsp := extractAfterSentry_spec k (c :: cs) hds
      simp only [hds, or_false, reduceCtorEq, if_false, wsRest_eq]
      generalize digitsVal 0 ((splitSign (c :: cs)).2.takeWhile isDigit) = m at hsp ⊢
      generalize (splitSign (c :: cs)).2.dropWhile isDigit = rest at hsp ⊢
      generalize (splitSign (c :: cs)).1 = neg at hsp ⊢
      by_cases hws : rest.all (fun c => Gen.Param.dmlcIsSpace c.toNat) = true
      · simp only [hws, if_true]
        cases hden : intDenote k neg m with
        | some v =>
          rw [hsp.1 v hden]
          simp [hws]
        | none =>
          obtain ⟨h1, h2⟩ := hsp.2 hden
          rcases hx : extractAfterSentry k (c :: cs) with ⟨v, fail, r⟩
          rw [hx] at h1 h2
          simp only at h1 h2
          subst h1
          simp
      · have hws' : rest.all (fun c => Gen.Param.dmlcIsSpace c.toNat) = false := by simpa using hws
        simp only [hws', Bool.false_eq_true, if_false]
        refine ⟨(fun v h => by cases h), fun _ => ?_⟩
        rcases hx : extractAfterSentry k (c :: cs) with ⟨v, fail, r⟩
        have hr : r = rest := by
          cases hden : intDenote k neg m with
          | some v' => have := hsp.1 v' hden; rw [hx] at this; simp at this; exact this.2.2
          | none => have := (hsp.2 hden).2; rw [hx] at this; exact this
        subst hr
        simp [hws']

/-! ### `os << v` followed by `is >> v` -/

theorem digitsVal_append (tv : Nat) (xs : Bytes) (d : Byte) :
    digitsVal tv (xs ++ [d]) = digitsVal tv xs * 10 + (d.toNat - 48) := by
  simp [digitsVal, List.foldl_append]

theorem digit_toNat (n : Nat) (h : n < 10) : (UInt8.ofNat (48 + n)).toNat = 48 + n := by
  simp [UInt8.toNat_ofNat']
  omega

theorem natDigitsF_spec : ∀ (fuel n : Nat), n < fuel →
    (natDigitsF fuel n).all isDigit = true ∧ natDigitsF fuel n ≠ [] ∧ digitsVal 0 (natDigitsF fuel n) = n := by
  intro fuel
  induction fuel with
  | zero => intro n h; omega
  | succ fuel ih =>
    intro n h
    unfold natDigitsF
    by_cases hn : n < 10
    · simp only [hn, if_true]
      have := digit_toNat n hn
      refine ⟨by simp [isDigit]; omega, by simp, by simp [digitsVal]; omega⟩
    · simp only [hn, if_false]
      have hlt : n / 10 < fuel := by omega
      obtain ⟨h1, h2, h3⟩ := ih (n / 10) hlt
      have hd := digit_toNat (n % 10) (by omega)
      refine ⟨by simp [List.all_append, h1, isDigit]; omega, by simp, ?_⟩
      rw [digitsVal_append, h3, hd]
      omega

theorem takeWhile_of_all (p : Byte → Bool) : ∀ l : Bytes, l.all p = true → l.takeWhile p = l ∧ l.dropWhile p = [] := by
  intro l
  induction l with
  | nil => intro _; simp
  | cons c cs ih =>
    intro h
    simp only [List.all_cons, Bool.and_eq_true] at h
    simp [List.takeWhile, List.dropWhile, h.1, ih h.2]

/-- the values of each integer kind -/
def inKind : IntKind → Int → Prop
  | .i32, v => -2147483648 ≤ v ∧ v ≤ 2147483647
  | .i64, v => -9223372036854775808 ≤ v ∧ v ≤ 9223372036854775807
  | .u32, v => 0 ≤ v ∧ v ≤ 4294967295

/-- printing an integer and reading it back at its own type gives the integer -/
theorem intLit_decimal (k : IntKind) (v : Int) (hv : inKind k v) : intLit k (decimal v) = some v := by
  obtain ⟨hall, hne, hval⟩ := natDigitsF_spec (v.natAbs + 1) v.natAbs (by omega)
  obtain ⟨htw, hdw⟩ := takeWhile_of_all isDigit _ hall
  unfold decimal natDigits
  by_cases hneg : v < 0
  · simp only [hneg, if_true]
    have hsp : ((45 : Byte) :: natDigitsF (v.natAbs + 1) v.natAbs).dropWhile cIsSpace =
        (45 : Byte) :: natDigitsF (v.natAbs + 1) v.natAbs := by
      simp [List.dropWhile, cIsSpace]
    have hss : splitSign ((45 : Byte) :: natDigitsF (v.natAbs + 1) v.natAbs) = (true, natDigitsF (v.natAbs + 1) v.natAbs) := by
      simp [splitSign]
    simp only [intLit, intParts, hsp, hss, htw, hdw, hval, hne, reduceCtorEq, or_self, if_false, List.all_nil, if_true]
    cases k with
    | i32 => simp only [inKind] at hv; simp only [intDenote]; rw [if_pos (by omega)]; congr 1; omega
    | i64 => simp only [inKind] at hv; simp only [intDenote]; rw [if_pos (by omega)]; congr 1; omega
    | u32 => simp only [inKind] at hv; omega
  · simp only [hneg, if_false]
    cases hl : natDigitsF (v.natAbs + 1) v.natAbs with
    | nil => exact absurd hl hne
    | cons c cs =>
      rw [hl] at hall htw hdw hval
      have hc : 48 ≤ c.toNat ∧ c.toNat ≤ 57 := by
        simp only [List.all_cons, Bool.and_eq_true] at hall
        simpa [isDigit] using hall.1
      have hsp : (c :: cs).dropWhile cIsSpace = c :: cs := by
        have : cIsSpace c = false := by simp [cIsSpace]; omega
        simp [List.dropWhile, this]
      have hss : splitSign (c :: cs) = (false, c :: cs) := by
        have h1 : (c.toNat == 45) = false := by simp; omega
        have h2 : (c.toNat == 43) = false := by simp; omega
        simp [splitSign, h1, h2]
      simp only [intLit, intParts, hsp, hss, htw, hdw, hval, reduceCtorEq, or_self, if_false, List.all_nil, if_true]
      cases k with
      | i32 => simp only [inKind] at hv; simp only [intDenote]; rw [if_pos (by omega)]; congr 1; omega
      | i64 => simp only [inKind] at hv; simp only [intDenote]; rw [if_pos (by omega)]; congr 1; omega
      | u32 => simp only [inKind] at hv; simp only [intDenote]; rw [if_pos (by omega)]; congr 1; omega

/-! ### the other field types -/

def dmlcSp (c : Byte) : Bool := Gen.Param.dmlcIsSpace c.toNat

/-- `true` / `false` / `1` / `0`, case-insensitively, nothing else -/
def boolLit (text : Bytes) : Option Bool :=
  let w := text.map cToLower
  if w = [116, 114, 117, 101] ∨ w = [49] then some true
  else if w = [102, 97, 108, 115, 101] ∨ w = [48] then some false
  else none

theorem setBool_char (old : Val) (text : Bytes) :
    (∀ b, boolLit text = some b → setBool old text = (.bool b, none)) ∧
    (boolLit text = none → (setBool old text).2 = some .format) := by
  unfold setBool boolLit
  simp only [Gen.Param.boolTable, List.find?]
  generalize text.map cToLower = w
  by_cases h1 : w = [116, 114, 117, 101]
  · subst h1; simp
  · by_cases h2 : w = [102, 97, 108, 115, 101]
    · subst h2; simp
    · by_cases h3 : w = [49]
      · subst h3; simp
      · by_cases h4 : w = [48]
        · subst h4; simp
        · have e1 : (([116, 114, 117, 101] : Bytes) == w) = false := by simpa using fun h => h1 h.symm
          have e2 : (([102, 97, 108, 115, 101] : Bytes) == w) = false := by simpa using fun h => h2 h.symm
          have e3 : (([49] : Bytes) == w) = false := by simpa using fun h => h3 h.symm
          have e4 : (([48] : Bytes) == w) = false := by simpa using fun h => h4 h.symm
          simp [e1, e2, e3, e4, h1, h2, h3, h4]

/-- blanks, then an alphanumeric word among 1/true/0/false/none (any case), then blanks -/
def optBoolLit (text : Bytes) : Option (Option Bool) :=
  let t := text.dropWhile cIsSpace
  let w := (t.takeWhile cIsAlnum).map cToLower
  if (t.dropWhile cIsAlnum).all dmlcSp then
    (if w = [49] ∨ w = [116, 114, 117, 101] then some (some true)
     else if w = [48] ∨ w = [102, 97, 108, 115, 101] then some (some false)
     else if w = [110, 111, 110, 101] then some none
     else none)
  else none

theorem setOptBool_char (old : Val) (text : Bytes) :
    (∀ b, optBoolLit text = some b → setOptBool old text = (.obool b, none)) ∧
    (optBoolLit text = none → (setOptBool old text).2 = some .format) := by
  unfold setOptBool optBoolLit
  simp only [Gen.Param.optBoolTable, List.find?, skipWs_eq, wsRest_eq]
  generalize (List.takeWhile cIsAlnum (List.dropWhile cIsSpace text)).map cToLower = w
  have hall : (List.dropWhile cIsAlnum (List.dropWhile cIsSpace text)).all dmlcSp =
      (List.dropWhile cIsAlnum (List.dropWhile cIsSpace text)).all (fun c => Gen.Param.dmlcIsSpace c.toNat) := rfl
  rw [hall]
  generalize (List.dropWhile cIsAlnum (List.dropWhile cIsSpace text)).all (fun c => Gen.Param.dmlcIsSpace c.toNat) = ok
  by_cases h1 : w = [49]
  · subst h1; cases ok <;> simp
  · by_cases h2 : w = [116, 114, 117, 101]
    · subst h2; cases ok <;> simp
    · by_cases h3 : w = [48]
      · subst h3; cases ok <;> simp
      · by_cases h4 : w = [102, 97, 108, 115, 101]
        · subst h4; cases ok <;> simp
        · by_cases h5 : w = [110, 111, 110, 101]
          · subst h5; cases ok <;> simp
          · have e1 : (([49] : Bytes) == w) = false := by simpa using fun h => h1 h.symm
            have e2 : (([116, 114, 117, 101] : Bytes) == w) = false := by simpa using fun h => h2 h.symm
            have e3 : (([48] : Bytes) == w) = false := by simpa using fun h => h3 h.symm
            have e4 : (([102, 97, 108, 115, 101] : Bytes) == w) = false := by simpa using fun h => h4 h.symm
            have e5 : (([110, 111, 110, 101] : Bytes) == w) = false := by simpa using fun h => h5 h.symm
            cases ok <;> simp [e1, e2, e3, e4, e5, h1, h2, h3, h4, h5]

/-- the conversion consumed the whole text -/
def floatLit (conv : Bytes → FRes) (text : Bytes) : Option Nat :=
  match conv text with
  | .ok bits pos => if pos = text.length then some bits else none
  | _ => none

theorem setFloat_char (conv : Bytes → FRes) (old : Val) (text : Bytes) :
    (∀ b, floatLit conv text = some b → setFloat conv old text = (.flt b, none)) ∧
    (floatLit conv text = none → (setFloat conv old text).2 ≠ none) := by
  unfold setFloat floatLit
  cases conv text with
  | invalid => simp
  | outOfRange => simp
  | fatal => simp
  | ok bits pos =>
    by_cases h : pos = text.length
    · subst h; simp
    · simp only [h, if_false, reduceCtorEq, false_implies, implies_true, true_and, forall_const]
      by_cases h1 : pos > text.length
      · simp [h1]
      · have : pos < text.length := by omega
        simp [h1, this]

/-- `None` followed by blanks, or an int literal with at most one `L` suffix followed by blanks -/
def optIntLit (text : Bytes) : Option (Option Int) :=
  if text.take 4 = bNone then (if (text.drop 4).all dmlcSp then some none else none)
  else
    match intParts text with
    | some (neg, m, rest) =>
      let rest' := match rest with
        | c :: cs => if c = 76 then cs else rest
        | [] => rest
      if rest'.all dmlcSp then intDenote .i32 neg m else none
    | none => none

theorem setOptInt_char (text : Bytes) :
    (∀ v, optIntLit text = some v → setOptInt text = (.oint v, none)) ∧
    (optIntLit text = none → (setOptInt text).2 = some .format) := by
  unfold setOptInt optIntLit
  simp only [Gen.Param.noneProbeLen, Gen.Param.noneProbe, Gen.Param.optIntSuffix, bNone, wsRest_eq]
  by_cases hp : text.take 4 = [78, 111, 110, 101]
  · have : (List.take 4 text == [78, 111, 110, 101]) = true := by simpa using hp
    simp only [hp, this, if_true]
    by_cases hw : (text.drop 4).all dmlcSp = true
    · have hw' : (text.drop 4).all (fun c => Gen.Param.dmlcIsSpace c.toNat) = true := hw
      simp [hw, hw']
    · have hw2 : (text.drop 4).all dmlcSp = false := by simpa using hw
      have hw' : (text.drop 4).all (fun c => Gen.Param.dmlcIsSpace c.toNat) = false := hw2
      simp [hw2, hw']
  · have : (List.take 4 text == [78, 111, 110, 101]) = false := by simpa using hp
    simp only [hp, this, if_false, Bool.false_eq_true]
    unfold extract intParts
    rw [skipWs_eq]
    cases ht : text.dropWhile cIsSpace with
    | nil => simp
    | cons c cs =>
      simp only
      by_cases hds : (splitSign (c :: cs)).2.takeWhile isDigit = []
      · have hx64 := extractNum_spec true 64 (c :: cs) extractMax_i64
        simp only [hds, if_true] at hx64
        simp [extractAfterSentry, hx64, hds]
      · have hsp := extractAfterSentry_spec .i32 (c :: cs) hds
        simp only [hds, or_false, reduceCtorEq, if_false]
        generalize digitsVal 0 ((splitSign (c :: cs)).2.takeWhile isDigit) = m at hsp ⊢
        generalize (splitSign (c :: cs)).2.dropWhile isDigit = rest at hsp ⊢
        generalize (splitSign (c :: cs)).1 = neg at hsp ⊢
        cases hden : intDenote .i32 neg m with
        | some v =>
          rw [hsp.1 v hden]
          simp only [Bool.not_false, Bool.true_and]
          cases rest with
          | nil => simp [dmlcSp]
          | cons d ds =>
            by_cases hL : d = 76
            · subst hL
              by_cases hw : ds.all dmlcSp = true
              · have hw' : ds.all (fun c => Gen.Param.dmlcIsSpace c.toNat) = true := hw
                simp [hw, hw']
              · have hw2 : ds.all dmlcSp = false := by simpa using hw
                have hw' : ds.all (fun c => Gen.Param.dmlcIsSpace c.toNat) = false := hw2
                simp [hw2, hw']
            · have hL' : (d == 76) = false := by simpa using hL
              by_cases hw : (d :: ds).all dmlcSp = true
              · have hw' : (d :: ds).all (fun c => Gen.Param.dmlcIsSpace c.toNat) = true := hw
                simp [hL, hL', hw, hw']
              · have hw2 : (d :: ds).all dmlcSp = false := by simpa using hw
                have hw' : (d :: ds).all (fun c => Gen.Param.dmlcIsSpace c.toNat) = false := hw2
                simp [hL, hL', hw2, hw']
        | none =>
          obtain ⟨h1, h2⟩ := hsp.2 hden
          rcases hx : extractAfterSentry .i32 (c :: cs) with ⟨v, fail, r⟩
          rw [hx] at h1 h2
          simp only at h1 h2
          subst h1
          simp

theorem decimal_head (v : Int) : ∃ c cs, decimal v = c :: cs ∧ c.toNat ≠ 78 := by
  obtain ⟨hall, hne, _⟩ := natDigitsF_spec (v.natAbs + 1) v.natAbs (by omega)
  unfold decimal natDigits
  by_cases hneg : v < 0
  · exact ⟨45, natDigitsF (v.natAbs + 1) v.natAbs, by simp [hneg], by decide⟩
  · cases hl : natDigitsF (v.natAbs + 1) v.natAbs with
    | nil => exact absurd hl hne
    | cons c cs =>
      rw [hl] at hall
      have hc : 48 ≤ c.toNat ∧ c.toNat ≤ 57 := by
        simp only [List.all_cons, Bool.and_eq_true] at hall
        simpa [isDigit] using hall.1
      exact ⟨c, cs, by simp [hneg], by omega⟩

theorem optIntLit_of_intLit (text : Bytes) (v : Int) (hN : text.take 4 ≠ bNone)
    (h : intLit .i32 text = some v) : optIntLit text = some (some v) := by
  unfold optIntLit
  unfold intLit at h
  simp only [hN, if_false]
  cases hp : intParts text with
  | none => simp [hp] at h
  | some p =>
    obtain ⟨neg, m, rest⟩ := p
    simp only [hp] at h ⊢
    by_cases hw : rest.all (fun c => Gen.Param.dmlcIsSpace c.toNat) = true
    · simp only [hw, if_true] at h
      cases rest with
      | nil => simp [h]
      | cons d ds =>
        have hd : d ≠ 76 := by
          intro hd; subst hd
          simp [Gen.Param.dmlcIsSpace] at hw
        have hw' : (d :: ds).all dmlcSp = true := hw
        simp [hd, hw', h]
    · simp [hw] at h

theorem optIntLit_decimal (v : Int) (hv : inKind .i32 v) : optIntLit (decimal v) = some (some v) := by
  apply optIntLit_of_intLit _ _ _ (intLit_decimal .i32 v hv)
  obtain ⟨c, cs, hd, hc⟩ := decimal_head v
  rw [hd]
  intro h
  cases cs with
  | nil => simp [bNone] at h
  | cons a as =>
    have : c = 78 := by
      simp only [bNone] at h
      have := congrArg List.head? h
      simpa using this
    exact hc (by rw [this]; rfl)

/-- enum values are C++ `int`s -/
def EnumsInRange (f : Field) : Prop := ∀ e ∈ f.enums, inKind .i32 e.2

theorem lookupEnum_mem (enums : List (Bytes × Int)) (text : Bytes) (v : Int)
    (h : lookupEnum enums text = some v) : (text, v) ∈ enums := by
  unfold lookupEnum at h
  cases hf : enums.find? (fun e => e.1 == text) with
  | none => simp [hf] at h
  | some p =>
    obtain ⟨n, x⟩ := p
    simp only [hf, Option.some.injEq] at h
    subst h
    have h1 := List.find?_some hf
    have h2 := List.mem_of_find?_eq_some hf
    simp only [beq_iff_eq] at h1
    subst h1
    exact h2

/-- **"entirely a valid literal of the field's type"**: the value denoted, if the text is one.
Integer kinds: `[blanks][+|-]digits[blanks]` within the type (`-n` wraps into `unsigned`); float/double:
the conversion consumes the whole text; bool: true/false/1/0 in any case; string: anything; enum: exactly
an enumerator name (`None` for the optional enum); `optional<int>`: `None`[blanks] or an int literal with an
optional `L`; `optional<bool>`: [blanks] 1/true/0/false/none in any case [blanks]. -/
def literal (ops : FloatOps) (f : Field) (text : Bytes) : Option Val :=
  match f.ty with
  | .int => (intLit .i32 text).map .int
  | .uint => (intLit .u32 text).map .int
  | .int64 => (intLit .i64 text).map .int
  | .float => (floatLit ops.conv32 text).map .flt
  | .double => (floatLit ops.conv64 text).map .flt
  | .bool => (boolLit text).map .bool
  | .string => some (.str text)
  | .enumInt => (lookupEnum f.enums text).map .int
  | .optInt => (optIntLit text).map .oint
  | .optEnum => if text = bNone then some (.oint none) else (lookupEnum f.enums text).map fun v => .oint (some v)
  | .optBool => (optBoolLit text).map .obool

/-- `Set` succeeds exactly on the literals of the field's type, and stores the value they denote -/
theorem set_ok_iff_literal (ops : FloatOps) (f : Field) (hf : EnumsInRange f) (old : Val) (text : Bytes) :
    (∀ v, literal ops f text = some v → setVal ops f old text = (v, none)) ∧
    (literal ops f text = none → (setVal ops f old text).2 ≠ none) := by
  unfold literal setVal
  cases hty : f.ty with
  | int =>
    have := setInt_char .i32 old text
    simp only
    cases h : intLit .i32 text with
    | none => simp [this.2 h]
    | some v => simp [this.1 v h]
  | uint =>
    have := setInt_char .u32 old text
    simp only
    cases h : intLit .u32 text with
    | none => simp [this.2 h]
    | some v => simp [this.1 v h]
  | int64 =>
    have := setInt_char .i64 old text
    simp only
    cases h : intLit .i64 text with
    | none => simp [this.2 h]
    | some v => simp [this.1 v h]
  | float =>
    have := setFloat_char ops.conv32 old text
    simp only
    cases h : floatLit ops.conv32 text with
    | none => simpa using this.2 h
    | some v => simp [this.1 v h]
  | double =>
    have := setFloat_char ops.conv64 old text
    simp only
    cases h : floatLit ops.conv64 text with
    | none => simpa using this.2 h
    | some v => simp [this.1 v h]
  | bool =>
    have := setBool_char old text
    simp only
    cases h : boolLit text with
    | none => simp [this.2 h]
    | some v => simp [this.1 v h]
  | string => simp
  | enumInt =>
    simp only
    cases h : lookupEnum f.enums text with
    | none => simp
    | some v =>
      have hv := hf _ (lookupEnum_mem _ _ _ h)
      simp [(setInt_char .i32 old (decimal v)).1 v (intLit_decimal .i32 v hv)]
  | optInt =>
    have := setOptInt_char text
    simp only
    cases h : optIntLit text with
    | none => simp [this.2 h]
    | some v => simp [this.1 v h]
  | optEnum =>
    simp only [Gen.Param.optEnumNone]
    by_cases hN : text = bNone
    · subst hN
      simp [bNone, setOptInt, Gen.Param.noneProbeLen, Gen.Param.noneProbe, wsRest]
    · have hN' : (text != [78, 111, 110, 101]) = true := by simpa [bNone] using hN
      simp only [hN, hN', if_true, if_false]
      cases h : lookupEnum f.enums text with
      | none => simp
      | some v =>
        have hv := hf _ (lookupEnum_mem _ _ _ h)
        simp [(setOptInt_char (decimal v)).1 _ (optIntLit_decimal v hv)]
  | optBool =>
    have := setOptBool_char old text
    simp only
    cases h : optBoolLit text with
    | none => simp [this.2 h]
    | some v => simp [this.1 v h]

end DmlcModel.Param
