import DmlcModel.Basic
import DmlcModel.Gen.Param
import DmlcModel.Param.Model
/-!
The instance of `FloatOps` used by the line-protocol driver: a step-by-step mirror of
`dmlc::ParseFloat<T, true>` + `dmlc::stof` / `dmlc::stod` (strtonum.h) in exact rational arithmetic
with an explicit round-to-nearest-even after every C++ floating-point operation, and of
`os << std::setprecision(P) << v` (= printf `%.Pg`, exact decimal expansion).

The property theorems do not depend on this file (they are generic in `FloatOps`); it exists so that
the correspondence run can compare float fields as bit patterns.  The mirror follows whichever of the
C14 repairs are present in strtonum.h (`Gen.Param.stofErrnoLocal`, `scaleInfChecked`, `endBacksOff`,
`nanParenLenient`).  Core Lean only, no `Float`.
-/
namespace DmlcModel.Param.FloatImpl
open DmlcModel DmlcModel.Param

structure Fmt where
  p : Nat        -- precision in bits (24 / 53)
  emax : Nat     -- 127 / 1023
  ebits : Nat    -- 8 / 11
  maxExp : Nat   -- kMaxExponent: 38 / 308
  maxSigN : Nat  -- kMaxSignificandForMaxExponent as a decimal fraction maxSigN / maxSigD
  maxSigD : Nat
  minSigN : Nat  -- kMaxSignificandForNegMaxExponent
  minSigD : Nat
  prec : Nat     -- max_digits10 (9 / 17)

def f32 : Fmt := ⟨24, 127, 8, 38, 3402823466, 1000000000, 1175494351, 1000000000, 9⟩
def f64 : Fmt := ⟨53, 1023, 11, 308, 179769313486231570, 100000000000000000, 222507385850720139, 100000000000000000, 17⟩

/-- a non-negative floating-point value: `m * 2^k`, or +infinity -/
inductive FV
  | fin (m : Nat) (k : Int)
  | inf
  deriving DecidableEq, Repr

/-- round-half-even of `a / b` (b > 0) -/
def rhe (a b : Nat) : Nat :=
  let q := a / b
  let r := a % b
  if 2 * r > b || (2 * r == b && q % 2 == 1) then q + 1 else q

/-- floor (log2 (n / d)) for n, d > 0 -/
def ilog2 (n d : Nat) : Int :=
  let e : Int := (Nat.log2 n : Int) - (Nat.log2 d : Int)
  -- 2^e ≤ n/d ?
  let ge (e : Int) : Bool := if e ≥ 0 then decide (n ≥ d * 2 ^ e.toNat) else decide (n * 2 ^ (-e).toNat ≥ d)
  if ge (e + 1) then e + 1 else if ge e then e else e - 1

/-- round the exact non-negative rational `n / d` to the format (round to nearest, ties to even;
gradual underflow; overflow to infinity) -/
def rnd (f : Fmt) (n d : Nat) : FV :=
  if n == 0 || d == 0 then .fin 0 0
  else
    let emin : Int := 1 - (f.emax : Int)
    let e := ilog2 n d
    let e' := if e < emin then emin else e
    let k : Int := e' - ((f.p : Int) - 1)
    let m := if k ≥ 0 then rhe n (d * 2 ^ k.toNat) else rhe (n * 2 ^ (-k).toNat) d
    let (m, e', k) := if m == 2 ^ f.p then (2 ^ (f.p - 1), e' + 1, k + 1) else (m, e', k)
    if e' > (f.emax : Int) then .inf else .fin m k

/-- numerator / denominator of a finite value -/
def toQ (m : Nat) (k : Int) : Nat × Nat := if k ≥ 0 then (m * 2 ^ k.toNat, 1) else (m, 2 ^ (-k).toNat)

def fmul (f : Fmt) : FV → FV → FV
  | .fin m1 k1, .fin m2 k2 =>
    let (a, b) := toQ m1 k1
    let (c, d) := toQ m2 k2
    rnd f (a * c) (b * d)
  | _, _ => .inf

def fdiv (f : Fmt) : FV → FV → FV
  | .fin m1 k1, .fin m2 k2 =>
    let (a, b) := toQ m1 k1
    let (c, d) := toQ m2 k2
    if c == 0 then .inf else rnd f (a * d) (b * c)
  | .fin _ _, .inf => .fin 0 0
  | _, _ => .inf

def fadd (f : Fmt) : FV → FV → FV
  | .fin m1 k1, .fin m2 k2 =>
    let (a, b) := toQ m1 k1
    let (c, d) := toQ m2 k2
    rnd f (a * d + c * b) (b * d)
  | _, _ => .inf

/-- conversion between formats (double → float) -/
def fcast (f : Fmt) : FV → FV
  | .fin m k => let (a, b) := toQ m k; rnd f a b
  | .inf => .inf

/-- `a > b` -/
def fgt : FV → FV → Bool
  | .fin m1 k1, .fin m2 k2 =>
    let (a, b) := toQ m1 k1
    let (c, d) := toQ m2 k2
    decide (a * d > c * b)
  | .inf, .fin _ _ => true
  | _, _ => false

/-- bit pattern of a signed value -/
def encode (f : Fmt) (neg : Bool) : FV → Nat
  | .inf => (if neg then 2 ^ (f.ebits + f.p - 1) else 0) + (2 ^ f.ebits - 1) * 2 ^ (f.p - 1)
  | .fin m k =>
    let sgn := if neg then 2 ^ (f.ebits + f.p - 1) else 0
    if m == 0 then sgn
    else
      -- normalise so that the mantissa has p bits or the exponent is emin
      let kmin : Int := 1 - (f.emax : Int) - ((f.p : Int) - 1)
      let l := Nat.log2 m           -- m has l+1 bits
      -- target: m' = m * 2^(k - k'), with k' = max (k + l - (p-1)) kmin
      let k' : Int := if k + (l : Int) - ((f.p : Int) - 1) < kmin then kmin else k + (l : Int) - ((f.p : Int) - 1)
      let m' := if k ≥ k' then m * 2 ^ (k - k').toNat else m / 2 ^ (k' - k).toNat
      if m' < 2 ^ (f.p - 1) then sgn + m'
      else
        let biased : Int := k' + ((f.p : Int) - 1) + (f.emax : Int)
        sgn + biased.toNat * 2 ^ (f.p - 1) + (m' - 2 ^ (f.p - 1))

def nanBits (f : Fmt) : Nat := (2 ^ f.ebits - 1) * 2 ^ (f.p - 1) + 2 ^ (f.p - 2)

/-! ### ParseFloat -/

def peek (s : Bytes) : Nat := match s with | c :: _ => c.toNat | [] => 0
def peek1 (s : Bytes) : Nat := match s with | _ :: c :: _ => c.toNat | _ => 0
def peek2 (s : Bytes) : Nat := match s with | _ :: _ :: c :: _ => c.toNat | _ => 0
def dDigit (c : Nat) : Bool := 48 ≤ c && c ≤ 57
def dAlpha (c : Nat) : Bool := (97 ≤ c && c ≤ 122) || (65 ≤ c && c ≤ 90)

def skipSp : Bytes → Nat → Bytes × Nat
  | [], n => ([], n)
  | c :: cs, n => if c.toNat != 0 && Gen.Param.dmlcIsSpace c.toNat then skipSp cs (n + 1) else (c :: cs, n)

/-- case-insensitive prefix match `(*p | 32) == word[i]`, at most `word.length` characters -/
def matchCI : List Nat → Bytes → Nat → Nat
  | [], _, i => i
  | w :: ws, s, i =>
    match s with
    | c :: cs => if (c.toNat ||| 32) == w then matchCI ws cs (i + 1) else i
    | [] => i

def digitsU64 : Bytes → Nat → Nat → Nat → Bytes × Nat × Nat × Nat
  | [], acc, n, cnt => ([], acc, n, cnt)
  | c :: cs, acc, n, cnt =>
    if dDigit c.toNat then digitsU64 cs ((acc * 10 + (c.toNat - 48)) % 18446744073709551616) (n + 1) (cnt + 1)
    else (c :: cs, acc, n, cnt)

/-- fraction digits: only the first 19 contribute -/
def fracDigits : Bytes → Nat → Nat → Nat → Nat → Bytes × Nat × Nat × Nat
  | [], val2, pow10, n, _ => ([], val2, pow10, n)
  | c :: cs, val2, pow10, n, cnt =>
    if dDigit c.toNat then
      if cnt < 19 then
        fracDigits cs ((val2 * 10 + (c.toNat - 48)) % 18446744073709551616) ((pow10 * 10) % 18446744073709551616) (n + 1) (cnt + 1)
      else fracDigits cs val2 pow10 (n + 1) (cnt + 1)
    else (c :: cs, val2, pow10, n)

def digitsU32 : Bytes → Nat → Nat → Bytes × Nat × Nat
  | [], acc, n => ([], acc, n)
  | c :: cs, acc, n =>
    if dDigit c.toNat then digitsU32 cs ((acc * 10 + (c.toNat - 48)) % 4294967296) (n + 1) else (c :: cs, acc, n)

def nanSeq : Bytes → Nat → Bytes × Nat
  | [], n => ([], n)
  | c :: cs, n => if dDigit c.toNat || dAlpha c.toNat || c.toNat == 95 then nanSeq cs (n + 1) else (c :: cs, n)

def scaleLoop8 (f : Fmt) : Nat → Nat → FV → FV × Nat
  | 0, e, s => (s, e)
  | fuel + 1, e, s => if e ≥ 8 then scaleLoop8 f fuel (e - 8) (fmul f s (.fin 100000000 0)) else (s, e)

def scaleLoop1 (f : Fmt) : Nat → Nat → FV → FV
  | 0, _, s => s
  | fuel + 1, e, s => if e > 0 then scaleLoop1 f fuel (e - 1) (fmul f s (.fin 10 0)) else s

structure PF where
  neg : Bool
  val : Option FV      -- none = NaN
  endp : Nat
  erange : Bool
  fatal : Bool

/-- `ParseFloat<T, true>(nptr, &endptr)`; the byte list is the C string (a NUL byte ends it) -/
def parseFloat (f : Fmt) (s0 : Bytes) : PF :=
  let s0 := s0.takeWhile (fun c => c.toNat != 0)
  let (s, p) := skipSp s0 0
  let (neg, s, p) : Bool × Bytes × Nat :=
    if peek s == 45 then (true, s.tail, p + 1) else if peek s == 43 then (false, s.tail, p + 1) else (false, s, p)
  -- INF / INFINITY
  let i := matchCI [105, 110, 102, 105, 110, 105, 116, 121] s 0
  let infHit : Option Nat :=
    if Gen.Param.endBacksOff then (if i ≥ 3 then some (if i < 8 then 3 else 8) else none)
    else (if i == 3 || i == 8 then some i else none)
  match infHit with
  | some n => ⟨neg, some .inf, p + n, false, false⟩
  | none =>
  -- NAN
  let j := matchCI [110, 97, 110] s 0
  if j == 3 then
    let s3 := s.drop 3
    let p3 := p + 3
    if peek s3 == 40 then
      let (s4, n) := nanSeq s3.tail 0
      if peek s4 == 41 then ⟨neg, none, p3 + 1 + n + 1, false, false⟩
      else if Gen.Param.nanParenLenient then ⟨neg, none, p3, false, false⟩
      else ⟨neg, none, p3, false, true⟩
    else ⟨neg, none, p3, false, false⟩
  else
  -- digits before the point
  let (s, predec, p, nd) :=
    match digitsU64 s 0 0 0 with
    | (s', acc, n, cnt) => (s', acc, p + n, cnt)
  let hasDigits := nd > 0
  let value := rnd f predec 1
  -- fraction
  let takeDot := peek s == 46 && (!Gen.Param.endBacksOff || hasDigits || dDigit (peek1 s))
  let (s, value, p, hasDigits) : Bytes × FV × Nat × Bool :=
    if takeDot then
      match fracDigits s.tail 0 1 0 0 with
      | (s', val2, pow10, n) =>
        let q := fdiv f64 (rnd f64 val2 1) (rnd f64 pow10 1)
        (s', fadd f value (fcast f q), p + 1 + n, true)
    else (s, value, p, hasDigits)
  if Gen.Param.endBacksOff && !hasDigits then ⟨neg, some (.fin 0 0), 0, false, false⟩
  else
  -- exponent
  let takeExp := (peek s == 101 || peek s == 69) &&
    (!Gen.Param.endBacksOff || dDigit (peek1 s) || ((peek1 s == 45 || peek1 s == 43) && dDigit (peek2 s)))
  let step : Option PF × Bytes × FV × Nat :=
    if takeExp then
      let s := s.tail
      let p := p + 1
      let (frac, s, p) : Bool × Bytes × Nat :=
        if peek s == 45 then (true, s.tail, p + 1) else if peek s == 43 then (false, s.tail, p + 1) else (false, s, p)
      match digitsU32 s 0 0 with
      | (s, expon, n) =>
        let p := p + n
        if expon > f.maxExp then (some ⟨neg, some .inf, p, true, false⟩, s, value, p)
        else
          let maxSig := fcast f (rnd f64 f.maxSigN f.maxSigD)
          let minSig := fcast f (rnd f64 f.minSigN f.minSigD)
          if expon == f.maxExp && ((!frac && fgt value maxSig) || (frac && fgt minSig value)) then
            (some ⟨neg, some .inf, p, true, false⟩, s, value, p)
          else
            let (sc, e1) := scaleLoop8 f (expon + 1) expon (.fin 1 0)
            let sc := scaleLoop1 f (e1 + 1) e1 sc
            let v := if frac then fdiv f value sc else fmul f value sc
            if Gen.Param.scaleInfChecked && v == .inf then (some ⟨neg, some .inf, p, true, false⟩, s, v, p)
            else (none, s, v, p)
    else (none, s, value, p)
  match step with
  | (some r, _, _, _) => { r with neg := false }     -- the ERANGE returns are +infinity
  | (none, s, value, p) =>
    let p := if peek s == 102 || peek s == 70 then p + 1 else p
    ⟨neg, some value, p, false, false⟩

/-- `dmlc::stof` / `dmlc::stod`; `stale` = `errno == ERANGE` on entry -/
def sto (f : Fmt) (stale : Bool) (text : Bytes) : FRes :=
  let r := parseFloat f text
  if r.fatal then .fatal
  else
    let rangeErr := if Gen.Param.stofErrnoLocal then r.erange else (r.erange || stale)
    let isPosInf := !r.neg && r.val == some .inf
    if rangeErr && isPosInf then .outOfRange
    else if r.endp == 0 then .invalid
    else
      match r.val with
      | none => .ok (nanBits f) r.endp
      | some v => .ok (encode f r.neg v) r.endp

/-! ### printing (`%.Pg`) -/

def decode (f : Fmt) (bits : Nat) : Bool × Option (Option (Nat × Nat)) :=
  -- (sign, none = NaN | some none = inf | some (some (n, d)))
  let w := f.p - 1
  let neg := bits / 2 ^ (f.ebits + w) % 2 == 1
  let biased := bits / 2 ^ w % 2 ^ f.ebits
  let frac := bits % 2 ^ w
  if biased == 2 ^ f.ebits - 1 then (neg, if frac == 0 then some none else none)
  else
    let m := if biased == 0 then frac else 2 ^ w + frac
    let k : Int := (if biased == 0 then 1 else (biased : Int)) - (f.emax : Int) - (w : Int)
    (neg, some (some (toQ m k)))

def ilog10 (n d : Nat) : Int :=
  let len (x : Nat) : Int := ((Nat.toDigits 10 x).length : Int)
  let ge (e : Int) : Bool := if e ≥ 0 then decide (n ≥ d * 10 ^ e.toNat) else decide (n * 10 ^ (-e).toNat ≥ d)
  let e := len n - len d
  if ge (e + 1) then e + 1 else if ge e then e else if ge (e - 1) then e - 1 else e - 2

def asciiDigits (x : Nat) (width : Nat) : Bytes :=
  let ds := (Nat.toDigits 10 x).map fun c => UInt8.ofNat c.toNat
  List.replicate (width - ds.length) (48 : Byte) ++ ds

def stripZeros (ds : Bytes) : Bytes := (ds.reverse.dropWhile (fun c => c == 48)).reverse

def printG (f : Fmt) (bits : Nat) : Bytes :=
  let P := f.prec
  match decode f bits with
  | (neg, none) => (if neg then [45] else []) ++ [110, 97, 110]
  | (neg, some none) => (if neg then [45] else []) ++ [105, 110, 102]
  | (neg, some (some (n, d))) =>
    let sgn : Bytes := if neg then [45] else []
    if n == 0 then sgn ++ [48]
    else
      let x := ilog10 n d
      let sh : Int := x - ((P : Int) - 1)
      let D := if sh ≥ 0 then rhe n (d * 10 ^ sh.toNat) else rhe (n * 10 ^ (-sh).toNat) d
      let (D, x) := if D == 10 ^ P then (10 ^ (P - 1), x + 1) else (D, x)
      let ds := asciiDigits D P
      if x < -4 || x ≥ (P : Int) then
        let rest := stripZeros (ds.drop 1)
        let ex := x.natAbs
        sgn ++ ds.take 1 ++ (if rest.isEmpty then [] else (46 : Byte) :: rest) ++
          [101, if x < 0 then 45 else 43] ++ asciiDigits ex 2
      else if x ≥ 0 then
        let ip := ds.take (x.toNat + 1)
        let fp := stripZeros (ds.drop (x.toNat + 1))
        sgn ++ ip ++ (if fp.isEmpty then [] else (46 : Byte) :: fp)
      else
        let fp := stripZeros (List.replicate ((-x).toNat - 1) (48 : Byte) ++ ds)
        sgn ++ [48, 46] ++ fp

/-- the `FloatOps` of the driver; `stale` = errno is ERANGE when the call starts -/
def ops (stale : Bool) : FloatOps :=
  { conv32 := sto f32 stale, conv64 := sto f64 stale, print32 := printG f32, print64 := printG f64 }

end DmlcModel.Param.FloatImpl
