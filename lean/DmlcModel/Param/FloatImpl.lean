import DmlcModel.Basic
import DmlcModel.Param.Model
import DmlcModel.Param.FloatC14
/-!
Printing side of the driver's `FloatOps`: `os << std::setprecision(P) << v` (= printf `%.Pg`, exact decimal
expansion, round-half-even) in exact rational arithmetic, plus a small round-to-nearest-even toolkit.  The
conversions text → float/double are the C14 models (`Param/FloatC14.lean`).  Core Lean only, no `Float`.
-/
namespace DmlcModel.Param.FloatImpl
open DmlcModel DmlcModel.Param

structure Fmt where
  p : Nat        -- precision in bits (24 / 53)
  emax : Nat     -- 127 / 1023
  ebits : Nat    -- 8 / 11
  prec : Nat     -- max_digits10 (9 / 17)

def f32 : Fmt := ⟨24, 127, 8, 9⟩
def f64 : Fmt := ⟨53, 1023, 11, 17⟩

/-- round-half-even of `a / b` (b > 0) -/
def rhe (a b : Nat) : Nat :=
  let q := a / b
  let r := a % b
  if 2 * r > b || (2 * r == b && q % 2 == 1) then q + 1 else q

/-- numerator / denominator of a finite value -/
def toQ (m : Nat) (k : Int) : Nat × Nat := if k ≥ 0 then (m * 2 ^ k.toNat, 1) else (m, 2 ^ (-k).toNat)

/-! ### printing (`%.Pg`) -/

def decode (f : Fmt) (bits : Nat) : Bool × Option (Option (Nat × Nat)) :=
  -- (sign, none = NaN | some none = inf | some (some (n, d)))
  let w := f.p - 1
  let neg := bits / 2 ^ (f.ebits + w) % 2 == 1
  let biased := bits / 2 ^ w % 2 ^ f.ebits
  let frac := bits % 2 ^ w
  if biased == 2 ^ f.ebits - 1 then (neg, if frac == 0 then some none else none)
  else
    let m := if biased == 0 then frac else 2 ^ w + frac
    let k : Int := (if biased == 0 then 1 else (biased : Int)) - (f.emax : Int) - (w : Int)
    (neg, some (some (toQ m k)))

def ilog10 (n d : Nat) : Int :=
  let len (x : Nat) : Int := ((Nat.toDigits 10 x).length : Int)
  let ge (e : Int) : Bool := if e ≥ 0 then decide (n ≥ d * 10 ^ e.toNat) else decide (n * 10 ^ (-e).toNat ≥ d)
  let e := len n - len d
  if ge (e + 1) then e + 1 else if ge e then e else if ge (e - 1) then e - 1 else e - 2

def asciiDigits (x : Nat) (width : Nat) : Bytes :=
  let ds := (Nat.toDigits 10 x).map fun c => UInt8.ofNat c.toNat
  List.replicate (width - ds.length) (48 : Byte) ++ ds

def stripZeros (ds : Bytes) : Bytes := (ds.reverse.dropWhile (fun c => c == 48)).reverse

def printG (f : Fmt) (bits : Nat) : Bytes :=
  let P := f.prec
  match decode f bits with
  | (neg, none) => (if neg then [45] else []) ++ [110, 97, 110]
  | (neg, some none) => (if neg then [45] else []) ++ [105, 110, 102]
  | (neg, some (some (n, d))) =>
    let sgn : Bytes := if neg then [45] else []
    if n == 0 then sgn ++ [48]
    else
      let x := ilog10 n d
      let sh : Int := x - ((P : Int) - 1)
      let D := if sh ≥ 0 then rhe n (d * 10 ^ sh.toNat) else rhe (n * 10 ^ (-sh).toNat) d
      let (D, x) := if D == 10 ^ P then (10 ^ (P - 1), x + 1) else (D, x)
      let ds := asciiDigits D P
      if x < -4 || x ≥ (P : Int) then
        let rest := stripZeros (ds.drop 1)
        let ex := x.natAbs
        sgn ++ ds.take 1 ++ (if rest.isEmpty then [] else (46 : Byte) :: rest) ++
          [101, if x < 0 then 45 else 43] ++ asciiDigits ex 2
      else if x ≥ 0 then
        let ip := ds.take (x.toNat + 1)
        let fp := stripZeros (ds.drop (x.toNat + 1))
        sgn ++ ip ++ (if fp.isEmpty then [] else (46 : Byte) :: fp)
      else
        let fp := stripZeros (List.replicate ((-x).toNat - 1) (48 : Byte) ++ ds)
        sgn ++ [48, 46] ++ fp

/-- the `FloatOps` of the driver: conversions = the C14 model of `dmlc::stof` / `stod`, printing = `%.9g` / `%.17g`;
`stale` = errno is ERANGE when the call starts -/
def ops (stale : Bool) : FloatOps := opsC14 stale (printG f32) (printG f64)

end DmlcModel.Param.FloatImpl
