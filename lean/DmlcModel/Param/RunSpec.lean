import DmlcModel.Param.EntryMap
/-!
Property-level reading of the run lemmas: last occurrence by key set, `runInit` success and failure.
Core Lean only.
-/
namespace DmlcModel.Param
open DmlcModel

/-- the text of the last argument whose key is one of `keys` -/
def lastOccK (keys : List Bytes) : List KV → Option Bytes
  | [] => none
  | (k, v) :: rest =>
    match lastOccK keys rest with
    | some t => some t
    | none => if k ∈ keys then some v else none

theorem lastOcc_eq_lastOccK (S : Schema) (hd : (allKeys S).Nodup) (i : Nat) (f : Field) (hi : S[i]? = some f) :
    ∀ kw, lastOcc S i kw = lastOccK (fieldKeys f) kw := by
  intro kw
  induction kw with
  | nil => rfl
  | cons kv rest ih =>
    obtain ⟨k, v⟩ := kv
    simp only [lastOcc, lastOccK, ih]
    cases lastOccK (fieldKeys f) rest with
    | some t => rfl
    | none =>
      simp only
      by_cases hk : k ∈ fieldKeys f
      · simp [find_of_mem S hd i f k hi hk, hk]
      · cases hf : find S k with
        | none => simp [hk]
        | some p =>
          obtain ⟨j, g⟩ := p
          have := find_sound S k j g hf
          by_cases hji : j = i
          · subst hji
            rw [hi] at this
            obtain ⟨h1, h2⟩ := this
            cases h1
            exact absurd h2 hk
          · simp [hji, hk]

theorem lastOccK_none_iff (keys : List Bytes) : ∀ kw : List KV,
    lastOccK keys kw = none ↔ ∀ kv ∈ kw, kv.1 ∉ keys := by
  intro kw
  induction kw with
  | nil => simp [lastOccK]
  | cons kv rest ih =>
    obtain ⟨k, v⟩ := kv
    simp only [lastOccK, List.mem_cons, forall_eq_or_imp]
    cases h : lastOccK keys rest with
    | some t =>
      simp only [reduceCtorEq, false_iff, not_and]
      intro _ hall
      exact absurd (ih.mpr hall) (by simp [h])
    | none =>
      by_cases hk : k ∈ keys
      · simp [hk]
      · simp only [hk, if_false, true_iff, not_false_eq_true, true_and]
        exact ih.mp h

theorem find_isNone_iff (S : Schema) (k : Bytes) : (find S k).isNone = true ↔ ∀ f ∈ S, k ∉ fieldKeys f := by
  constructor
  · intro h
    cases hf : find S k with
    | none => exact find_none S k hf
    | some p => simp [hf] at h
  · intro h
    cases hf : find S k with
    | none => rfl
    | some p =>
      obtain ⟨i, f⟩ := p
      have := find_sound S k i f hf
      exact absurd this.2 (h f (List.mem_of_getElem? this.1))

theorem firstErr_eq_some_iff (ops : FloatOps) (S : Schema) (option : Nat) (collect : Bool) (e : ErrKind) :
    ∀ kw : List KV, firstErr ops S option collect kw = some e ↔
      ∃ pre a post, kw = pre ++ a :: post ∧ (∀ b ∈ pre, argErr ops S option collect b = none) ∧
        argErr ops S option collect a = some e := by
  intro kw
  induction kw with
  | nil => simp [firstErr]
  | cons kv rest ih =>
    unfold firstErr
    cases ha : argErr ops S option collect kv with
    | some e' =>
      simp only [Option.some.injEq]
      constructor
      · rintro rfl; exact ⟨[], kv, rest, rfl, by simp, ha⟩
      · rintro ⟨pre, a, post, hkw, hpre, hae⟩
        cases pre with
        | nil =>
          simp only [List.nil_append, List.cons.injEq] at hkw
          obtain ⟨rfl, _⟩ := hkw
          rw [ha] at hae; exact Option.some.inj hae
        | cons p ps =>
          simp only [List.cons_append, List.cons.injEq] at hkw
          obtain ⟨rfl, _⟩ := hkw
          have := hpre kv (List.mem_cons_self ..)
          rw [ha] at this; cases this
    | none =>
      simp only
      rw [ih]
      constructor
      · rintro ⟨pre, a, post, rfl, hpre, hae⟩
        refine ⟨kv :: pre, a, post, rfl, ?_, hae⟩
        intro b hb
        rcases List.mem_cons.mp hb with rfl | hb
        · exact ha
        · exact hpre b hb
      · rintro ⟨pre, a, post, hkw, hpre, hae⟩
        cases pre with
        | nil =>
          simp only [List.nil_append, List.cons.injEq] at hkw
          obtain ⟨rfl, _⟩ := hkw
          rw [ha] at hae; cases hae
        | cons p ps =>
          simp only [List.cons_append, List.cons.injEq] at hkw
          obtain ⟨rfl, rfl⟩ := hkw
          exact ⟨ps, a, post, rfl, fun b hb => hpre b (List.mem_cons_of_mem _ hb), hae⟩

theorem firstErr_eq_none_iff (ops : FloatOps) (S : Schema) (option : Nat) (collect : Bool) :
    ∀ kw : List KV, firstErr ops S option collect kw = none ↔ ∀ b ∈ kw, argErr ops S option collect b = none := by
  intro kw
  induction kw with
  | nil => simp [firstErr]
  | cons kv rest ih =>
    unfold firstErr
    cases ha : argErr ops S option collect kv with
    | some e' => simp [ha]
    | none => simp [ha, ih]

/-- shape of a `RunInit` that does not throw -/
theorem runInit_ok (ops : FloatOps) (S : Schema) (option : Nat) (collect : Bool) (st : Struct) (kw : List KV)
    (h : (runInit ops S option collect st kw).err = none) :
    ∃ st1, (runInit ops S option collect st kw).st = st1 ∧
      (runUpdate ops S option collect st [] [] kw).err = none ∧
      applyDefaults (runUpdate ops S option collect st [] [] kw).sel (entryMap S)
        (runUpdate ops S option collect st [] [] kw).st = (st1, none) ∧
      (runInit ops S option collect st kw).unk = (runUpdate ops S option collect st [] [] kw).unk := by
  unfold runInit at h ⊢
  simp only at h ⊢
  cases hr : (runUpdate ops S option collect st [] [] kw).err with
  | some e => simp [hr] at h
  | none =>
    simp only [hr] at h ⊢
    rcases hd : applyDefaults (runUpdate ops S option collect st [] [] kw).sel (entryMap S)
      (runUpdate ops S option collect st [] [] kw).st with ⟨st1, e1⟩
    cases e1 with
    | some e => simp [hd] at h
    | none =>
      simp only [hd] at h ⊢
      have hspec := applyDefaults_spec S _ (entryMap S) _ st1 (fun e he => (entryMap_sound S e he).1) hd
      have hid : applyDefaults (runUpdate ops S option collect st [] [] kw).sel (entryMap S) st1 = (st1, none) := by
        apply applyDefaults_idem
        intro e he hns
        exact (hspec e.2.1).2 hns ⟨e, he, rfl⟩ e.2.2 (entryMap_sound S e he).1
      rw [hid]
      exact ⟨st1, rfl, by simp, by simp, by simp⟩

/-- the error of `RunInit` -/
theorem runInit_err (ops : FloatOps) (S : Schema) (option : Nat) (collect : Bool) (st : Struct) (kw : List KV) :
    (runInit ops S option collect st kw).err =
      match firstErr ops S option collect kw with
      | some e => some e
      | none => (applyDefaults (runUpdate ops S option collect st [] [] kw).sel (entryMap S)
          (runUpdate ops S option collect st [] [] kw).st).2 := by
  unfold runInit
  simp only
  have he := runUpdate_err ops S option collect kw st [] []
  cases hr : (runUpdate ops S option collect st [] [] kw).err with
  | some e => rw [hr] at he; simp [← he, hr]
  | none =>
    rw [hr] at he
    simp only [← he]
    rcases hd : applyDefaults (runUpdate ops S option collect st [] [] kw).sel (entryMap S)
      (runUpdate ops S option collect st [] [] kw).st with ⟨st1, e1⟩
    cases e1 with
    | some e => simp
    | none =>
      simp only
      have hspec := applyDefaults_spec S _ (entryMap S) _ st1 (fun e he => (entryMap_sound S e he).1) hd
      have hid : applyDefaults (runUpdate ops S option collect st [] [] kw).sel (entryMap S) st1 = (st1, none) := by
        apply applyDefaults_idem
        intro e he hns
        exact (hspec e.2.1).2 hns ⟨e, he, rfl⟩ e.2.2 (entryMap_sound S e he).1
      rw [hid]

theorem runInit_ok_spec (ops : FloatOps) (S : Schema) (hS : (allKeys S).Nodup) (option : Nat) (collect : Bool)
    (st : Struct) (kw : List KV) (h : (runInit ops S option collect st kw).err = none) :
    (∀ i f, S[i]? = some f →
      match lastOccK (fieldKeys f) kw with
      | some t => parse ops f t = .ok ((runInit ops S option collect st kw).st i)
      | none => f.dflt = some ((runInit ops S option collect st kw).st i)) ∧
    (runInit ops S option collect st kw).unk =
      (if collect then kw.filter (fun kv => (find S kv.1).isNone) else []) := by
  obtain ⟨st1, hst, herr, hdef, hunk⟩ := runInit_ok ops S option collect st kw h
  obtain ⟨h1, h2, h3⟩ := runUpdate_ok ops S option collect kw st [] [] herr
  have hspec := applyDefaults_spec S _ (entryMap S) _ st1 (fun e he => (entryMap_sound S e he).1) hdef
  refine ⟨fun i f hi => ?_, ?_⟩
  · rw [hst, ← lastOcc_eq_lastOccK S hS i f hi kw]
    cases hl : lastOcc S i kw with
    | some t =>
      simp only
      have hsel : i ∈ (runUpdate ops S option collect st [] [] kw).sel := (h2 i).mpr (Or.inr (by simp [hl]))
      rw [(hspec i).1 (Or.inl hsel)]
      exact (h1 i).2 t hl f hi
    | none =>
      simp only
      have hsel : i ∉ (runUpdate ops S option collect st [] [] kw).sel := by
        intro hc
        rcases (h2 i).mp hc with hc | hc
        · simp at hc
        · simp [hl] at hc
      exact (hspec i).2 hsel ⟨(f.name, i, f), entryMap_complete S hS i f f.name hi (by simp [fieldKeys]), rfl⟩ f hi
  · rw [hunk, h3]
    cases collect <;> simp [Gen.Param.collects, unknownArgs]


theorem runInit_error_iff (ops : FloatOps) (S : Schema) (hS : (allKeys S).Nodup) (option : Nat) (collect : Bool)
    (st : Struct) (kw : List KV) (e : ErrKind) :
    (runInit ops S option collect st kw).err = some e ↔
      firstErr ops S option collect kw = some e ∨
      (firstErr ops S option collect kw = none ∧ e = .required ∧
        ∃ (i : Nat) (f : Field), S[i]? = some f ∧ f.dflt = none ∧ lastOccK (fieldKeys f) kw = none) := by
  rw [runInit_err]
  cases hfe : firstErr ops S option collect kw with
  | some e' => simp
  | none =>
    simp only [reduceCtorEq, false_or, true_and]
    have herr : (runUpdate ops S option collect st [] [] kw).err = none := by
      rw [runUpdate_err]; exact hfe
    obtain ⟨_, h2, _⟩ := runUpdate_ok ops S option collect kw st [] [] herr
    have hd := applyDefaults_err (runUpdate ops S option collect st [] [] kw).sel (entryMap S)
      (runUpdate ops S option collect st [] [] kw).st
    constructor
    · intro h
      have hreq : e = .required := by
        rcases hd.1 with h0 | h0
        · rw [h0] at h; cases h
        · rw [h0] at h; exact (Option.some.inj h).symm
      subst hreq
      obtain ⟨en, hen, hns, hdf⟩ := hd.2.mp h
      obtain ⟨hs1, _⟩ := entryMap_sound S en hen
      refine ⟨rfl, en.2.1, en.2.2, hs1, hdf, ?_⟩
      rw [← lastOcc_eq_lastOccK S hS en.2.1 en.2.2 hs1 kw]
      cases hl : lastOcc S en.2.1 kw with
      | none => rfl
      | some t => exact absurd ((h2 en.2.1).mpr (Or.inr (by simp [hl]))) hns
    · rintro ⟨rfl, i, f, hi, hdf, hl⟩
      apply hd.2.mpr
      refine ⟨(f.name, i, f), entryMap_complete S hS i f f.name hi (by simp [fieldKeys]), ?_, hdf⟩
      intro hc
      rw [← lastOcc_eq_lastOccK S hS i f hi kw] at hl
      rcases (h2 i).mp hc with hc | hc
      · simp at hc
      · simp [hl] at hc


end DmlcModel.Param
