import DmlcModel.Param.Model
import DmlcModel.StrToNum.Model
/-!
The float/double conversion of the Param model instantiated with the C14 model of `dmlc::stof` / `dmlc::stod`
(`StrToNum.sto`, which follows the repaired strtonum.h).  Core Lean only (used by the driver).
-/
namespace DmlcModel.Param
open DmlcModel

/-- `dmlc::stof(value, &pos)` / `stod` on the `std::string` `text` (its `c_str()` is `text` + NUL);
`stale` = `errno == ERANGE` on entry (irrelevant for the result since fixes/C14-2) -/
def c14Conv (f : StrToNum.Fmt) (stale : Bool) (text : Bytes) : FRes :=
  match StrToNum.sto f (if stale then StrToNum.ERANGE else 0) (text ++ [0]) with
  | .ok v pos _ => .ok (v.bits f) pos
  | .throwInvalid => .invalid
  | .throwRange => .outOfRange
  | .fault _ => .fatal

/-- the `FloatOps` whose conversions are the C14 models; printing stays a parameter -/
def opsC14 (stale : Bool) (print32 print64 : Nat → Bytes) : FloatOps :=
  { conv32 := c14Conv .F32 stale, conv64 := c14Conv .F64 stale, print32 := print32, print64 := print64 }

end DmlcModel.Param
