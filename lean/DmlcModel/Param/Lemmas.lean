import DmlcModel.Param.Model
/-!
Lemmas about the control flow of the Param model: `find`, `runUpdate`, `applyDefaults`, `runInit`.
Core Lean only.
-/
namespace DmlcModel.Param
open DmlcModel

/-! ### `upd` -/

@[simp] theorem upd_same (st : Struct) (i : Nat) (v : Val) : upd st i v i = v := by simp [upd]
@[simp] theorem upd_other (st : Struct) (i j : Nat) (v : Val) (h : j ≠ i) : upd st i v j = st j := by
  simp [upd, h]
theorem upd_self (st : Struct) (i : Nat) : upd st i (st i) = st := by
  funext j; by_cases h : j = i <;> simp [upd, h]

/-! ### `find` -/

theorem find_cons (g : Field) (gs : Schema) (k : Bytes) : find (g :: gs) k =
    if k ∈ fieldKeys g then some (0, g) else (find gs k).map (fun p => (p.1 + 1, p.2)) := by
  rw [find.eq_2]
  by_cases h : k ∈ fieldKeys g
  · simp [h]
  · simp [h]
    cases find gs k with
    | none => rfl
    | some p => rfl

theorem find_sound : ∀ (S : Schema) (k : Bytes) (i : Nat) (f : Field),
    find S k = some (i, f) → S[i]? = some f ∧ k ∈ fieldKeys f := by
  intro S
  induction S with
  | nil => intro k i f h; simp [find] at h
  | cons g gs ih =>
    intro k i f h
    rw [find_cons] at h
    by_cases hc : k ∈ fieldKeys g
    · simp [hc] at h
      obtain ⟨rfl, rfl⟩ := h
      exact ⟨by simp, hc⟩
    · simp only [hc, if_false] at h
      cases hf : find gs k with
      | none => simp [hf] at h
      | some p =>
        obtain ⟨j, g'⟩ := p
        simp [hf] at h
        obtain ⟨rfl, rfl⟩ := h
        have := ih k j g' hf
        exact ⟨by simpa using this.1, this.2⟩

theorem find_none : ∀ (S : Schema) (k : Bytes), find S k = none → ∀ f ∈ S, k ∉ fieldKeys f := by
  intro S
  induction S with
  | nil => intro k _ f hf; simp at hf
  | cons g gs ih =>
    intro k h f hf
    rw [find_cons] at h
    by_cases hc : k ∈ fieldKeys g
    · simp [hc] at h
    · simp only [hc, if_false] at h
      cases hfd : find gs k with
      | some p => simp [hfd] at h
      | none =>
        rcases List.mem_cons.mp hf with rfl | hm
        · exact hc
        · exact ih k hfd f hm

/-- all keys of the schema (names and aliases, in declaration order) -/
def allKeys (S : Schema) : List Bytes := S.flatMap fieldKeys

/-- with pairwise distinct keys, a key of field `i` finds field `i` -/
theorem find_of_mem : ∀ (S : Schema) (_hd : (allKeys S).Nodup) (i : Nat) (f : Field) (k : Bytes),
    S[i]? = some f → k ∈ fieldKeys f → find S k = some (i, f) := by
  intro S
  induction S with
  | nil => intro _ i f k h; simp at h
  | cons g gs ih =>
    intro hd i f k hi hk
    have hd' : (fieldKeys g ++ allKeys gs).Nodup := by simpa [allKeys] using hd
    have hdg : (allKeys gs).Nodup := (List.nodup_append.mp hd').2.1
    rw [find_cons]
    cases i with
    | zero =>
      simp at hi
      subst hi
      simp [hk]
    | succ j =>
      simp at hi
      have hmem : f ∈ gs := List.mem_of_getElem? hi
      have hk' : k ∈ allKeys gs := by
        simp only [allKeys, List.mem_flatMap]
        exact ⟨f, hmem, hk⟩
      have hnot : ¬ k ∈ fieldKeys g := by
        intro hkg
        exact (List.nodup_append.mp hd').2.2 k hkg k hk' rfl
      simp [hnot, ih hdg j f k hi hk]

/-! ### one argument -/

/-- the error an argument causes (none: the argument is processed without exception).  Stated with
the value-initialised old value; `argErr_indep` shows the old value is irrelevant. -/
def argErr (ops : FloatOps) (S : Schema) (option : Nat) (collect : Bool) (kv : KV) : Option ErrKind :=
  match find S kv.1 with
  | some (_, f) => (applyArg ops f (zeroVal f.ty) kv.2).2
  | none =>
    if Gen.Param.collects collect then none
    else if Gen.Param.polMayReject option then (if hiddenSkip option kv.1 then none else some .unknown)
    else none

/-- the value a successful argument stores -/
def parse (ops : FloatOps) (f : Field) (text : Bytes) : Except ErrKind Val :=
  match applyArg ops f (zeroVal f.ty) text with
  | (v, none) => .ok v
  | (_, some e) => .error e

theorem setInt_indep (k : IntKind) (old old' : Val) (text : Bytes) :
    (setInt k old text).2 = (setInt k old' text).2 ∧
    ((setInt k old text).2 = none → (setInt k old text).1 = (setInt k old' text).1) := by
  unfold setInt
  cases extract k text with
  | none => simp
  | some p => obtain ⟨v, fail, rest⟩ := p; simp

theorem setFloat_indep (conv : Bytes → FRes) (old old' : Val) (text : Bytes) :
    (setFloat conv old text).2 = (setFloat conv old' text).2 ∧
    ((setFloat conv old text).2 = none → (setFloat conv old text).1 = (setFloat conv old' text).1) := by
  unfold setFloat
  cases conv text with
  | invalid => simp
  | outOfRange => simp
  | fatal => simp
  | ok bits pos =>
    by_cases h1 : pos > text.length
    · simp [h1]
    · by_cases h2 : pos < text.length <;> simp [h1, h2]

theorem setBool_indep (old old' : Val) (text : Bytes) :
    (setBool old text).2 = (setBool old' text).2 ∧
    ((setBool old text).2 = none → (setBool old text).1 = (setBool old' text).1) := by
  unfold setBool
  cases Gen.Param.boolTable.find? (fun e => e.1 == text.map cToLower) with
  | none => simp
  | some p => simp

theorem setOptBool_indep (old old' : Val) (text : Bytes) :
    (setOptBool old text).2 = (setOptBool old' text).2 ∧
    ((setOptBool old text).2 = none → (setOptBool old text).1 = (setOptBool old' text).1) := by
  unfold setOptBool
  simp only
  cases Gen.Param.optBoolTable.find? (fun e => e.1 == (List.takeWhile cIsAlnum (skipWs text)).map cToLower) with
  | none => simp
  | some p => simp

/-- error and (on success) stored value of `Set` do not depend on the previous field content -/
theorem setVal_indep (ops : FloatOps) (f : Field) (old old' : Val) (text : Bytes) :
    (setVal ops f old text).2 = (setVal ops f old' text).2 ∧
    ((setVal ops f old text).2 = none → (setVal ops f old text).1 = (setVal ops f old' text).1) := by
  unfold setVal
  cases f.ty with
  | int => exact setInt_indep _ _ _ _
  | uint => exact setInt_indep _ _ _ _
  | int64 => exact setInt_indep _ _ _ _
  | float => exact setFloat_indep _ _ _ _
  | double => exact setFloat_indep _ _ _ _
  | bool => exact setBool_indep _ _ _
  | string => simp
  | enumInt =>
    simp only
    cases lookupEnum f.enums text with
    | none => simp
    | some v => exact setInt_indep _ _ _ _
  | optInt => simp
  | optEnum =>
    simp only
    by_cases h : (text != Gen.Param.optEnumNone) = true
    · simp only [h, if_true]
      cases lookupEnum f.enums text with
      | none => simp
      | some v => simp
    · simp [h]
  | optBool => exact setOptBool_indep _ _ _

theorem applyArg_indep (ops : FloatOps) (f : Field) (old old' : Val) (text : Bytes) :
    (applyArg ops f old text).2 = (applyArg ops f old' text).2 ∧
    ((applyArg ops f old text).2 = none → (applyArg ops f old text).1 = (applyArg ops f old' text).1) := by
  have h := setVal_indep ops f old old' text
  unfold applyArg
  rcases hs : setVal ops f old text with ⟨v, e⟩
  rcases hs' : setVal ops f old' text with ⟨v', e'⟩
  rw [hs, hs'] at h
  simp only at h
  obtain ⟨he, hv⟩ := h
  subst he
  cases e with
  | some e => simp
  | none =>
    have := hv rfl
    subst this
    simp

/-- a successful argument stores `parse f text`, whatever the field held before -/
theorem applyArg_ok (ops : FloatOps) (f : Field) (old : Val) (text : Bytes) (v : Val)
    (h : applyArg ops f old text = (v, none)) : parse ops f text = .ok v := by
  have hi := applyArg_indep ops f old (zeroVal f.ty) text
  rw [h] at hi
  simp only at hi
  unfold parse
  rcases hz : applyArg ops f (zeroVal f.ty) text with ⟨v', e'⟩
  rw [hz] at hi
  simp only at hi
  obtain ⟨he, hv⟩ := hi
  subst he
  have := hv trivial
  subst this
  rfl

theorem applyArg_err (ops : FloatOps) (f : Field) (old : Val) (text : Bytes) :
    (applyArg ops f old text).2 = (applyArg ops f (zeroVal f.ty) text).2 :=
  (applyArg_indep ops f old (zeroVal f.ty) text).1

/-! ### `runUpdate` -/

/-- the text of the last argument addressed to field `i` -/
def lastOcc (S : Schema) (i : Nat) : List KV → Option Bytes
  | [] => none
  | (k, v) :: rest =>
    match lastOcc S i rest with
    | some t => some t
    | none =>
      match find S k with
      | some (j, _) => if j = i then some v else none
      | none => none

/-- the arguments whose key is not registered -/
def unknownArgs (S : Schema) (kw : List KV) : List KV := kw.filter fun kv => (find S kv.1).isNone

/-- first error in argument order -/
def firstErr (ops : FloatOps) (S : Schema) (option : Nat) (collect : Bool) : List KV → Option ErrKind
  | [] => none
  | kv :: rest =>
    match argErr ops S option collect kv with
    | some e => some e
    | none => firstErr ops S option collect rest

theorem runUpdate_err (ops : FloatOps) (S : Schema) (option : Nat) (collect : Bool) :
    ∀ (kw : List KV) (st : Struct) (sel : List Nat) (unk : List KV),
      (runUpdate ops S option collect st sel unk kw).err = firstErr ops S option collect kw := by
  intro kw
  induction kw with
  | nil => intro st sel unk; simp [runUpdate, firstErr]
  | cons kv rest ih =>
    intro st sel unk
    obtain ⟨k, v⟩ := kv
    unfold runUpdate firstErr argErr
    cases hf : find S k with
    | some p =>
      obtain ⟨i, f⟩ := p
      simp only
      have he := applyArg_err ops f (st i) v
      rcases ha : applyArg ops f (st i) v with ⟨nv, e⟩
      rw [ha] at he
      simp only at he
      cases e with
      | some e => simp [← he]
      | none => simp [← he, ih]
    | none =>
      simp only
      by_cases hc : Gen.Param.collects collect = true
      · simp [hc, ih]
      · by_cases hp : Gen.Param.polMayReject option = true
        · by_cases hh : hiddenSkip option k = true
          · simp [hc, hp, hh, ih]
          · simp [hc, hp, hh]
        · simp [hc, hp, ih]

/-- effect of a `RunUpdate` that does not throw -/
theorem runUpdate_ok (ops : FloatOps) (S : Schema) (option : Nat) (collect : Bool) :
    ∀ (kw : List KV) (st : Struct) (sel : List Nat) (unk : List KV),
      (runUpdate ops S option collect st sel unk kw).err = none →
      (∀ i, (lastOcc S i kw = none → (runUpdate ops S option collect st sel unk kw).st i = st i) ∧
            (∀ t, lastOcc S i kw = some t → ∀ f, S[i]? = some f →
              parse ops f t = .ok ((runUpdate ops S option collect st sel unk kw).st i))) ∧
      (∀ i, i ∈ (runUpdate ops S option collect st sel unk kw).sel ↔ i ∈ sel ∨ (lastOcc S i kw).isSome) ∧
      (runUpdate ops S option collect st sel unk kw).unk =
        unk ++ (if Gen.Param.collects collect then unknownArgs S kw else []) := by
  intro kw
  induction kw with
  | nil =>
    intro st sel unk _
    refine ⟨fun i => ⟨fun _ => by simp [runUpdate], fun t h => by simp [lastOcc] at h⟩, fun i => by simp [runUpdate, lastOcc], ?_⟩
    by_cases hc : Gen.Param.collects collect = true <;> simp [runUpdate, unknownArgs, hc]
  | cons kv rest ih =>
    intro st sel unk herr
    obtain ⟨k, v⟩ := kv
    cases hf : find S k with
    | some p =>
      obtain ⟨j, g⟩ := p
      have hg := (find_sound S k j g hf).1
      rcases ha : applyArg ops g (st j) v with ⟨nv, e⟩
      cases e with
      | some e => simp [runUpdate, hf, ha] at herr
      | none =>
        have hrun : runUpdate ops S option collect st sel unk ((k, v) :: rest) =
            runUpdate ops S option collect (upd st j nv) (j :: sel) unk rest := by
          simp [runUpdate, hf, ha]
        rw [hrun] at herr ⊢
        obtain ⟨h1, h2, h3⟩ := ih (upd st j nv) (j :: sel) unk herr
        have hp : parse ops g v = .ok nv := applyArg_ok ops g (st j) v nv ha
        refine ⟨fun i => ⟨?_, ?_⟩, fun i => ?_, ?_⟩
        · intro hl
          simp only [lastOcc, hf] at hl
          cases hr : lastOcc S i rest with
          | some t => simp [hr] at hl
          | none =>
            simp only [hr] at hl
            have hji : j ≠ i := by
              intro hji; simp [hji] at hl
            rw [(h1 i).1 hr]
            exact upd_other st j i nv (Ne.symm hji)
        · intro t hl f hfi
          simp only [lastOcc, hf] at hl
          cases hr : lastOcc S i rest with
          | some t' =>
            simp only [hr, Option.some.injEq] at hl
            subst hl
            exact (h1 i).2 t' hr f hfi
          | none =>
            simp only [hr] at hl
            by_cases hji : j = i
            · subst hji
              simp at hl
              subst hl
              rw [(h1 j).1 hr, upd_same]
              rw [hg] at hfi
              cases hfi
              exact hp
            · simp [hji] at hl
        · rw [h2 i]
          simp only [lastOcc, hf]
          cases hr : lastOcc S i rest with
          | some t' => simp
          | none =>
            by_cases hji : j = i
            · subst hji; simp
            · simp [hji, Ne.symm hji]
        · rw [h3]
          by_cases hc : Gen.Param.collects collect = true
          · simp [hc, unknownArgs, List.filter, hf]
          · simp [hc]
    | none =>
      have hl : ∀ i, lastOcc S i ((k, v) :: rest) = lastOcc S i rest := by
        intro i
        simp only [lastOcc, hf]
        cases lastOcc S i rest <;> rfl
      by_cases hc : Gen.Param.collects collect = true
      · have hrun : runUpdate ops S option collect st sel unk ((k, v) :: rest) =
            runUpdate ops S option collect st sel (unk ++ [(k, v)]) rest := by
          simp [runUpdate, hf, hc]
        rw [hrun] at herr ⊢
        obtain ⟨h1, h2, h3⟩ := ih st sel (unk ++ [(k, v)]) herr
        refine ⟨fun i => by rw [hl i]; exact h1 i, fun i => by rw [hl i]; exact h2 i, ?_⟩
        rw [h3]
        simp [hc, unknownArgs, List.filter, hf]
      · have hskip : runUpdate ops S option collect st sel unk ((k, v) :: rest) =
            runUpdate ops S option collect st sel unk rest := by
          by_cases hp : Gen.Param.polMayReject option = true
          · by_cases hh : hiddenSkip option k = true
            · simp [runUpdate, hf, hc, hp, hh]
            · simp [runUpdate, hf, hc, hp, hh] at herr
          · simp [runUpdate, hf, hc, hp]
        rw [hskip] at herr ⊢
        obtain ⟨h1, h2, h3⟩ := ih st sel unk herr
        refine ⟨fun i => by rw [hl i]; exact h1 i, fun i => by rw [hl i]; exact h2 i, ?_⟩
        rw [h3]
        simp [hc]

/-- fields that no argument addresses keep their value — also when `RunUpdate` throws -/
theorem runUpdate_frame (ops : FloatOps) (S : Schema) (option : Nat) (collect : Bool) :
    ∀ (kw : List KV) (st : Struct) (sel : List Nat) (unk : List KV) (i : Nat),
      lastOcc S i kw = none → (runUpdate ops S option collect st sel unk kw).st i = st i := by
  intro kw
  induction kw with
  | nil => intro st sel unk i _; simp [runUpdate]
  | cons kv rest ih =>
    intro st sel unk i hl
    obtain ⟨k, v⟩ := kv
    cases hf : find S k with
    | some p =>
      obtain ⟨j, g⟩ := p
      simp only [lastOcc, hf] at hl
      cases hr : lastOcc S i rest with
      | some t => simp [hr] at hl
      | none =>
        simp only [hr] at hl
        have hji : i ≠ j := by
          intro hji; simp [hji] at hl
        rcases ha : applyArg ops g (st j) v with ⟨nv, e⟩
        cases e with
        | some e => simp [runUpdate, hf, ha, upd_other st j i nv hji]
        | none =>
          simp only [runUpdate, hf, ha]
          rw [ih _ _ _ i hr]
          exact upd_other st j i nv hji
    | none =>
      have hr : lastOcc S i rest = none := by
        simp only [lastOcc, hf] at hl
        cases h : lastOcc S i rest with
        | some t => simp [h] at hl
        | none => rfl
      simp only [runUpdate, hf]
      by_cases hc : Gen.Param.collects collect = true
      · simp [hc, ih _ _ _ i hr]
      · by_cases hp : Gen.Param.polMayReject option = true
        · by_cases hh : hiddenSkip option k = true
          · simp [hc, hp, hh, ih _ _ _ i hr]
          · simp [hc, hp, hh]
        · simp [hc, hp, ih _ _ _ i hr]

/-! ### `applyDefaults` -/

theorem applyDefaults_spec (S : Schema) (sel : List Nat) :
    ∀ (L : List (Bytes × Nat × Field)) (st st' : Struct),
      (∀ e ∈ L, S[e.2.1]? = some e.2.2) →
      applyDefaults sel L st = (st', none) →
      ∀ i, ((i ∈ sel ∨ ∀ e ∈ L, e.2.1 ≠ i) → st' i = st i) ∧
           (i ∉ sel → (∃ e ∈ L, e.2.1 = i) → ∀ f, S[i]? = some f → f.dflt = some (st' i)) := by
  intro L
  induction L with
  | nil =>
    intro st st' _ h i
    simp [applyDefaults] at h
    subst h
    exact ⟨fun _ => rfl, fun _ h => by simp at h⟩
  | cons e rest ih =>
    intro st st' hs h i
    obtain ⟨k, j, g⟩ := e
    have hsr : ∀ e ∈ rest, S[e.2.1]? = some e.2.2 := fun e he => hs e (List.mem_cons_of_mem _ he)
    have hjg : S[j]? = some g := hs (k, j, g) (List.mem_cons_self ..)
    unfold applyDefaults at h
    by_cases hc : sel.contains j = true
    · simp only [hc, if_true] at h
      have hjs : j ∈ sel := by simpa using hc
      have := ih st st' hsr h i
      refine ⟨fun hh => this.1 ?_, fun hn hex f hf => this.2 hn ?_ f hf⟩
      · rcases hh with hh | hh
        · exact Or.inl hh
        · exact Or.inr fun e he => hh e (List.mem_cons_of_mem _ he)
      · obtain ⟨e, he, hei⟩ := hex
        rcases List.mem_cons.mp he with rfl | he
        · simp only at hei; subst hei; exact absurd hjs hn
        · exact ⟨e, he, hei⟩
    · simp only [hc] at h
      have hjs : j ∉ sel := by simpa using hc
      cases hd : g.dflt with
      | none => simp [hd] at h
      | some d =>
        simp only [hd] at h
        have := ih (upd st j d) st' hsr h i
        refine ⟨fun hh => ?_, fun hn hex f hf => ?_⟩
        · have hji : i ≠ j := by
            rcases hh with hh | hh
            · intro hij; subst hij; exact hjs hh
            · intro hij; exact hh (k, j, g) (List.mem_cons_self ..) hij.symm
          rw [this.1 (by
            rcases hh with hh | hh
            · exact Or.inl hh
            · exact Or.inr fun e he => hh e (List.mem_cons_of_mem _ he))]
          exact upd_other st j i d hji
        · by_cases hrest : ∃ e ∈ rest, e.2.1 = i
          · exact this.2 hn hrest f hf
          · have hij : j = i := by
              obtain ⟨e, he, hei⟩ := hex
              rcases List.mem_cons.mp he with rfl | he
              · exact hei
              · exact absurd ⟨e, he, hei⟩ hrest
            subst hij
            rw [hjg] at hf
            cases hf
            rw [hd, this.1 (Or.inr fun e he hei => hrest ⟨e, he, hei⟩), upd_same]

/-- the default loop fails exactly when some entry is unselected and has no default -/
theorem applyDefaults_err (sel : List Nat) :
    ∀ (L : List (Bytes × Nat × Field)) (st : Struct),
      ((applyDefaults sel L st).2 = none ∨ (applyDefaults sel L st).2 = some .required) ∧
      ((applyDefaults sel L st).2 = some .required ↔ ∃ e ∈ L, e.2.1 ∉ sel ∧ e.2.2.dflt = none) := by
  intro L
  induction L with
  | nil => intro st; simp [applyDefaults]
  | cons e rest ih =>
    intro st
    obtain ⟨k, j, g⟩ := e
    unfold applyDefaults
    by_cases hc : sel.contains j = true
    · have hjs : j ∈ sel := by simpa using hc
      simp only [hc, if_true]
      refine ⟨(ih st).1, ?_⟩
      rw [(ih st).2]
      constructor
      · rintro ⟨e, he, h⟩; exact ⟨e, List.mem_cons_of_mem _ he, h⟩
      · rintro ⟨e, he, h⟩
        rcases List.mem_cons.mp he with rfl | he
        · exact absurd hjs h.1
        · exact ⟨e, he, h⟩
    · have hjs : j ∉ sel := by simpa using hc
      rw [if_neg hc]
      cases hd : g.dflt with
      | none =>
        simp only
        exact ⟨Or.inr trivial, fun _ => ⟨(k, j, g), List.mem_cons_self .., hjs, hd⟩, fun _ => trivial⟩
      | some d =>
        simp only
        refine ⟨(ih _).1, ?_⟩
        rw [(ih _).2]
        constructor
        · rintro ⟨e, he, h⟩; exact ⟨e, List.mem_cons_of_mem _ he, h⟩
        · rintro ⟨e, he, h⟩
          rcases List.mem_cons.mp he with rfl | he
          · simp [hd] at h
          · exact ⟨e, he, h⟩

/-- a second pass over entries that already hold their defaults changes nothing -/
theorem applyDefaults_idem (sel : List Nat) :
    ∀ (L : List (Bytes × Nat × Field)) (st : Struct),
      (∀ e ∈ L, e.2.1 ∉ sel → e.2.2.dflt = some (st e.2.1)) → applyDefaults sel L st = (st, none) := by
  intro L
  induction L with
  | nil => intro st _; simp [applyDefaults]
  | cons e rest ih =>
    intro st h
    obtain ⟨k, j, g⟩ := e
    unfold applyDefaults
    by_cases hc : sel.contains j = true
    · simp only [hc, if_true]
      exact ih st fun e he => h e (List.mem_cons_of_mem _ he)
    · have hjs : j ∉ sel := by simpa using hc
      have hd := h (k, j, g) (List.mem_cons_self ..) hjs
      simp only at hd
      simp only [hc, hd, upd_self]
      exact ih st fun e he => h e (List.mem_cons_of_mem _ he)

end DmlcModel.Param
