import DmlcModel.Basic
import DmlcModel.Gen.Param
import DmlcModel.Param.IStream
import DmlcModel.Json.Model
/-!
Executable model of `dmlc::Parameter` (include/dmlc/parameter.h, optional.h): `FieldEntry<T>::Set` /
`Check` per field type, `ParamManager::RunUpdate` / `RunInit`, `InitAllowUnknown`,
`UpdateAllowUnknown`, `UpdateDict`, `__DICT__`, `Save` / `Load` (JSON through the C16 model `Json.Model`).  Same branch structure as the C++;
every constant, table and branch condition comes from `Gen.Param`.  Core Lean only.

The text → float/double conversion (`dmlc::stof` / `dmlc::stod`) and the float printing
(`os << setprecision(max_digits10) << v`) are parameters (`FloatOps`): the model is generic in them.
-/
namespace DmlcModel.Param
open DmlcModel

inductive Ty
  | int | uint | int64 | float | double | bool | string | enumInt | optInt | optEnum | optBool
  deriving DecidableEq, Repr

/-- a field value.  `flt` carries the IEEE bit pattern (binary32 or binary64 according to the field
type).  `undef`: indeterminate (C++ copied an uninitialised temporary into the field). -/
inductive Val
  | int (v : Int)
  | flt (bits : Nat)
  | bool (b : Bool)
  | str (s : Bytes)
  | oint (v : Option Int)
  | obool (v : Option Bool)
  | undef
  deriving DecidableEq, Repr

/-- what is thrown.  All but `check` are `dmlc::ParamError`s (told apart by their message);
`check` is a `dmlc::Error` raised by a `CHECK` (not a `ParamError`). -/
inductive ErrKind
  | unknown     -- "Cannot find argument"
  | format      -- "Invalid Parameter format for"
  | enum        -- "Invalid Input:"
  | trailing    -- "Some trailing characters could not be parsed"
  | oor         -- "Out of range value for"
  | range       -- "value … for Parameter … exceed bound / should be greater / smaller"
  | required    -- "Required parameter … is not presented"
  | check
  deriving DecidableEq, Repr

structure Field where
  name : Bytes
  aliases : List Bytes
  ty : Ty
  /-- `has_default_` / `default_value_` -/
  dflt : Option Val
  /-- `has_begin_` / `begin_` -/
  lo : Option Val
  /-- `has_end_` / `end_` -/
  hi : Option Val
  /-- `enum_map_` (keys distinct: `add_enum` rejects duplicates) -/
  enums : List (Bytes × Int)
  deriving Repr

abbrev Schema := List Field
abbrev Struct := Nat → Val
abbrev KV := Bytes × Bytes

def upd (st : Struct) (i : Nat) (v : Val) : Struct := fun j => if j = i then v else st j

/-- value-initialised C++ field -/
def zeroVal : Ty → Val
  | .int | .uint | .int64 | .enumInt => .int 0
  | .float | .double => .flt 0
  | .bool => .bool false
  | .string => .str []
  | .optInt | .optEnum => .oint none
  | .optBool => .obool none

def zeroStruct (S : Schema) : Struct := fun i =>
  match S[i]? with
  | some f => zeroVal f.ty
  | none => .undef

/-! ### the numeric conversions the model is generic in -/

/-- outcome of `dmlc::stof(value, &pos)` / `stod` -/
inductive FRes
  | ok (bits : Nat) (pos : Nat)
  | invalid        -- std::invalid_argument
  | outOfRange     -- std::out_of_range
  | fatal          -- dmlc::Error from a CHECK inside the conversion
  deriving DecidableEq, Repr

structure FloatOps where
  conv32 : Bytes → FRes
  conv64 : Bytes → FRes
  /-- `os << std::setprecision(9) << v` -/
  print32 : Nat → Bytes
  /-- `os << std::setprecision(17) << v` -/
  print64 : Nat → Bytes

/-! ### comparisons used by `Check` -/

/-- order key of an IEEE bit pattern (`ebits` exponent bits, `mbits` fraction bits); `none` for NaN.
For non-NaN values IEEE order = order of the sign-magnitude integers; +0 and −0 both map to 0. -/
def fltKey (ebits mbits : Nat) (b : Nat) : Option Int :=
  let mag := b % 2 ^ (ebits + mbits)
  let neg := b / 2 ^ (ebits + mbits) % 2 == 1
  if mag > (2 ^ ebits - 1) * 2 ^ mbits then none
  else some (if neg then - (mag : Int) else (mag : Int))

def fltLt (ebits mbits : Nat) (a b : Nat) : Bool :=
  match fltKey ebits mbits a, fltKey ebits mbits b with
  | some x, some y => decide (x < y)
  | _, _ => false

/-- `a < b` at the field's C++ type -/
def vLt : Ty → Val → Val → Bool
  | .float, .flt x, .flt y => fltLt 8 23 x y
  | .double, .flt x, .flt y => fltLt 11 52 x y
  | .int, .int x, .int y => decide (x < y)
  | .uint, .int x, .int y => decide (x < y)
  | .int64, .int x, .int y => decide (x < y)
  | .enumInt, .int x, .int y => decide (x < y)
  | _, _, _ => false

/-- the field types whose entry class derives from `FieldEntryNumeric` -/
def hasCheck : Ty → Bool
  | .int | .uint | .int64 | .float | .double | .enumInt => true
  | _ => false

/-- `FieldEntryNumeric::Check` -/
def check (f : Field) (v : Val) : Option ErrKind :=
  if !hasCheck f.ty then none
  else
    let hasB := f.lo.isSome
    let hasE := f.hi.isSome
    let ltB := match f.lo with | some lo => vLt f.ty v lo | none => false
    let gtE := match f.hi with | some hi => vLt f.ty hi v | none => false
    if Gen.Param.chkBoth hasB hasE ltB gtE then
      (if Gen.Param.chkBothFail hasB hasE ltB gtE then some .range else none)
    else if Gen.Param.chkLowerFail hasB hasE ltB gtE then some .range
    else if Gen.Param.chkUpperFail hasB hasE ltB gtE then some .range
    else none

/-! ### `Set` per field type -/

/-- the loop after `is >> v` in `FieldEntryBase::Set`: every remaining character must satisfy
`dmlc::isspace`; `true` = the stream did not fail -/
def wsRest : Bytes → Bool
  | [] => true
  | c :: cs => if Gen.Param.dmlcIsSpace c.toNat then wsRest cs else false

/-- generic `FieldEntryBase::Set` for an integer type -/
def setInt (k : IntKind) (old : Val) (text : Bytes) : Val × Option ErrKind :=
  match extract k text with
  | none => (old, some .format)
  | some (v, fail, rest) => (.int v, if !fail && wsRest rest then none else some .format)

/-- `operator>>(std::istream&, optional<int>&)` followed by the remainder loop of `Set` -/
def setOptInt (text : Bytes) : Val × Option ErrKind :=
  if text.take Gen.Param.noneProbeLen == Gen.Param.noneProbe then
    (.oint none, if wsRest (text.drop Gen.Param.noneProbeLen) then none else some .format)
  else
    match extract .i32 text with
    | none => (.undef, some .format)     -- `T x; is >> x; t = x;` with x never written
    | some (v, fail, rest) =>
      let rest' :=
        match rest with
        | c :: cs => if !fail && c == Gen.Param.optIntSuffix then cs else rest
        | [] => rest
      (.oint (some v), if !fail && wsRest rest' then none else some .format)

/-- `operator>>(std::istream&, optional<bool>&)` followed by the remainder loop of `Set` -/
def setOptBool (old : Val) (text : Bytes) : Val × Option ErrKind :=
  let s1 := skipWs text
  let word := s1.takeWhile cIsAlnum
  let rest := s1.dropWhile cIsAlnum
  match Gen.Param.optBoolTable.find? (fun e => e.1 == word.map cToLower) with
  | some (_, v) => (.obool v, if wsRest rest then none else some .format)
  | none => (old, some .format)

/-- `FieldEntry<bool>::Set` -/
def setBool (old : Val) (text : Bytes) : Val × Option ErrKind :=
  match Gen.Param.boolTable.find? (fun e => e.1 == text.map cToLower) with
  | some (_, b) => (.bool b, none)
  | none => (old, some .format)

/-- `enum_map_.find(value)` -/
def lookupEnum (enums : List (Bytes × Int)) (text : Bytes) : Option Int :=
  match enums.find? (fun e => e.1 == text) with
  | some (_, v) => some v
  | none => none

/-- `enum_back_map_.at(value)` -/
def enumName (enums : List (Bytes × Int)) (v : Int) : Option Bytes :=
  match enums.find? (fun e => e.2 == v) with
  | some (n, _) => some n
  | none => none

/-- `FieldEntry<float>::Set` / `FieldEntry<double>::Set` -/
def setFloat (conv : Bytes → FRes) (old : Val) (text : Bytes) : Val × Option ErrKind :=
  match conv text with
  | .invalid => (old, some .format)
  | .outOfRange => (old, some .oor)
  | .fatal => (old, some .check)
  | .ok bits pos =>
    if pos > text.length then (.flt bits, some .check)          -- CHECK_LE(pos, value.length())
    else if pos < text.length then (.flt bits, some .trailing)
    else (.flt bits, none)

/-- `FieldEntry<T>::Set`: the value left in the field and the error thrown, if any -/
def setVal (ops : FloatOps) (f : Field) (old : Val) (text : Bytes) : Val × Option ErrKind :=
  match f.ty with
  | .int => setInt .i32 old text
  | .uint => setInt .u32 old text
  | .int64 => setInt .i64 old text
  | .float => setFloat ops.conv32 old text
  | .double => setFloat ops.conv64 old text
  | .bool => setBool old text
  | .string => (.str text, none)
  | .enumInt =>
    match lookupEnum f.enums text with
    | none => (old, some .enum)
    | some v => setInt .i32 old (decimal v)
  | .optInt => setOptInt text
  | .optEnum =>
    if text != Gen.Param.optEnumNone then
      match lookupEnum f.enums text with
      | none => (old, some .enum)
      | some v => setOptInt (decimal v)
    else setOptInt text
  | .optBool => setOptBool old text

/-- `e->Set(head, value); e->Check(head);` -/
def applyArg (ops : FloatOps) (f : Field) (old : Val) (text : Bytes) : Val × Option ErrKind :=
  match setVal ops f old text with
  | (v, some e) => (v, some e)
  | (v, none) => (v, check f v)

/-! ### `ParamManager` -/

def fieldKeys (f : Field) : List Bytes := f.name :: f.aliases

/-- `entry_map_.find(key)`: position and entry of the field registered under `key` -/
def find : Schema → Bytes → Option (Nat × Field)
  | [], _ => none
  | f :: fs, k =>
    if (fieldKeys f).contains k then some (0, f)
    else match find fs k with
      | some (i, g) => some (i + 1, g)
      | none => none

def npos : Nat := 18446744073709551615

/-- `std::string::find(pat)` -/
def findSubAux (pat : Bytes) : Nat → Bytes → Nat
  | i, [] => if pat.isPrefixOf [] then i else npos
  | i, c :: cs => if pat.isPrefixOf (c :: cs) then i else findSubAux pat (i + 1) cs

def findSub (pat s : Bytes) : Nat := findSubAux pat 0 s

/-- `std::string::rfind(pat)` -/
def rfindSubAux (pat : Bytes) : Nat → Nat → Bytes → Nat
  | last, i, [] => if pat.isPrefixOf [] then i else last
  | last, i, c :: cs => rfindSubAux pat (if pat.isPrefixOf (c :: cs) then i else last) (i + 1) cs

def rfindSub (pat s : Bytes) : Nat := rfindSubAux pat npos 0 s

/-- the `continue` test for hidden keys in `RunUpdate` -/
def hiddenSkip (option : Nat) (key : Bytes) : Bool :=
  Gen.Param.hiddenSkip option key.length (findSub Gen.Param.hiddenPattern key)
    (rfindSub Gen.Param.hiddenPattern key)

structure UpdOut where
  st : Struct
  sel : List Nat
  unk : List KV
  err : Option ErrKind

/-- `ParamManager::RunUpdate`.  `collect` = `unknown_args != NULL`. -/
def runUpdate (ops : FloatOps) (S : Schema) (option : Nat) (collect : Bool) :
    Struct → List Nat → List KV → List KV → UpdOut
  | st, sel, unk, [] => ⟨st, sel, unk, none⟩
  | st, sel, unk, (k, v) :: rest =>
    match find S k with
    | some (i, f) =>
      match applyArg ops f (st i) v with
      | (nv, some e) => ⟨upd st i nv, sel, unk, some e⟩
      | (nv, none) => runUpdate ops S option collect (upd st i nv) (i :: sel) unk rest
    | none =>
      if Gen.Param.collects collect then runUpdate ops S option collect st sel (unk ++ [(k, v)]) rest
      else if Gen.Param.polMayReject option then
        if hiddenSkip option k then runUpdate ops S option collect st sel unk rest
        else ⟨st, sel, unk, some .unknown⟩
      else runUpdate ops S option collect st sel unk rest

/-- `a < b` for `std::string` (lexicographic on unsigned bytes) -/
def bytesLt : Bytes → Bytes → Bool
  | [], [] => false
  | [], _ :: _ => true
  | _ :: _, [] => false
  | a :: as, b :: bs => if a.toNat < b.toNat then true else if b.toNat < a.toNat then false else bytesLt as bs

/-- insertion into a `std::map<std::string, α>` kept as a key-sorted list; `(*m)[k] = v` -/
def mapInsert {α : Type} (k : Bytes) (v : α) : List (Bytes × α) → List (Bytes × α)
  | [] => [(k, v)]
  | (k', v') :: rest =>
    if bytesLt k k' then (k, v) :: (k', v') :: rest
    else if bytesLt k' k then (k', v') :: mapInsert k v rest
    else (k, v) :: rest

/-- the keys of one field with its position -/
def fieldEntries (i : Nat) (f : Field) : List (Bytes × Nat × Field) := (fieldKeys f).map fun k => (k, i, f)

def allEntries : Nat → Schema → List (Bytes × Nat × Field)
  | _, [] => []
  | i, f :: fs => fieldEntries i f ++ allEntries (i + 1) fs

/-- `entry_map_` in iteration order -/
def entryMap (S : Schema) : List (Bytes × Nat × Field) :=
  (allEntries 0 S).foldl (fun m e => mapInsert e.1 e.2 m) []

/-- one pass of the `SetDefault` loop of `RunInit` -/
def applyDefaults (sel : List Nat) : List (Bytes × Nat × Field) → Struct → Struct × Option ErrKind
  | [], st => (st, none)
  | (_, i, f) :: rest, st =>
    if sel.contains i then applyDefaults sel rest st
    else
      match f.dflt with
      | some d => applyDefaults sel rest (upd st i d)
      | none => (st, some .required)

/-- `ParamManager::RunInit` (the C++ runs the default loop twice) -/
def runInit (ops : FloatOps) (S : Schema) (option : Nat) (collect : Bool) (st : Struct) (kw : List KV) : UpdOut :=
  let r := runUpdate ops S option collect st [] [] kw
  match r.err with
  | some _ => r
  | none =>
    match applyDefaults r.sel (entryMap S) r.st with
    | (st1, some e) => { r with st := st1, err := some e }
    | (st1, none) =>
      match applyDefaults r.sel (entryMap S) st1 with
      | (st2, e) => { r with st := st2, err := e }

/-- `Parameter::Init(kwargs, option)` -/
def init (ops : FloatOps) (S : Schema) (option : Nat) (st : Struct) (kw : List KV) : UpdOut :=
  runInit ops S option false st kw

/-- `Parameter::InitAllowUnknown(kwargs)` -/
def initAllowUnknown (ops : FloatOps) (S : Schema) (st : Struct) (kw : List KV) : UpdOut :=
  runInit ops S Gen.Param.kAllowUnknown true st kw

/-- `Parameter::UpdateAllowUnknown(kwargs)` -/
def updateAllowUnknown (ops : FloatOps) (S : Schema) (st : Struct) (kw : List KV) : UpdOut :=
  runUpdate ops S Gen.Param.kAllowUnknown true st [] [] kw

/-- `__MANAGER__()->RunUpdate(head, begin, end, option, NULL)` -/
def update (ops : FloatOps) (S : Schema) (option : Nat) (st : Struct) (kw : List KV) : UpdOut :=
  runUpdate ops S option false st [] [] kw

/-! ### string forms -/

def bNone : Bytes := [78, 111, 110, 101]

/-- `FieldEntry<T>::GetStringValue` (`PrintValue`); `.error .check`: the CHECK in the enum printers -/
def getString (ops : FloatOps) (f : Field) (v : Val) : Except ErrKind Bytes :=
  match f.ty, v with
  | .int, .int x => .ok (decimal x)
  | .uint, .int x => .ok (decimal x)
  | .int64, .int x => .ok (decimal x)
  | .enumInt, .int x =>
    match enumName f.enums x with
    | some n => .ok n
    | none => .error .check
  | .float, .flt b => .ok (ops.print32 b)
  | .double, .flt b => .ok (ops.print64 b)
  | .bool, .bool b => .ok [if b then 49 else 48]
  | .string, .str s => .ok s
  | .optInt, .oint none => .ok bNone
  | .optInt, .oint (some x) => .ok (decimal x)
  | .optEnum, .oint none => .ok bNone
  | .optEnum, .oint (some x) =>
    match enumName f.enums x with
    | some n => .ok n
    | none => .error .check
  | .optBool, .obool none => .ok bNone
  | .optBool, .obool (some b) => .ok [if b then 49 else 48]
  | _, _ => .error .check

/-- `ParamManager::GetDict`: one entry per key of `entry_map_` (names and aliases), in map order -/
def getDictAux (ops : FloatOps) (st : Struct) : List (Bytes × Nat × Field) → Except ErrKind (List KV)
  | [] => .ok []
  | (k, i, f) :: rest =>
    match getString ops f (st i) with
    | .error e => .error e
    | .ok s =>
      match getDictAux ops st rest with
      | .error e => .error e
      | .ok r => .ok ((k, s) :: r)

/-- `Parameter::__DICT__()` -/
def dict (ops : FloatOps) (S : Schema) (st : Struct) : Except ErrKind (List KV) :=
  getDictAux ops st (entryMap S)

/-- `Parameter::UpdateDict(&d)` for a `std::map` `d` -/
def updateDict (ops : FloatOps) (S : Schema) (st : Struct) (d : List KV) : Except ErrKind (List KV) :=
  match dict ops S st with
  | .error e => .error e
  | .ok kvs => .ok (kvs.foldl (fun m e => mapInsert e.1 e.2 m) d)

/-! ### JSON form: `std::map<std::string, std::string>` through the C16 model of json.h -/

/-- the `std::map<std::string, std::string>` handed to `JSONWriter::Write` as a C16 value -/
def toJson (kvs : List KV) : Json.Val := .obj (kvs.map fun kv => (kv.1, .str kv.2))

def ofJsonStr : Json.Val → Option Bytes
  | .str s => some s
  | _ => none

def ofJsonPairs : List (Bytes × Json.Val) → Option (List KV)
  | [] => some []
  | (k, v) :: rest =>
    match ofJsonStr v, ofJsonPairs rest with
    | some s, some r => some ((k, s) :: r)
    | _, _ => none

/-- the map `JSONReader::Read` filled, as an argument list in map order -/
def ofJson : Json.Val → Option (List KV)
  | .obj kvs => ofJsonPairs kvs
  | _ => none

/-- the schema type of the C16 family for `std::map<std::string, std::string>` -/
def jsonMapTy : Json.JTy := .map .str

/-- `JSONWriter w(&os); w.Write(map)` on a fresh writer -/
def jsonWriteMap (m : List KV) : Option Bytes :=
  match Json.writeTop jsonMapTy (toJson m) with
  | .ok bs => some bs
  | .error _ => none

/-- `JSONReader r(&is); r.Read(&map)`; `none` = a CHECK / LOG(FATAL) fired -/
def jsonReadMap (s : Bytes) : Option (List KV) :=
  match Json.readTop jsonMapTy s with
  | .ok (v, _) => ofJson v
  | .error _ => none

/-- `Parameter::Save` -/
def save (ops : FloatOps) (S : Schema) (st : Struct) : Except ErrKind Bytes :=
  match dict ops S st with
  | .error e => .error e
  | .ok kvs =>
    match jsonWriteMap kvs with
    | some bs => .ok bs
    | none => .error .check

/-- `Parameter::Load`: read the map, then `Init(kwargs)` with the default option `kAllowHidden` -/
def load (ops : FloatOps) (S : Schema) (st : Struct) (text : Bytes) : UpdOut :=
  match jsonReadMap text with
  | none => ⟨st, [], [], some .check⟩
  | some kw => init ops S Gen.Param.kAllowHidden st kw

end DmlcModel.Param
