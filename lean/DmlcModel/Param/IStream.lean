import DmlcModel.Basic
/-!
Model of `std::istringstream >> v` for the integer types used by parameter fields (libstdc++,
"C" locale, default format flags `skipws | dec`): the sentry skips leading white space and fails at end
of input; `num_get::_M_extract_int` accepts an optional sign, then decimal digits, detects overflow
against the type's maximum while still consuming every digit, stores 0 when there is no digit and
the clamped extreme on overflow (both with `failbit`).  `"-1"` into an unsigned type is accepted and
wraps.  `operator>>(int&)` extracts a `long` and narrows with clamping.

A stream is the list of bytes not yet consumed.  Core Lean only.
-/
namespace DmlcModel.Param

/-- `std::isspace` of the "C" locale: used by the stream sentry and inside optional.h -/
def cIsSpace (c : Byte) : Bool := c.toNat == 32 || (9 ≤ c.toNat && c.toNat ≤ 13)

def isDigit (c : Byte) : Bool := 48 ≤ c.toNat && c.toNat ≤ 57

/-- `std::isalnum` of the "C" locale -/
def cIsAlnum (c : Byte) : Bool :=
  isDigit c || (65 ≤ c.toNat && c.toNat ≤ 90) || (97 ≤ c.toNat && c.toNat ≤ 122)

/-- `::tolower` of the "C" locale -/
def cToLower (c : Byte) : Byte := if 65 ≤ c.toNat && c.toNat ≤ 90 then UInt8.ofNat (c.toNat + 32) else c

/-- the sentry's white-space skip -/
def skipWs : Bytes → Bytes
  | [] => []
  | c :: cs => if cIsSpace c then skipWs cs else c :: cs

/-- digit loop of `_M_extract_int` (base 10).  State: accumulated value, overflow flag, number of
digits seen.  `smax = max / 10`; once `acc > smax` the accumulator is no longer updated. -/
def digitsLoop (max : Nat) : Nat → Bool → Nat → Bytes → Nat × Bool × Nat × Bytes
  | acc, ovf, n, [] => (acc, ovf, n, [])
  | acc, ovf, n, c :: cs =>
    if isDigit c then
      let d := c.toNat - 48
      if acc > max / 10 then digitsLoop max acc true (n + 1) cs
      else digitsLoop max (acc * 10 + d) (ovf || decide (acc * 10 > max - d)) (n + 1) cs
    else (acc, ovf, n, c :: cs)

/-- optional sign of `_M_extract_int`: `-` or `+` is consumed -/
def splitSign (s : Bytes) : Bool × Bytes :=
  match s with
  | c :: t => if c.toNat == 45 then (true, t) else if c.toNat == 43 then (false, t) else (false, s)
  | [] => (false, s)

/-- `__max` of `_M_extract_int`: the largest magnitude accepted -/
def extractMax (signed : Bool) (bits : Nat) (neg : Bool) : Nat :=
  if signed then (if neg then 2 ^ (bits - 1) else 2 ^ (bits - 1) - 1) else 2 ^ bits - 1

/-- `_M_extract_int<T>` for a `bits`-wide signed/unsigned `T`, input positioned after the sentry.
Result: value stored, failbit, remaining input. -/
def extractNum (signed : Bool) (bits : Nat) (s : Bytes) : Int × Bool × Bytes :=
  let neg := (splitSign s).1
  let max := extractMax signed bits neg
  match digitsLoop max 0 false 0 (splitSign s).2 with
  | (acc, ovf, n, rest) =>
    if n == 0 then (0, true, rest)
    else if ovf then ((if signed && neg then - (2 ^ (bits - 1) : Nat) else (max : Int)), true, rest)
    else if neg then ((if signed then - (acc : Int) else (((2 ^ bits - acc) % 2 ^ bits : Nat) : Int)), false, rest)
    else ((acc : Int), false, rest)

inductive IntKind | i32 | u32 | i64
  deriving DecidableEq, Repr

/-- extraction after a successful sentry -/
def extractAfterSentry : IntKind → Bytes → Int × Bool × Bytes
  | .u32, s => extractNum false 32 s
  | .i64, s => extractNum true 64 s
  | .i32, s =>
    -- `operator>>(int&)`: extract a long, then narrow with clamping (LWG 696)
    match extractNum true 64 s with
    | (l, fail, rest) =>
      if l < -2147483648 then (-2147483648, true, rest)
      else if l > 2147483647 then (2147483647, true, rest)
      else (l, fail, rest)

/-- `is >> v` on a fresh stream holding `s`.  `none`: the sentry failed (only white space / empty):
failbit is set and `v` is not written. -/
def extract (k : IntKind) (s : Bytes) : Option (Int × Bool × Bytes) :=
  match skipWs s with
  | [] => none
  | c :: cs => some (extractAfterSentry k (c :: cs))

/-- decimal digits of a natural number, most significant first (`fuel` ≥ number of digits) -/
def natDigitsF : Nat → Nat → Bytes
  | 0, _ => []
  | fuel + 1, n =>
    if n < 10 then [UInt8.ofNat (48 + n)] else natDigitsF fuel (n / 10) ++ [UInt8.ofNat (48 + n % 10)]

def natDigits (n : Nat) : Bytes := natDigitsF (n + 1) n

/-- `os << v` for an integer -/
def decimal (v : Int) : Bytes :=
  if v < 0 then (45 : Byte) :: natDigits v.natAbs else natDigits v.natAbs

end DmlcModel.Param
