/-
`find_share_ring` visits every rank exactly once: for every worker count, every rank `r < n` and every
iteration order of the child sets, the returned list starts with `r`, has no duplicates and contains
exactly the ranks `< n` of the heap subtree rooted at `r`.  Induction over the recursion (fuel).
-/
import DmlcModel.Tracker.Lemmas

namespace DmlcModel.Tracker
open DmlcModel.Gen.Tracker

/-! ### heap ancestry -/

/-- `Anc r v`: rank `v` lies in the heap subtree rooted at `r` (its chain of parents `(v-1)/2` meets `r`) -/
inductive Anc (r : Nat) : Nat → Prop where
  | refl : Anc r r
  | step {v : Nat} : 0 < v → Anc r ((v - 1) / 2) → Anc r v

theorem Anc.le {r v : Nat} (h : Anc r v) : r ≤ v := by
  induction h with
  | refl => exact Nat.le_refl _
  | step hv _ ih => omega

theorem Anc.of_child {r c v : Nat} (hc : c = 2 * r + 1 ∨ c = 2 * r + 2) (h : Anc c v) : Anc r v := by
  induction h with
  | refl =>
    have e : (c - 1) / 2 = r := by omega
    exact Anc.step (by omega) (e ▸ Anc.refl)
  | step hv _ ih => exact Anc.step hv ih

theorem Anc.cases_child {r v : Nat} (h : Anc r v) : v = r ∨ Anc (2 * r + 1) v ∨ Anc (2 * r + 2) v := by
  induction h with
  | refl => exact Or.inl rfl
  | @step v hv _ ih =>
    rcases ih with ih | ih | ih
    · have : v = 2 * r + 1 ∨ v = 2 * r + 2 := by omega
      rcases this with e | e
      · exact Or.inr (Or.inl (e ▸ Anc.refl))
      · exact Or.inr (Or.inr (e ▸ Anc.refl))
    · exact Or.inr (Or.inl (Anc.step hv ih))
    · exact Or.inr (Or.inr (Anc.step hv ih))

/-- the ancestors of a rank form a chain -/
theorem Anc.chain {a b v : Nat} (ha : Anc a v) : Anc b v → a ≤ b → Anc a b := by
  induction ha with
  | refl =>
    intro hb hab
    have := hb.le
    have : a = b := by omega
    exact this ▸ Anc.refl
  | @step v hv hpar ih =>
    intro hb hab
    cases hb with
    | refl => exact Anc.step hv hpar
    | step _ hb' => exact ih hb' hab

theorem Anc.parent_of_ne {a b : Nat} (h : Anc a b) (hne : a ≠ b) : Anc a ((b - 1) / 2) := by
  cases h with
  | refl => exact absurd rfl hne
  | step _ h' => exact h'

/-- the subtrees of the two children of a rank are disjoint -/
theorem Anc.disjoint_children {r v : Nat} (h1 : Anc (2 * r + 1) v) (h2 : Anc (2 * r + 2) v) : False := by
  have h := (Anc.chain h1 h2 (by omega)).parent_of_ne (by omega)
  have := h.le
  omega

theorem Anc.root (v : Nat) : Anc 0 v := by
  induction v using Nat.strongRecOn with
  | _ v ih =>
    by_cases hv : v = 0
    · subst hv; exact Anc.refl
    · exact Anc.step (by omega) (ih _ (by omega))

/-- `climb k v`: `k` parent steps from `v` (`none` when the root is passed) -/
def climb : Nat → Nat → Option Nat
  | 0, v => some v
  | k + 1, v => if v = 0 then none else climb k ((v - 1) / 2)

theorem Anc.climb {r v : Nat} (h : Anc r v) : ∃ k, Tracker.climb k v = some r := by
  induction h with
  | refl => exact ⟨0, rfl⟩
  | @step v hv _ ih =>
    obtain ⟨k, hk⟩ := ih
    exact ⟨k + 1, by simp [Tracker.climb, hk]; omega⟩

/-! ### the set of children -/

theorem mem_dedup {x : Nat} {l : List Nat} : x ∈ dedup l ↔ x ∈ l := by
  induction l with
  | nil => simp [dedup]
  | cons a t ih =>
    by_cases h : a ∈ t
    · simp only [dedup, h, if_true, ih, List.mem_cons]
      constructor
      · exact Or.inr
      · rintro (rfl | h') <;> assumption
    · simp [dedup, h, ih]

theorem nodup_dedup (l : List Nat) : (dedup l).Nodup := by
  induction l with
  | nil => simp [dedup]
  | cons a t ih =>
    by_cases h : a ∈ t
    · simpa [dedup, h] using ih
    · simp only [dedup, h, if_false, List.nodup_cons]
      exact ⟨fun hm => h (mem_dedup.1 hm), ih⟩

theorem nodup_cset (nb : List Nat) (p : Int) : (cset nb p).Nodup :=
  (nodup_dedup nb).sublist List.filter_sublist

/-- the child set of `r` in `get_tree(n)`: `2r+1` and `2r+2` as far as they are `< n` -/
theorem mem_cset {n r x : Nat} :
    x ∈ cset (getNeighbor r n) (parentI r) ↔ (x = 2 * r + 1 ∨ x = 2 * r + 2) ∧ x < n := by
  unfold cset
  simp only [List.mem_filter, mem_dedup, mem_getNeighbor, bne_iff_ne, ne_eq]
  by_cases hr : 0 < r
  · rw [parentI_pos r hr]; omega
  · have : r = 0 := by omega
    subst this
    rw [parentI_zero]; omega

theorem iterOrder_perm (o cs : List Nat) : (iterOrder o cs).Perm cs := by
  unfold iterOrder
  by_cases h : o.isPerm cs
  · simpa [h] using List.isPerm_iff.1 h
  · simp [h]

/-! ### dict lookups in `get_tree(n)` -/

theorem dget_tree {n r : Nat} (hr : r < n) : dget (getTree n).1 r = .ok (getNeighbor r n) := by
  rw [getTree_eq]
  apply dget_of_mem
  · rw [range_map_keys]; exact List.nodup_range
  · exact List.mem_map.2 ⟨r, List.mem_range.2 hr, rfl⟩

theorem dget_parent {n r : Nat} (hr : r < n) : dget (getTree n).2 r = .ok (parentI r) := by
  rw [getTree_eq]
  apply dget_of_mem
  · rw [range_map_keys]; exact List.nodup_range
  · exact List.mem_map.2 ⟨r, List.mem_range.2 hr, rfl⟩

theorem getTree_length (n : Nat) : (getTree n).1.length = n := by
  rw [getTree_eq]; simp

/-! ### the loop over the children -/

theorem fsrLoop_ok (f : Nat → R (List Nat)) (S : Nat → Nat → Prop) (total : Nat) :
    ∀ (cs : List Nat) (cnt : Nat) (acc : List Nat),
      (∀ c ∈ cs, ∃ lc, f c = .ok lc ∧ lc.Nodup ∧ ∀ v, v ∈ lc ↔ S c v) →
      cs.Pairwise (fun a b => ∀ v, S a v → S b v → False) →
      acc.Nodup → (∀ c ∈ cs, ∀ v, S c v → v ∉ acc) →
      ∃ l, fsrLoop f total cs cnt acc = .ok l ∧ l.Nodup ∧
        (∀ v, v ∈ l ↔ v ∈ acc ∨ ∃ c ∈ cs, S c v) ∧ ∃ t, l = acc ++ t := by
  intro cs
  induction cs with
  | nil =>
    intro cnt acc _ _ hacc _
    exact ⟨acc, rfl, hacc, by simp, [], by simp⟩
  | cons c vs ih =>
    intro cnt acc hf hpw hacc hdis
    obtain ⟨lc, hfc, hlcnd, hlcmem⟩ := hf c (by simp)
    rw [List.pairwise_cons] at hpw
    simp only [fsrLoop, hfc]
    generalize hvl : (if isLast (cnt + cntStep) total = true then lc.reverse else lc) = vl
    have hvlmem : ∀ v, v ∈ vl ↔ S c v := by
      intro v; rw [← hlcmem v, ← hvl]; split <;> simp
    have hvlnd : vl.Nodup := by
      rw [← hvl]; split
      · exact (List.reverse_perm lc).symm.nodup hlcnd
      · exact hlcnd
    have hacc' : (acc ++ vl).Nodup := by
      rw [List.nodup_append]
      refine ⟨hacc, hvlnd, ?_⟩
      intro a ha b hb hab
      subst hab
      exact hdis c (by simp) a ((hvlmem a).1 hb) ha
    obtain ⟨l, hl, hlnd, hlmem, t, ht⟩ := ih (cnt + cntStep) (acc ++ vl)
      (fun c' hc' => hf c' (by simp [hc'])) hpw.2 hacc'
      (by
        intro c' hc' v hv hm
        rcases List.mem_append.1 hm with hm | hm
        · exact hdis c' (by simp [hc']) v hv hm
        · exact hpw.1 c' hc' v ((hvlmem v).1 hm) hv)
    refine ⟨l, hl, hlnd, ?_, vl ++ t, by rw [ht, List.append_assoc]⟩
    intro v
    rw [hlmem v, List.mem_append, hvlmem v]
    constructor
    · rintro ((h | h) | ⟨c', hc', h⟩)
      · exact Or.inl h
      · exact Or.inr ⟨c, by simp, h⟩
      · exact Or.inr ⟨c', by simp [hc'], h⟩
    · rintro (h | ⟨c', hc', h⟩)
      · exact Or.inl (Or.inl h)
      · rcases List.mem_cons.1 hc' with e | e
        · subst e; exact Or.inl (Or.inr h)
        · exact Or.inr ⟨c', e, h⟩

/-! ### `find_share_ring` -/

/-- main induction: with enough fuel, `find_share_ring(tree_map, parent_map, r)` succeeds and returns a
duplicate-free list that starts with `r` and contains exactly the ranks `< n` below `r` -/
theorem findShareRing_ok (n : Nat) (ord : Nat → List Nat) :
    ∀ fuel r, r < n → n - r ≤ fuel →
      ∃ l, findShareRing (getTree n).1 (getTree n).2 ord fuel r = .ok l ∧ l.Nodup ∧
        (∀ v, v ∈ l ↔ v < n ∧ Anc r v) ∧ ∃ t, l = r :: t := by
  intro fuel
  induction fuel with
  | zero => intro r hr hf; omega
  | succ fuel ih =>
    intro r hr hf
    simp only [findShareRing, dget_tree hr, dget_parent hr]
    generalize hcs : iterOrder (ord r) (cset (getNeighbor r n) (parentI r)) = cs
    have hperm : cs.Perm (cset (getNeighbor r n) (parentI r)) := hcs ▸ iterOrder_perm _ _
    have hmem : ∀ c, c ∈ cs ↔ (c = 2 * r + 1 ∨ c = 2 * r + 2) ∧ c < n := fun c => by
      rw [hperm.mem_iff, mem_cset]
    have hnd : cs.Nodup := hperm.symm.nodup (nodup_cset _ _)
    by_cases hlen : cs.length = 0
    · simp only [hlen, if_true]
      have hnil : cs = [] := List.eq_nil_of_length_eq_zero hlen
      refine ⟨[r], rfl, by simp, ?_, [], rfl⟩
      intro v
      simp only [List.mem_singleton]
      constructor
      · rintro rfl; exact ⟨hr, Anc.refl⟩
      · rintro ⟨hv, ha⟩
        rcases ha.cases_child with h | h | h
        · exact h
        · have := h.le
          have : (2 * r + 1) ∈ cs := (hmem _).2 ⟨Or.inl rfl, by omega⟩
          simp [hnil] at this
        · have := h.le
          have : (2 * r + 2) ∈ cs := (hmem _).2 ⟨Or.inr rfl, by omega⟩
          simp [hnil] at this
    · simp only [hlen, if_false]
      obtain ⟨l, hl, hlnd, hlmem, t, ht⟩ :=
        fsrLoop_ok (findShareRing (getTree n).1 (getTree n).2 ord fuel) (fun c v => v < n ∧ Anc c v)
          cs.length cs 0 [r]
          (by
            intro c hc
            have := (hmem c).1 hc
            obtain ⟨lc, h1, h2, h3, _⟩ := ih c this.2 (by omega)
            exact ⟨lc, h1, h2, h3⟩)
          (by
            refine List.Pairwise.imp_of_mem ?_ hnd
            intro a b ha hb hab v hva hvb
            have ha' := (hmem a).1 ha
            have hb' := (hmem b).1 hb
            rcases ha'.1 with ea | ea <;> rcases hb'.1 with eb | eb
            · exact hab (ea.trans eb.symm)
            · subst ea; subst eb; exact Anc.disjoint_children hva.2 hvb.2
            · subst ea; subst eb; exact Anc.disjoint_children hvb.2 hva.2
            · exact hab (ea.trans eb.symm))
          (by simp)
          (by
            intro c hc v hv hm
            have := (hmem c).1 hc
            have := hv.2.le
            simp only [List.mem_singleton] at hm
            omega)
      refine ⟨l, hl, hlnd, ?_, t, by simpa using ht⟩
      intro v
      rw [hlmem v]
      simp only [List.mem_singleton]
      constructor
      · rintro (rfl | ⟨c, hc, hv, ha⟩)
        · exact ⟨hr, Anc.refl⟩
        · exact ⟨hv, Anc.of_child ((hmem c).1 hc).1 ha⟩
      · rintro ⟨hv, ha⟩
        rcases ha.cases_child with h | h | h
        · exact Or.inl h
        · have := h.le
          exact Or.inr ⟨_, (hmem _).2 ⟨Or.inl rfl, by omega⟩, hv, h⟩
        · have := h.le
          exact Or.inr ⟨_, (hmem _).2 ⟨Or.inr rfl, by omega⟩, hv, h⟩

/-- the ring list computed inside `get_ring`: a permutation of `0..n-1` that starts with 0 -/
theorem ringList_ok (n : Nat) (hn : 1 ≤ n) (ord : Nat → List Nat) :
    ∃ L, ringList n ord = .ok L ∧ L.Perm (List.range n) ∧ ∃ t, L = 0 :: t := by
  obtain ⟨l, hl, hnd, hmem, t, ht⟩ := findShareRing_ok n ord ((getTree n).1.length + 1) 0 (by omega)
    (by rw [getTree_length]; omega)
  refine ⟨l, hl, ?_, t, ht⟩
  rw [List.perm_ext_iff_of_nodup hnd List.nodup_range]
  intro v
  rw [hmem v, List.mem_range]
  exact ⟨fun h => h.1, fun h => ⟨h, Anc.root v⟩⟩

end DmlcModel.Tracker
