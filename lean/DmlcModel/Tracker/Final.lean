/-
Properties of the relabelled maps returned by `get_link_map`, derived from their closed forms
(`treeOutSpec`, `parentOutSpec`, `ringOutSpec` in LinkMap.lean).
-/
import DmlcModel.Tracker.LinkMap

namespace DmlcModel.Tracker
open DmlcModel.Gen.Tracker

theorem nodup_map_of_inj_on {f : Nat → Nat} {l : List Nat}
    (hinj : ∀ x ∈ l, ∀ y ∈ l, f x = f y → x = y) (hnd : l.Nodup) : (l.map f).Nodup := by
  induction l with
  | nil => simp
  | cons a t ih =>
    rw [List.nodup_cons] at hnd
    rw [List.map_cons, List.nodup_cons]
    refine ⟨?_, ih (fun x hx y hy => hinj x (by simp [hx]) y (by simp [hy])) hnd.2⟩
    intro hm
    obtain ⟨y, hy, e⟩ := List.mem_map.1 hm
    have := hinj y (by simp [hy]) a (by simp) e
    exact hnd.1 (this ▸ hy)

/-- follow `parent_map` upwards `k` times (`none` as soon as the entry is missing or negative) -/
def parentSteps (P : Dict Int) : Nat → Nat → Option Nat
  | 0, r => some r
  | k + 1, r =>
    match P.lookup r with
    | some (Int.ofNat p) => parentSteps P k p
    | _ => none

section
variable {n : Nat} {L : List Nat} (h : IsRingList n L)
include h

omit h in
theorem treeOut_keys : ((treeOutSpec n L).map Prod.fst) = (List.range n).map (pos L) := by
  simp [treeOutSpec, List.map_map, Function.comp_def]

omit h in
theorem parentOut_keys : ((parentOutSpec n L).map Prod.fst) = (List.range n).map (pos L) := by
  simp [parentOutSpec, List.map_map, Function.comp_def]

theorem treeOut_lookup {r : Nat} (hr : r < n) :
    (treeOutSpec n L).lookup (pos L r) = some ((getNeighbor r n).map (pos L)) := by
  apply lookup_of_mem
  · rw [treeOut_keys]; exact h.map_pos_nodup
  · exact List.mem_map.2 ⟨r, List.mem_range.2 hr, rfl⟩

omit h in
theorem treeOut_lookup_inv {a : Nat} {la : List Nat} (hl : (treeOutSpec n L).lookup a = some la) :
    ∃ r, r < n ∧ a = pos L r ∧ la = (getNeighbor r n).map (pos L) := by
  obtain ⟨r, hr, e⟩ := List.mem_map.1 (mem_of_lookup _ hl)
  cases e
  exact ⟨r, List.mem_range.1 hr, rfl, rfl⟩

theorem parentOut_lookup {r : Nat} (hr : r < n) :
    (parentOutSpec n L).lookup (pos L r) =
      some (if r = 0 then (-1 : Int) else ((pos L ((r - 1) / 2) : Nat) : Int)) := by
  apply lookup_of_mem
  · rw [parentOut_keys]; exact h.map_pos_nodup
  · exact List.mem_map.2 ⟨r, List.mem_range.2 hr, rfl⟩

theorem mem_map_pos {r s : Nat} (hr : r < n) (hs : s < n) :
    pos L s ∈ (getNeighbor r n).map (pos L) ↔ s ∈ getNeighbor r n := by
  constructor
  · intro hm
    obtain ⟨x, hx, e⟩ := List.mem_map.1 hm
    have := h.pos_inj' (getNeighbor_lt hr hx) hs e
    exact this ▸ hx
  · intro hm
    exact List.mem_map.2 ⟨s, hm, rfl⟩

theorem map_pos_nb_nodup {r : Nat} (hr : r < n) : ((getNeighbor r n).map (pos L)).Nodup :=
  nodup_map_of_inj_on
    (fun _ hx _ hy e => h.pos_inj' (getNeighbor_lt hr hx) (getNeighbor_lt hr hy) e)
    (getNeighbor_nodup r n)

theorem parentSteps_climb : ∀ (k r r' : Nat), r < n → climb k r = some r' →
    parentSteps (parentOutSpec n L) k (pos L r) = some (pos L r') := by
  intro k
  induction k with
  | zero =>
    intro r r' _ hc
    simp only [climb, Option.some.injEq] at hc
    simp [parentSteps, hc]
  | succ k ih =>
    intro r r' hr hc
    by_cases h0 : r = 0
    · simp [climb, h0] at hc
    · simp only [climb, h0, if_false] at hc
      simp only [parentSteps, parentOut_lookup h hr, h0, if_false]
      exact ih _ _ (by omega) hc

omit h in
theorem degree_sum_out (hn : 1 ≤ n) : ((treeOutSpec n L).map fun e => e.2.length).sum = 2 * (n - 1) := by
  rw [← degree_sum n hn]
  simp [treeOutSpec, List.map_map, Function.comp_def]

end

theorem ringOut_lookup {n r : Nat} (hr : r < n) :
    (ringOutSpec n).lookup r = some ((r + n - 1) % n, (r + 1) % n) := by
  apply lookup_of_mem
  · unfold ringOutSpec; rw [range_map_keys]; exact List.nodup_range
  · exact List.mem_map.2 ⟨r, List.mem_range.2 hr, rfl⟩

theorem ringOut_keys (n : Nat) : (ringOutSpec n).map Prod.fst = List.range n := by
  unfold ringOutSpec; rw [range_map_keys]

end DmlcModel.Tracker
