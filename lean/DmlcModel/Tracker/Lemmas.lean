/-
Specification lemmas for the generated Tracker kernels (`Gen/Tracker.lean`), the dict model, and the
heap-numbered tree (`get_neighbor`, `get_tree`).  If an expression of tracker.py changes, the generated
definition changes and these lemmas (hence everything downstream) stop compiling.
-/
import DmlcModel.Tracker.Model

namespace DmlcModel.Tracker
open DmlcModel.Gen.Tracker

/-! ### Gen items -/

theorem parentI_zero : parentI 0 = -1 := by decide

theorem parentI_pos (r : Nat) (h : 0 < r) : parentI r = (((r - 1) / 2 : Nat) : Int) := by
  unfold parentI
  rw [Int.fdiv_eq_ediv_of_nonneg _ (by omega)]
  omega

theorem rootParent_val : rootParent = -1 := by decide
theorem rootParentOut_val : rootParentOut = -1 := by decide
theorem ringPrev_spec (r n : Nat) : ringPrev r n = (r + n - 1) % n := rfl
theorem ringNext_spec (r n : Nat) : ringNext r n = (r + 1) % n := rfl
theorem relabelCount_spec (n : Nat) : relabelCount n = n - 1 := rfl
theorem relabelVal_spec (i : Nat) : relabelVal i = i + 1 := rfl
theorem relabelStart_val : relabelStart = 0 := rfl
theorem cntStep_val : cntStep = 1 := rfl
theorem isLast_iff (c t : Nat) : isLast c t = true ↔ c = t := by simp [isLast]
theorem notRoot_iff (k : Nat) : notRoot k = true ↔ k ≠ 0 := by simp [notRoot]

/-- `get_neighbor` in heap numbering: parent `(r-1)/2`, children `2r+1`, `2r+2` when they exist -/
theorem getNeighbor_spec (r n : Nat) :
    getNeighbor r n =
      (if 0 < r then [(r - 1) / 2] else []) ++ (if 2 * r + 1 < n then [2 * r + 1] else []) ++
        (if 2 * r + 2 < n then [2 * r + 2] else []) := by
  unfold getNeighbor rank1 hasParent nbParent hasLeft nbLeft hasRight nbRight
  have e1 : (r + 1) / 2 - 1 = (r - 1) / 2 := by omega
  have e2 : (r + 1) * 2 - 1 = 2 * r + 1 := by omega
  have e3 : (r + 1) * 2 = 2 * r + 2 := by omega
  simp only [e1, e3, decide_eq_true_eq, List.nil_append]
  by_cases h1 : 0 < r <;> by_cases h2 : 2 * r + 1 < n <;> by_cases h3 : 2 * r + 2 < n <;>
    simp [h1, h2, h3] <;> omega

theorem mem_getNeighbor {r n x : Nat} :
    x ∈ getNeighbor r n ↔
      (0 < r ∧ x = (r - 1) / 2) ∨ (x = 2 * r + 1 ∧ x < n) ∨ (x = 2 * r + 2 ∧ x < n) := by
  rw [getNeighbor_spec]
  by_cases h1 : 0 < r <;> by_cases h2 : 2 * r + 1 < n <;> by_cases h3 : 2 * r + 2 < n <;>
    simp [h1, h2, h3] <;> omega

theorem getNeighbor_nodup (r n : Nat) : (getNeighbor r n).Nodup := by
  rw [getNeighbor_spec]
  by_cases h1 : 0 < r <;> by_cases h2 : 2 * r + 1 < n <;> by_cases h3 : 2 * r + 2 < n <;>
    simp [h1, h2, h3] <;> omega

theorem getNeighbor_length (r n : Nat) :
    (getNeighbor r n).length =
      (if 0 < r then 1 else 0) + (if 2 * r + 1 < n then 1 else 0) + (if 2 * r + 2 < n then 1 else 0) := by
  rw [getNeighbor_spec]
  by_cases h1 : 0 < r <;> by_cases h2 : 2 * r + 1 < n <;> by_cases h3 : 2 * r + 2 < n <;>
    simp [h1, h2, h3]

/-- symmetry of the (unrelabelled) tree -/
theorem getNeighbor_symm {a b n : Nat} (ha : a < n) (hb : b < n) :
    b ∈ getNeighbor a n ↔ a ∈ getNeighbor b n := by
  simp only [mem_getNeighbor]; omega

theorem getNeighbor_lt {r n x : Nat} (hr : r < n) (h : x ∈ getNeighbor r n) : x < n := by
  simp only [mem_getNeighbor] at h; omega

theorem getNeighbor_irrefl (r n : Nat) : r ∉ getNeighbor r n := by
  simp only [mem_getNeighbor]
  intro h
  rcases h with h | h | h <;> omega

theorem parent_mem_getNeighbor {r n : Nat} (h : 0 < r) : (r - 1) / 2 ∈ getNeighbor r n :=
  mem_getNeighbor.2 (Or.inl ⟨h, rfl⟩)

/-- partial degree sums of the heap tree: `Σ_{r<m} deg r = (m-1) + min (2m) (n-1)` -/
theorem degree_sum_prefix (n : Nat) (hn : 1 ≤ n) :
    ∀ m, 1 ≤ m → (((List.range m).map fun r => (getNeighbor r n).length).sum = (m - 1) + min (2 * m) (n - 1))
  | 0, h => by omega
  | 1, _ => by
    simp [getNeighbor_length]
    by_cases h2 : 1 < n <;> by_cases h3 : 2 < n <;> simp [h2, h3] <;> omega
  | m + 2, _ => by
    rw [List.range_succ, List.map_append, List.sum_append, degree_sum_prefix n hn (m + 1) (by omega)]
    simp only [List.map_cons, List.map_nil, List.sum_cons, List.sum_nil, getNeighbor_length]
    by_cases h2 : 2 * (m + 1) + 1 < n <;> by_cases h3 : 2 * (m + 1) + 2 < n <;> simp [h2, h3] <;> omega

theorem degree_sum (n : Nat) (hn : 1 ≤ n) :
    ((List.range n).map fun r => (getNeighbor r n).length).sum = 2 * (n - 1) := by
  rw [degree_sum_prefix n hn n hn]; omega

/-! ### dict model -/

section Dict
variable {α β : Type}

theorem lookup_dset (d : Dict α) (k k' : Nat) (v : α) :
    (dset d k v).lookup k' = if k' = k then some v else d.lookup k' := by
  induction d with
  | nil =>
    by_cases h : k' = k
    · subst h; simp [dset]
    · have hb : (k' == k) = false := by simp [h]
      simp [dset, List.lookup_cons, h, hb]
  | cons e t ih =>
    obtain ⟨k0, v0⟩ := e
    by_cases h0 : k0 = k
    · subst h0
      by_cases h : k' = k0
      · subst h; simp [dset]
      · have hb : (k' == k0) = false := by simp [h]
        simp [dset, List.lookup_cons, h, hb]
    · by_cases h : k' = k
      · subst h
        have : (k' == k0) = false := by simp; omega
        simp [dset, h0, List.lookup_cons, this, ih]
      · simp only [dset, h0, if_false, List.lookup_cons, ih, h]

theorem dset_fresh (d : Dict α) (k : Nat) (v : α) (h : ∀ e ∈ d, e.1 ≠ k) : dset d k v = d ++ [(k, v)] := by
  induction d with
  | nil => rfl
  | cons e t ih =>
    obtain ⟨k0, v0⟩ := e
    have h0 : k0 ≠ k := h (k0, v0) (by simp)
    simp only [dset, h0, if_false, List.cons_append]
    rw [ih (fun e he => h e (by simp [he]))]

theorem lookup_of_mem (d : Dict α) (hnd : (d.map Prod.fst).Nodup) {k : Nat} {v : α} (h : (k, v) ∈ d) :
    d.lookup k = some v := by
  induction d with
  | nil => simp at h
  | cons e t ih =>
    obtain ⟨k0, v0⟩ := e
    simp only [List.map_cons, List.nodup_cons, List.mem_map] at hnd
    rcases List.mem_cons.1 h with h | h
    · cases h; simp
    · have : k ≠ k0 := fun hk => hnd.1 ⟨(k, v), h, hk⟩
      have : (k == k0) = false := by simp [this]
      rw [List.lookup_cons, this]
      exact ih hnd.2 h

theorem mem_of_lookup (d : Dict α) {k : Nat} {v : α} (h : d.lookup k = some v) : (k, v) ∈ d := by
  induction d with
  | nil => simp at h
  | cons e t ih =>
    obtain ⟨k0, v0⟩ := e
    rw [List.lookup_cons] at h
    by_cases hk : k = k0
    · subst hk; simp at h; simp [h]
    · have : (k == k0) = false := by simp [hk]
      rw [this] at h
      exact List.mem_cons_of_mem _ (ih h)

theorem dget_of_mem (d : Dict α) (hnd : (d.map Prod.fst).Nodup) {k : Nat} {v : α} (h : (k, v) ∈ d) :
    dget d k = .ok v := by
  unfold dget; rw [lookup_of_mem d hnd h]

theorem mapR_ok (f : α → R β) (g : α → β) (l : List α) (h : ∀ a ∈ l, f a = .ok (g a)) :
    mapR f l = .ok (l.map g) := by
  induction l with
  | nil => rfl
  | cons a t ih =>
    simp only [mapR, h a (by simp), ih (fun x hx => h x (by simp [hx])), List.map_cons]

/-- a loop of dict assignments with pairwise distinct fresh keys appends the entries in order -/
theorem buildR_fresh (f : α → R (Nat × β)) (g : α → Nat × β) (l : List α) (d : Dict β)
    (hf : ∀ a ∈ l, f a = .ok (g a)) (hnd : ((d ++ l.map g).map Prod.fst).Nodup) :
    buildR f l d = .ok (d ++ l.map g) := by
  induction l generalizing d with
  | nil => simp [buildR]
  | cons a t ih =>
    simp only [buildR, hf a (by simp)]
    have hfresh : ∀ e ∈ d, e.1 ≠ (g a).1 := by
      intro e he hk
      simp only [List.map_cons, List.map_append, List.nodup_append] at hnd
      exact hnd.2.2 e.1 (List.mem_map.2 ⟨e, he, rfl⟩) (g a).1 (by simp) hk
    rw [dset_fresh d _ _ hfresh, ih _ (fun x hx => hf x (by simp [hx]))]
    · simp
    · simpa using hnd

end Dict

/-- `get_tree(n)`: both dicts have exactly the keys `0..n-1`, in order -/
theorem getTree_eq (n : Nat) :
    getTree n = ((List.range n).map (fun r => (r, getNeighbor r n)), (List.range n).map (fun r => (r, parentI r))) := by
  have key : ∀ (l : List Nat) (d1 : Dict (List Nat)) (d2 : Dict Int), l.Nodup →
      (∀ e ∈ d1, e.1 ∉ l) → (∀ e ∈ d2, e.1 ∉ l) →
      l.foldl (fun acc r => (dset acc.1 r (getNeighbor r n), dset acc.2 r (parentI r))) (d1, d2) =
        (d1 ++ l.map (fun r => (r, getNeighbor r n)), d2 ++ l.map (fun r => (r, parentI r))) := by
    intro l
    induction l with
    | nil => intros; simp
    | cons a t ih =>
      intro d1 d2 hnd h1 h2
      rw [List.nodup_cons] at hnd
      simp only [List.foldl_cons]
      rw [dset_fresh d1 a _ (fun e he hk => h1 e he (by simp [hk])),
        dset_fresh d2 a _ (fun e he hk => h2 e he (by simp [hk]))]
      rw [ih _ _ hnd.2]
      · simp
      · intro e he
        rcases List.mem_append.1 he with he | he
        · exact fun hm => h1 e he (by simp [hm])
        · simp at he; subst he; exact hnd.1
      · intro e he
        rcases List.mem_append.1 he with he | he
        · exact fun hm => h2 e he (by simp [hm])
        · simp at he; subst he; exact hnd.1
  unfold getTree
  rw [key _ [] [] List.nodup_range (by simp) (by simp)]
  simp

theorem range_map_keys {α : Type} (n : Nat) (f : Nat → α) :
    ((List.range n).map (fun r => (r, f r))).map Prod.fst = List.range n := by
  simp [List.map_map, Function.comp_def]

end DmlcModel.Tracker
