/-
Executable model of the rabit tracker's link-map computation
(`/repo/tracker/dmlc_tracker/tracker.py`: get_neighbor, get_tree, find_share_ring, get_ring, get_link_map).
Core Lean only.  All arithmetic comes from `Gen/Tracker.lean` (regenerated from tracker.py on every run).

Conventions
* a Python `dict` with integer keys is an association list in insertion order (`Dict`); `dset` has the
  dict semantics (replace the value in place if the key exists, else append); a failed lookup is the
  outcome `Err.key` (KeyError), a failed `assert` is `Err.assert`, a list index out of range `Err.index`.
* `find_share_ring` iterates over the Python set `set(tree_map[r]) - {parent_map[r]}`; CPython's
  iteration order of that set is NOT modelled: the function takes an oracle `ord : Nat → List Nat`
  and iterates in the order `ord r` whenever that is a permutation of the set (else in the model's own
  order) – so every statement proved "for all `ord`" covers every iteration order CPython could use.
* recursion depth is bounded by explicit fuel (`Err.depth` when exhausted; proved unreachable).
-/
import DmlcModel.Gen.Tracker

namespace DmlcModel.Tracker
open DmlcModel.Gen.Tracker

inductive Err where
  | key | assert | index | depth
  deriving DecidableEq, Repr

abbrev R := Except Err

/-- Python dict with natural-number keys, insertion ordered -/
abbrev Dict (α : Type) := List (Nat × α)

/-- `d[k]` -/
def dget {α : Type} (d : Dict α) (k : Nat) : R α :=
  match d.lookup k with
  | some v => .ok v
  | none => .error .key

/-- `d[k]` for a Python integer key that may be negative (never a key of our dicts) -/
def dgetI {α : Type} (d : Dict α) : Int → R α
  | .ofNat k => dget d k
  | .negSucc _ => .error .key

/-- `d[k] = v` -/
def dset {α : Type} : Dict α → Nat → α → Dict α
  | [], k, v => [(k, v)]
  | (k', v') :: t, k, v => if k' = k then (k, v) :: t else (k', v') :: dset t k v

/-- `l[i]` -/
def lidx (l : List Nat) (i : Nat) : R Nat :=
  match l[i]? with
  | some v => .ok v
  | none => .error .index

/-- `[f(x) for x in l]` with failure -/
def mapR {α β : Type} (f : α → R β) : List α → R (List β)
  | [] => .ok []
  | a :: t =>
    match f a with
    | .error e => .error e
    | .ok b =>
      match mapR f t with
      | .error e => .error e
      | .ok bs => .ok (b :: bs)

/-- `for x in l: k, v = f(x); d[k] = v` with failure -/
def buildR {α β : Type} (f : α → R (Nat × β)) : List α → Dict β → R (Dict β)
  | [], d => .ok d
  | a :: t, d =>
    match f a with
    | .error e => .error e
    | .ok kv => buildR f t (dset d kv.1 kv.2)

/-- tracker.py:184-193 `get_neighbor(rank, nslave)` -/
def getNeighbor (r n : Nat) : List Nat :=
  let rank := rank1 r
  let ret : List Nat := []
  let ret := if hasParent rank then ret ++ [nbParent rank] else ret
  let ret := if hasLeft rank n then ret ++ [nbLeft rank] else ret
  let ret := if hasRight rank n then ret ++ [nbRight rank] else ret
  ret

/-- tracker.py:202-208 `get_tree(nslave)`: (tree_map, parent_map) -/
def getTree (n : Nat) : Dict (List Nat) × Dict Int :=
  (List.range n).foldl
    (fun acc r => (dset acc.1 r (getNeighbor r n), dset acc.2 r (parentI r))) ([], [])

/-- `set(l)` as a duplicate-free list (the iteration order is supplied separately) -/
def dedup : List Nat → List Nat
  | [] => []
  | a :: t => if a ∈ t then dedup t else a :: dedup t

/-- tracker.py:215-216 `cset = set(tree_map[r]) - set([parent_map[r]])` -/
def cset (nb : List Nat) (p : Int) : List Nat :=
  (dedup nb).filter fun x => (x : Int) != p

/-- iteration order of the set `cs`: the oracle's order if it is an order of `cs`, else the model's -/
def iterOrder (o cs : List Nat) : List Nat := if o.isPerm cs then o else cs

/-- tracker.py:219-227 the loop `for v in cset:` (`f` = the recursive call) -/
def fsrLoop (f : Nat → R (List Nat)) (total : Nat) : List Nat → Nat → List Nat → R (List Nat)
  | [], _, rlst => .ok rlst
  | v :: vs, cnt, rlst =>
    match f v with
    | .error e => .error e
    | .ok vlst =>
      let cnt := cnt + cntStep
      let vlst := if isLast cnt total then vlst.reverse else vlst
      fsrLoop f total vs cnt (rlst ++ vlst)

/-- tracker.py:210-227 `find_share_ring(tree_map, parent_map, r)`; first argument = recursion fuel -/
def findShareRing (tm : Dict (List Nat)) (pm : Dict Int) (ord : Nat → List Nat) :
    Nat → Nat → R (List Nat)
  | 0, _ => .error .depth
  | fuel + 1, r =>
    match dget tm r with
    | .error e => .error e
    | .ok nb =>
      match dget pm r with
      | .error e => .error e
      | .ok p =>
        let cs := iterOrder (ord r) (cset nb p)
        if cs.length = 0 then .ok [r]
        else fsrLoop (findShareRing tm pm ord fuel) cs.length cs 0 [r]

/-- tracker.py:238-241 one iteration of the loop that fills `ring_map` -/
def ringEntry (rlst : List Nat) (n r : Nat) : R (Nat × (Nat × Nat)) :=
  match lidx rlst r, lidx rlst (ringPrev r n), lidx rlst (ringNext r n) with
  | .ok k, .ok a, .ok b => .ok (k, (a, b))
  | _, _, _ => .error .index

/-- tracker.py:229-242 `get_ring(tree_map, parent_map)` -/
def getRing (tm : Dict (List Nat)) (pm : Dict Int) (ord : Nat → List Nat) : R (Dict (Nat × Nat)) :=
  match dget pm 0 with
  | .error e => .error e
  | .ok p0 =>
    if p0 != rootParent then .error .assert
    else
      match findShareRing tm pm ord (tm.length + 1) 0 with
      | .error e => .error e
      | .ok rlst =>
        if rlst.length != tm.length then .error .assert
        else
          let nslave := tm.length
          buildR (ringEntry rlst nslave) (List.range nslave) []

/-- tracker.py:253-255 the relabelling walk `k = ring_map[k][1]; rmap[k] = i + 1` -/
def relabelWalk (rm : Dict (Nat × Nat)) : List Nat → Nat → Dict Nat → R (Dict Nat)
  | [], _, rmap => .ok rmap
  | i :: is, k, rmap =>
    match dget rm k with
    | .error e => .error e
    | .ok e =>
      let k := e.2
      relabelWalk rm is k (dset rmap k (relabelVal i))

/-- tracker.py:260-261 -/
def ringOut (rmap : Dict Nat) (kv : Nat × (Nat × Nat)) : R (Nat × (Nat × Nat)) :=
  match dget rmap kv.1, dget rmap kv.2.1, dget rmap kv.2.2 with
  | .ok k, .ok a, .ok b => .ok (k, (a, b))
  | _, _, _ => .error .key

/-- tracker.py:262-263 -/
def treeOut (rmap : Dict Nat) (kv : Nat × List Nat) : R (Nat × List Nat) :=
  match dget rmap kv.1, mapR (dget rmap) kv.2 with
  | .ok k, .ok vs => .ok (k, vs)
  | _, _ => .error .key

/-- tracker.py:264-268 -/
def parentOut (rmap : Dict Nat) (kv : Nat × Int) : R (Nat × Int) :=
  if notRoot kv.1 then
    match dget rmap kv.1, dgetI rmap kv.2 with
    | .ok k, .ok v => .ok (k, (v : Int))
    | _, _ => .error .key
  else
    match dget rmap kv.1 with
    | .ok k => .ok (k, rootParentOut)
    | .error e => .error e

structure LinkMap where
  tree : Dict (List Nat)
  parent : Dict Int
  ring : Dict (Nat × Nat)
  deriving DecidableEq, Repr

/-- tracker.py:244-269 `get_link_map(nslave)` -/
def getLinkMap (n : Nat) (ord : Nat → List Nat) : R LinkMap :=
  let tp := getTree n
  match getRing tp.1 tp.2 ord with
  | .error e => .error e
  | .ok rm =>
    match relabelWalk rm (List.range (relabelCount n)) relabelStart [(0, 0)] with
    | .error e => .error e
    | .ok rmap =>
      match buildR (ringOut rmap) rm [], buildR (treeOut rmap) tp.1 [], buildR (parentOut rmap) tp.2 [] with
      | .ok ring', .ok tree', .ok par' => .ok { tree := tree', parent := par', ring := ring' }
      | _, _, _ => .error .key

/-- the list returned by `find_share_ring(tree_map, parent_map, 0)` inside `get_ring` (internal
quantity compared with the implementation) -/
def ringList (n : Nat) (ord : Nat → List Nat) : R (List Nat) :=
  let tp := getTree n
  findShareRing tp.1 tp.2 ord (tp.1.length + 1) 0

end DmlcModel.Tracker
