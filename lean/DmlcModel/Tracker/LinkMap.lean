/-
Closed forms of `get_ring` and `get_link_map` for every `n ≥ 1` and every child-order oracle: no
`assert`, `KeyError` or `IndexError` fires, and the three returned dicts are explicit functions of the
ring list `L` (a permutation of `0..n-1` starting with 0) and its position function `pos L`.
-/
import DmlcModel.Tracker.Ring

namespace DmlcModel.Tracker
open DmlcModel.Gen.Tracker

/-! ### position of a rank in the ring list (= the relabelling `rmap`) -/

/-- `L[i]` with 0 outside the list (specification side only) -/
def nth (L : List Nat) (i : Nat) : Nat := List.getD L i 0

theorem nth_cons_zero (a : Nat) (t : List Nat) : nth (a :: t) 0 = a := by simp [nth]
theorem nth_cons_succ (a : Nat) (t : List Nat) (i : Nat) : nth (a :: t) (i + 1) = nth t i := by simp [nth]

/-- index of the first occurrence of `k` in `L` -/
def pos : List Nat → Nat → Nat
  | [], _ => 0
  | a :: t, k => if a = k then 0 else pos t k + 1

theorem pos_lt {L : List Nat} {k : Nat} (h : k ∈ L) : pos L k < L.length := by
  induction L with
  | nil => simp at h
  | cons a t ih =>
    by_cases e : a = k
    · simp [pos, e]
    · have : k ∈ t := by
        rcases List.mem_cons.1 h with h | h
        · exact absurd h.symm e
        · exact h
      simp [pos, e, ih this]

theorem getD_pos {L : List Nat} {k : Nat} (h : k ∈ L) : nth L (pos L k) = k := by
  induction L with
  | nil => simp at h
  | cons a t ih =>
    by_cases e : a = k
    · simp [pos, e, nth_cons_zero]
    · have : k ∈ t := by
        rcases List.mem_cons.1 h with h | h
        · exact absurd h.symm e
        · exact h
      simpa [pos, e, nth_cons_succ] using ih this

theorem getD_mem {L : List Nat} {i : Nat} (h : i < L.length) : nth L i ∈ L := by
  unfold nth
  rw [List.getD_eq_getElem?_getD, List.getElem?_eq_getElem h]
  exact List.getElem_mem h

theorem pos_getD {L : List Nat} (hnd : L.Nodup) {i : Nat} (h : i < L.length) : pos L (nth L i) = i := by
  induction L generalizing i with
  | nil => simp at h
  | cons a t ih =>
    rw [List.nodup_cons] at hnd
    cases i with
    | zero => simp [pos, nth_cons_zero]
    | succ i =>
      have hi : i < t.length := by simpa using h
      have hm := getD_mem hi
      have : a ≠ nth t i := fun e => hnd.1 (e ▸ hm)
      simp only [nth_cons_succ, pos, this, if_false, ih hnd.2 hi]

theorem pos_inj {L : List Nat} {a b : Nat} (ha : a ∈ L) (hb : b ∈ L) (h : pos L a = pos L b) : a = b := by
  rw [← getD_pos ha, ← getD_pos hb, h]

theorem map_getD_range (L : List Nat) : (List.range L.length).map (fun i => nth L i) = L := by
  apply List.ext_getElem
  · simp
  · intro i h1 h2
    simp [nth, List.getD_eq_getElem?_getD, List.getElem?_eq_getElem h2]

theorem lidx_ok {L : List Nat} {i : Nat} (h : i < L.length) : lidx L i = .ok (nth L i) := by
  unfold lidx nth
  rw [List.getD_eq_getElem?_getD, List.getElem?_eq_getElem h]
  rfl

/-- facts about a ring list: permutation of `0..n-1` starting with 0 -/
structure IsRingList (n : Nat) (L : List Nat) : Prop where
  perm : L.Perm (List.range n)
  head : ∃ t, L = 0 :: t

namespace IsRingList
variable {n : Nat} {L : List Nat} (h : IsRingList n L)
include h

theorem length : L.length = n := by simpa using h.perm.length_eq
theorem nodup : L.Nodup := h.perm.symm.nodup List.nodup_range
theorem mem {k : Nat} : k ∈ L ↔ k < n := by rw [h.perm.mem_iff, List.mem_range]
theorem pos_lt' {k : Nat} (hk : k < n) : pos L k < n := by
  have := pos_lt (h.mem.2 hk); rwa [h.length] at this
theorem pos_zero : pos L 0 = 0 := by
  obtain ⟨t, rfl⟩ := h.head; simp [pos]
theorem getD_lt {i : Nat} (hi : i < n) : nth L i < n := h.mem.1 (getD_mem (by rw [h.length]; exact hi))
theorem pos_getD' {i : Nat} (hi : i < n) : pos L (nth L i) = i := pos_getD h.nodup (by rw [h.length]; exact hi)
theorem getD_pos' {k : Nat} (hk : k < n) : nth L (pos L k) = k := getD_pos (h.mem.2 hk)
theorem pos_inj' {a b : Nat} (ha : a < n) (hb : b < n) (e : pos L a = pos L b) : a = b :=
  pos_inj (h.mem.2 ha) (h.mem.2 hb) e

/-- the relabelled ranks are again exactly `0..n-1` -/
theorem map_pos_perm : ((List.range n).map (pos L)).Perm (List.range n) := by
  have h1 : (L.map (pos L)).Perm ((List.range n).map (pos L)) := h.perm.map _
  have h2 : L.map (pos L) = List.range n := by
    conv => lhs; arg 2; rw [← map_getD_range L]
    rw [List.map_map, h.length]
    apply List.ext_getElem
    · simp
    · intro i h1 h2
      have hi : i < n := by simpa using h2
      simp [h.pos_getD' hi]
  rw [h2] at h1
  exact h1.symm

theorem map_pos_nodup : ((List.range n).map (pos L)).Nodup := h.map_pos_perm.symm.nodup List.nodup_range

end IsRingList

/-! ### `get_ring` -/

/-- `ring_map` before relabelling: rank `L[i]` is linked to `L[i-1]` and `L[i+1]` (indices mod n) -/
def ringSpec (n : Nat) (L : List Nat) : Dict (Nat × Nat) :=
  (List.range n).map fun r => (nth L r, (nth L ((r + n - 1) % n), nth L ((r + 1) % n)))

theorem ringSpec_keys (n : Nat) (L : List Nat) (h : IsRingList n L) : (ringSpec n L).map Prod.fst = L := by
  unfold ringSpec
  rw [List.map_map]
  have := map_getD_range L
  rw [h.length] at this
  simpa [Function.comp_def] using this

theorem getRing_eq (n : Nat) (hn : 1 ≤ n) (ord : Nat → List Nat) {L : List Nat}
    (hL : ringList n ord = .ok L) (h : IsRingList n L) :
    getRing (getTree n).1 (getTree n).2 ord = .ok (ringSpec n L) := by
  unfold ringList at hL
  simp only [getTree_length] at hL
  unfold getRing
  simp only [dget_parent (show 0 < n by omega), parentI_zero, rootParent_val, bne_self_eq_false,
    Bool.false_eq_true, if_false, hL, getTree_length, h.length]
  have hmod1 : ∀ r, (r + n - 1) % n < n := fun r => Nat.mod_lt _ (by omega)
  have hmod2 : ∀ r, (r + 1) % n < n := fun r => Nat.mod_lt _ (by omega)
  have := buildR_fresh (ringEntry L n)
    (fun r => (nth L r, (nth L ((r + n - 1) % n), nth L ((r + 1) % n)))) (List.range n) []
    (by
      intro r hr
      have hr : r < n := List.mem_range.1 hr
      unfold ringEntry
      rw [lidx_ok (by rw [h.length]; exact hr), ringPrev_spec, ringNext_spec,
        lidx_ok (by rw [h.length]; exact hmod1 r), lidx_ok (by rw [h.length]; exact hmod2 r)])
    (by
      have := ringSpec_keys n L h
      unfold ringSpec at this
      simp only [List.nil_append]
      rw [this]; exact h.nodup)
  simpa [ringSpec] using this

theorem dget_ringSpec (n : Nat) (L : List Nat) (h : IsRingList n L) {i : Nat} (hi : i < n) :
    dget (ringSpec n L) (nth L i) = .ok (nth L ((i + n - 1) % n), nth L ((i + 1) % n)) := by
  apply dget_of_mem
  · rw [ringSpec_keys n L h]; exact h.nodup
  · exact List.mem_map.2 ⟨i, List.mem_range.2 hi, rfl⟩

/-! ### the relabelling walk -/

/-- `rmap` after the walk: rank `L[i]` gets the new label `i` -/
def rmapSpec (n : Nat) (L : List Nat) : Dict Nat := (List.range n).map fun i => (nth L i, i)

theorem relabelWalk_eq (n : Nat) (L : List Nat) (h : IsRingList n L) :
    ∀ m j, j + m + 1 = n →
      relabelWalk (ringSpec n L) (List.range' j m) (nth L j) (rmapSpec (j + 1) L) = .ok (rmapSpec n L) := by
  intro m
  induction m with
  | zero =>
    intro j hj
    have : j + 1 = n := by omega
    simp [relabelWalk, this]
  | succ m ih =>
    intro j hj
    rw [List.range'_succ]
    simp only [relabelWalk, dget_ringSpec n L h (show j < n by omega), relabelVal_spec]
    have e : (j + 1) % n = j + 1 := Nat.mod_eq_of_lt (by omega)
    rw [e]
    have hfresh : ∀ e ∈ rmapSpec (j + 1) L, e.1 ≠ nth L (j + 1) := by
      intro e he hk
      obtain ⟨i, hi, rfl⟩ := List.mem_map.1 he
      have hi : i < j + 1 := List.mem_range.1 hi
      have h1 := h.pos_getD' (show i < n by omega)
      have h2 := h.pos_getD' (show j + 1 < n by omega)
      simp only at hk
      rw [hk] at h1
      omega
    rw [dset_fresh _ _ _ hfresh]
    have : rmapSpec (j + 1) L ++ [(nth L (j + 1), j + 1)] = rmapSpec (j + 1 + 1) L := by
      unfold rmapSpec
      rw [List.range_succ (n := j + 1)]
      simp
    rw [this]
    exact ih (j + 1) (by omega)

theorem relabelWalk_full (n : Nat) (hn : 1 ≤ n) (L : List Nat) (h : IsRingList n L) :
    relabelWalk (ringSpec n L) (List.range (relabelCount n)) relabelStart [(0, 0)] = .ok (rmapSpec n L) := by
  have hwalk := relabelWalk_eq n L h (n - 1) 0 (by omega)
  have h0 : nth L 0 = 0 := by obtain ⟨t, rfl⟩ := h.head; exact nth_cons_zero _ _
  have hr1 : rmapSpec (0 + 1) L = [(0, 0)] := by simp [rmapSpec, h0]
  rw [h0, hr1, ← List.range_eq_range'] at hwalk
  rw [relabelCount_spec, relabelStart_val]
  exact hwalk

theorem rmapSpec_keys (n : Nat) (L : List Nat) (h : IsRingList n L) : (rmapSpec n L).map Prod.fst = L := by
  unfold rmapSpec
  rw [List.map_map]
  have := map_getD_range L
  rw [h.length] at this
  simpa [Function.comp_def] using this

theorem dget_rmapSpec (n : Nat) (L : List Nat) (h : IsRingList n L) {k : Nat} (hk : k < n) :
    dget (rmapSpec n L) k = .ok (pos L k) := by
  apply dget_of_mem
  · rw [rmapSpec_keys n L h]; exact h.nodup
  · refine List.mem_map.2 ⟨pos L k, List.mem_range.2 (h.pos_lt' hk), ?_⟩
    rw [h.getD_pos' hk]

/-! ### the relabelled maps -/

def ringOutSpec (n : Nat) : Dict (Nat × Nat) :=
  (List.range n).map fun r => (r, ((r + n - 1) % n, (r + 1) % n))

def treeOutSpec (n : Nat) (L : List Nat) : Dict (List Nat) :=
  (List.range n).map fun r => (pos L r, (getNeighbor r n).map (pos L))

def parentOutSpec (n : Nat) (L : List Nat) : Dict Int :=
  (List.range n).map fun r => (pos L r, if r = 0 then (-1 : Int) else ((pos L ((r - 1) / 2) : Nat) : Int))

/-- **closed form of `get_link_map(n)`**, for every `n ≥ 1` and every child-order oracle -/
theorem getLinkMap_eq (n : Nat) (hn : 1 ≤ n) (ord : Nat → List Nat) :
    ∃ L, ringList n ord = .ok L ∧ IsRingList n L ∧
      getLinkMap n ord =
        .ok { tree := treeOutSpec n L, parent := parentOutSpec n L, ring := ringOutSpec n } := by
  obtain ⟨L, hL, hperm, hhead⟩ := ringList_ok n hn ord
  have h : IsRingList n L := ⟨hperm, hhead⟩
  refine ⟨L, hL, h, ?_⟩
  have hmod1 : ∀ r, (r + n - 1) % n < n := fun r => Nat.mod_lt _ (by omega)
  have hmod2 : ∀ r, (r + 1) % n < n := fun r => Nat.mod_lt _ (by omega)
  unfold getLinkMap
  simp only [getRing_eq n hn ord hL h, relabelWalk_full n hn L h]
  -- ring_map_
  have hring : buildR (ringOut (rmapSpec n L)) (ringSpec n L) [] = .ok (ringOutSpec n) := by
    have := buildR_fresh (ringOut (rmapSpec n L))
      (fun e => (pos L e.1, (pos L e.2.1, pos L e.2.2))) (ringSpec n L) []
      (by
        intro e he
        obtain ⟨r, hr, rfl⟩ := List.mem_map.1 he
        have hr : r < n := List.mem_range.1 hr
        unfold ringOut
        simp only [dget_rmapSpec n L h (h.getD_lt hr), dget_rmapSpec n L h (h.getD_lt (hmod1 r)),
          dget_rmapSpec n L h (h.getD_lt (hmod2 r))])
      (by
        simp only [List.nil_append, ringSpec, List.map_map]
        have : (List.range n).map (Prod.fst ∘ (fun e : Nat × (Nat × Nat) => (pos L e.1, (pos L e.2.1, pos L e.2.2))) ∘
            fun r => (nth L r, (nth L ((r + n - 1) % n), nth L ((r + 1) % n)))) = List.range n := by
          conv => rhs; rw [← List.map_id (List.range n)]
          apply List.map_congr_left
          intro r hr
          simp [h.pos_getD' (List.mem_range.1 hr)]
        rw [this]; exact List.nodup_range)
    rw [this]
    simp only [List.nil_append, ringSpec, ringOutSpec, List.map_map]
    congr 1
    apply List.map_congr_left
    intro r hr
    have hr : r < n := List.mem_range.1 hr
    simp [h.pos_getD' hr, h.pos_getD' (hmod1 r), h.pos_getD' (hmod2 r)]
  -- tree_map_
  have htree : buildR (treeOut (rmapSpec n L)) (getTree n).1 [] = .ok (treeOutSpec n L) := by
    rw [getTree_eq]
    have := buildR_fresh (treeOut (rmapSpec n L))
      (fun e => (pos L e.1, e.2.map (pos L))) ((List.range n).map fun r => (r, getNeighbor r n)) []
      (by
        intro e he
        obtain ⟨r, hr, rfl⟩ := List.mem_map.1 he
        have hr : r < n := List.mem_range.1 hr
        unfold treeOut
        simp only [dget_rmapSpec n L h hr]
        rw [mapR_ok (dget (rmapSpec n L)) (pos L) (getNeighbor r n)
          (fun x hx => dget_rmapSpec n L h (getNeighbor_lt hr hx))])
      (by
        simp only [List.nil_append, List.map_map]
        exact h.map_pos_nodup)
    rw [this]
    simp [treeOutSpec, List.map_map, Function.comp_def]
  -- parent_map_
  have hpar : buildR (parentOut (rmapSpec n L)) (getTree n).2 [] = .ok (parentOutSpec n L) := by
    rw [getTree_eq]
    have := buildR_fresh (parentOut (rmapSpec n L))
      (fun e => (pos L e.1, if e.1 = 0 then (-1 : Int) else ((pos L ((e.1 - 1) / 2) : Nat) : Int)))
      ((List.range n).map fun r => (r, parentI r)) []
      (by
        intro e he
        obtain ⟨r, hr, rfl⟩ := List.mem_map.1 he
        have hr : r < n := List.mem_range.1 hr
        unfold parentOut
        by_cases h0 : r = 0
        · subst h0
          simp [notRoot, dget_rmapSpec n L h hr, rootParentOut_val]
        · have hnr : notRoot r = true := (notRoot_iff r).2 h0
          simp only [hnr, if_true, dget_rmapSpec n L h hr, parentI_pos r (by omega), h0, if_false]
          have : dgetI (rmapSpec n L) (((r - 1) / 2 : Nat) : Int) = .ok (pos L ((r - 1) / 2)) := by
            show dget (rmapSpec n L) ((r - 1) / 2) = _
            exact dget_rmapSpec n L h (by omega)
          rw [this])
      (by
        simp only [List.nil_append, List.map_map]
        exact h.map_pos_nodup)
    rw [this]
    simp [parentOutSpec, List.map_map, Function.comp_def]
  simp only [hring, htree, hpar]

end DmlcModel.Tracker
