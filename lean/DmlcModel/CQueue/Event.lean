/-
C18 — ManualEvent: specification lemmas for the generated items and the inductive invariant of the
model of the (repaired) code, in which wait() re-checks the flag after every wake-up.
-/
import DmlcModel.CQueue.Model
namespace DmlcModel.CQueue
open DmlcModel.Gen.CQueue

theorem evWaitLoops_spec : evWaitLoops = true := rfl
theorem evWaitBlocks_spec (b : Bool) : evWaitBlocks b = !b := rfl
theorem evSignalValue_spec : evSignalValue = true := rfl
theorem evResetValue_spec : evResetValue = false := rfl
theorem evInit_spec : evInit = false := rfl

structure EInv (s : EState) : Prop where
  ghostEq : s.sigAfterReset = s.signaled
  retOk : s.holder = .wU → s.signaled = true
  noBad : s.badReturns = 0
  waitFlag : s.holder = .wWait → s.signaled = false ∨ 0 < s.sigPending
  noLostSignal : s.signaled = true → 0 < s.waitset → 0 < s.sigPending ∨ s.holder = .sNotify

theorem einv_init : EInv einit := by
  constructor <;> simp [einit, evInit_spec]

set_option maxHeartbeats 2000000 in
theorem einv_step (s s' : EState) (e : EEvent) (hi : EInv s) (hs : estep true s e = some s') : EInv s' := by
  obtain ⟨sg, h, ws, wk, sp, sa, br⟩ := s
  obtain ⟨h1, h2, h3, h4, h5⟩ := hi
  simp only [] at h1 h2 h3 h4 h5
  cases sg <;> cases e <;> cases h <;>
    simp only [estep, evWaitBlocks_spec, evSignalValue_spec, evResetValue_spec, reduceCtorEq, if_false, if_true,
      true_and, false_and] at hs
  all_goals (first | (simp at hs; done) | skip)
  all_goals (repeat' split at hs)
  all_goals (first | (simp at hs; done) | skip)
  all_goals (simp only [Option.some.injEq] at hs; subst hs)
  all_goals (constructor <;> simp only [reduceCtorEq] at * <;> try omega)
  all_goals (try (simp_all <;> omega))
  all_goals (try (simp_all; done))

theorem ereach_inv {s : EState} (h : EReach true s) : EInv s := by
  induction h with
  | init => exact einv_init
  | step e _ hs ih => exact einv_step _ _ e ih hs

end DmlcModel.CQueue
