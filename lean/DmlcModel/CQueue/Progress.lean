/-
C18 — progress lemmas: enabledness of continuation events, constructed return paths of waiters, and
the link between executable runs (`qrun` / `erun`) and reachability.
-/
import DmlcModel.CQueue.Invariant
import DmlcModel.CQueue.Event

namespace DmlcModel.CQueue
open DmlcModel.Gen.CQueue

theorem exists_max : ∀ (q : List Elem), q ≠ [] → ∃ x, x ∈ q ∧ isMax x q = true
  | [], h => absurd rfl h
  | [x], _ => ⟨x, by simp, by simp [isMax]⟩
  | x :: y :: r, _ => by
    obtain ⟨z, hz, hm⟩ := exists_max (y :: r) (by simp)
    by_cases hxz : x.prio ≤ z.prio
    · refine ⟨z, List.mem_cons_of_mem _ hz, ?_⟩
      simp only [isMax, List.all_cons, Bool.and_eq_true, decide_eq_true_eq] at hm ⊢
      exact ⟨hxz, hm⟩
    · refine ⟨x, by simp, ?_⟩
      simp only [isMax, List.all_cons, Bool.and_eq_true, decide_eq_true_eq, List.all_eq_true] at hm ⊢
      refine ⟨Int.le_refl _, ?_, ?_⟩
      · have := hm.1; omega
      · intro w hw; have := hm.2 w hw; omega

/-- the thread inside the critical section can always take its next step -/
theorem holder_can_step (m : Mode) (s : QState) (hf : s.holder ≠ .free) (hu : s.holder ≠ .ub) :
    ∃ e, e.continues = true ∧ (qstep m s e).isSome = true := by
  obtain ⟨q, ex, nw, h, ws, wk, pn, pk, pe, pp⟩ := s
  cases h
  case free => simp at hf
  case ub => simp at hu
  case pushU n => exact ⟨.pushUnlock, rfl, by simp [qstep]⟩
  case popPred => exact ⟨.popPredLoad, rfl, by simp [qstep]⟩
  case popWait => exact ⟨.popWait, rfl, by simp [qstep]⟩
  case popU ok => exact ⟨.popUnlock, rfl, by simp [qstep]⟩
  case killStore => exact ⟨.killStore, rfl, by simp [qstep]⟩
  case killU => exact ⟨.killUnlock, rfl, by simp [qstep]⟩
  case sizeU => exact ⟨.sizeUnlock, rfl, by simp [qstep]⟩
  case popAfter =>
    cases m
    · refine ⟨.popAfterLoad none, rfl, ?_⟩
      simp only [qstep, popTakesFront_spec, if_true]
      repeat' split
      all_goals simp
    · cases q with
      | nil =>
        refine ⟨.popAfterLoad none, rfl, ?_⟩
        simp only [qstep, if_true]
        split <;> simp
      | cons a r =>
        obtain ⟨x, hx, hm⟩ := exists_max (a :: r) (by simp)
        refine ⟨.popAfterLoad (some x), rfl, ?_⟩
        simp only [qstep, if_true]
        split
        · simp [hx, hm]
        · simp

/-- with the flag set and no reset() interfering, one awake waiter returns in three steps -/
theorem event_return_one (s : EState) (hf : s.holder = .free) (hsig : s.signaled = true) (hwk : 0 < s.woken) :
    erun true s [.wRelock, .wLoad, .wUnlock] =
      some { s with woken := s.woken - 1,
                    badReturns := if s.sigAfterReset then s.badReturns else s.badReturns + 1 } := by
  obtain ⟨sg, h, ws, wk, sp, sa, br⟩ := s
  simp only [] at hf hsig hwk
  subst hf hsig
  simp [erun, estep, hwk, evWaitBlocks_spec]

theorem event_return_all : ∀ (n : Nat) (s : EState), s.holder = .free → s.signaled = true → s.woken = n →
    s.sigAfterReset = true →
    ∃ es : List EEvent, (∀ e ∈ es, e.continues = true ∧ e.isReset = false) ∧
      erun true s es = some { s with woken := 0 }
  | 0, s, _, _, hn, _ => ⟨[], by simp, by simp [erun, ← hn]⟩
  | n + 1, s, hf, hsig, hn, hg => by
    have h1 := event_return_one s hf hsig (by omega)
    obtain ⟨es, hes, hrun⟩ := event_return_all n { s with woken := s.woken - 1 } hf hsig (by simp; omega) hg
    refine ⟨[.wRelock, .wLoad, .wUnlock] ++ es, ?_, ?_⟩
    · intro e he
      simp only [List.mem_append, List.mem_cons, List.not_mem_nil, or_false] at he
      rcases he with (rfl | rfl | rfl) | he
      · exact ⟨rfl, rfl⟩
      · exact ⟨rfl, rfl⟩
      · exact ⟨rfl, rfl⟩
      · exact hes e he
    · have : ∀ a b : List EEvent, ∀ t : EState, erun true t (a ++ b) = (erun true t a).bind fun t' => erun true t' b := by
        intro a
        induction a with
        | nil => intro b t; simp [erun]
        | cons x xs ih =>
          intro b t
          simp only [List.cons_append, erun]
          cases estep true t x <;> simp [ih]
      rw [this, h1]
      simp only [hg, if_true, Option.bind_some]
      simpa [hg] using hrun



theorem qreach_run {m : Mode} : ∀ (es : List QEvent) {s s' : QState}, QReach m s → qrun m s es = some s' → QReach m s'
  | [], s, s', h, hr => by simp only [qrun, Option.some.injEq] at hr; exact hr ▸ h
  | e :: es, s, s', h, hr => by
    simp only [qrun] at hr
    cases hs : qstep m s e with
    | none => simp [hs] at hr
    | some t =>
      simp only [hs, Option.bind_some] at hr
      exact qreach_run es (QReach.step e h hs) hr

theorem ereach_run {l : Bool} : ∀ (es : List EEvent) {s s' : EState}, EReach l s → erun l s es = some s' → EReach l s'
  | [], s, s', h, hr => by simp only [erun, Option.some.injEq] at hr; exact hr ▸ h
  | e :: es, s, s', h, hr => by
    simp only [erun] at hr
    cases hs : estep l s e with
    | none => simp [hs] at hr
    | some t =>
      simp only [hs, Option.bind_some] at hr
      exact ereach_run es (EReach.step e h hs) hr


def okPath (es : List EEvent) : Prop := ∀ e ∈ es, e.continues = true ∧ e.isReset = false

theorem okPath_append {a b : List EEvent} (ha : okPath a) (hb : okPath b) : okPath (a ++ b) := by
  intro e he
  rcases List.mem_append.mp he with h | h
  · exact ha e h
  · exact hb e h

theorem erun_append (l : Bool) : ∀ (a b : List EEvent) (t : EState),
    erun l t (a ++ b) = (erun l t a).bind fun t' => erun l t' b := by
  intro a
  induction a with
  | nil => intro b t; simp [erun]
  | cons x xs ih =>
    intro b t
    simp only [List.cons_append, erun]
    cases estep l t x <;> simp [ih]

/-- everybody has returned and no call is in progress -/
def allReturned (s : EState) : Prop :=
  s.holder = .free ∧ s.waitset = 0 ∧ s.woken = 0 ∧ s.sigPending = 0 ∧ s.signaled = true

theorem event_drain : ∀ (n : Nat) (s : EState), s.holder = .free → s.signaled = true → s.sigAfterReset = true →
    s.sigPending = n → (s.sigPending = 0 → s.waitset = 0) →
    ∃ es s', okPath es ∧ erun true s es = some s' ∧ allReturned s' ∧ s'.badReturns = s.badReturns
  | 0, s, hf, hsig, hg, hn, hws => by
    obtain ⟨es, hes, hrun⟩ := event_return_all s.woken s hf hsig rfl hg
    exact ⟨es, _, hes, hrun, ⟨hf, hws hn, rfl, hn, hsig⟩, rfl⟩
  | n + 1, s, hf, hsig, hg, hn, _ => by
    have h1 : erun true s [.sLock, .sNotify, .sUnlock] =
        some { s with sigPending := n, woken := s.woken + s.waitset, waitset := 0 } := by
      obtain ⟨sg, h, ws, wk, sp, sa, br⟩ := s
      simp only [] at hf hn
      subst hf hn
      simp [erun, estep]
    obtain ⟨es, s', hes, hrun, hall, hbad⟩ :=
      event_drain n { s with sigPending := n, woken := s.woken + s.waitset, waitset := 0 } hf hsig hg rfl (fun _ => rfl)
    refine ⟨[.sLock, .sNotify, .sUnlock] ++ es, s', okPath_append ?_ hes, ?_, hall, hbad⟩
    · intro e he
      simp only [List.mem_cons, List.not_mem_nil, or_false] at he
      rcases he with rfl | rfl | rfl <;> exact ⟨rfl, rfl⟩
    · rw [erun_append, h1]; exact hrun

/-- finish the call of the thread inside the critical section (not a reset() before its store) -/
theorem event_finish_holder (s : EState) (hsig : s.signaled = true) (hr : s.holder ≠ .rStore) :
    ∃ es, okPath es ∧ ∃ s', erun true s es = some s' ∧ s'.holder = .free ∧ s'.signaled = true := by
  obtain ⟨sg, h, ws, wk, sp, sa, br⟩ := s
  simp only [] at hsig hr
  subst hsig
  have ok : ∀ es : List EEvent, (∀ e ∈ es, e.continues = true ∧ e.isReset = false) → okPath es := fun _ h => h
  cases h
  case rStore => simp at hr
  case free => exact ⟨[], ok _ (by simp), by simp [erun]⟩
  case wLoad => exact ⟨[.wLoad, .wUnlock], ok _ (by simp [EEvent.continues, EEvent.isReset]), by simp [erun, estep, evWaitBlocks_spec]⟩
  case wWait => exact ⟨[.wWait], ok _ (by simp [EEvent.continues, EEvent.isReset]), by simp [erun, estep]⟩
  case wU => exact ⟨[.wUnlock], ok _ (by simp [EEvent.continues, EEvent.isReset]), by simp [erun, estep]⟩
  case sNotify => exact ⟨[.sNotify, .sUnlock], ok _ (by simp [EEvent.continues, EEvent.isReset]), by simp [erun, estep]⟩
  case sU => exact ⟨[.sUnlock], ok _ (by simp [EEvent.continues, EEvent.isReset]), by simp [erun, estep]⟩
  case rU => exact ⟨[.rUnlock], ok _ (by simp [EEvent.continues, EEvent.isReset]), by simp [erun, estep]⟩

/-- from ANY reachable state in which the flag is set and no reset() is about to clear it, there is a
path of steps that only continue calls in progress (no new call, no spurious wake-up, no reset) after
which every waiter has returned -/
theorem event_live_path {s : EState} (h : EReach true s) (hsig : s.signaled = true) (hr : s.holder ≠ .rStore) :
    ∃ es, okPath es ∧ ∃ s', erun true s es = some s' ∧ allReturned s' ∧ s'.badReturns = 0 := by
  obtain ⟨es1, hes1, s1, hrun1, hf1, hsig1⟩ := event_finish_holder s hsig hr
  have hreach1 := ereach_run es1 h hrun1
  have hi1 := ereach_inv hreach1
  have hg1 : s1.sigAfterReset = true := by rw [hi1.ghostEq]; exact hsig1
  have hws1 : s1.sigPending = 0 → s1.waitset = 0 := by
    intro hp
    rcases Nat.eq_zero_or_pos s1.waitset with h0 | hpos
    · exact h0
    · rcases hi1.noLostSignal hsig1 hpos with h1 | h1
      · omega
      · simp [hf1] at h1
  obtain ⟨es2, s2, hes2, hrun2, hall, _⟩ := event_drain s1.sigPending s1 hf1 hsig1 hg1 rfl hws1
  refine ⟨es1 ++ es2, okPath_append hes1 hes2, s2, ?_, hall, ?_⟩
  · rw [erun_append, hrun1]; exact hrun2
  · exact (ereach_inv (ereach_run es2 hreach1 hrun2)).noBad


end DmlcModel.CQueue
