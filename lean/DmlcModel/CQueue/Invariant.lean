/-
C18 — the queue invariants are inductive: every event of `qstep` preserves them.
-/
import DmlcModel.CQueue.Lemmas

namespace DmlcModel.CQueue
open DmlcModel.Gen.CQueue

/- the arithmetic / control invariant is preserved by every event (2 x 16 x 12 exit/event/holder
cases, closed by case analysis + linear arithmetic) -/
set_option maxHeartbeats 4000000 in
theorem qinv_step (m : Mode) (s s' : QState) (e : QEvent) (hi : QInv s) (hs : qstep m s e = some s') :
    QInv s' := by
  obtain ⟨q, ex, nw, h, ws, wk, pn, pk, pe, pp⟩ := s
  obtain ⟨h1, h2, h3, h4, h5, h6, h7, h8, h9⟩ := hi
  simp only [] at h1 h2 h3 h4 h5 h6 h7 h8 h9
  cases ex <;> cases e <;> rcases h with _ | (_|_) | _ | _ | _ | (_|_) | _ | _ | _ | _ <;>
    simp only [qstep, afterPred, popPred_spec, popTakes_spec, pushNotify_spec, killValue_spec, popTakesFront_spec,
      reduceCtorEq, if_false, if_true, true_and, false_and] at hs
  all_goals (first | (simp at hs; done) | skip)
  all_goals (repeat' split at hs)
  all_goals (first | (simp at hs; done) | skip)
  all_goals (simp only [Option.some.injEq] at hs; subst hs)
  all_goals (constructor <;> simp only [hcount, hcredit, length_insertQ, reduceCtorEq] at * <;> try omega)
  all_goals (try (simp_all <;> omega))
  all_goals (try (simp_all; done))
  all_goals (intro hw _; have hnz : (nw != 0) = true := by (simp; omega))
  all_goals (simp only [hnz]; have := h8 hw trivial; omega)

/-- ghost bookkeeping: FIFO order exactly, priority variant as a multiset -/
structure QInvL (m : Mode) (s : QState) : Prop where
  fifo : m = .fifo → s.pushedEff = s.popped ++ s.q
  perm : s.pushedEff.Perm (s.popped ++ s.q)

theorem qinvl_init (m : Mode) : QInvL m qinit := by
  constructor <;> simp [qinit]

theorem perm_take {x : Elem} {pe pp q : List Elem} (h : pe.Perm (pp ++ q)) (hx : x ∈ q) :
    pe.Perm (pp ++ [x] ++ q.erase x) := by
  refine h.trans ?_
  rw [List.append_assoc]
  exact List.Perm.append_left pp (List.perm_cons_erase hx)

theorem qinvl_push (m : Mode) (front : Bool) (x : Elem) (pe pp q : List Elem)
    (h1 : m = .fifo → pe = pp ++ q) (h2 : pe.Perm (pp ++ q)) :
    (m = .fifo → insertEff m front x pp.length pe = pp ++ insertQ m front x q) ∧
    (insertEff m front x pp.length pe).Perm (pp ++ insertQ m front x q) := by
  cases m <;> cases front
  · have := h1 rfl; subst this
    simp [insertQ_fifo_back, insertEff]
  · have := h1 rfl; subst this
    simp [insertQ_fifo_front, insertEff]
  · simp only [insertQ_prio, insertEff, reduceCtorEq, false_implies, true_and, ← List.append_assoc]
    exact List.Perm.append_right _ h2
  · simp only [insertQ_prio, insertEff, reduceCtorEq, false_implies, true_and, ← List.append_assoc]
    exact List.Perm.append_right _ h2

theorem qinvl_step (m : Mode) (s s' : QState) (e : QEvent) (hi : QInvL m s) (hs : qstep m s e = some s') :
    QInvL m s' := by
  obtain ⟨q, ex, nw, h, ws, wk, pn, pk, pe, pp⟩ := s
  obtain ⟨h1, h2⟩ := hi
  simp only [] at h1 h2
  cases e
  case pushLock x front =>
    simp only [qstep] at hs
    split at hs
    · simp only [Option.some.injEq] at hs; subst hs
      have := qinvl_push m front x pe pp q h1 h2
      exact ⟨this.1, this.2⟩
    · simp at hs
  case popAfterLoad hint =>
    simp only [qstep, popTakesFront_spec, if_true] at hs
    repeat' split at hs
    all_goals (first | (simp at hs; done) | skip)
    all_goals (simp only [Option.some.injEq] at hs; subst hs)
    all_goals (first | exact ⟨h1, h2⟩ | skip)
    · constructor
      · intro hm; simp [h1 hm]
      · simpa using h2
    · rename_i hx
      constructor
      · intro hm; simp at hm
      · exact perm_take h2 hx.1
  all_goals
    simp only [qstep, afterPred] at hs
    repeat' split at hs
    all_goals (first | (simp at hs; done) | skip)
    all_goals (simp only [Option.some.injEq] at hs; subst hs)
    all_goals exact ⟨h1, h2⟩


theorem qreach_inv {m : Mode} {s : QState} (h : QReach m s) : QInv s ∧ QInvL m s := by
  induction h with
  | init => exact ⟨qinv_init, qinvl_init m⟩
  | step e _ hs ih => exact ⟨qinv_step m _ _ e ih.1 hs, qinvl_step m _ _ e ih.2 hs⟩

end DmlcModel.CQueue
