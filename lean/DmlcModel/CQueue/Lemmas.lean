/-
C18 — specification lemmas for the generated items and the inductive invariant of the queue model.
-/
import DmlcModel.CQueue.Model

namespace DmlcModel.CQueue
open DmlcModel.Gen.CQueue

/-! ## what the extracted expressions mean (fails to compile when the source expression changes) -/

theorem popPred_spec (m : Mode) (e x : Bool) : popPred m e x = (!e || x) := by
  cases m <;> rfl

theorem popTakes_spec (m : Mode) (x : Bool) : popTakes m x = !x := by
  cases m <;> rfl

theorem pushNotify_spec (m : Mode) (f : Bool) (n : Nat) : pushNotify m f n = (n != 0) := by
  cases m <;> cases f <;> rfl

theorem killValue_spec : killValue = true := rfl
theorem exitInit_spec : exitInit = false := rfl
theorem nwaitInit_spec : nwaitInit = 0 := rfl
theorem pushAtBack_spec : pushAtBack = true := rfl
theorem pushFrontAtFront_spec : pushFrontAtFront = true := rfl
theorem popTakesFront_spec : popTakesFront = true := rfl

theorem insertQ_fifo_back (x : Elem) (q : List Elem) : insertQ .fifo false x q = q ++ [x] := by
  simp [insertQ, pushAtBack_spec]
theorem insertQ_fifo_front (x : Elem) (q : List Elem) : insertQ .fifo true x q = x :: q := by
  simp [insertQ, pushFrontAtFront_spec]
theorem insertQ_prio (f : Bool) (x : Elem) (q : List Elem) : insertQ .prio f x q = q ++ [x] := by
  cases f <;> rfl

/-! ## arithmetic / control invariant -/

/-- the holder is counted in `nwait_consumer_` -/
def hcount : Holder → Nat
  | .popPred | .popWait => 1
  | _ => 0

/-- the holder is about to account for one queued element: a pusher that will notify, or a popper
that is past the predicate -/
def hcredit : Holder → Nat
  | .pushU true | .popAfter => 1
  | _ => 0

structure QInv (s : QState) : Prop where
  nwait_eq : s.nwait = s.waitset + s.woken + hcount s.holder
  emptyPred : s.holder = .popPred → s.q = []
  emptyWait : s.holder = .popWait → s.q = []
  waitNoExit : s.holder = .popWait → s.exit = false
  takeOk : s.holder = .popAfter → s.exit = false → s.q ≠ []
  noUb : s.holder ≠ .ub
  quietPush : s.holder = .pushU false → s.waitset = 0
  noLost : 0 < s.waitset → s.exit = false → s.q.length ≤ s.woken + s.pendNotify + hcredit s.holder
  killPending : s.exit = true → 0 < s.waitset → 0 < s.pendKill ∨ s.holder = .killU

theorem qinv_init : QInv qinit := by
  constructor <;> simp [qinit, hcount, hcredit, exitInit_spec, nwaitInit_spec]

theorem length_insertQ (m : Mode) (f : Bool) (x : Elem) (q : List Elem) :
    (insertQ m f x q).length = q.length + 1 := by
  cases m <;> cases f <;> simp [insertQ] <;> split <;> simp

end DmlcModel.CQueue
