/-
C18 — transition systems of `ConcurrentBlockingQueue` (include/dmlc/concurrency.h) and `ManualEvent`
(include/dmlc/thread_group.h).  Core Lean only.

Granularity: one event = one synchronisation operation of the C++ (mutex lock / unlock, condition
wait / re-lock, notify, atomic load / store), exactly the steps of the controlled scheduler
(harness/common/vsched.h), so the driver replays a schedule step for step.  The plain code between two
synchronisation operations of a thread belongs to the earlier one.

Counter abstraction: threads are interchangeable, so the state counts the threads per program location
instead of naming them; the (at most one) thread inside the critical section is described by `holder`.
Any thread may start any call at any time (most general client): the theorems hold for every number of
pushers, poppers and killers and every program.  A spurious wake-up is an always-enabled event of a
thread in the wait set.  Wait predicates, notify conditions, flag values and the insertion end of the
deque come from the generated `Gen.CQueue` (re-extracted from the source on every run).
-/
import DmlcModel.Basic
import DmlcModel.Gen.CQueue

namespace DmlcModel.CQueue
open DmlcModel.Gen.CQueue

structure Elem where
  val : Nat
  prio : Int
deriving DecidableEq, Repr

inductive Mode
  | fifo
  | prio
deriving DecidableEq, Repr

/-- program location of the thread that owns `mutex_` -/
inductive Holder
  | free
  | pushU (notify : Bool)   -- Push/PushFront: element inserted, `notify` computed, before unlock
  | popPred                 -- Pop: `++nwait`, container empty, before `exit_now_.load()` of the predicate
  | popWait                 -- Pop: predicate false, before `cv_.wait` releases the mutex
  | popAfter                -- Pop: predicate true, `--nwait` done, before `exit_now_.load()` of the `if`
  | popU (ok : Bool)        -- Pop: result decided (element taken iff `ok`), before unlock
  | killStore               -- SignalForKill: before `exit_now_.store(true)`
  | killU                   -- SignalForKill: before unlock
  | sizeU                   -- Size: before unlock
  | ub                      -- Pop ran `front()` / `pop_heap` on an empty container (undefined behaviour)
deriving DecidableEq, Repr

structure QState where
  q : List Elem := []          -- FIFO: front first.  Priority: insertion order (a multiset)
  exit : Bool := exitInit
  nwait : Nat := nwaitInit
  holder : Holder := .free
  waitset : Nat := 0           -- poppers in the wait set of `cv_`
  woken : Nat := 0             -- poppers notified / spuriously woken, before re-acquiring the mutex
  pendNotify : Nat := 0        -- pushers after unlock with `notify == true`, before `notify_one`
  pendKill : Nat := 0          -- killers after unlock, before `notify_all`
  pushedEff : List Elem := []  -- ghost: elements in the order the property prescribes for delivery
  popped : List Elem := []     -- ghost: elements handed out by successful Pops, in order
deriving Repr

inductive QEvent
  | pushLock (x : Elem) (front : Bool)
  | pushUnlock
  | pushNotify
  | popLock
  | popPredLoad
  | popWait
  | spurious
  | popRelock
  | popAfterLoad (hint : Option Elem)   -- priority mode: the maximal element the heap hands out
  | popUnlock
  | killLock
  | killStore
  | killUnlock
  | killNotify
  | sizeLock
  | sizeUnlock
deriving DecidableEq, Repr

def popPred (m : Mode) (empty exit : Bool) : Bool :=
  match m with
  | .fifo => popPredFifo empty exit
  | .prio => popPredPrio empty exit

def popTakes (m : Mode) (exit : Bool) : Bool :=
  match m with
  | .fifo => popTakesFifo exit
  | .prio => popTakesPrio exit

def pushNotify (m : Mode) (front : Bool) (nwait : Nat) : Bool :=
  match m, front with
  | .fifo, false => pushDoesNotify (pushNotifyFifo nwait)
  | .prio, false => pushDoesNotify (pushNotifyPrio nwait)
  | .fifo, true => pushFrontDoesNotify (pushFrontNotifyFifo nwait)
  | .prio, true => pushFrontDoesNotify (pushFrontNotifyPrio nwait)

/-- container after the insertion of `x` (the code) -/
def insertQ (m : Mode) (front : Bool) (x : Elem) (q : List Elem) : List Elem :=
  match m, front with
  | .fifo, false => if pushAtBack then q ++ [x] else x :: q
  | .fifo, true => if pushFrontAtFront then x :: q else q ++ [x]
  | .prio, _ => q ++ [x]

/-- ghost delivery order after the push took effect (the property): a front push goes before
everything not yet handed out, a normal push to the end -/
def insertEff (m : Mode) (front : Bool) (x : Elem) (npopped : Nat) (eff : List Elem) : List Elem :=
  match m, front with
  | .fifo, true => eff.take npopped ++ x :: eff.drop npopped
  | _, _ => eff ++ [x]

def isMax (x : Elem) (q : List Elem) : Bool := q.all fun y => decide (y.prio ≤ x.prio)

/-- the thread in the critical section after the wait predicate evaluated to `p` -/
def afterPred (s : QState) (p : Bool) (counted : Bool) : QState :=
  if p then { s with holder := .popAfter, nwait := if counted then s.nwait - 1 else s.nwait }
  else { s with holder := .popWait, nwait := if counted then s.nwait else s.nwait + 1 }

def qstep (m : Mode) (s : QState) : QEvent → Option QState
  | .pushLock x front =>
    if s.holder = .free then
      some { s with q := insertQ m front x s.q,
                    pushedEff := insertEff m front x s.popped.length s.pushedEff,
                    holder := .pushU (pushNotify m front s.nwait) }
    else none
  | .pushUnlock =>
    match s.holder with
    | .pushU n => some { s with holder := .free, pendNotify := if n then s.pendNotify + 1 else s.pendNotify }
    | _ => none
  | .pushNotify =>
    if 0 < s.pendNotify then
      if 0 < s.waitset then
        some { s with pendNotify := s.pendNotify - 1, waitset := s.waitset - 1, woken := s.woken + 1 }
      else some { s with pendNotify := s.pendNotify - 1 }
    else none
  | .popLock =>
    -- `++nwait_consumer_; cv_.wait(lock, pred)`: `pred` is `!empty || exit_now_.load()`; the load (a
    -- scheduling point) is only reached when the container is empty
    if s.holder = .free then
      if s.q.isEmpty then some { s with holder := .popPred, nwait := s.nwait + 1 }
      else some (afterPred s (popPred m false s.exit) false)
    else none
  | .popPredLoad =>
    if s.holder = .popPred then some (afterPred s (popPred m s.q.isEmpty s.exit) true) else none
  | .popWait =>
    if s.holder = .popWait then some { s with holder := .free, waitset := s.waitset + 1 } else none
  | .spurious =>
    if 0 < s.waitset then some { s with waitset := s.waitset - 1, woken := s.woken + 1 } else none
  | .popRelock =>
    if s.holder = .free ∧ 0 < s.woken then
      let s1 := { s with woken := s.woken - 1 }
      if s.q.isEmpty then some { s1 with holder := .popPred }
      else some (afterPred s1 (popPred m false s.exit) true)
    else none
  | .popAfterLoad hint =>
    if s.holder = .popAfter then
      if popTakes m s.exit then
        match m with
        | .fifo =>
          if popTakesFront then
            match s.q with
            | [] => some { s with holder := .ub }
            | x :: rest => some { s with q := rest, popped := s.popped ++ [x], holder := .popU true }
          else
            match s.q.reverse with
            | [] => some { s with holder := .ub }
            | x :: rest => some { s with q := rest.reverse, popped := s.popped ++ [x], holder := .popU true }
        | .prio =>
          match s.q, hint with
          | [], _ => some { s with holder := .ub }
          | _ :: _, some x =>
            if x ∈ s.q ∧ isMax x s.q then
              some { s with q := s.q.erase x, popped := s.popped ++ [x], holder := .popU true }
            else none
          | _ :: _, none => none
      else some { s with holder := .popU false }
    else none
  | .popUnlock =>
    match s.holder with
    | .popU _ => some { s with holder := .free }
    | _ => none
  | .killLock => if s.holder = .free then some { s with holder := .killStore } else none
  | .killStore => if s.holder = .killStore then some { s with exit := killValue, holder := .killU } else none
  | .killUnlock =>
    if s.holder = .killU then some { s with holder := .free, pendKill := s.pendKill + 1 } else none
  | .killNotify =>
    if 0 < s.pendKill then
      some { s with pendKill := s.pendKill - 1, woken := s.woken + s.waitset, waitset := 0 }
    else none
  | .sizeLock => if s.holder = .free then some { s with holder := .sizeU } else none
  | .sizeUnlock => if s.holder = .sizeU then some { s with holder := .free } else none

def qinit : QState := {}

inductive QReach (m : Mode) : QState → Prop
  | init : QReach m qinit
  | step {s s' : QState} (e : QEvent) : QReach m s → qstep m s e = some s' → QReach m s'

/-- run a list of events (none = some event was not enabled) -/
def qrun (m : Mode) (s : QState) : List QEvent → Option QState
  | [] => some s
  | e :: es => (qstep m s e).bind fun s' => qrun m s' es

/-- events that continue a call already in progress (not a new call, not a spurious wake-up) -/
def QEvent.continues : QEvent → Bool
  | .pushLock _ _ | .popLock | .killLock | .sizeLock | .spurious => false
  | _ => true

/-! ## ManualEvent -/

inductive EHolder
  | free
  | wLoad     -- wait(): mutex held, before the load of `signaled_`
  | wWait     -- wait(): flag was false, before `condition_variable_.wait` releases the mutex
  | wU        -- wait(): returning, before unlock
  | sNotify   -- signal(): mutex held, before notify_all
  | sU        -- signal(): before unlock
  | rStore    -- reset(): mutex held, before the store
  | rU        -- reset(): before unlock
deriving DecidableEq, Repr

structure EState where
  signaled : Bool := evInit
  holder : EHolder := .free
  waitset : Nat := 0
  woken : Nat := 0
  sigPending : Nat := 0        -- signal(): flag stored (outside the mutex), before lock
  sigAfterReset : Bool := false  -- ghost: signal() has stored since the last store of reset()
  badReturns : Nat := 0          -- ghost: number of wait() calls that returned while `¬sigAfterReset`
deriving Repr

inductive EEvent
  | wLock | wLoad | wWait | spurious | wRelock | wUnlock
  | sStore | sLock | sNotify | sUnlock
  | rLock | rStore | rUnlock
deriving DecidableEq, Repr

/-- `loops`: wait() re-checks the flag after waking (`Gen.evWaitLoops`: `while` / wait with predicate)
or returns unconditionally (`if`, the pinned code) -/
def estep (loops : Bool) (s : EState) : EEvent → Option EState
  | .wLock => if s.holder = .free then some { s with holder := .wLoad } else none
  | .wLoad =>
    if s.holder = .wLoad then
      some { s with holder := if evWaitBlocks s.signaled then .wWait else .wU }
    else none
  | .wWait => if s.holder = .wWait then some { s with holder := .free, waitset := s.waitset + 1 } else none
  | .spurious => if 0 < s.waitset then some { s with waitset := s.waitset - 1, woken := s.woken + 1 } else none
  | .wRelock =>
    if s.holder = .free ∧ 0 < s.woken then
      some { s with woken := s.woken - 1, holder := if loops then .wLoad else .wU }
    else none
  | .wUnlock =>
    if s.holder = .wU then
      some { s with holder := .free, badReturns := if s.sigAfterReset then s.badReturns else s.badReturns + 1 }
    else none
  | .sStore =>
    some { s with signaled := evSignalValue, sigAfterReset := true, sigPending := s.sigPending + 1 }
  | .sLock =>
    if s.holder = .free ∧ 0 < s.sigPending then some { s with holder := .sNotify, sigPending := s.sigPending - 1 }
    else none
  | .sNotify =>
    if s.holder = .sNotify then some { s with holder := .sU, woken := s.woken + s.waitset, waitset := 0 } else none
  | .sUnlock => if s.holder = .sU then some { s with holder := .free } else none
  | .rLock => if s.holder = .free then some { s with holder := .rStore } else none
  | .rStore =>
    if s.holder = .rStore then some { s with signaled := evResetValue, sigAfterReset := false, holder := .rU } else none
  | .rUnlock => if s.holder = .rU then some { s with holder := .free } else none

def einit : EState := {}

inductive EReach (loops : Bool) : EState → Prop
  | init : EReach loops einit
  | step {s s' : EState} (e : EEvent) : EReach loops s → estep loops s e = some s' → EReach loops s'

def erun (loops : Bool) (s : EState) : List EEvent → Option EState
  | [] => some s
  | e :: es => (estep loops s e).bind fun s' => erun loops s' es

/-- the events of reset() up to and including the store that clears the flag (its final unlock
does not change the flag any more) -/
def EEvent.isReset : EEvent → Bool
  | .rLock | .rStore => true
  | _ => false

/-- events that continue a call in progress -/
def EEvent.continues : EEvent → Bool
  | .wLock | .sStore | .rLock | .spurious => false
  | _ => true

end DmlcModel.CQueue
