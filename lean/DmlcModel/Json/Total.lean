/-
Totality / fuel adequacy of the `JSONReader` model: no reader of the `json::Handler<T>` family ever
exhausts its loop budget (`.fuel`), pops an empty scope stack (`.scope`) or answers `.type`; a
successful read restores the scope stack and consumes at least one byte.
-/
import DmlcModel.Json.Model
import DmlcModel.Json.IStreamIntLemmas

namespace DmlcModel.Json
open DmlcModel DmlcModel.Gen.Json

/-! ## primitives -/

theorem nextNonSpaceGo_length (s : Bytes) (r n : Nat) :
    (nextNonSpaceGo s r n).2.1.length ≤ s.length ∧
    (∀ c, (nextNonSpaceGo s r n).1 = some c → (nextNonSpaceGo s r n).2.1.length < s.length) := by
  induction s generalizing r n with
  | nil => simp [nextNonSpaceGo]
  | cons c cs ih =>
    simp only [nextNonSpaceGo]
    split
    · have h := ih (if c.toNat == Gen.Json.lineR then r + 1 else r)
        (if c.toNat == Gen.Json.lineN then n + 1 else n)
      refine ⟨?_, ?_⟩
      · simp only [List.length_cons]; omega
      · intro c' hc'
        have := h.2 c' hc'
        simp only [List.length_cons]; omega
    · simp

theorem peekNonSpaceGo_length (s : Bytes) (r n : Nat) :
    (peekNonSpaceGo s r n).2.1.length ≤ s.length := by
  induction s generalizing r n with
  | nil => simp [peekNonSpaceGo]
  | cons c cs ih =>
    simp only [peekNonSpaceGo]
    split
    · have h := ih (if c.toNat == Gen.Json.lineR then r + 1 else r)
        (if c.toNat == Gen.Json.lineN then n + 1 else n)
      simp only [List.length_cons]; omega
    · simp

@[simp] theorem nextNonSpace_scope (st : RState) : (nextNonSpace st).2.scope = st.scope := rfl
@[simp] theorem peekNonSpace_scope (st : RState) : (peekNonSpace st).2.scope = st.scope := rfl

theorem nextNonSpace_le (st : RState) : (nextNonSpace st).2.inp.length ≤ st.inp.length :=
  (nextNonSpaceGo_length st.inp st.lineR st.lineN).1

theorem nextNonSpace_lt (st : RState) (c : UInt8) (h : (nextNonSpace st).1 = some c) :
    (nextNonSpace st).2.inp.length < st.inp.length :=
  (nextNonSpaceGo_length st.inp st.lineR st.lineN).2 c h

theorem peekNonSpace_le (st : RState) : (peekNonSpace st).2.inp.length ≤ st.inp.length :=
  peekNonSpaceGo_length st.inp st.lineR st.lineN

@[simp] theorem nextChar_scope (st : RState) : (nextChar st).2.scope = st.scope := by
  unfold nextChar; split <;> rfl

theorem nextChar_le (st : RState) : (nextChar st).2.inp.length ≤ st.inp.length := by
  unfold nextChar; split <;> rename_i h <;> simp [h]

theorem readStrGo_length : ∀ (n : Nat) (s : Bytes), s.length ≤ n →
    ∀ r, readStrGo s = some r → r.2.length < s.length := by
  intro n
  induction n with
  | zero =>
    intro s hs r hr
    cases s with
    | nil => simp [readStrGo] at hr
    | cons c cs => simp at hs
  | succ n ih =>
    intro s hs r hr
    cases s with
    | nil => simp [readStrGo] at hr
    | cons c cs =>
      simp only [List.length_cons] at hs
      unfold readStrGo at hr
      split at hr
      · split at hr
        · simp at hr
        · rename_i e cs'
          split at hr
          · split at hr
            · rename_i r' hr'
              have := ih cs' (by simp only [List.length_cons] at hs; omega) r' hr'
              cases hr
              simp only [List.length_cons]; omega
            · simp at hr
          · simp at hr
      · split at hr
        · cases hr; simp
        · split at hr
          · simp at hr
          · split at hr
            · rename_i r' hr'
              have := ih cs (by omega) r' hr'
              cases hr
              simp only [List.length_cons]; omega
            · simp at hr

theorem readString_err (st : RState) (e : Err) (h : readString st = .error e) : e = .check := by
  unfold readString at h
  simp only [] at h
  split at h
  · cases h; rfl
  · split at h
    · split at h
      · cases h
      · cases h; rfl
    · cases h; rfl

theorem readString_ok (st : RState) (s : Bytes) (st' : RState) (h : readString st = .ok (s, st')) :
    st'.scope = st.scope ∧ st'.inp.length < st.inp.length := by
  unfold readString at h
  simp only [] at h
  split at h
  · cases h
  · rename_i c hc
    split at h
    · split at h
      · rename_i r hr
        cases h
        have h1 := nextNonSpace_lt st c hc
        have h2 := readStrGo_length _ _ (Nat.le_refl _) r hr
        exact ⟨rfl, by simp only []; omega⟩
      · cases h
    · cases h

theorem readNumber_err (bits : Nat) (sg : Bool) (st : RState) (e : Err)
    (h : readNumber bits sg st = .error e) : e = .check := by
  unfold readNumber at h
  simp only [] at h
  split at h
  · cases h; rfl
  · split at h
    · cases h
    · cases h; rfl

theorem readNumber_ok (bits : Nat) (sg : Bool) (st : RState) (v : Int) (st' : RState)
    (h : readNumber bits sg st = .ok (v, st')) :
    st'.scope = st.scope ∧ st'.inp.length < st.inp.length := by
  unfold readNumber at h
  simp only [] at h
  split at h
  · cases h
  · rename_i hf
    split at h
    · cases h
      exact ⟨rfl, IStreamInt.extract_ok_consumes _ _ (by simpa using hf)⟩
    · cases h

theorem readBool_err (st : RState) (e : Err) (h : readBool st = .error e) : e = .check := by
  unfold readBool at h
  simp only [] at h
  split at h
  · cases h; rfl
  · split at h
    · cases h
    · cases h; rfl

theorem readBool_ok (st : RState) (v : Bool) (st' : RState) (h : readBool st = .ok (v, st')) :
    st'.scope = st.scope ∧ st'.inp.length < st.inp.length := by
  unfold readBool at h
  simp only [] at h
  split at h
  · cases h
  · rename_i hf
    split at h
    · cases h
      exact ⟨rfl, IStreamInt.extractBool_ok_consumes _ (by simpa using hf)⟩
    · cases h

theorem rBeginArray_err (st : RState) (e : Err) (h : rBeginArray st = .error e) : e = .check := by
  unfold rBeginArray at h
  simp only [] at h
  split at h
  · cases h; rfl
  · split at h
    · cases h
    · cases h; rfl

theorem rBeginArray_ok (st st' : RState) (h : rBeginArray st = .ok st') :
    st'.scope = 0 :: st.scope ∧ st'.inp.length < st.inp.length := by
  unfold rBeginArray at h
  simp only [] at h
  split at h
  · cases h
  · rename_i c hc
    split at h
    · cases h
      exact ⟨rfl, nextNonSpace_lt st c hc⟩
    · cases h

theorem rBeginObject_err (st : RState) (e : Err) (h : rBeginObject st = .error e) : e = .check := by
  unfold rBeginObject at h
  simp only [] at h
  split at h
  · cases h; rfl
  · split at h
    · cases h
    · cases h; rfl

theorem rBeginObject_ok (st st' : RState) (h : rBeginObject st = .ok st') :
    st'.scope = 0 :: st.scope ∧ st'.inp.length < st.inp.length := by
  unfold rBeginObject at h
  simp only [] at h
  split at h
  · cases h
  · rename_i c hc
    split at h
    · cases h
      exact ⟨rfl, nextNonSpace_lt st c hc⟩
    · cases h

/-! ## `NextArrayItem` / `NextObjectItem` -/

/-- everything about one `NextArrayItem` on a non-empty scope stack -/
theorem nextArrayItem_spec (st : RState) (c : Nat) (sc : List Nat) (hs : st.scope = c :: sc) :
    (∀ e, nextArrayItem st = .error e → e = .check) ∧
    (∀ st1, nextArrayItem st = .ok (false, st1) → st1.scope = sc ∧ st1.inp.length ≤ st.inp.length) ∧
    (∀ st1, nextArrayItem st = .ok (true, st1) →
      st1.scope = (c + 1) :: sc ∧ st1.inp.length ≤ st.inp.length ∧
      (c ≠ 0 → st1.inp.length < st.inp.length)) := by
  unfold nextArrayItem
  rw [hs]
  simp only []
  split
  · -- not the first element
    split
    · refine ⟨fun e h => (by cases h), fun st1 h => ?_, fun st1 h => (by cases h)⟩
      cases h
      exact ⟨rfl, nextNonSpace_le st⟩
    · rename_i ch hch
      split
      · refine ⟨fun e h => (by cases h), fun st1 h => ?_, fun st1 h => (by cases h)⟩
        cases h
        exact ⟨rfl, nextNonSpace_le st⟩
      · split
        · refine ⟨fun e h => (by cases h), fun st1 h => (by cases h), fun st1 h => ?_⟩
          cases h
          exact ⟨rfl, nextNonSpace_le st, fun _ => nextNonSpace_lt st ch hch⟩
        · exact ⟨fun e h => (by cases h; rfl), fun st1 h => (by cases h), fun st1 h => (by cases h)⟩
  · rename_i hc
    have hc0 : c = 0 := by simpa [rArrNotFirst] using hc
    split
    · refine ⟨fun e h => (by cases h), fun st1 h => ?_, fun st1 h => (by cases h)⟩
      cases h
      refine ⟨rfl, ?_⟩
      have h1 := nextChar_le (peekNonSpace st).2
      have h2 := peekNonSpace_le st
      simp only []
      omega
    · refine ⟨fun e h => (by cases h), fun st1 h => (by cases h), fun st1 h => ?_⟩
      cases h
      exact ⟨rfl, peekNonSpace_le st, fun h => absurd hc0 h⟩

theorem nextArrayItem_err (st : RState) (c : Nat) (sc : List Nat) (hs : st.scope = c :: sc) (e : Err)
    (h : nextArrayItem st = .error e) : e = .check :=
  (nextArrayItem_spec st c sc hs).1 e h

theorem nextArrayItem_false (st : RState) (c : Nat) (sc : List Nat) (hs : st.scope = c :: sc)
    (st1 : RState) (h : nextArrayItem st = .ok (false, st1)) :
    st1.scope = sc ∧ st1.inp.length ≤ st.inp.length :=
  (nextArrayItem_spec st c sc hs).2.1 st1 h

theorem nextArrayItem_true (st : RState) (c : Nat) (sc : List Nat) (hs : st.scope = c :: sc)
    (st1 : RState) (h : nextArrayItem st = .ok (true, st1)) :
    st1.scope = (c + 1) :: sc ∧ st1.inp.length ≤ st.inp.length ∧
      (c ≠ 0 → st1.inp.length < st.inp.length) :=
  (nextArrayItem_spec st c sc hs).2.2 st1 h

/-- everything about one `NextObjectItem` on a non-empty scope stack -/
theorem nextObjectItem_spec (st : RState) (c : Nat) (sc : List Nat) (hs : st.scope = c :: sc) :
    (∀ e, nextObjectItem st = .error e → e = .check) ∧
    (∀ st1, nextObjectItem st = .ok (none, st1) → st1.scope = sc ∧ st1.inp.length ≤ st.inp.length) ∧
    (∀ key st1, nextObjectItem st = .ok (some key, st1) →
      st1.scope = (c + 1) :: sc ∧ st1.inp.length < st.inp.length) := by
  -- the `step` part
  have hstep : ∀ (step : Except Err (Bool × RState)),
      step = (if rObjNotFirst c then
        match (nextNonSpace st).1 with
        | none => .ok (false, (nextNonSpace st).2)
        | some ch =>
          if ch == rObjClose then .ok (false, (nextNonSpace st).2)
          else if ch == rObjComma then .ok (true, (nextNonSpace st).2)
          else .error .check
      else
        if (peekNonSpace st).1 == some rObjCloseFirst then .ok (false, (nextChar (peekNonSpace st).2).2)
        else .ok (true, (peekNonSpace st).2)) →
      (∀ e, step = .error e → e = .check) ∧
      (∀ b st1, step = .ok (b, st1) → st1.scope = st.scope ∧ st1.inp.length ≤ st.inp.length) := by
    intro step hstep
    subst hstep
    split
    · split
      · refine ⟨fun e h => (by cases h), fun b st1 h => ?_⟩
        cases h
        exact ⟨rfl, nextNonSpace_le st⟩
      · split
        · refine ⟨fun e h => (by cases h), fun b st1 h => ?_⟩
          cases h
          exact ⟨rfl, nextNonSpace_le st⟩
        · split
          · refine ⟨fun e h => (by cases h), fun b st1 h => ?_⟩
            cases h
            exact ⟨rfl, nextNonSpace_le st⟩
          · exact ⟨fun e h => (by cases h; rfl), fun b st1 h => (by cases h)⟩
    · split
      · refine ⟨fun e h => (by cases h), fun b st1 h => ?_⟩
        cases h
        have h1 := nextChar_le (peekNonSpace st).2
        have h2 := peekNonSpace_le st
        exact ⟨by simp, by omega⟩
      · refine ⟨fun e h => (by cases h), fun b st1 h => ?_⟩
        cases h
        exact ⟨rfl, peekNonSpace_le st⟩
  unfold nextObjectItem
  rw [hs]
  simp only []
  generalize hg : (if rObjNotFirst c then _ else _ : Except Err (Bool × RState)) = step
  have hst := hstep step hg.symm
  split
  · rename_i _ e
    exact ⟨fun e' h => (by cases h; exact hst.1 e rfl), fun st1 h => (by cases h), fun k st1 h => (by cases h)⟩
  · rename_i _ st1
    have := hst.2 false st1 rfl
    refine ⟨fun e' h => (by cases h), fun st1' h => ?_, fun k st1 h => (by cases h)⟩
    cases h
    exact ⟨rfl, this.2⟩
  · rename_i _ st1
    have hl := (hst.2 true st1 rfl).2
    split
    · rename_i _ e he
      exact ⟨fun e' h => (by cases h; exact readString_err _ e he), fun st1 h => (by cases h),
        fun k st1 h => (by cases h)⟩
    · rename_i key st2 h2
      have h2' := readString_ok _ _ _ h2
      simp only [] at h2'
      split
      · exact ⟨fun e' h => (by cases h; rfl), fun st1 h => (by cases h), fun k st1 h => (by cases h)⟩
      · split
        · refine ⟨fun e' h => (by cases h), fun st1 h => (by cases h), fun k st1' h => ?_⟩
          cases h
          have h3 := nextNonSpace_le st2
          exact ⟨by simp [h2'.1], by omega⟩
        · exact ⟨fun e' h => (by cases h; rfl), fun st1 h => (by cases h), fun k st1 h => (by cases h)⟩

theorem nextObjectItem_err (st : RState) (c : Nat) (sc : List Nat) (hs : st.scope = c :: sc) (e : Err)
    (h : nextObjectItem st = .error e) : e = .check :=
  (nextObjectItem_spec st c sc hs).1 e h

theorem nextObjectItem_none (st : RState) (c : Nat) (sc : List Nat) (hs : st.scope = c :: sc)
    (st1 : RState) (h : nextObjectItem st = .ok (none, st1)) :
    st1.scope = sc ∧ st1.inp.length ≤ st.inp.length :=
  (nextObjectItem_spec st c sc hs).2.1 st1 h

theorem nextObjectItem_some (st : RState) (c : Nat) (sc : List Nat) (hs : st.scope = c :: sc)
    (key : Bytes) (st1 : RState) (h : nextObjectItem st = .ok (some key, st1)) :
    st1.scope = (c + 1) :: sc ∧ st1.inp.length < st.inp.length :=
  (nextObjectItem_spec st c sc hs).2.2 key st1 h

/-! ## the reader family -/

/-- what every reader function of the family guarantees: the loop budget is never exhausted (no hang), the
scope stack is never popped empty, and a successful read leaves the scope stack as it found it and
consumes at least one byte -/
def RdOK (rd : Rd) : Prop :=
  ∀ st, rd st ≠ .error .fuel ∧ rd st ≠ .error .scope ∧ rd st ≠ .error .type ∧
    ∀ v st', rd st = .ok (v, st') → st'.scope = st.scope ∧ st'.inp.length < st.inp.length

/-- "the only error is `.check`", unpacked into the three disequalities of the statements -/
theorem onlyCheck_iff {α : Type} (r : Except Err α) :
    (∀ e, r = .error e → e = .check) ↔ (r ≠ .error .fuel ∧ r ≠ .error .scope ∧ r ≠ .error .type) := by
  constructor
  · intro h
    refine ⟨fun h' => ?_, fun h' => ?_, fun h' => ?_⟩ <;> exact absurd (h _ h') (by decide)
  · intro ⟨h1, h2, h3⟩ e he
    cases e with
    | check => rfl
    | scope => exact absurd he h2
    | fuel => exact absurd he h1
    | type => exact absurd he h3

theorem RdOK.intro {rd : Rd} (herr : ∀ st e, rd st = .error e → e = .check)
    (hok : ∀ st v st', rd st = .ok (v, st') → st'.scope = st.scope ∧ st'.inp.length < st.inp.length) :
    RdOK rd := by
  intro st
  have := (onlyCheck_iff (rd st)).1 (herr st)
  exact ⟨this.1, this.2.1, this.2.2, hok st⟩

theorem RdOK.err {rd : Rd} (h : RdOK rd) {st : RState} {e : Err} (he : rd st = .error e) : e = .check :=
  (onlyCheck_iff (rd st)).2 ⟨(h st).1, (h st).2.1, (h st).2.2.1⟩ e he

theorem RdOK.ok {rd : Rd} (h : RdOK rd) {st : RState} {v : Val} {st' : RState} (he : rd st = .ok (v, st')) :
    st'.scope = st.scope ∧ st'.inp.length < st.inp.length :=
  (h st).2.2.2 v st' he

/-! ### the loops -/

theorem arrayLoop_aux (rd : Rd) (h : RdOK rd) : ∀ (fuel : Nat) (st : RState) (c : Nat) (sc : List Nat),
    st.scope = c :: sc → st.inp.length < fuel →
    ∀ r, arrayLoop rd fuel st = r →
    (∀ e, r = .error e → e = .check) ∧
    ∀ vs st', r = .ok (vs, st') → st'.scope = sc ∧ st'.inp.length ≤ st.inp.length := by
  intro fuel
  induction fuel with
  | zero => intro st c sc _ hf; exact absurd hf (Nat.not_lt_zero _)
  | succ fuel ih =>
    intro st c sc hs hf r hr
    rw [arrayLoop] at hr
    split at hr
    · rename_i e he
      subst hr
      exact ⟨fun e' h' => (by cases h'; exact nextArrayItem_err st c sc hs e he), fun _ _ h' => (by cases h')⟩
    · rename_i st1 h1
      subst hr
      have := nextArrayItem_false st c sc hs st1 h1
      exact ⟨fun e' h' => (by cases h'), fun _ _ h' => (by cases h'; exact this)⟩
    · rename_i st1 h1
      have t1 := nextArrayItem_true st c sc hs st1 h1
      split at hr
      · rename_i e he
        subst hr
        exact ⟨fun e' h' => (by cases h'; exact h.err he), fun _ _ h' => (by cases h')⟩
      · rename_i v st2 h2
        have t2 := h.ok h2
        have t3 := ih st2 (c + 1) sc (t2.1.trans t1.1) (by omega) _ rfl
        split at hr
        · rename_i e he
          subst hr
          exact ⟨fun e' h' => (by cases h'; exact t3.1 e he), fun _ _ h' => (by cases h')⟩
        · rename_i vs st3 h3
          subst hr
          have t4 := t3.2 vs st3 h3
          exact ⟨fun e' h' => (by cases h'), fun _ _ h' => (by cases h'; exact ⟨t4.1, by omega⟩)⟩

/-- fuel adequacy, stated on the loops: with a budget above the remaining input length and a non-empty
scope stack the loops never answer `.fuel` or `.scope` -/
theorem arrayLoop_ok (rd : Rd) (h : RdOK rd) (fuel : Nat) (st : RState) (c : Nat) (sc : List Nat)
    (hs : st.scope = c :: sc) (hf : st.inp.length < fuel) :
    arrayLoop rd fuel st ≠ .error .fuel ∧ arrayLoop rd fuel st ≠ .error .scope ∧
    arrayLoop rd fuel st ≠ .error .type ∧
    ∀ vs st', arrayLoop rd fuel st = .ok (vs, st') → st'.scope = sc ∧ st'.inp.length ≤ st.inp.length := by
  have := arrayLoop_aux rd h fuel st c sc hs hf _ rfl
  have h1 := (onlyCheck_iff _).1 this.1
  exact ⟨h1.1, h1.2.1, h1.2.2, this.2⟩

theorem objectLoop_aux (rd : Rd) (h : RdOK rd) : ∀ (fuel : Nat) (st : RState) (c : Nat) (sc : List Nat),
    st.scope = c :: sc → st.inp.length < fuel →
    ∀ r, objectLoop rd fuel st = r →
    (∀ e, r = .error e → e = .check) ∧
    ∀ kvs st', r = .ok (kvs, st') → st'.scope = sc ∧ st'.inp.length ≤ st.inp.length := by
  intro fuel
  induction fuel with
  | zero => intro st c sc _ hf; exact absurd hf (Nat.not_lt_zero _)
  | succ fuel ih =>
    intro st c sc hs hf r hr
    rw [objectLoop] at hr
    split at hr
    · rename_i e he
      subst hr
      exact ⟨fun e' h' => (by cases h'; exact nextObjectItem_err st c sc hs e he), fun _ _ h' => (by cases h')⟩
    · rename_i st1 h1
      subst hr
      have := nextObjectItem_none st c sc hs st1 h1
      exact ⟨fun e' h' => (by cases h'), fun _ _ h' => (by cases h'; exact this)⟩
    · rename_i key st1 h1
      have t1 := nextObjectItem_some st c sc hs key st1 h1
      split at hr
      · rename_i e he
        subst hr
        exact ⟨fun e' h' => (by cases h'; exact h.err he), fun _ _ h' => (by cases h')⟩
      · rename_i v st2 h2
        have t2 := h.ok h2
        have t3 := ih st2 (c + 1) sc (t2.1.trans t1.1) (by omega) _ rfl
        split at hr
        · rename_i e he
          subst hr
          exact ⟨fun e' h' => (by cases h'; exact t3.1 e he), fun _ _ h' => (by cases h')⟩
        · rename_i kvs st3 h3
          subst hr
          have t4 := t3.2 kvs st3 h3
          exact ⟨fun e' h' => (by cases h'), fun _ _ h' => (by cases h'; exact ⟨t4.1, by omega⟩)⟩

theorem objectLoop_ok (rd : Rd) (h : RdOK rd) (fuel : Nat) (st : RState) (c : Nat) (sc : List Nat)
    (hs : st.scope = c :: sc) (hf : st.inp.length < fuel) :
    objectLoop rd fuel st ≠ .error .fuel ∧ objectLoop rd fuel st ≠ .error .scope ∧
    objectLoop rd fuel st ≠ .error .type ∧
    ∀ kvs st', objectLoop rd fuel st = .ok (kvs, st') → st'.scope = sc ∧ st'.inp.length ≤ st.inp.length := by
  have := objectLoop_aux rd h fuel st c sc hs hf _ rfl
  have h1 := (onlyCheck_iff _).1 this.1
  exact ⟨h1.1, h1.2.1, h1.2.2, this.2⟩

theorem fieldLoop_aux (look : Bytes → Option (Nat × Rd))
    (h : ∀ key i rd, look key = some (i, rd) → RdOK rd) :
    ∀ (fuel : Nat) (st : RState) (slots : List (Option Val)) (c : Nat) (sc : List Nat),
    st.scope = c :: sc → st.inp.length < fuel →
    ∀ r, fieldLoop look fuel st slots = r →
    (∀ e, r = .error e → e = .check) ∧
    ∀ sl st', r = .ok (sl, st') → st'.scope = sc ∧ st'.inp.length ≤ st.inp.length := by
  intro fuel
  induction fuel with
  | zero => intro st _ c sc _ hf; exact absurd hf (Nat.not_lt_zero _)
  | succ fuel ih =>
    intro st slots c sc hs hf r hr
    rw [fieldLoop] at hr
    split at hr
    · rename_i e he
      subst hr
      exact ⟨fun e' h' => (by cases h'; exact nextObjectItem_err st c sc hs e he), fun _ _ h' => (by cases h')⟩
    · rename_i st1 h1
      subst hr
      have := nextObjectItem_none st c sc hs st1 h1
      exact ⟨fun e' h' => (by cases h'), fun _ _ h' => (by cases h'; exact this)⟩
    · rename_i key st1 h1
      have t1 := nextObjectItem_some st c sc hs key st1 h1
      split at hr
      · subst hr
        exact ⟨fun e' h' => (by cases h'; rfl), fun _ _ h' => (by cases h')⟩
      · rename_i i rd hl
        have hrd := h key i rd hl
        split at hr
        · rename_i e he
          subst hr
          exact ⟨fun e' h' => (by cases h'; exact hrd.err he), fun _ _ h' => (by cases h')⟩
        · rename_i v st2 h2
          have t2 := hrd.ok h2
          have t3 := ih st2 (setSlot slots i v) (c + 1) sc (t2.1.trans t1.1) (by omega) r hr
          exact ⟨t3.1, fun sl st' h' => ⟨(t3.2 sl st' h').1, by have := (t3.2 sl st' h').2; omega⟩⟩

theorem fieldLoop_ok (look : Bytes → Option (Nat × Rd))
    (h : ∀ key i rd, look key = some (i, rd) → RdOK rd)
    (fuel : Nat) (st : RState) (slots : List (Option Val)) (c : Nat) (sc : List Nat)
    (hs : st.scope = c :: sc) (hf : st.inp.length < fuel) :
    fieldLoop look fuel st slots ≠ .error .fuel ∧ fieldLoop look fuel st slots ≠ .error .scope ∧
    fieldLoop look fuel st slots ≠ .error .type ∧
    ∀ sl st', fieldLoop look fuel st slots = .ok (sl, st') →
      st'.scope = sc ∧ st'.inp.length ≤ st.inp.length := by
  have := fieldLoop_aux look h fuel st slots c sc hs hf _ rfl
  have h1 := (onlyCheck_iff _).1 this.1
  exact ⟨h1.1, h1.2.1, h1.2.2, this.2⟩

/-! ### `Handler<T>::Read` -/

/-- the result `r` of a reader started in `st` is fine -/
def ResOK (st : RState) (r : Except Err (Val × RState)) : Prop :=
  (∀ e, r = .error e → e = .check) ∧
  ∀ v st', r = .ok (v, st') → st'.scope = st.scope ∧ st'.inp.length < st.inp.length

theorem ResOK.error {st : RState} {e : Err} (h : e = .check) : ResOK st (.error e) :=
  ⟨fun e' h' => (by cases h'; exact h), fun _ _ h' => (by cases h')⟩

theorem ResOK.ok {st : RState} {v : Val} {st' : RState} (h1 : st'.scope = st.scope)
    (h2 : st'.inp.length < st.inp.length) : ResOK st (.ok (v, st')) :=
  ⟨fun e' h' => (by cases h'), fun _ _ h' => (by cases h'; exact ⟨h1, h2⟩)⟩

theorem RdOK.of_res {rd : Rd} (h : ∀ st r, rd st = r → ResOK st r) : RdOK rd :=
  RdOK.intro (fun st => (h st _ rfl).1) (fun st => (h st _ rfl).2)

mutual
theorem read_ok : (t : JTy) → RdOK (read t)
  | .str => by
    apply RdOK.of_res
    intro st r hr
    rw [read] at hr
    split at hr
    · rename_i s st1 h1
      subst hr
      have := readString_ok _ _ _ h1
      exact ResOK.ok this.1 this.2
    · rename_i e he
      subst hr
      exact ResOK.error (readString_err _ _ he)
  | .int bits sg => by
    apply RdOK.of_res
    intro st r hr
    rw [read] at hr
    split at hr
    · rename_i s st1 h1
      subst hr
      have := readNumber_ok _ _ _ _ _ h1
      exact ResOK.ok this.1 this.2
    · rename_i e he
      subst hr
      exact ResOK.error (readNumber_err _ _ _ _ he)
  | .bool => by
    apply RdOK.of_res
    intro st r hr
    rw [read] at hr
    split at hr
    · rename_i s st1 h1
      subst hr
      have := readBool_ok _ _ _ h1
      exact ResOK.ok this.1 this.2
    · rename_i e he
      subst hr
      exact ResOK.error (readBool_err _ _ he)
  | .pair a b => by
    have iha := read_ok a
    have ihb := read_ok b
    apply RdOK.of_res
    intro st r hr
    rw [read] at hr
    split at hr
    · rename_i err he
      subst hr
      exact ResOK.error (rBeginArray_err _ _ he)
    rename_i st0 h0
    have t0 := rBeginArray_ok _ _ h0
    split at hr
    · rename_i err he
      subst hr
      exact ResOK.error (nextArrayItem_err _ _ _ t0.1 _ he)
    · subst hr
      exact ResOK.error rfl
    rename_i st1 h1
    have t1 := nextArrayItem_true _ _ _ t0.1 _ h1
    split at hr
    · rename_i err he
      subst hr
      exact ResOK.error (iha.err he)
    rename_i x st2 h2
    have t2 := iha.ok h2
    split at hr
    · rename_i err he
      subst hr
      exact ResOK.error (nextArrayItem_err _ _ _ (t2.1.trans t1.1) _ he)
    · subst hr
      exact ResOK.error rfl
    rename_i st3 h3
    have t3 := nextArrayItem_true _ _ _ (t2.1.trans t1.1) _ h3
    split at hr
    · rename_i err he
      subst hr
      exact ResOK.error (ihb.err he)
    rename_i y st4 h4
    have t4 := ihb.ok h4
    split at hr
    · rename_i err he
      subst hr
      exact ResOK.error (nextArrayItem_err _ _ _ (t4.1.trans t3.1) _ he)
    · subst hr
      exact ResOK.error rfl
    rename_i st5 h5
    have t5 := nextArrayItem_false _ _ _ (t4.1.trans t3.1) _ h5
    subst hr
    exact ResOK.ok t5.1 (by omega)
  | .vec e => by
    have ih := read_ok e
    apply RdOK.of_res
    intro st r hr
    rw [read] at hr
    split at hr
    · rename_i err he
      subst hr
      exact ResOK.error (rBeginArray_err _ _ he)
    · rename_i st0 h0
      have t0 := rBeginArray_ok _ _ h0
      have tl := arrayLoop_aux (read e) ih (st0.inp.length + 1) st0 0 st.scope t0.1 (Nat.lt_succ_self _) _ rfl
      split at hr
      · rename_i err he
        subst hr
        exact ResOK.error (tl.1 _ he)
      · rename_i vs st1 h1
        subst hr
        have := tl.2 _ _ h1
        exact ResOK.ok this.1 (by omega)
  | .list e => by
    have ih := read_ok e
    apply RdOK.of_res
    intro st r hr
    rw [read] at hr
    split at hr
    · rename_i err he
      subst hr
      exact ResOK.error (rBeginArray_err _ _ he)
    · rename_i st0 h0
      have t0 := rBeginArray_ok _ _ h0
      have tl := arrayLoop_aux (read e) ih (st0.inp.length + 1) st0 0 st.scope t0.1 (Nat.lt_succ_self _) _ rfl
      split at hr
      · rename_i err he
        subst hr
        exact ResOK.error (tl.1 _ he)
      · rename_i vs st1 h1
        subst hr
        have := tl.2 _ _ h1
        exact ResOK.ok this.1 (by omega)
  | .map e => by
    have ih := read_ok e
    apply RdOK.of_res
    intro st r hr
    rw [read] at hr
    split at hr
    · rename_i err he
      subst hr
      exact ResOK.error (rBeginObject_err _ _ he)
    · rename_i st0 h0
      have t0 := rBeginObject_ok _ _ h0
      have tl := objectLoop_aux (read e) ih (st0.inp.length + 1) st0 0 st.scope t0.1 (Nat.lt_succ_self _) _ rfl
      split at hr
      · rename_i err he
        subst hr
        exact ResOK.error (tl.1 _ he)
      · rename_i kvs st1 h1
        subst hr
        have := tl.2 _ _ h1
        exact ResOK.ok this.1 (by omega)
  | .umap e => by
    have ih := read_ok e
    apply RdOK.of_res
    intro st r hr
    rw [read] at hr
    split at hr
    · rename_i err he
      subst hr
      exact ResOK.error (rBeginObject_err _ _ he)
    · rename_i st0 h0
      have t0 := rBeginObject_ok _ _ h0
      have tl := objectLoop_aux (read e) ih (st0.inp.length + 1) st0 0 st.scope t0.1 (Nat.lt_succ_self _) _ rfl
      split at hr
      · rename_i err he
        subst hr
        exact ResOK.error (tl.1 _ he)
      · rename_i kvs st1 h1
        subst hr
        have := tl.2 _ _ h1
        exact ResOK.ok this.1 (by omega)
  | .any alts => by
    have iha := readAlt_ok alts
    apply RdOK.of_res
    intro st r hr
    rw [read] at hr
    split at hr
    · rename_i err he
      subst hr
      exact ResOK.error (rBeginArray_err _ _ he)
    rename_i st0 h0
    have t0 := rBeginArray_ok _ _ h0
    split at hr
    · rename_i err he
      subst hr
      exact ResOK.error (nextArrayItem_err _ _ _ t0.1 _ he)
    · subst hr
      exact ResOK.error rfl
    rename_i st1 h1
    have t1 := nextArrayItem_true _ _ _ t0.1 _ h1
    split at hr
    · rename_i err he
      subst hr
      exact ResOK.error (readString_err _ _ he)
    rename_i name st2 h2
    have t2 := readString_ok _ _ _ h2
    split at hr
    · subst hr
      exact ResOK.error rfl
    rename_i rd hrd
    have ihrd := iha name rd hrd
    split at hr
    · rename_i err he
      subst hr
      exact ResOK.error (nextArrayItem_err _ _ _ (t2.1.trans t1.1) _ he)
    · subst hr
      exact ResOK.error rfl
    rename_i st3 h3
    have t3 := nextArrayItem_true _ _ _ (t2.1.trans t1.1) _ h3
    split at hr
    · rename_i err he
      subst hr
      exact ResOK.error (ihrd.err he)
    rename_i y st4 h4
    have t4 := ihrd.ok h4
    split at hr
    · rename_i err he
      subst hr
      exact ResOK.error (nextArrayItem_err _ _ _ (t4.1.trans t3.1) _ he)
    · subst hr
      exact ResOK.error rfl
    rename_i st5 h5
    have t5 := nextArrayItem_false _ _ _ (t4.1.trans t3.1) _ h5
    subst hr
    exact ResOK.ok t5.1 (by omega)
  | .cls pod fs => by
    have ihf : ∀ key i rd, (fun key => readField fs key 0) key = some (i, rd) → RdOK rd :=
      fun key i rd h => readField_ok fs key 0 (i, rd) h
    apply RdOK.of_res
    intro st r hr
    rw [read] at hr
    split at hr
    · rename_i err he
      subst hr
      exact ResOK.error (rBeginObject_err _ _ he)
    rename_i st0 h0
    have t0 := rBeginObject_ok _ _ h0
    have tl := fieldLoop_aux (fun key => readField fs key 0) ihf (st0.inp.length + 1) st0
      (List.replicate fs.length none) 0 st.scope t0.1 (Nat.lt_succ_self _) _ rfl
    split at hr
    · rename_i err he
      subst hr
      exact ResOK.error (tl.1 _ he)
    rename_i slots st1 h1
    have t1 := tl.2 _ _ h1
    split at hr
    · subst hr
      exact ResOK.ok t1.1 (by omega)
    · subst hr
      exact ResOK.error rfl
theorem readAlt_ok : (alts : Alts) → ∀ name rd, readAlt alts name = some rd → RdOK rd
  | .nil => by
    intro name rd h
    simp [readAlt] at h
  | .cons n t r => by
    intro name rd h
    rw [readAlt] at h
    split at h
    · cases h
      exact read_ok t
    · exact readAlt_ok r name rd h
theorem readField_ok : (fs : Fields) → ∀ key i p, readField fs key i = some p → RdOK p.2
  | .nil => by
    intro key i p h
    simp [readField] at h
  | .cons n o t r => by
    intro key i p h
    rw [readField] at h
    split at h
    · cases h
      exact read_ok t
    · exact readField_ok r key (i + 1) p h
end

/-- the top-level entry point: never `.fuel` / `.scope` / `.type`; success leaves the scope stack empty -/
theorem readTop_ok (t : JTy) (s : Bytes) :
    readTop t s ≠ .error .fuel ∧ readTop t s ≠ .error .scope ∧ readTop t s ≠ .error .type ∧
    ∀ v st', readTop t s = .ok (v, st') → st'.scope = [] ∧ st'.inp.length < s.length :=
  read_ok t { inp := s }

end DmlcModel.Json
