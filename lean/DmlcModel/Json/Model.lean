/-
Executable model of `dmlc::JSONWriter`, `dmlc::JSONReader`, the `json::Handler<T>` family and
`JSONObjectReadHelper` (include/dmlc/json.h).  Core Lean only.

Tables, character tests, separators, layout rules and scope-counter tests come from the *generated*
file `Gen/Json.lean` (tools/items/Json.py rewrites it from the source on every run); integer
formatting / extraction is the libstdc++ model in `IStreamInt.lean`.  Control flow is modelled by
hand with the branch structure of the C++ and tied to the code by harness/h_json.cc.

C++ types are described by a schema `JTy`; C++ values by the untyped tree `Val` plus the typing
judgement `hasType`.  Outcomes other than a value:
  `check`  a `CHECK`/`LOG(FATAL)` fired (dmlc::Error is thrown),
  `scope`  `back()` / `pop_back()` on an empty scope stack (undefined behaviour in C++),
  `fuel`   a reader loop ran out of its budget (would be a hang) – proved unreachable,
  `type`   the model writer was handed a value that is not of the schema type (no C++ counterpart).
-/
import DmlcModel.Basic
import DmlcModel.Gen.Json
import DmlcModel.Json.IStreamInt

namespace DmlcModel.Json
open DmlcModel DmlcModel.Gen.Json

/-! ## schema types and values -/

mutual
/-- the C++ types of the family -/
inductive JTy
  | str                                   -- std::string
  | int (bits : Nat) (signed : Bool)      -- (u)int16_t … (u)int64_t
  | bool
  | pair (a b : JTy)                      -- std::pair<A, B>
  | vec (e : JTy)                         -- std::vector<E>
  | list (e : JTy)                        -- std::list<E>
  | map (e : JTy)                         -- std::map<std::string, E>
  | umap (e : JTy)                        -- std::unordered_map<std::string, E>
  | any (alts : Alts)                     -- dmlc::any; `alts` = the DMLC_JSON_ENABLE_ANY registry
  | cls (pod : Bool) (fields : Fields)    -- class with Save / Load(JSONObjectReadHelper)
/-- registry of `any` types: key name and type -/
inductive Alts
  | nil
  | cons (name : Bytes) (t : JTy) (rest : Alts)
/-- declared fields of a class, in the order `Save` writes them; `opt` = DeclareOptionalField -/
inductive Fields
  | nil
  | cons (name : Bytes) (opt : Bool) (t : JTy) (rest : Fields)
end

/-- values.  `arr` serves vector and list; `obj` serves map (keys strictly increasing) and
unordered_map (keys distinct, iteration order); `any name v`: the held type is the one registered
as `name` (`any [] _` = empty any); `cls` = field values in declaration order. -/
inductive Val
  | str (s : Bytes)
  | int (i : Int)
  | bool (b : Bool)
  | pair (a b : Val)
  | arr (xs : List Val)
  | obj (kvs : List (Bytes × Val))
  | any (name : Bytes) (v : Val)
  | cls (fs : List Val)

inductive Err
  | check | scope | fuel | type
  deriving DecidableEq, Repr

/-- `std::is_pod<T>` for the family (classes carry their own flag) -/
def isPod : JTy → Bool
  | .int _ _ => true
  | .bool => true
  | .cls pod _ => pod
  | _ => false

def Fields.length : Fields → Nat
  | .nil => 0
  | .cons _ _ _ r => r.length + 1

/-- lexicographic order on byte strings (`std::string::operator<`, unsigned bytes) -/
def bytesLt : Bytes → Bytes → Bool
  | [], [] => false
  | [], _ :: _ => true
  | _ :: _, [] => false
  | a :: as, b :: bs => a < b || (a == b && bytesLt as bs)

def keysIncreasing : List (Bytes × Val) → Bool
  | [] => true
  | [_] => true
  | a :: b :: rest => bytesLt a.1 b.1 && keysIncreasing (b :: rest)

def keysDistinct : List (Bytes × Val) → Bool
  | [] => true
  | a :: rest => rest.all (fun b => a.1 != b.1) && keysDistinct rest

mutual
/-- the value of a default-constructed object (what an absent optional field keeps) -/
def dflt : JTy → Val
  | .str => .str []
  | .int _ _ => .int 0
  | .bool => .bool false
  | .pair a b => .pair (dflt a) (dflt b)
  | .vec _ => .arr []
  | .list _ => .arr []
  | .map _ => .obj []
  | .umap _ => .obj []
  | .any _ => .any [] (.str [])
  | .cls _ fs => .cls (dfltFields fs)
def dfltFields : Fields → List Val
  | .nil => []
  | .cons _ _ t r => dflt t :: dfltFields r
end

mutual
/-- `v` is a value of the C++ type `t` -/
def hasType : JTy → Val → Bool
  | .str, .str _ => true
  | .int bits sg, .int i => (IStreamInt.IntTy.mk bits sg).inRange i
  | .bool, .bool _ => true
  | .pair a b, .pair x y => hasType a x && hasType b y
  | .vec e, .arr xs => xs.all (hasType e)
  | .list e, .arr xs => xs.all (hasType e)
  | .map e, .obj kvs => keysIncreasing kvs && kvs.all (fun kv => hasType e kv.2)
  | .umap e, .obj kvs => keysDistinct kvs && kvs.all (fun kv => hasType e kv.2)
  | .any alts, .any name v => hasTypeAlt alts name v
  | .cls _ fs, .cls vs => hasTypeFields fs vs
  | _, _ => false
def hasTypeAlt : Alts → Bytes → Val → Bool
  | .nil, _, _ => false
  | .cons n t r, name, v => if n = name then hasType t v else hasTypeAlt r name v
def hasTypeFields : Fields → List Val → Bool
  | .nil, [] => true
  | .cons _ _ t r, v :: vs => hasType t v && hasTypeFields r vs
  | _, _ => false
end

/-! ### side conditions of the theorems -/

def Fields.hasName : Fields → Bytes → Bool
  | .nil, _ => false
  | .cons n _ _ r, k => n == k || r.hasName k

mutual
/-- well-formed schema: the declared field names of every class are distinct
(`DeclareField` CHECKs this in C++) -/
def JTy.wf : JTy → Bool
  | .pair a b => a.wf && b.wf
  | .vec e => e.wf
  | .list e => e.wf
  | .map e => e.wf
  | .umap e => e.wf
  | .any alts => alts.wf
  | .cls _ fs => fs.wf
  | _ => true
def Alts.wf : Alts → Bool
  | .nil => true
  | .cons _ t r => t.wf && r.wf
def Fields.wf : Fields → Bool
  | .nil => true
  | .cons n _ t r => !r.hasName n && t.wf && r.wf
end

/-- no control characters other than tab, newline, carriage return -/
def cleanStr (s : Bytes) : Bool := s.all (fun c => 32 ≤ c || c == 9 || c == 10 || c == 13)

mutual
/-- the names that are part of the schema (any keys, class field names) are clean -/
def cleanTy : JTy → Bool
  | .pair a b => cleanTy a && cleanTy b
  | .vec e => cleanTy e
  | .list e => cleanTy e
  | .map e => cleanTy e
  | .umap e => cleanTy e
  | .any alts => cleanAlts alts
  | .cls _ fs => cleanFields fs
  | _ => true
def cleanAlts : Alts → Bool
  | .nil => true
  | .cons n t r => cleanStr n && cleanTy t && cleanAlts r
def cleanFields : Fields → Bool
  | .nil => true
  | .cons n _ t r => cleanStr n && cleanTy t && cleanFields r
end

mutual
/-- every string and every map key inside the value is clean -/
def clean : JTy → Val → Bool
  | .str, .str s => cleanStr s
  | .pair a b, .pair x y => clean a x && clean b y
  | .vec e, .arr xs => xs.all (clean e)
  | .list e, .arr xs => xs.all (clean e)
  | .map e, .obj kvs => kvs.all (fun kv => cleanStr kv.1 && clean e kv.2)
  | .umap e, .obj kvs => kvs.all (fun kv => cleanStr kv.1 && clean e kv.2)
  | .any alts, .any name v => cleanAlt alts name v
  | .cls _ fs, .cls vs => cleanFieldVals fs vs
  | _, _ => true
def cleanAlt : Alts → Bytes → Val → Bool
  | .nil, _, _ => true
  | .cons n t r, name, v => if n = name then clean t v else cleanAlt r name v
def cleanFieldVals : Fields → List Val → Bool
  | .cons _ _ t r, v :: vs => clean t v && cleanFieldVals r vs
  | _, _ => true
end

/-! ## writer -/

/-- `JSONWriter`: the bytes sent to `os_` so far and the two scope stacks (top = head) -/
structure WState where
  out : Bytes := []
  cnt : List Nat := []
  ml : List Bool := []

def WState.emit (st : WState) (bs : Bytes) : WState := { st with out := st.out ++ bs }

/-- `WriteString` -/
def encString (s : Bytes) : Bytes := strOpen :: (s.flatMap escape ++ [strClose])

/-- how `WriteObjectKeyValue` emits the key (as the code emits it: see Gen `keyEscaped`) -/
def encKey (k : Bytes) : Bytes :=
  if keyEscaped then encString k else keyRawOpen :: (k ++ [keyRawClose])

/-- what `WriteSeperator` emits under the multi-line stack `ml` -/
def sepBytes : List Bool → Bytes
  | [] => if sepNewline 0 false then sepChar :: List.replicate (indentWidth 0) indentChar else []
  | b :: r =>
    if sepNewline (r.length + 1) b then sepChar :: List.replicate (indentWidth (r.length + 1)) indentChar
    else []

def writeSeperator (st : WState) : WState := st.emit (sepBytes st.ml)

def wBeginArray (multi : Bool) (st : WState) : WState :=
  { out := st.out ++ [wOpenArr], ml := multi :: st.ml, cnt := 0 :: st.cnt }

def wBeginObject (multi : Bool) (st : WState) : WState :=
  { out := st.out ++ [wOpenObj], ml := multi :: st.ml, cnt := 0 :: st.cnt }

def wEndArray (st : WState) : Except Err WState :=
  match st.ml, st.cnt with
  | m :: ml', n :: cnt' =>
    let st1 : WState := { st with ml := ml', cnt := cnt' }
    let st2 := if wEndArrNewline m n then writeSeperator st1 else st1
    .ok (st2.emit [wCloseArr])
  | _, _ => .error .check                   -- CHECK_NE(scope_….size(), 0U)

def wEndObject (st : WState) : Except Err WState :=
  match st.ml, st.cnt with
  | m :: ml', n :: cnt' =>
    let st1 : WState := { st with ml := ml', cnt := cnt' }
    let st2 := if wEndObjNewline m n then writeSeperator st1 else st1
    .ok (st2.emit [wCloseObj])
  | _, _ => .error .check

def writeArraySeperator (st : WState) : Except Err WState :=
  match st.cnt with
  | [] => .error .scope                     -- scope_counter_.back() on an empty vector
  | n :: cs =>
    let st1 := if wArrNeedSep n then st.emit arraySep else st
    .ok (writeSeperator { st1 with cnt := (n + 1) :: cs })

/-- the part of `WriteObjectKeyValue` before the value handler runs -/
def writeObjectKey (key : Bytes) (st : WState) : Except Err WState :=
  match st.cnt with
  | [] => .error .scope
  | n :: cs =>
    let st1 := if wObjNeedSep n then st.emit objectSep else st
    let st2 := (writeSeperator st1).emit (encKey key ++ keyValueSep)
    .ok { st2 with cnt := (n + 1) :: cs }

/-- the `for` loop of `ArrayHandler::Write` over `WriteArrayItem` -/
def writeItems (w : Val → WState → Except Err WState) : List Val → WState → Except Err WState
  | [], st => .ok st
  | x :: xs, st => do
    let st1 ← writeArraySeperator st
    let st2 ← w x st1
    writeItems w xs st2

/-- the `for` loop of `MapHandler::Write` over `WriteObjectKeyValue` -/
def writeMembers (w : Val → WState → Except Err WState) : List (Bytes × Val) → WState → Except Err WState
  | [], st => .ok st
  | kv :: kvs, st => do
    let st1 ← writeObjectKey kv.1 st
    let st2 ← w kv.2 st1
    writeMembers w kvs st2

mutual
/-- `json::Handler<T>::Write(writer, value)` -/
def write : JTy → Val → WState → Except Err WState
  | .str, .str s, st => .ok (st.emit (encString s))
  | .int _ _, .int i, st => .ok (st.emit (IStreamInt.render i))
  | .bool, .bool b, st => .ok (st.emit (IStreamInt.renderBool b))
  | .pair a b, .pair x y, st => do
    let st1 ← writeArraySeperator (wBeginArray defaultArrayMultiLine st)
    let st2 ← write a x st1
    let st3 ← writeArraySeperator st2
    let st4 ← write b y st3
    wEndArray st4
  | .vec e, .arr xs, st => do
    let st1 ← writeItems (write e) xs (wBeginArray (arrayMultiLine xs.length (isPod e)) st)
    wEndArray st1
  | .list e, .arr xs, st => do
    let st1 ← writeItems (write e) xs (wBeginArray (arrayMultiLine xs.length (isPod e)) st)
    wEndArray st1
  | .map e, .obj kvs, st => do
    let st1 ← writeMembers (write e) kvs (wBeginObject (objectMultiLine kvs.length) st)
    wEndObject st1
  | .umap e, .obj kvs, st => do
    let st1 ← writeMembers (write e) kvs (wBeginObject (objectMultiLine kvs.length) st)
    wEndObject st1
  | .any alts, .any name v, st => do
    -- BeginArray(false); WriteArrayItem(type_name); WriteArraySeperator(); e.write(...); EndArray()
    let st1 ← writeArraySeperator (wBeginArray anyMultiLine st)
    let st2 ← writeArraySeperator (st1.emit (encString name))
    let st3 ← writeAlt alts name v st2
    wEndArray st3
  | .cls _ fs, .cls vs, st => do
    -- Save: BeginObject(); WriteObjectKeyValue(name_i, field_i) …; EndObject()
    let st1 ← writeFields fs vs (wBeginObject defaultObjectMultiLine st)
    wEndObject st1
  | _, _, _ => .error .type
/-- lookup of the held type in the registry, then `writer->Write(value)` -/
def writeAlt : Alts → Bytes → Val → WState → Except Err WState
  | .nil, _, _, _ => .error .check          -- "has not been registered via DMLC_JSON_ENABLE_ANY"
  | .cons n t r, name, v, st =>
    if n = name then do
      let st1 ← write t v st
      if st1.ml.length = st.ml.length then .ok st1 else .error .check   -- CHECK_EQ(nscope, …) in Write
    else writeAlt r name v st
def writeFields : Fields → List Val → WState → Except Err WState
  | .nil, [], st => .ok st
  | .cons n _ t r, v :: vs, st => do
    let st1 ← writeObjectKey n st
    let st2 ← write t v st1
    writeFields r vs st2
  | _, _, _ => .error .type
end

/-- the text `JSONWriter(&os).Write(v)` produces on a fresh writer -/
def writeTop (t : JTy) (v : Val) : Except Err Bytes :=
  match write t v {} with
  | .ok st => .ok st.out
  | .error e => .error e

/-! ### specification of the writer: the bytes of a value under the multi-line stack `ml` -/

def encItems (enc : Val → Bytes) (ml : List Bool) : Nat → List Val → Bytes
  | _, [] => []
  | i, x :: xs =>
    (if wArrNeedSep i then arraySep else []) ++ sepBytes ml ++ enc x ++ encItems enc ml (i + 1) xs

def encMembers (enc : Val → Bytes) (ml : List Bool) : Nat → List (Bytes × Val) → Bytes
  | _, [] => []
  | i, kv :: kvs =>
    (if wObjNeedSep i then objectSep else []) ++ sepBytes ml ++ encKey kv.1 ++ keyValueSep ++ enc kv.2
      ++ encMembers enc ml (i + 1) kvs

def encClose (isArr : Bool) (m : Bool) (n : Nat) (ml : List Bool) : Bytes :=
  if isArr then (if wEndArrNewline m n then sepBytes ml else []) ++ [wCloseArr]
  else (if wEndObjNewline m n then sepBytes ml else []) ++ [wCloseObj]

mutual
def enc : JTy → Val → List Bool → Bytes
  | .str, .str s, _ => encString s
  | .int _ _, .int i, _ => IStreamInt.render i
  | .bool, .bool b, _ => IStreamInt.renderBool b
  | .pair a b, .pair x y, ml =>
    let m := defaultArrayMultiLine
    [wOpenArr] ++ sepBytes (m :: ml) ++ enc a x (m :: ml) ++ arraySep ++ sepBytes (m :: ml) ++ enc b y (m :: ml)
      ++ encClose true m 2 ml
  | .vec e, .arr xs, ml =>
    let m := arrayMultiLine xs.length (isPod e)
    [wOpenArr] ++ encItems (fun x => enc e x (m :: ml)) (m :: ml) 0 xs ++ encClose true m xs.length ml
  | .list e, .arr xs, ml =>
    let m := arrayMultiLine xs.length (isPod e)
    [wOpenArr] ++ encItems (fun x => enc e x (m :: ml)) (m :: ml) 0 xs ++ encClose true m xs.length ml
  | .map e, .obj kvs, ml =>
    let m := objectMultiLine kvs.length
    [wOpenObj] ++ encMembers (fun x => enc e x (m :: ml)) (m :: ml) 0 kvs ++ encClose false m kvs.length ml
  | .umap e, .obj kvs, ml =>
    let m := objectMultiLine kvs.length
    [wOpenObj] ++ encMembers (fun x => enc e x (m :: ml)) (m :: ml) 0 kvs ++ encClose false m kvs.length ml
  | .any alts, .any name v, ml =>
    let m := anyMultiLine
    [wOpenArr] ++ sepBytes (m :: ml) ++ encString name ++ arraySep ++ sepBytes (m :: ml)
      ++ encAlt alts name v (m :: ml) ++ encClose true m 2 ml
  | .cls _ fs, .cls vs, ml =>
    let m := defaultObjectMultiLine
    [wOpenObj] ++ encFields fs vs (m :: ml) 0 ++ encClose false m fs.length ml
  | _, _, _ => []
def encAlt : Alts → Bytes → Val → List Bool → Bytes
  | .nil, _, _, _ => []
  | .cons n t r, name, v, ml => if n = name then enc t v ml else encAlt r name v ml
def encFields : Fields → List Val → List Bool → Nat → Bytes
  | .cons n _ t r, v :: vs, ml, i =>
    (if wObjNeedSep i then objectSep else []) ++ sepBytes ml ++ encKey n ++ keyValueSep ++ enc t v ml
      ++ encFields r vs ml (i + 1)
  | _, _, _, _ => []
end

/-! ## reader -/

/-- `JSONReader`: unread input, the two line counters, the scope stack (top = head) -/
structure RState where
  inp : Bytes
  lineR : Nat := 0
  lineN : Nat := 0
  scope : List Nat := []

/-- `NextChar` (`none` = EOF) -/
def nextChar (st : RState) : Option UInt8 × RState :=
  match st.inp with
  | [] => (none, st)
  | c :: cs => (some c, { st with inp := cs })

/-- the `do … while (isspace(ch))` loop of `NextNonSpace` on the raw components -/
def nextNonSpaceGo : Bytes → Nat → Nat → Option UInt8 × Bytes × Nat × Nat
  | [], r, n => (none, [], r, n)
  | c :: cs, r, n =>
    let n' := if c.toNat == Gen.Json.lineN then n + 1 else n
    let r' := if c.toNat == Gen.Json.lineR then r + 1 else r
    if isSpace c.toNat then nextNonSpaceGo cs r' n' else (some c, cs, r', n')

def nextNonSpace (st : RState) : Option UInt8 × RState :=
  let g := nextNonSpaceGo st.inp st.lineR st.lineN
  (g.1, { st with inp := g.2.1, lineR := g.2.2.1, lineN := g.2.2.2 })

/-- the loop of `PeekNextNonSpace`: the returned byte stays in the input -/
def peekNonSpaceGo : Bytes → Nat → Nat → Option UInt8 × Bytes × Nat × Nat
  | [], r, n => (none, [], r, n)
  | c :: cs, r, n =>
    let n' := if c.toNat == Gen.Json.lineN then n + 1 else n
    let r' := if c.toNat == Gen.Json.lineR then r + 1 else r
    if isSpace c.toNat then peekNonSpaceGo cs r' n' else (some c, c :: cs, r', n')

def peekNonSpace (st : RState) : Option UInt8 × RState :=
  let g := peekNonSpaceGo st.inp st.lineR st.lineN
  (g.1, { st with inp := g.2.1, lineR := g.2.2.1, lineN := g.2.2.2 })

/-- the `while (true)` loop of `ReadString` after the opening quote: the string and the input after
the closing quote; `none` = one of the `LOG(FATAL)`s (EOF, raw CR / LF, unknown escape) -/
def readStrGo : Bytes → Option (Bytes × Bytes)
  | [] => none
  | c :: cs =>
    if strIsEscLead c.toNat then
      match cs with
      | [] => none                              -- `sch` = (char)EOF: default branch
      | e :: cs' =>
        match unescape e with
        | some b =>
          match readStrGo cs' with
          | some r => some (b :: r.1, r.2)
          | none => none
        | none => none
    else if strIsClose c.toNat then some ([], cs)
    else if strIsFatal c.toNat then none
    else
      match readStrGo cs with
      | some r => some (c :: r.1, r.2)
      | none => none

/-- `ReadString` -/
def readString (st : RState) : Except Err (Bytes × RState) :=
  let p := nextNonSpace st
  match p.1 with
  | none => .error .check
  | some c =>
    if c == rStrOpen then
      match readStrGo p.2.inp with
      | some r => .ok (r.1, { p.2 with inp := r.2 })
      | none => .error .check
    else .error .check

/-- `ReadNumber<T>` for an integer type: `*is_ >> *out_value; CHECK(!is_->fail())` -/
def readNumber (bits : Nat) (signed : Bool) (st : RState) : Except Err (Int × RState) :=
  let e := IStreamInt.extract ⟨bits, signed⟩ st.inp
  if e.fail then .error .check
  else
    match e.value with
    | some v => .ok (v, { st with inp := e.rest })
    | none => .error .check

/-- `ReadNumber<bool>` -/
def readBool (st : RState) : Except Err (Bool × RState) :=
  let e := IStreamInt.extractBool st.inp
  if e.fail then .error .check
  else
    match e.value with
    | some v => .ok (v, { st with inp := e.rest })
    | none => .error .check

def rBeginArray (st : RState) : Except Err RState :=
  let p := nextNonSpace st
  match p.1 with
  | none => .error .check
  | some c => if c == rOpenArr then .ok { p.2 with scope := 0 :: p.2.scope } else .error .check

def rBeginObject (st : RState) : Except Err RState :=
  let p := nextNonSpace st
  match p.1 with
  | none => .error .check
  | some c => if c == rOpenObj then .ok { p.2 with scope := 0 :: p.2.scope } else .error .check

/-- `NextArrayItem` (EOF after the first element counts as the end of the array) -/
def nextArrayItem (st : RState) : Except Err (Bool × RState) :=
  match st.scope with
  | [] => .error .scope                     -- scope_counter_.back() on an empty vector
  | cnt :: sc =>
    if rArrNotFirst cnt then
      let p := nextNonSpace st
      match p.1 with
      | none => .ok (false, { p.2 with scope := sc })
      | some c =>
        if c == rArrClose then .ok (false, { p.2 with scope := sc })
        else if c == rArrComma then .ok (true, { p.2 with scope := (cnt + 1) :: sc })
        else .error .check
    else
      let p := peekNonSpace st
      if p.1 == some rArrCloseFirst then .ok (false, { (nextChar p.2).2 with scope := sc })
      else .ok (true, { p.2 with scope := (cnt + 1) :: sc })

/-- `NextObjectItem`: `none` = end of the object, `some key` = positioned at the value -/
def nextObjectItem (st : RState) : Except Err (Option Bytes × RState) :=
  match st.scope with
  | [] => .error .scope
  | cnt :: sc =>
    let step : Except Err (Bool × RState) :=
      if rObjNotFirst cnt then
        let p := nextNonSpace st
        match p.1 with
        | none => .ok (false, p.2)
        | some c =>
          if c == rObjClose then .ok (false, p.2)
          else if c == rObjComma then .ok (true, p.2)
          else .error .check
      else
        let p := peekNonSpace st
        if p.1 == some rObjCloseFirst then .ok (false, (nextChar p.2).2) else .ok (true, p.2)
    match step with
    | .error e => .error e
    | .ok (false, st1) => .ok (none, { st1 with scope := sc })
    | .ok (true, st1) =>
      match readString { st1 with scope := (cnt + 1) :: sc } with
      | .error e => .error e
      | .ok (key, st2) =>
        let p := nextNonSpace st2
        match p.1 with
        | none => .error .check
        | some c => if c == rColon then .ok (some key, p.2) else .error .check

abbrev Rd := RState → Except Err (Val × RState)

/-- `while (reader->NextArrayItem()) { Handler<E>::Read(reader, &value); array->insert(end, value); }` -/
def arrayLoop (rd : Rd) : Nat → RState → Except Err (List Val × RState)
  | 0, _ => .error .fuel
  | fuel + 1, st =>
    match nextArrayItem st with
    | .error e => .error e
    | .ok (false, st1) => .ok ([], st1)
    | .ok (true, st1) =>
      match rd st1 with
      | .error e => .error e
      | .ok (v, st2) =>
        match arrayLoop rd fuel st2 with
        | .error e => .error e
        | .ok (vs, st3) => .ok (v :: vs, st3)

/-- `while (reader->NextObjectItem(&key)) { reader->Read(&value); (*map)[key] = value; }`
(the pairs in reading order; the map is built by `mapOfList`) -/
def objectLoop (rd : Rd) : Nat → RState → Except Err (List (Bytes × Val) × RState)
  | 0, _ => .error .fuel
  | fuel + 1, st =>
    match nextObjectItem st with
    | .error e => .error e
    | .ok (none, st1) => .ok ([], st1)
    | .ok (some key, st1) =>
      match rd st1 with
      | .error e => .error e
      | .ok (v, st2) =>
        match objectLoop rd fuel st2 with
        | .error e => .error e
        | .ok (kvs, st3) => .ok ((key, v) :: kvs, st3)

/-- `(*map)[key] = value` on a key-sorted association list -/
def mapInsert (k : Bytes) (v : Val) : List (Bytes × Val) → List (Bytes × Val)
  | [] => [(k, v)]
  | kv :: rest =>
    if k = kv.1 then (k, v) :: rest
    else if bytesLt k kv.1 then (k, v) :: kv :: rest
    else kv :: mapInsert k v rest

/-- the map (sorted by key; for unordered_map this is the canonical form) after inserting the pairs in order -/
def mapOfList (kvs : List (Bytes × Val)) : List (Bytes × Val) :=
  kvs.foldl (fun m kv => mapInsert kv.1 kv.2 m) []

def setSlot : List (Option Val) → Nat → Val → List (Option Val)
  | [], _, _ => []
  | _ :: r, 0, v => some v :: r
  | s :: r, i + 1, v => s :: setSlot r i v

/-- the `while (reader->NextObjectItem(&key))` loop of `ReadAllFields`; `look key` = `map_.find(key)`:
the declaration index and the reader function of the field; `slots` = the values read so far -/
def fieldLoop (look : Bytes → Option (Nat × Rd)) : Nat → RState → List (Option Val) →
    Except Err (List (Option Val) × RState)
  | 0, _, _ => .error .fuel
  | fuel + 1, st, slots =>
    match nextObjectItem st with
    | .error e => .error e
    | .ok (none, st1) => .ok (slots, st1)
    | .ok (some key, st1) =>
      match look key with
      | none => .error .check               -- "JSONReader: Unknown field"
      | some (i, rd) =>
        match rd st1 with
        | .error e => .error e
        | .ok (v, st2) => fieldLoop look fuel st2 (setSlot slots i v)

mutual
/-- `json::Handler<T>::Read(reader, &value)` -/
def read : JTy → Rd
  | .str, st =>
    match readString st with
    | .ok (s, st1) => .ok (.str s, st1)
    | .error e => .error e
  | .int bits sg, st =>
    match readNumber bits sg st with
    | .ok (i, st1) => .ok (.int i, st1)
    | .error e => .error e
  | .bool, st =>
    match readBool st with
    | .ok (b, st1) => .ok (.bool b, st1)
    | .error e => .error e
  | .pair a b, st =>
    match rBeginArray st with
    | .error e => .error e
    | .ok st0 =>
    match nextArrayItem st0 with
    | .error e => .error e
    | .ok (false, _) => .error .check        -- CHECK(reader->NextArrayItem())
    | .ok (true, st1) =>
    match read a st1 with
    | .error e => .error e
    | .ok (x, st2) =>
    match nextArrayItem st2 with
    | .error e => .error e
    | .ok (false, _) => .error .check
    | .ok (true, st3) =>
    match read b st3 with
    | .error e => .error e
    | .ok (y, st4) =>
    match nextArrayItem st4 with
    | .error e => .error e
    | .ok (true, _) => .error .check         -- CHECK(!reader->NextArrayItem())
    | .ok (false, st5) => .ok (.pair x y, st5)
  | .vec e, st =>
    match rBeginArray st with
    | .error err => .error err
    | .ok st0 =>
    match arrayLoop (read e) (st0.inp.length + 1) st0 with
    | .error err => .error err
    | .ok (vs, st1) => .ok (.arr vs, st1)
  | .list e, st =>
    match rBeginArray st with
    | .error err => .error err
    | .ok st0 =>
    match arrayLoop (read e) (st0.inp.length + 1) st0 with
    | .error err => .error err
    | .ok (vs, st1) => .ok (.arr vs, st1)
  | .map e, st =>
    match rBeginObject st with
    | .error err => .error err
    | .ok st0 =>
    match objectLoop (read e) (st0.inp.length + 1) st0 with
    | .error err => .error err
    | .ok (kvs, st1) => .ok (.obj (mapOfList kvs), st1)
  | .umap e, st =>
    match rBeginObject st with
    | .error err => .error err
    | .ok st0 =>
    match objectLoop (read e) (st0.inp.length + 1) st0 with
    | .error err => .error err
    | .ok (kvs, st1) => .ok (.obj (mapOfList kvs), st1)
  | .any alts, st =>
    match rBeginArray st with
    | .error e => .error e
    | .ok st0 =>
    match nextArrayItem st0 with
    | .error e => .error e
    | .ok (false, _) => .error .check        -- "invalid any json format"
    | .ok (true, st1) =>
    match readString st1 with
    | .error e => .error e
    | .ok (name, st2) =>
    match readAlt alts name with
    | none => .error .check                  -- "has not been registered via DMLC_JSON_ENABLE_ANY"
    | some rd =>
    match nextArrayItem st2 with
    | .error e => .error e
    | .ok (false, _) => .error .check
    | .ok (true, st3) =>
    match rd st3 with
    | .error e => .error e
    | .ok (v, st4) =>
    match nextArrayItem st4 with
    | .error e => .error e
    | .ok (true, _) => .error .check
    | .ok (false, st5) => .ok (.any name v, st5)
  | .cls _ fs, st =>
    -- Load: JSONObjectReadHelper with DeclareField / DeclareOptionalField per field; ReadAllFields
    match rBeginObject st with
    | .error e => .error e
    | .ok st0 =>
    match fieldLoop (fun key => readField fs key 0) (st0.inp.length + 1) st0 (List.replicate fs.length none) with
    | .error e => .error e
    | .ok (slots, st1) =>
      match finishFields fs slots with
      | some vs => .ok (.cls vs, st1)
      | none => .error .check                -- "JSONReader: Missing field"
/-- `type_map_.find(type_name)`: the reader of the registered type -/
def readAlt : Alts → Bytes → Option Rd
  | .nil, _ => none
  | .cons n t r, name => if n = name then some (read t) else readAlt r name
/-- `map_.find(key)` of the read helper: index of the field (counted from `i`) and its reader -/
def readField : Fields → Bytes → Nat → Option (Nat × Rd)
  | .nil, _, _ => none
  | .cons n _ t r, key, i => if n = key then some (i, read t) else readField r key (i + 1)
/-- after the loop: every non-optional field must have been visited; an absent optional field keeps
the default-constructed value -/
def finishFields : Fields → List (Option Val) → Option (List Val)
  | .nil, [] => some []
  | .cons _ opt t r, s :: ss =>
    match finishFields r ss with
    | none => none
    | some vs =>
      match s with
      | some v => some (v :: vs)
      | none => if opt then some (dflt t :: vs) else none
  | _, _ => none
end

/-- `JSONReader(&is).Read(&value)` on a fresh reader over the text `s` -/
def readTop (t : JTy) (s : Bytes) : Except Err (Val × RState) := read t { inp := s }

/-! ## independent RFC 8259 recogniser (bytes ≥ 0x80 are allowed inside strings) -/

namespace Rfc

def isWs (c : UInt8) : Bool := c == 32 || c == 9 || c == 10 || c == 13
def isDigit (c : UInt8) : Bool := 48 ≤ c && c ≤ 57
def isHex (c : UInt8) : Bool := isDigit c || (65 ≤ c && c ≤ 70) || (97 ≤ c && c ≤ 102)

def skipWs : Bytes → Bytes
  | [] => []
  | c :: cs => if isWs c then skipWs cs else c :: cs

/-- after the opening quote: the input after the closing quote -/
def string : Bytes → Option Bytes
  | [] => none
  | 34 :: cs => some cs
  | 92 :: e :: cs =>
    if e == 34 || e == 92 || e == 47 || e == 98 || e == 102 || e == 110 || e == 114 || e == 116 then string cs
    else if e == 117 then
      match cs with
      | a :: b :: c :: d :: cs' => if isHex a && isHex b && isHex c && isHex d then string cs' else none
      | _ => none
    else none
  | c :: cs => if c < 32 || c == 92 then none else string cs

def digits : Bytes → Bytes
  | [] => []
  | c :: cs => if isDigit c then digits cs else c :: cs

/-- `number = [ minus ] int [ frac ] [ exp ]`: the input after the number -/
def number (s : Bytes) : Option Bytes :=
  let s1 := match s with
    | 45 :: r => r
    | _ => s
  let afterInt : Option Bytes := match s1 with
    | 48 :: r => some r
    | c :: r => if isDigit c then some (digits r) else none
    | [] => none
  match afterInt with
  | none => none
  | some s2 =>
    let afterFrac : Option Bytes := match s2 with
      | 46 :: c :: r => if isDigit c then some (digits r) else none
      | 46 :: [] => none
      | _ => some s2
    match afterFrac with
    | none => none
    | some s3 =>
      match s3 with
      | e :: r =>
        if e == 101 || e == 69 then
          let r1 := match r with
            | 43 :: r' => r'
            | 45 :: r' => r'
            | _ => r
          match r1 with
          | c :: r2 => if isDigit c then some (digits r2) else none
          | [] => none
        else some s3
      | [] => some s3

def literal (lit : Bytes) (s : Bytes) : Option Bytes :=
  if lit.isPrefixOf s then some (s.drop lit.length) else none

mutual
/-- `value` at the front of the input (no leading whitespace): the input after it -/
def value : Nat → Bytes → Option Bytes
  | 0, _ => none
  | fuel + 1, s =>
    match s with
    | [] => none
    | c :: cs =>
      if c == 34 then string cs
      else if c == 91 then
        match skipWs cs with
        | 93 :: r => some r
        | s1 => elements fuel s1
      else if c == 123 then
        match skipWs cs with
        | 125 :: r => some r
        | s1 => members fuel s1
      else if c == 116 then literal [114, 117, 101] cs
      else if c == 102 then literal [97, 108, 115, 101] cs
      else if c == 110 then literal [117, 108, 108] cs
      else number s
/-- `value *( ws "," ws value ) ws "]"` -/
def elements : Nat → Bytes → Option Bytes
  | 0, _ => none
  | fuel + 1, s =>
    match value fuel s with
    | none => none
    | some r =>
      match skipWs r with
      | 93 :: r' => some r'
      | 44 :: r' => elements fuel (skipWs r')
      | _ => none
/-- `member *( ws "," ws member ) ws "}"`, `member = string ws ":" ws value` -/
def members : Nat → Bytes → Option Bytes
  | 0, _ => none
  | fuel + 1, s =>
    match s with
    | 34 :: cs =>
      match string cs with
      | none => none
      | some r =>
        match skipWs r with
        | 58 :: r1 =>
          match value fuel (skipWs r1) with
          | none => none
          | some r2 =>
            match skipWs r2 with
            | 125 :: r' => some r'
            | 44 :: r' => members fuel (skipWs r')
            | _ => none
        | _ => none
    | _ => none
end

end Rfc

/-- `s` is one RFC 8259 JSON text (`ws value ws`) -/
def wellFormed (s : Bytes) : Bool :=
  match Rfc.value (s.length + 1) (Rfc.skipWs s) with
  | some r => (Rfc.skipWs r).isEmpty
  | none => false

end DmlcModel.Json
