/-
Model of libstdc++'s formatted integer I/O in the "C" locale with default format flags
(`dec`, `skipws`, no `boolalpha`), shared by C16 (`JSONReader::ReadNumber`, `JSONWriter::WriteNumber`)
and C17 (`FieldEntry<integer>::Set` via `std::istringstream >> value`).  Core Lean only.

    extract  t s   --  `is >> x`  for an integer variable `x` of type `t` on the unread input `s`
    extractBool s  --  `is >> b`  for `bool b`
    render v / renderBool b   --  `os << x`

What `operator>>` does (bits/istream.tcc, bits/locale_facets.tcc `num_get::_M_extract_int`):
  1. the sentry skips `ctype<char>::space` bytes (9..13, 32); if the input ends there it sets
     eofbit|failbit and the variable is left untouched;
  2. one optional sign `+` / `-` is consumed;
  3. every following decimal digit is consumed (leading zeros included; no digit → failbit, the
     variable is set to 0);
  4. the magnitude `m` is compared with the largest magnitude the type admits (`2^(bits-1)` after a
     `-` for signed types, `max` otherwise): larger → failbit and the variable is set to min / max
     (C++11, LWG 23); `short` and `int` go through `long` and are range-checked afterwards, which gives
     the same outcome;
  5. for *unsigned* types a leading `-` is accepted and the value is negated modulo `2^bits`
     (`"-1"` read into `unsigned` gives 4294967295 without failbit);
  6. eofbit is set exactly when the extraction looked past the last byte, i.e. when `rest = []`.
`bool` (no `boolalpha`) is read as a `long`; 0 / 1 are accepted, anything else sets failbit (value true).
-/
import DmlcModel.Basic

namespace DmlcModel.IStreamInt
open DmlcModel

/-- a C++ integer type: width in bits and signedness -/
structure IntTy where
  bits : Nat
  signed : Bool
  deriving DecidableEq, Repr

def IntTy.minVal (t : IntTy) : Int := if t.signed then -((2 : Int) ^ (t.bits - 1)) else 0
def IntTy.maxVal (t : IntTy) : Int := if t.signed then (2 : Int) ^ (t.bits - 1) - 1 else (2 : Int) ^ t.bits - 1
/-- `v` is a value of the C++ type -/
def IntTy.inRange (t : IntTy) (v : Int) : Bool := decide (t.minVal ≤ v) && decide (v ≤ t.maxVal)

/-- `ctype<char>::space` in the "C" locale (what the sentry skips) -/
def isSpace (c : UInt8) : Bool := c == 32 || (9 ≤ c && c ≤ 13)
def isDigit (c : UInt8) : Bool := 48 ≤ c && c ≤ 57
def digitVal (c : UInt8) : Nat := c.toNat - 48

def skipSpace : Bytes → Bytes
  | [] => []
  | c :: cs => if isSpace c then skipSpace cs else c :: cs

/-- the maximal run of decimal digits at the front, and what follows it -/
def takeDigits : Bytes → Bytes × Bytes
  | [] => ([], [])
  | c :: cs =>
    if isDigit c then
      let r := takeDigits cs
      (c :: r.1, r.2)
    else ([], c :: cs)

/-- the input continues with a decimal digit (a number written in front of it would absorb it) -/
def startsWithDigit : Bytes → Bool
  | [] => false
  | c :: _ => isDigit c

def digitsVal (ds : Bytes) : Nat := ds.foldl (fun a c => a * 10 + digitVal c) 0

/-- outcome of one `is >> x` -/
structure Extracted where
  /-- what was stored into the variable (`none`: untouched – the sentry failed) -/
  value : Option Int
  /-- `is.fail()` afterwards -/
  fail : Bool
  /-- the unread input afterwards (`is.eof()` ⇔ `rest = []`) -/
  rest : Bytes
  deriving DecidableEq, Repr

/-- largest magnitude accepted after the given sign -/
def IntTy.limit (t : IntTy) (neg : Bool) : Nat :=
  if t.signed then (if neg then 2 ^ (t.bits - 1) else 2 ^ (t.bits - 1) - 1) else 2 ^ t.bits - 1

/-- `is >> x` for an integer `x` of type `t` -/
def extract (t : IntTy) (s : Bytes) : Extracted :=
  match skipSpace s with
  | [] => ⟨none, true, []⟩
  | c :: cs =>
    let neg := c == 45
    let body := if c == 45 || c == 43 then cs else c :: cs
    let td := takeDigits body
    let ds := td.1
    let rest := td.2
    if ds.isEmpty then ⟨some 0, true, rest⟩
    else
      let m := digitsVal ds
      if t.limit neg < m then ⟨some (if t.signed && neg then t.minVal else t.maxVal), true, rest⟩
      else if neg then
        ⟨some (if t.signed then -(m : Int) else (((2 ^ t.bits - m) % 2 ^ t.bits : Nat) : Int)), false, rest⟩
      else ⟨some (m : Int), false, rest⟩

/-- outcome of `is >> b` for `bool b` without `boolalpha` -/
structure ExtractedBool where
  value : Option Bool
  fail : Bool
  rest : Bytes
  deriving DecidableEq, Repr

def extractBool (s : Bytes) : ExtractedBool :=
  let e := extract ⟨64, true⟩ s
  match e.value with
  | none => ⟨none, e.fail, e.rest⟩
  | some v => if v = 0 then ⟨some false, e.fail, e.rest⟩ else if v = 1 then ⟨some true, e.fail, e.rest⟩
              else ⟨some true, true, e.rest⟩

/-! ### `os << x` -/

def digitByte (d : Nat) : UInt8 := UInt8.ofNat (48 + d)

/-- decimal digits, most significant first; `fuel` bounds the number of digits -/
def natDigitsAux : Nat → Nat → Bytes → Bytes
  | 0, _, acc => acc
  | fuel + 1, n, acc =>
    if n < 10 then digitByte n :: acc else natDigitsAux fuel (n / 10) (digitByte (n % 10) :: acc)

def natDigits (n : Nat) : Bytes := natDigitsAux (n + 1) n []

/-- `os << v` for any integer type (value given as an `Int`) -/
def render (v : Int) : Bytes :=
  if v < 0 then 45 :: natDigits v.natAbs else natDigits v.toNat

/-- `os << b` without `boolalpha` -/
def renderBool (b : Bool) : Bytes := [if b then 49 else 48]

end DmlcModel.IStreamInt
