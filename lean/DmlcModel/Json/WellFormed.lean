/-
C16: every text `JSONWriter` produces for a well-typed value whose strings / keys / schema names
contain no control characters other than \t \n \r is one RFC 8259 JSON text: the independent
recogniser `Rfc.value` of `Model.lean` accepts `enc t v ml` and consumes exactly that text.
Core Lean only.
-/
import DmlcModel.Json.Model
import DmlcModel.Json.IStreamIntLemmas

namespace DmlcModel.Json
open DmlcModel DmlcModel.Gen.Json

set_option maxRecDepth 8000

/-! ### bytes that may follow a value -/

/-- the byte cannot extend a number token -/
def numStop (c : UInt8) : Bool := !IStreamInt.isDigit c && c != 46 && c != 101 && c != 69

/-- the input after a value does not extend a number token -/
def NumEnd (rest : Bytes) : Prop :=
  ∀ c cs, rest = c :: cs → IStreamInt.isDigit c = false ∧ c ≠ 46 ∧ c ≠ 101 ∧ c ≠ 69

theorem NumEnd.nil : NumEnd [] := by
  intro c cs h; cases h

theorem NumEnd.cons {c : UInt8} (cs : Bytes) (h : numStop c = true) : NumEnd (c :: cs) := by
  intro c' cs' h'
  cases h'
  simpa [numStop, and_assoc] using h

theorem byte_ws_facts : ∀ n, n < 256 →
    (Rfc.isWs (UInt8.ofNat n) = true →
      numStop (UInt8.ofNat n) = true ∧ UInt8.ofNat n ≠ 93 ∧ UInt8.ofNat n ≠ 125 ∧ UInt8.ofNat n ≠ 44 ∧
      UInt8.ofNat n ≠ 58 ∧ UInt8.ofNat n ≠ 34) := by
  decide

theorem isWs_facts (c : UInt8) (h : Rfc.isWs c = true) :
    numStop c = true ∧ c ≠ 93 ∧ c ≠ 125 ∧ c ≠ 44 ∧ c ≠ 58 ∧ c ≠ 34 := by
  have := byte_ws_facts c.toNat c.toNat_lt
  rw [UInt8.ofNat_toNat] at this
  exact this h

theorem byte_num_facts : ∀ n, n < 256 →
    ((UInt8.ofNat n == 45 || IStreamInt.isDigit (UInt8.ofNat n)) = true →
      UInt8.ofNat n ≠ 34 ∧ UInt8.ofNat n ≠ 91 ∧ UInt8.ofNat n ≠ 123 ∧ UInt8.ofNat n ≠ 116 ∧
      UInt8.ofNat n ≠ 102 ∧ UInt8.ofNat n ≠ 110) := by
  decide

/-- white space followed by a stop byte -/
theorem NumEnd.ws_append (ws : Bytes) (c : UInt8) (cs : Bytes) (hws : ∀ w ∈ ws, Rfc.isWs w = true)
    (h : numStop c = true) : NumEnd (ws ++ c :: cs) := by
  cases ws with
  | nil => exact NumEnd.cons cs h
  | cons w ws => exact NumEnd.cons _ (isWs_facts w (hws w (by simp))).1

/-! ### white space -/

theorem skipWs_ws (ws s : Bytes) (h : ∀ c ∈ ws, Rfc.isWs c = true) :
    Rfc.skipWs (ws ++ s) = Rfc.skipWs s := by
  induction ws with
  | nil => rfl
  | cons w ws ih =>
    have hw := h w (by simp)
    simp [Rfc.skipWs, hw, ih (fun c hc => h c (by simp [hc]))]

theorem skipWs_cons (c : UInt8) (cs : Bytes) (h : Rfc.isWs c = false) : Rfc.skipWs (c :: cs) = c :: cs := by
  simp [Rfc.skipWs, h]

/-- `WriteSeperator` emits only '\n' and ' ' -/
theorem sepBytes_ws (ml : List Bool) : ∀ c ∈ sepBytes ml, Rfc.isWs c = true := by
  intro c hc
  cases ml with
  | nil =>
    simp only [sepBytes] at hc
    split at hc
    · simp only [List.mem_cons, List.mem_replicate] at hc
      rcases hc with rfl | ⟨_, rfl⟩ <;> decide
    · cases hc
  | cons b r =>
    simp only [sepBytes] at hc
    split at hc
    · simp only [List.mem_cons, List.mem_replicate] at hc
      rcases hc with rfl | ⟨_, rfl⟩ <;> decide
    · cases hc

theorem skipWs_sepBytes (ml : List Bool) (s : Bytes) : Rfc.skipWs (sepBytes ml ++ s) = Rfc.skipWs s :=
  skipWs_ws _ _ (sepBytes_ws ml)

/-! ### the first byte of a value -/

/-- the text starts with a byte that is neither white space nor a closing bracket -/
def Starts (s : Bytes) : Prop := ∃ c cs, s = c :: cs ∧ Rfc.isWs c = false ∧ c ≠ 93 ∧ c ≠ 125

theorem value_head (fuel : Nat) (s r : Bytes) (h : Rfc.value fuel s = some r) : Starts s := by
  cases fuel with
  | zero => simp [Rfc.value] at h
  | succ f =>
    cases s with
    | nil => simp [Rfc.value] at h
    | cons c cs =>
      refine ⟨c, cs, rfl, ?_⟩
      by_cases h1 : c = 32
      · subst h1; simp [Rfc.value, Rfc.number, Rfc.isDigit] at h
      by_cases h2 : c = 9
      · subst h2; simp [Rfc.value, Rfc.number, Rfc.isDigit] at h
      by_cases h3 : c = 10
      · subst h3; simp [Rfc.value, Rfc.number, Rfc.isDigit] at h
      by_cases h4 : c = 13
      · subst h4; simp [Rfc.value, Rfc.number, Rfc.isDigit] at h
      by_cases h5 : c = 93
      · subst h5; simp [Rfc.value, Rfc.number, Rfc.isDigit] at h
      by_cases h6 : c = 125
      · subst h6; simp [Rfc.value, Rfc.number, Rfc.isDigit] at h
      simp [Rfc.isWs, h1, h2, h3, h4, h5, h6]

theorem Starts.skipWs {s : Bytes} (h : Starts s) (t : Bytes) : Rfc.skipWs (s ++ t) = s ++ t := by
  obtain ⟨c, cs, rfl, hw, _, _⟩ := h
  exact skipWs_cons c _ hw

/-- what follows makes the recogniser's predicate on one element -/
def Good (b : Bytes) : Prop :=
  ∀ (rest : Bytes) (fuel : Nat), b.length < fuel → NumEnd rest → Rfc.value fuel (b ++ rest) = some rest

theorem Good.starts {b : Bytes} (h : Good b) : Starts b := by
  have := h [] (b.length + 1) (by omega) NumEnd.nil
  rw [List.append_nil] at this
  exact value_head _ _ _ this

/-! ### strings -/

theorem string_esc (e : UInt8) (cs : Bytes)
    (h : (e == 34 || e == 92 || e == 47 || e == 98 || e == 102 || e == 110 || e == 114 || e == 116) = true) :
    Rfc.string (92 :: e :: cs) = Rfc.string cs := by
  rw [Rfc.string.eq_def]
  simp only [h, if_true]

theorem string_plain (c : UInt8) (cs : Bytes) (h34 : c ≠ 34) (h92 : c ≠ 92) (h32 : ¬ c < 32) :
    Rfc.string (c :: cs) = Rfc.string cs := by
  rw [Rfc.string.eq_def]
  split
  · rename_i heq; cases heq
  · rename_i heq; cases heq; exact absurd rfl h34
  · rename_i heq; cases heq; exact absurd rfl h92
  · rename_i heq; cases heq; simp [h32, h92]

theorem string_escape_byte (c : UInt8) (hc : (32 ≤ c || c == 9 || c == 10 || c == 13) = true) (tail : Bytes) :
    Rfc.string (escape c ++ tail) = Rfc.string tail := by
  by_cases h13 : c = 13
  · subst h13; exact string_esc _ _ (by decide)
  by_cases h10 : c = 10
  · subst h10; exact string_esc _ _ (by decide)
  by_cases h92 : c = 92
  · subst h92; exact string_esc _ _ (by decide)
  by_cases h9 : c = 9
  · subst h9; exact string_esc _ _ (by decide)
  by_cases h34 : c = 34
  · subst h34; exact string_esc _ _ (by decide)
  have he : escape c = [c] := by
    unfold escape
    split <;> first | contradiction | rfl
  rw [he]
  have h32 : ¬ c < 32 := by
    simp [h9, h10, h13] at hc
    simpa using hc
  exact string_plain c tail h34 h92 h32

/-- `WriteString` output after the opening quote is accepted up to and including the closing quote -/
theorem string_escape (s : Bytes) (hc : cleanStr s = true) (rest : Bytes) :
    Rfc.string (s.flatMap escape ++ 34 :: rest) = some rest := by
  induction s with
  | nil => simp [Rfc.string]
  | cons c s ih =>
    simp only [cleanStr, List.all_cons, Bool.and_eq_true] at hc
    rw [List.flatMap_cons, List.append_assoc, string_escape_byte c hc.1]
    exact ih (by simpa [cleanStr] using hc.2)

theorem encString_eq (s : Bytes) : encString s = 34 :: (s.flatMap escape ++ [34]) := rfl

theorem encKey_eq (k : Bytes) : encKey k = encString k := rfl

theorem good_encString (s : Bytes) (hc : cleanStr s = true) : Good (encString s) := by
  intro rest fuel hf _
  cases fuel with
  | zero => omega
  | succ f =>
    rw [encString_eq]
    simp only [List.cons_append, List.append_assoc, List.nil_append]
    simp only [Rfc.value]
    simp [string_escape s hc rest]

/-! ### numbers -/

theorem digits_append (ds rest : Bytes) (hd : ∀ c ∈ ds, IStreamInt.isDigit c = true) (hr : NumEnd rest) :
    Rfc.digits (ds ++ rest) = rest := by
  induction ds with
  | nil =>
    cases rest with
    | nil => rfl
    | cons c cs =>
      have h' : Rfc.isDigit c = false := (hr c cs rfl).1
      simp [Rfc.digits, h']
  | cons d ds ih =>
    have hd1 : Rfc.isDigit d = true := hd d (by simp)
    simp [Rfc.digits, hd1, ih (fun c hc => hd c (by simp [hc]))]

/-! `Rfc.number` cut into its four stages -/

def stripMinus (s : Bytes) : Bytes :=
  match s with
  | 45 :: r => r
  | _ => s
def afterInt (s1 : Bytes) : Option Bytes :=
  match s1 with
  | 48 :: r => some r
  | c :: r => if Rfc.isDigit c then some (Rfc.digits r) else none
  | [] => none
def afterFrac (s2 : Bytes) : Option Bytes :=
  match s2 with
  | 46 :: c :: r => if Rfc.isDigit c then some (Rfc.digits r) else none
  | 46 :: [] => none
  | _ => some s2
def afterExp (s3 : Bytes) : Option Bytes :=
  match s3 with
  | e :: r =>
    if e == 101 || e == 69 then
      let r1 := match r with
        | 43 :: r' => r'
        | 45 :: r' => r'
        | _ => r
      match r1 with
      | c :: r2 => if Rfc.isDigit c then some (Rfc.digits r2) else none
      | [] => none
    else some s3
  | [] => some s3

theorem number_eq (s : Bytes) : Rfc.number s =
    match afterInt (stripMinus s) with
    | none => none
    | some s2 =>
      match afterFrac s2 with
      | none => none
      | some s3 => afterExp s3 := by
  rfl

theorem stripMinus_ne (c : UInt8) (r : Bytes) (h : c ≠ 45) : stripMinus (c :: r) = c :: r := by
  unfold stripMinus
  split
  · rename_i heq; cases heq; exact absurd rfl h
  · rfl

theorem afterInt_ne (c : UInt8) (r : Bytes) (h : c ≠ 48) (hd : Rfc.isDigit c = true) :
    afterInt (c :: r) = some (Rfc.digits r) := by
  unfold afterInt
  split
  · rename_i heq; cases heq; exact absurd rfl h
  · rename_i heq; cases heq; simp [hd]
  · rename_i heq; cases heq

theorem afterFrac_end (rest : Bytes) (h : NumEnd rest) : afterFrac rest = some rest := by
  unfold afterFrac
  split
  · exact absurd rfl (h _ _ rfl).2.1
  · exact absurd rfl (h _ _ rfl).2.1
  · rfl

theorem afterExp_end (rest : Bytes) (h : NumEnd rest) : afterExp rest = some rest := by
  cases rest with
  | nil => rfl
  | cons e r =>
    obtain ⟨_, _, h1, h2⟩ := h e r rfl
    simp [afterExp, h1, h2]

/-- a digit string without a superfluous leading zero is a number -/
theorem number_nat (ds rest : Bytes) (hne : ds ≠ []) (hd : ∀ c ∈ ds, IStreamInt.isDigit c = true)
    (hz : ∀ c cs, ds = c :: cs → c = 48 → cs = []) (hr : NumEnd rest) :
    Rfc.number (ds ++ rest) = some rest := by
  cases ds with
  | nil => exact absurd rfl hne
  | cons c cs =>
    have hc : Rfc.isDigit c = true := hd c (by simp)
    have hc45 : c ≠ 45 := (IStreamInt.isDigit_facts c hc).2.1
    have hcs : ∀ x ∈ cs, IStreamInt.isDigit x = true := fun x hx => hd x (by simp [hx])
    have hdig := digits_append cs rest hcs hr
    rw [number_eq, List.cons_append, stripMinus_ne _ _ hc45]
    by_cases h48 : c = 48
    · subst h48
      have := hz 48 cs rfl rfl
      subst this
      simp [afterInt, afterFrac_end rest hr, afterExp_end rest hr]
    · rw [afterInt_ne _ _ h48 hc, hdig]
      simp [afterFrac_end rest hr, afterExp_end rest hr]

theorem number_minus (c : UInt8) (cs : Bytes) (hc : c ≠ 45) :
    Rfc.number (45 :: c :: cs) = Rfc.number (c :: cs) := by
  rw [number_eq, number_eq, stripMinus_ne _ _ hc]
  rfl

theorem number_natDigits (n : Nat) (rest : Bytes) (hr : NumEnd rest) :
    Rfc.number (IStreamInt.natDigits n ++ rest) = some rest := by
  apply number_nat _ _ (IStreamInt.natDigits_ne_nil n) (IStreamInt.natDigits_all_digit n) _ hr
  intro c cs hcs h48
  by_cases hn : n = 0
  · subst hn
    rw [IStreamInt.natDigits_zero] at hcs
    cases hcs; rfl
  · obtain ⟨c', cs', hcs', hc'⟩ := IStreamInt.natDigits_head_ne_zero n hn
    rw [hcs'] at hcs
    cases hcs
    exact absurd h48 hc'

theorem number_render (i : Int) (rest : Bytes) (hr : NumEnd rest) :
    Rfc.number (IStreamInt.render i ++ rest) = some rest := by
  rw [IStreamInt.render_eq]
  by_cases h : i < 0
  · simp only [h, if_true, List.cons_append, List.nil_append]
    obtain ⟨c, cs, hcs, hc⟩ := IStreamInt.natDigits_head_digit i.natAbs
    have hc45 : c ≠ 45 := (IStreamInt.isDigit_facts c hc).2.1
    have := number_natDigits i.natAbs rest hr
    rw [hcs, List.cons_append] at this ⊢
    rw [number_minus c _ hc45]
    exact this
  · simp only [h, if_false, List.nil_append]
    exact number_natDigits _ rest hr

/-- a text that starts with '-' or a digit is dispatched to `number` -/
theorem value_number (fuel : Nat) (c : UInt8) (cs : Bytes) (h : c = 45 ∨ IStreamInt.isDigit c = true) :
    Rfc.value (fuel + 1) (c :: cs) = Rfc.number (c :: cs) := by
  have hne : c ≠ 34 ∧ c ≠ 91 ∧ c ≠ 123 ∧ c ≠ 116 ∧ c ≠ 102 ∧ c ≠ 110 := by
    have := byte_num_facts c.toNat c.toNat_lt
    rw [UInt8.ofNat_toNat] at this
    exact this (by simpa using h)
  simp [Rfc.value, hne]

theorem good_number (b : Bytes) (hb : ∃ c cs, b = c :: cs ∧ (c = 45 ∨ IStreamInt.isDigit c = true))
    (hn : ∀ rest, NumEnd rest → Rfc.number (b ++ rest) = some rest) : Good b := by
  intro rest fuel hf hr
  obtain ⟨c, cs, rfl, hc⟩ := hb
  cases fuel with
  | zero => omega
  | succ f =>
    rw [List.cons_append, value_number f c _ hc]
    exact hn rest hr

theorem good_render (i : Int) : Good (IStreamInt.render i) := by
  apply good_number _ _ (fun rest hr => number_render i rest hr)
  rw [IStreamInt.render_eq]
  by_cases h : i < 0
  · exact ⟨45, IStreamInt.natDigits i.natAbs, by simp [h], Or.inl rfl⟩
  · obtain ⟨c, cs, hcs, hc⟩ := IStreamInt.natDigits_head_digit i.natAbs
    exact ⟨c, cs, by simp [h, hcs], Or.inr hc⟩

theorem good_renderBool (b : Bool) : Good (IStreamInt.renderBool b) := by
  have : IStreamInt.renderBool b = IStreamInt.render (if b then 1 else 0) := by cases b <;> decide
  rw [this]
  exact good_render _

/-! ### one step of the recogniser -/

theorem value_arr_empty (f : Nat) (cs r : Bytes) (h : Rfc.skipWs cs = 93 :: r) :
    Rfc.value (f + 1) (91 :: cs) = some r := by
  simp [Rfc.value, h]

theorem value_arr (f : Nat) (cs : Bytes) (h : Starts (Rfc.skipWs cs)) :
    Rfc.value (f + 1) (91 :: cs) = Rfc.elements f (Rfc.skipWs cs) := by
  obtain ⟨c, cs', hcs, _, h93, _⟩ := h
  have : Rfc.value (f + 1) (91 :: cs) =
      match Rfc.skipWs cs with
      | 93 :: r => some r
      | s1 => Rfc.elements f s1 := by simp [Rfc.value]; rfl
  rw [this, hcs]
  split
  · rename_i heq; cases heq; exact absurd rfl h93
  · rfl

theorem value_obj_empty (f : Nat) (cs r : Bytes) (h : Rfc.skipWs cs = 125 :: r) :
    Rfc.value (f + 1) (123 :: cs) = some r := by
  simp [Rfc.value, h]

theorem value_obj (f : Nat) (cs : Bytes) (h : Starts (Rfc.skipWs cs)) :
    Rfc.value (f + 1) (123 :: cs) = Rfc.members f (Rfc.skipWs cs) := by
  obtain ⟨c, cs', hcs, _, _, h125⟩ := h
  have : Rfc.value (f + 1) (123 :: cs) =
      match Rfc.skipWs cs with
      | 125 :: r => some r
      | s1 => Rfc.members f s1 := by simp [Rfc.value]; rfl
  rw [this, hcs]
  split
  · rename_i heq; cases heq; exact absurd rfl h125
  · rfl

theorem elements_close (f : Nat) (s r r' : Bytes) (h1 : Rfc.value f s = some r) (h2 : Rfc.skipWs r = 93 :: r') :
    Rfc.elements (f + 1) s = some r' := by
  simp [Rfc.elements, h1, h2]

theorem elements_comma (f : Nat) (s r r' : Bytes) (h1 : Rfc.value f s = some r) (h2 : Rfc.skipWs r = 44 :: r') :
    Rfc.elements (f + 1) s = Rfc.elements f (Rfc.skipWs r') := by
  simp [Rfc.elements, h1, h2]

theorem members_close (f : Nat) (cs r r1 r2 r' : Bytes) (h1 : Rfc.string cs = some r)
    (h2 : Rfc.skipWs r = 58 :: r1) (h3 : Rfc.value f (Rfc.skipWs r1) = some r2) (h4 : Rfc.skipWs r2 = 125 :: r') :
    Rfc.members (f + 1) (34 :: cs) = some r' := by
  simp [Rfc.members, h1, h2, h3, h4]

theorem members_comma (f : Nat) (cs r r1 r2 r' : Bytes) (h1 : Rfc.string cs = some r)
    (h2 : Rfc.skipWs r = 58 :: r1) (h3 : Rfc.value f (Rfc.skipWs r1) = some r2) (h4 : Rfc.skipWs r2 = 44 :: r') :
    Rfc.members (f + 1) (34 :: cs) = Rfc.members f (Rfc.skipWs r') := by
  simp [Rfc.members, h1, h2, h3, h4]

/-! ### arrays -/

/-- `encItems` over already encoded elements -/
def itemsB (ml : List Bool) : Nat → List Bytes → Bytes
  | _, [] => []
  | i, b :: bs => (if wArrNeedSep i then arraySep else []) ++ sepBytes ml ++ b ++ itemsB ml (i + 1) bs

theorem encItems_eq (f : Val → Bytes) (ml : List Bool) (i : Nat) (xs : List Val) :
    encItems f ml i xs = itemsB ml i (xs.map f) := by
  induction xs generalizing i with
  | nil => rfl
  | cons x xs ih => simp [encItems, itemsB, ih]

/-- the closing part: optional white space and the bracket -/
theorem encClose_arr (m : Bool) (n : Nat) (ml : List Bool) :
    ∃ ws, (∀ w ∈ ws, Rfc.isWs w = true) ∧ encClose true m n ml = ws ++ [93] := by
  unfold encClose
  by_cases h : wEndArrNewline m n = true
  · exact ⟨sepBytes ml, sepBytes_ws ml, by simp [h, wCloseArr]⟩
  · exact ⟨[], by simp, by simp [h, wCloseArr]⟩

theorem encClose_obj (m : Bool) (n : Nat) (ml : List Bool) :
    ∃ ws, (∀ w ∈ ws, Rfc.isWs w = true) ∧ encClose false m n ml = ws ++ [125] := by
  unfold encClose
  by_cases h : wEndObjNewline m n = true
  · exact ⟨sepBytes ml, sepBytes_ws ml, by simp [h, wCloseObj]⟩
  · exact ⟨[], by simp, by simp [h, wCloseObj]⟩

theorem skipWs_close (ws : Bytes) (c : UInt8) (rest : Bytes) (hws : ∀ w ∈ ws, Rfc.isWs w = true)
    (hc : Rfc.isWs c = false) : Rfc.skipWs (ws ++ c :: rest) = c :: rest := by
  rw [skipWs_ws ws _ hws, skipWs_cons c rest hc]

/-- `elements` on the remaining elements of an array: the first one is `b0` (already positioned at
its first byte), the others follow with their separators, then white space and the bracket -/
theorem elements_items (ml : List Bool) (bs : List Bytes) : ∀ (b0 : Bytes) (i fuel : Nat) (ws rest : Bytes),
    Good b0 → (∀ b ∈ bs, Good b) → (∀ w ∈ ws, Rfc.isWs w = true) →
    b0.length + (itemsB ml (i + 1) bs).length + ws.length + 1 < fuel →
    Rfc.elements fuel (b0 ++ (itemsB ml (i + 1) bs ++ (ws ++ 93 :: rest))) = some rest := by
  induction bs with
  | nil =>
    intro b0 i fuel ws rest hb0 _ hws hf
    cases fuel with
    | zero => omega
    | succ f =>
      simp only [itemsB, List.nil_append, List.length_nil] at hf ⊢
      exact elements_close f _ _ rest
        (hb0 _ f (by omega) (NumEnd.ws_append ws 93 rest hws (by decide)))
        (skipWs_close ws 93 rest hws (by decide))
  | cons b1 bs ih =>
    intro b0 i fuel ws rest hb0 hbs hws hf
    cases fuel with
    | zero => omega
    | succ f =>
      have hb1 : Good b1 := hbs b1 (by simp)
      have hsep : wArrNeedSep (i + 1) = true := by simp [wArrNeedSep]
      simp only [itemsB, hsep, if_true, arraySep, List.cons_append, List.nil_append, List.append_assoc,
        List.length_cons, List.length_append] at hf ⊢
      rw [elements_comma f _ _ _ (hb0 _ f (by omega) (NumEnd.cons _ (by decide)))
        (skipWs_cons 44 _ (by decide))]
      have hskip : ∀ X, Rfc.skipWs (32 :: (sepBytes ml ++ (b1 ++ X))) = b1 ++ X := by
        intro X
        rw [show 32 :: (sepBytes ml ++ (b1 ++ X)) = (32 :: sepBytes ml) ++ (b1 ++ X) from rfl,
          skipWs_ws _ _ (by
            intro c hc
            rcases List.mem_cons.mp hc with rfl | hc
            · decide
            · exact sepBytes_ws ml c hc),
          hb1.starts.skipWs]
      rw [hskip]
      exact ih b1 (i + 1) f ws rest hb1 (fun b hb => hbs b (by simp [hb])) hws (by omega)

/-- an array whose elements are recognised is recognised -/
theorem good_array (m : Bool) (ml : List Bool) (n : Nat) (bs : List Bytes) (hbs : ∀ b ∈ bs, Good b) :
    Good ([wOpenArr] ++ itemsB (m :: ml) 0 bs ++ encClose true m n ml) := by
  obtain ⟨ws, hws, hclose⟩ := encClose_arr m n ml
  rw [hclose]
  intro rest fuel hf _
  cases fuel with
  | zero => omega
  | succ f =>
    cases bs with
    | nil =>
      simp only [itemsB, wOpenArr, List.cons_append, List.nil_append, List.append_assoc]
      exact value_arr_empty f _ rest (skipWs_close ws 93 rest hws (by decide))
    | cons b0 bs =>
      have hb0 : Good b0 := hbs b0 (by simp)
      have hsep : wArrNeedSep 0 = false := by simp [wArrNeedSep]
      simp only [itemsB, hsep, wOpenArr, List.cons_append, List.nil_append, List.append_assoc,
        List.length_cons, List.length_append, List.length_nil, Bool.false_eq_true, if_false] at hf ⊢
      have hskip : ∀ X, Rfc.skipWs (sepBytes (m :: ml) ++ (b0 ++ X)) = b0 ++ X := by
        intro X
        rw [skipWs_sepBytes, hb0.starts.skipWs]
      rw [value_arr f _ (by
        rw [hskip]
        obtain ⟨c, cs, rfl, h⟩ := hb0.starts
        exact ⟨c, _, rfl, h⟩), hskip]
      exact elements_items (m :: ml) bs b0 0 f ws rest hb0 (fun b hb => hbs b (by simp [hb])) hws (by omega)

/-! ### objects -/

/-- `encMembers` / `encFields` over (key, already encoded value) pairs -/
def membersB (ml : List Bool) : Nat → List (Bytes × Bytes) → Bytes
  | _, [] => []
  | i, p :: ps =>
    (if wObjNeedSep i then objectSep else []) ++ sepBytes ml ++ encKey p.1 ++ keyValueSep ++ p.2
      ++ membersB ml (i + 1) ps

theorem encMembers_eq (f : Val → Bytes) (ml : List Bool) (i : Nat) (kvs : List (Bytes × Val)) :
    encMembers f ml i kvs = membersB ml i (kvs.map (fun kv => (kv.1, f kv.2))) := by
  induction kvs generalizing i with
  | nil => rfl
  | cons x xs ih => simp [encMembers, membersB, ih]

theorem skipWs_space (s : Bytes) : Rfc.skipWs (32 :: s) = Rfc.skipWs s := by
  simp [Rfc.skipWs, Rfc.isWs]

theorem skipWs_encKey (k X : Bytes) : Rfc.skipWs (encKey k ++ X) = encKey k ++ X := by
  rw [encKey_eq, encString_eq]
  exact skipWs_cons 34 _ (by decide)

theorem starts_encKey (k X : Bytes) : Starts (encKey k ++ X) := by
  rw [encKey_eq, encString_eq]
  exact ⟨34, _, rfl, by decide, by decide, by decide⟩

/-- the last member of an object -/
theorem members_entry_close (f : Nat) (k b ws rest : Bytes) (hk : cleanStr k = true) (hb : Good b)
    (hws : ∀ w ∈ ws, Rfc.isWs w = true) (hf : b.length < f) :
    Rfc.members (f + 1) (encKey k ++ (keyValueSep ++ (b ++ (ws ++ 125 :: rest)))) = some rest := by
  rw [encKey_eq, encString_eq]
  simp only [keyValueSep, List.cons_append, List.append_assoc, List.nil_append]
  refine members_close f _ _ _ _ rest (string_escape k hk _) (skipWs_cons 58 _ (by decide)) ?_
    (skipWs_close ws 125 rest hws (by decide))
  rw [skipWs_space, hb.starts.skipWs]
  exact hb _ f hf (NumEnd.ws_append ws 125 rest hws (by decide))

/-- a member that is followed by another one -/
theorem members_entry_comma (f : Nat) (k b X : Bytes) (hk : cleanStr k = true) (hb : Good b)
    (hf : b.length < f) :
    Rfc.members (f + 1) (encKey k ++ (keyValueSep ++ (b ++ 44 :: X))) = Rfc.members f (Rfc.skipWs X) := by
  rw [encKey_eq, encString_eq]
  simp only [keyValueSep, List.cons_append, List.append_assoc, List.nil_append]
  refine members_comma f _ _ _ _ X (string_escape k hk _) (skipWs_cons 58 _ (by decide)) ?_
    (skipWs_cons 44 _ (by decide))
  rw [skipWs_space, hb.starts.skipWs]
  exact hb _ f hf (NumEnd.cons _ (by decide))

theorem members_pairs (ml : List Bool) (ps : List (Bytes × Bytes)) :
    ∀ (k0 b0 : Bytes) (i fuel : Nat) (ws rest : Bytes),
    cleanStr k0 = true → Good b0 → (∀ p ∈ ps, cleanStr p.1 = true ∧ Good p.2) →
    (∀ w ∈ ws, Rfc.isWs w = true) →
    b0.length + (membersB ml (i + 1) ps).length + ws.length + 1 < fuel →
    Rfc.members fuel (encKey k0 ++ (keyValueSep ++ (b0 ++ (membersB ml (i + 1) ps ++ (ws ++ 125 :: rest)))))
      = some rest := by
  induction ps with
  | nil =>
    intro k0 b0 i fuel ws rest hk0 hb0 _ hws hf
    cases fuel with
    | zero => omega
    | succ f =>
      simp only [membersB, List.nil_append, List.length_nil] at hf ⊢
      exact members_entry_close f k0 b0 ws rest hk0 hb0 hws (by omega)
  | cons p1 ps ih =>
    intro k0 b0 i fuel ws rest hk0 hb0 hps hws hf
    cases fuel with
    | zero => omega
    | succ f =>
      have hp1 := hps p1 (by simp)
      have hsep : wObjNeedSep (i + 1) = true := by simp [wObjNeedSep]
      simp only [membersB, hsep, if_true, objectSep, List.cons_append, List.nil_append, List.append_assoc,
        List.length_cons, List.length_append] at hf ⊢
      rw [members_entry_comma f k0 b0 _ hk0 hb0 (by omega), skipWs_space, skipWs_sepBytes, skipWs_encKey]
      exact ih p1.1 p1.2 (i + 1) f ws rest hp1.1 hp1.2 (fun p hp => hps p (by simp [hp])) hws (by omega)

/-- an object whose keys are clean and whose member values are recognised is recognised -/
theorem good_object (m : Bool) (ml : List Bool) (n : Nat) (ps : List (Bytes × Bytes))
    (hps : ∀ p ∈ ps, cleanStr p.1 = true ∧ Good p.2) :
    Good ([wOpenObj] ++ membersB (m :: ml) 0 ps ++ encClose false m n ml) := by
  obtain ⟨ws, hws, hclose⟩ := encClose_obj m n ml
  rw [hclose]
  intro rest fuel hf _
  cases fuel with
  | zero => omega
  | succ f =>
    cases ps with
    | nil =>
      simp only [membersB, wOpenObj, List.cons_append, List.nil_append, List.append_assoc]
      exact value_obj_empty f _ rest (skipWs_close ws 125 rest hws (by decide))
    | cons p0 ps =>
      have hp0 := hps p0 (by simp)
      have hsep : wObjNeedSep 0 = false := by simp [wObjNeedSep]
      simp only [membersB, hsep, wOpenObj, List.cons_append, List.nil_append, List.append_assoc,
        List.length_cons, List.length_append, List.length_nil, Bool.false_eq_true, if_false] at hf ⊢
      rw [value_obj f _ (by rw [skipWs_sepBytes, skipWs_encKey]; exact starts_encKey _ _),
        skipWs_sepBytes, skipWs_encKey]
      exact members_pairs (m :: ml) ps p0.1 p0.2 0 f ws rest hp0.1 hp0.2 (fun p hp => hps p (by simp [hp])) hws
        (by omega)

/-! ### the writer's text -/

/-- the (field name, encoded field value) pairs `encFields` lays out -/
def fieldPairs : Fields → List Val → List Bool → List (Bytes × Bytes)
  | .cons n _ t r, v :: vs, ml => (n, enc t v ml) :: fieldPairs r vs ml
  | _, _, _ => []

theorem encFields_eq : ∀ (fs : Fields) (vs : List Val) (ml : List Bool) (i : Nat),
    encFields fs vs ml i = membersB ml i (fieldPairs fs vs ml)
  | .nil, _, _, _ => by simp [encFields, fieldPairs, membersB]
  | .cons _ _ _ _, [], _, _ => by simp [encFields, fieldPairs, membersB]
  | .cons n o t r, v :: vs, ml, i => by
    simp [encFields, fieldPairs, membersB, encFields_eq r vs ml (i + 1)]

/-- the name of the held type is one of the registered names -/
theorem hasTypeAlt_clean : ∀ (alts : Alts) (name : Bytes) (v : Val),
    hasTypeAlt alts name v = true → cleanAlts alts = true → cleanStr name = true
  | .nil, _, _, ht, _ => by simp [hasTypeAlt] at ht
  | .cons n t r, name, v, ht, hct => by
    simp only [cleanAlts, Bool.and_eq_true] at hct
    by_cases h : n = name
    · subst h; exact hct.1.1
    · simp only [hasTypeAlt, h, if_false] at ht
      exact hasTypeAlt_clean r name v ht hct.2

mutual
theorem good_enc : ∀ (t : JTy) (v : Val) (ml : List Bool),
    hasType t v = true → cleanTy t = true → clean t v = true → Good (enc t v ml)
  | .str, v, ml, ht, _, hc => by
    cases v <;> simp [hasType] at ht
    simp only [clean] at hc
    simpa [enc] using good_encString _ hc
  | .int _ _, v, ml, ht, _, _ => by
    cases v <;> simp [hasType] at ht
    simpa [enc] using good_render _
  | .bool, v, ml, ht, _, _ => by
    cases v <;> simp [hasType] at ht
    simpa [enc] using good_renderBool _
  | .pair a b, v, ml, ht, hct, hc => by
    cases v <;> simp [hasType] at ht
    rename_i x y
    simp only [cleanTy, Bool.and_eq_true] at hct
    simp only [clean, Bool.and_eq_true] at hc
    have h1 := good_enc a x (defaultArrayMultiLine :: ml) ht.1 hct.1 hc.1
    have h2 := good_enc b y (defaultArrayMultiLine :: ml) ht.2 hct.2 hc.2
    have := good_array defaultArrayMultiLine ml 2 [enc a x (defaultArrayMultiLine :: ml),
      enc b y (defaultArrayMultiLine :: ml)] (by
        intro b hb
        simp only [List.mem_cons, List.not_mem_nil, or_false] at hb
        rcases hb with rfl | rfl
        · exact h1
        · exact h2)
    simpa [enc, itemsB, wArrNeedSep] using this
  | .vec e, v, ml, ht, hct, hc => by
    cases v <;> simp [hasType] at ht
    rename_i xs
    simp only [cleanTy] at hct
    simp only [clean, List.all_eq_true] at hc
    have := good_array (arrayMultiLine xs.length (isPod e)) ml xs.length
      (xs.map (fun x => enc e x (arrayMultiLine xs.length (isPod e) :: ml))) (by
        intro b hb
        obtain ⟨x, hx, rfl⟩ := List.mem_map.mp hb
        exact good_enc e x _ (ht x hx) hct (hc x hx))
    simpa [enc, encItems_eq] using this
  | .list e, v, ml, ht, hct, hc => by
    cases v <;> simp [hasType] at ht
    rename_i xs
    simp only [cleanTy] at hct
    simp only [clean, List.all_eq_true] at hc
    have := good_array (arrayMultiLine xs.length (isPod e)) ml xs.length
      (xs.map (fun x => enc e x (arrayMultiLine xs.length (isPod e) :: ml))) (by
        intro b hb
        obtain ⟨x, hx, rfl⟩ := List.mem_map.mp hb
        exact good_enc e x _ (ht x hx) hct (hc x hx))
    simpa [enc, encItems_eq] using this
  | .map e, v, ml, ht, hct, hc => by
    cases v <;> simp [hasType] at ht
    rename_i kvs
    simp only [cleanTy] at hct
    simp only [clean, List.all_eq_true, Bool.and_eq_true] at hc
    have := good_object (objectMultiLine kvs.length) ml kvs.length
      (kvs.map (fun kv => (kv.1, enc e kv.2 (objectMultiLine kvs.length :: ml)))) (by
        intro p hp
        obtain ⟨kv, hkv, rfl⟩ := List.mem_map.mp hp
        exact ⟨(hc kv hkv).1, good_enc e kv.2 _ (ht.2 kv.1 kv.2 hkv) hct (hc kv hkv).2⟩)
    simpa [enc, encMembers_eq] using this
  | .umap e, v, ml, ht, hct, hc => by
    cases v <;> simp [hasType] at ht
    rename_i kvs
    simp only [cleanTy] at hct
    simp only [clean, List.all_eq_true, Bool.and_eq_true] at hc
    have := good_object (objectMultiLine kvs.length) ml kvs.length
      (kvs.map (fun kv => (kv.1, enc e kv.2 (objectMultiLine kvs.length :: ml)))) (by
        intro p hp
        obtain ⟨kv, hkv, rfl⟩ := List.mem_map.mp hp
        exact ⟨(hc kv hkv).1, good_enc e kv.2 _ (ht.2 kv.1 kv.2 hkv) hct (hc kv hkv).2⟩)
    simpa [enc, encMembers_eq] using this
  | .any alts, v, ml, ht, hct, hc => by
    cases v <;> simp [hasType] at ht
    rename_i name x
    simp only [cleanTy] at hct
    simp only [clean] at hc
    have h1 := good_encString name (hasTypeAlt_clean alts name x ht hct)
    have h2 := good_encAlt alts name x (anyMultiLine :: ml) ht hct hc
    have := good_array anyMultiLine ml 2 [encString name, encAlt alts name x (anyMultiLine :: ml)] (by
        intro b hb
        simp only [List.mem_cons, List.not_mem_nil, or_false] at hb
        rcases hb with rfl | rfl
        · exact h1
        · exact h2)
    simpa [enc, itemsB, wArrNeedSep] using this
  | .cls _ fs, v, ml, ht, hct, hc => by
    cases v <;> simp [hasType] at ht
    rename_i vs
    simp only [cleanTy] at hct
    simp only [clean] at hc
    have := good_object defaultObjectMultiLine ml fs.length (fieldPairs fs vs (defaultObjectMultiLine :: ml))
      (good_fields fs vs _ ht hct hc)
    simpa [enc, encFields_eq] using this
theorem good_encAlt : ∀ (alts : Alts) (name : Bytes) (v : Val) (ml : List Bool),
    hasTypeAlt alts name v = true → cleanAlts alts = true → cleanAlt alts name v = true →
    Good (encAlt alts name v ml)
  | .nil, _, _, _, ht, _, _ => by simp [hasTypeAlt] at ht
  | .cons n t r, name, v, ml, ht, hct, hc => by
    simp only [cleanAlts, Bool.and_eq_true] at hct
    by_cases h : n = name
    · simp only [hasTypeAlt, h, if_true] at ht
      simp only [cleanAlt, h, if_true] at hc
      simp only [encAlt, h, if_true]
      exact good_enc t v ml ht hct.1.2 hc
    · simp only [hasTypeAlt, h, if_false] at ht
      simp only [cleanAlt, h, if_false] at hc
      simp only [encAlt, h, if_false]
      exact good_encAlt r name v ml ht hct.2 hc
theorem good_fields : ∀ (fs : Fields) (vs : List Val) (ml : List Bool),
    hasTypeFields fs vs = true → cleanFields fs = true → cleanFieldVals fs vs = true →
    ∀ p ∈ fieldPairs fs vs ml, cleanStr p.1 = true ∧ Good p.2
  | .nil, _, _, _, _, _ => by simp [fieldPairs]
  | .cons _ _ _ _, [], _, _, _, _ => by simp [fieldPairs]
  | .cons n o t r, v :: vs, ml, ht, hct, hc => by
    simp only [hasTypeFields, Bool.and_eq_true] at ht
    simp only [cleanFields, Bool.and_eq_true] at hct
    simp only [cleanFieldVals, Bool.and_eq_true] at hc
    intro p hp
    simp only [fieldPairs, List.mem_cons] at hp
    rcases hp with rfl | hp
    · exact ⟨hct.1.1, good_enc t v ml ht.1 hct.1.2 hc.1⟩
    · exact good_fields r vs ml ht.2 hct.2 hc.2 p hp
end

/-! ### the theorems -/

/-- the recogniser accepts the text of every well-typed value whose strings, keys and schema names contain
no control characters other than \t \n \r, and consumes exactly that text -/
theorem value_enc (t : JTy) (v : Val) (ml : List Bool) (rest : Bytes) (fuel : Nat)
    (ht : hasType t v = true) (hct : cleanTy t = true) (hc : clean t v = true)
    (hfuel : (enc t v ml).length < fuel)
    (hrest : ∀ c cs, rest = c :: cs → IStreamInt.isDigit c = false ∧ c ≠ 46 ∧ c ≠ 101 ∧ c ≠ 69) :
    Rfc.value fuel (enc t v ml ++ rest) = some rest :=
  good_enc t v ml ht hct hc rest fuel hfuel hrest

/-- the bytes that actually follow a value in the writer's text satisfy the side condition of `value_enc` -/
theorem numEnd_follow (c : UInt8) (cs : Bytes) (h : c = 44 ∨ c = 93 ∨ c = 125 ∨ c = 32 ∨ c = 10) :
    NumEnd (c :: cs) := by
  apply NumEnd.cons
  rcases h with rfl | rfl | rfl | rfl | rfl <;> decide

/-- the text of a value starts with a byte that is neither white space nor a closing bracket -/
theorem enc_starts (t : JTy) (v : Val) (ml : List Bool) (ht : hasType t v = true) (hct : cleanTy t = true)
    (hc : clean t v = true) : Starts (enc t v ml) :=
  (good_enc t v ml ht hct hc).starts

theorem wellFormed_enc (t : JTy) (v : Val) (ht : hasType t v = true) (hct : cleanTy t = true)
    (hc : clean t v = true) : wellFormed (enc t v []) = true := by
  have hg := good_enc t v [] ht hct hc
  have h1 := hg [] ((enc t v []).length + 1) (by omega) NumEnd.nil
  have h2 := hg.starts.skipWs []
  rw [List.append_nil] at h1 h2
  simp [wellFormed, h1, h2, Rfc.skipWs]

/-- `value_enc` when the value is followed by one of the bytes the writer puts after a value
(',' ']' '}' ' ' '\n') -/
theorem value_enc_follow (t : JTy) (v : Val) (ml : List Bool) (c : UInt8) (cs : Bytes) (fuel : Nat)
    (ht : hasType t v = true) (hct : cleanTy t = true) (hc : clean t v = true)
    (hfuel : (enc t v ml).length < fuel) (hfollow : c = 44 ∨ c = 93 ∨ c = 125 ∨ c = 32 ∨ c = 10) :
    Rfc.value fuel (enc t v ml ++ c :: cs) = some (c :: cs) :=
  value_enc t v ml (c :: cs) fuel ht hct hc hfuel (numEnd_follow c cs hfollow)

/-- `value_enc` at the end of the input -/
theorem value_enc_nil (t : JTy) (v : Val) (ml : List Bool) (fuel : Nat)
    (ht : hasType t v = true) (hct : cleanTy t = true) (hc : clean t v = true)
    (hfuel : (enc t v ml).length < fuel) :
    Rfc.value fuel (enc t v ml) = some [] := by
  have := value_enc t v ml [] fuel ht hct hc hfuel NumEnd.nil
  rwa [List.append_nil] at this

end DmlcModel.Json
