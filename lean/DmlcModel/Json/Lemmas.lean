/-
Specification lemmas for the generated items of `Gen/Json.lean`: each says what the extracted C++
fragment is expected to mean.  An edit of json.h that changes a fragment changes the generated
definition and the corresponding lemma (and everything downstream) stops compiling.
-/
import DmlcModel.Json.Model

namespace DmlcModel.Json
open DmlcModel DmlcModel.Gen.Json

set_option maxRecDepth 8000

/-- writer escape table: exactly CR LF backslash TAB quote are escaped, to `\r \n \\ \t \"` -/
theorem escape_spec : ∀ n, n < 256 → escape (UInt8.ofNat n) =
    (if n = 13 then [92, 114] else if n = 10 then [92, 110] else if n = 92 then [92, 92]
     else if n = 9 then [92, 116] else if n = 34 then [92, 34] else [UInt8.ofNat n]) := by decide

/-- reader unescape table: the inverse of the writer's table and nothing else -/
theorem unescape_spec : ∀ n, n < 256 → unescape (UInt8.ofNat n) =
    (if n = 114 then some 13 else if n = 110 then some 10 else if n = 92 then some 92
     else if n = 116 then some 9 else if n = 34 then some 34 else none) := by decide

/-- one byte through the writer's table and back through the reader's string loop: it is either copied
(and is then none of backslash, quote, CR, LF) or written as backslash + a letter that unescapes to it -/
def escapeInverts (n : Nat) : Bool :=
  match escape (UInt8.ofNat n) with
  | [a] => a == UInt8.ofNat n && !strIsEscLead n && !strIsClose n && !strIsFatal n
  | [l, e] => strIsEscLead l.toNat && unescape e == some (UInt8.ofNat n)
  | _ => false

theorem escape_unescape : ∀ n, n < 256 → escapeInverts n = true := by decide

theorem strTests_spec (c : Nat) :
    strIsEscLead c = (c == 92) ∧ strIsClose c = (c == 34) ∧ strIsFatal c = (c == 13 || c == 10) :=
  ⟨rfl, rfl, rfl⟩

theorem quotes_spec : strOpen = 34 ∧ strClose = 34 ∧ rStrOpen = 34 := ⟨rfl, rfl, rfl⟩

/-- the whitespace set of the reader: TAB LF VT FF CR SPACE -/
theorem isSpace_spec : ∀ n, n < 256 → isSpace n = (n = 9 ∨ n = 10 ∨ n = 11 ∨ n = 12 ∨ n = 13 ∨ n = 32) := by
  decide

theorem lineChars_spec : lineN = 10 ∧ lineR = 13 := ⟨rfl, rfl⟩

theorem arrayMultiLine_spec (size : Nat) (pod : Bool) : arrayMultiLine size pod = (decide (10 < size) || !pod) := rfl
theorem objectMultiLine_spec (size : Nat) : objectMultiLine size = decide (1 < size) := rfl
theorem defaults_spec : defaultArrayMultiLine = true ∧ defaultObjectMultiLine = true ∧ anyMultiLine = false :=
  ⟨rfl, rfl, rfl⟩
theorem sepNewline_spec (depth : Nat) (back : Bool) : sepNewline depth back = (depth == 0 || back) := rfl
theorem indentWidth_spec (depth : Nat) (h : depth < 2 ^ 63) : indentWidth depth = 2 * depth := by
  unfold indentWidth u64; omega
theorem sepChars_spec : sepChar = 10 ∧ indentChar = 32 := ⟨rfl, rfl⟩

theorem separators_spec : arraySep = [44, 32] ∧ objectSep = [44, 32] ∧ keyValueSep = [58, 32] := ⟨rfl, rfl, rfl⟩
/-- the object key goes through `WriteString` (after fix C16-1; `false` on the pinned tree: finding C16-F9) -/
theorem keyEscaped_spec : keyEscaped = true := rfl
theorem counterTests_spec (n : Nat) (m : Bool) :
    wArrNeedSep n = (n != 0) ∧ wObjNeedSep n = decide (0 < n) ∧ rArrNotFirst n = (n != 0) ∧ rObjNotFirst n = (n != 0) ∧
    wEndArrNewline m n = (m && n != 0) ∧ wEndObjNewline m n = (m && n != 0) := ⟨rfl, rfl, rfl, rfl, rfl, rfl⟩
theorem delimiters_spec :
    wOpenArr = 91 ∧ wCloseArr = 93 ∧ wOpenObj = 123 ∧ wCloseObj = 125 ∧ rOpenArr = 91 ∧ rArrClose = 93 ∧
    rArrCloseFirst = 93 ∧ rArrComma = 44 ∧ rOpenObj = 123 ∧ rObjClose = 125 ∧ rObjCloseFirst = 125 ∧ rObjComma = 44 ∧
    rColon = 58 := ⟨rfl, rfl, rfl, rfl, rfl, rfl, rfl, rfl, rfl, rfl, rfl, rfl, rfl⟩

end DmlcModel.Json
