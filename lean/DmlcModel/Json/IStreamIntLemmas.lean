/-
Lemmas about the libstdc++ formatted-integer I/O model (`DmlcModel.Json.IStreamInt`):
`render` / `extract` round trip, shape of rendered numbers, progress of `extract`.  Core Lean only.
-/
import DmlcModel.Json.IStreamInt

namespace DmlcModel.IStreamInt
open DmlcModel

set_option maxRecDepth 8000

/-! ### single-byte facts -/

theorem digitByte_facts : ∀ d, d < 10 →
    (isDigit (digitByte d) = true ∧ digitVal (digitByte d) = d ∧ (d ≠ 0 → digitByte d ≠ 48)) := by
  decide

theorem byte_digit_facts : ∀ n, n < 256 →
    (isDigit (UInt8.ofNat n) = true →
      isSpace (UInt8.ofNat n) = false ∧ UInt8.ofNat n ≠ 45 ∧ UInt8.ofNat n ≠ 43) := by
  decide

theorem isDigit_facts (c : UInt8) (hc : isDigit c = true) : isSpace c = false ∧ c ≠ 45 ∧ c ≠ 43 := by
  have := byte_digit_facts c.toNat c.toNat_lt
  rw [UInt8.ofNat_toNat] at this
  exact this hc

/-! ### `natDigits` -/

/-- specification of `natDigits` by well-founded recursion -/
def natDigitsSpec (n : Nat) : Bytes :=
  if _h : n < 10 then [digitByte n] else natDigitsSpec (n / 10) ++ [digitByte (n % 10)]
decreasing_by omega

theorem natDigitsAux_eq_spec : ∀ (fuel n : Nat) (acc : Bytes), n < fuel →
    natDigitsAux fuel n acc = natDigitsSpec n ++ acc := by
  intro fuel
  induction fuel with
  | zero => intro n acc h; omega
  | succ fuel ih =>
    intro n acc h
    rw [natDigitsSpec]
    simp only [natDigitsAux]
    by_cases h10 : n < 10
    · simp [h10]
    · simp only [h10, if_false, dite_false]
      rw [ih (n / 10) _ (by omega)]
      simp

theorem natDigits_eq_spec (n : Nat) : natDigits n = natDigitsSpec n := by
  unfold natDigits
  rw [natDigitsAux_eq_spec (n + 1) n [] (by omega)]
  simp

theorem natDigits_unfold (n : Nat) :
    natDigits n = if n < 10 then [digitByte n] else natDigits (n / 10) ++ [digitByte (n % 10)] := by
  rw [natDigits_eq_spec, natDigits_eq_spec, natDigitsSpec]
  by_cases h : n < 10 <;> simp [h]

theorem natDigits_ne_nil (n : Nat) : natDigits n ≠ [] := by
  rw [natDigits_unfold]
  by_cases h : n < 10 <;> simp [h]

theorem natDigits_all_digit (n : Nat) : ∀ c ∈ natDigits n, isDigit c = true := by
  induction n using Nat.strongRecOn with
  | ind n ih =>
    rw [natDigits_unfold]
    by_cases h : n < 10
    · simp only [h, if_true]
      intro c hc
      simp at hc
      subst hc
      exact (digitByte_facts n h).1
    · simp only [h, if_false]
      intro c hc
      rw [List.mem_append] at hc
      cases hc with
      | inl hc => exact ih (n / 10) (by omega) c hc
      | inr hc =>
        simp at hc
        subst hc
        exact (digitByte_facts (n % 10) (by omega)).1

theorem digitsVal_snoc (ds : Bytes) (c : UInt8) :
    digitsVal (ds ++ [c]) = digitsVal ds * 10 + digitVal c := by
  simp [digitsVal, List.foldl_append]

theorem digitsVal_natDigits (n : Nat) : digitsVal (natDigits n) = n := by
  induction n using Nat.strongRecOn with
  | ind n ih =>
    rw [natDigits_unfold]
    by_cases h : n < 10
    · simp only [h, if_true]
      have := (digitByte_facts n h).2.1
      simp [digitsVal, this]
    · simp only [h, if_false]
      rw [digitsVal_snoc, ih (n / 10) (by omega), (digitByte_facts (n % 10) (by omega)).2.1]
      omega

theorem natDigits_zero : natDigits 0 = [48] := by decide

/-- no leading zero except for the number 0 itself -/
theorem natDigits_head_ne_zero (n : Nat) (h : n ≠ 0) : ∃ c cs, natDigits n = c :: cs ∧ c ≠ 48 := by
  induction n using Nat.strongRecOn with
  | ind n ih =>
    rw [natDigits_unfold]
    by_cases h10 : n < 10
    · simp only [h10, if_true]
      exact ⟨digitByte n, [], rfl, (digitByte_facts n h10).2.2 h⟩
    · simp only [h10, if_false]
      obtain ⟨c, cs, hcs, hc⟩ := ih (n / 10) (by omega) (by omega)
      exact ⟨c, cs ++ [digitByte (n % 10)], by rw [hcs]; rfl, hc⟩

/-- a rendered natural number starts with a digit -/
theorem natDigits_head_digit (n : Nat) : ∃ c cs, natDigits n = c :: cs ∧ isDigit c = true := by
  cases hnd : natDigits n with
  | nil => exact absurd hnd (natDigits_ne_nil n)
  | cons c cs =>
    refine ⟨c, cs, rfl, ?_⟩
    apply natDigits_all_digit n
    rw [hnd]
    simp

/-! ### scanning -/

theorem takeDigits_nodigit (rest : Bytes) (hr : startsWithDigit rest = false) :
    takeDigits rest = ([], rest) := by
  cases rest with
  | nil => rfl
  | cons c cs =>
    simp only [startsWithDigit] at hr
    simp [takeDigits, hr]

theorem takeDigits_append (ds rest : Bytes) (hd : ∀ c ∈ ds, isDigit c = true)
    (hr : startsWithDigit rest = false) : takeDigits (ds ++ rest) = (ds, rest) := by
  induction ds with
  | nil => simpa using takeDigits_nodigit rest hr
  | cons d ds ih =>
    have hd1 : isDigit d = true := hd d (by simp)
    have := ih (fun c hc => hd c (by simp [hc]))
    simp [takeDigits, hd1, this]

theorem skipSpace_nospace (rest : Bytes) (hr : ∀ c cs, rest = c :: cs → isSpace c = false) :
    skipSpace rest = rest := by
  cases rest with
  | nil => rfl
  | cons c cs => simp [skipSpace, hr c cs rfl]

theorem skipSpace_append (ws rest : Bytes) (hws : ∀ c ∈ ws, isSpace c = true)
    (hr : ∀ c cs, rest = c :: cs → isSpace c = false) : skipSpace (ws ++ rest) = rest := by
  induction ws with
  | nil => simpa using skipSpace_nospace rest hr
  | cons w ws ih =>
    have hw : isSpace w = true := hws w (by simp)
    have := ih (fun c hc => hws c (by simp [hc]))
    simp [skipSpace, hw, this]

theorem skipSpace_length_le (s : Bytes) : (skipSpace s).length ≤ s.length := by
  induction s with
  | nil => simp [skipSpace]
  | cons c cs ih =>
    simp only [skipSpace]
    split
    · simp; omega
    · simp

theorem takeDigits_length (s : Bytes) : (takeDigits s).1.length + (takeDigits s).2.length = s.length := by
  induction s with
  | nil => simp [takeDigits]
  | cons c cs ih =>
    simp only [takeDigits]
    split
    · simp; omega
    · simp

/-! ### `render` -/

theorem render_ne_nil (v : Int) : render v ≠ [] := by
  unfold render
  split
  · simp
  · exact natDigits_ne_nil _

/-- shape of a rendered integer: optional '-' then the digits of the magnitude -/
theorem render_eq (v : Int) : render v = (if v < 0 then [45] else []) ++ natDigits v.natAbs := by
  unfold render
  by_cases h : v < 0
  · simp [h]
  · have : v.toNat = v.natAbs := by omega
    simp [h, this]

/-! ### `extract` -/

theorem extract_neg_form (t : IntTy) (s ds rest : Bytes) (hs : skipSpace s = 45 :: (ds ++ rest))
    (hne : ds ≠ []) (hd : ∀ c ∈ ds, isDigit c = true) (hr : startsWithDigit rest = false) :
    extract t s =
      if t.limit true < digitsVal ds then ⟨some (if t.signed then t.minVal else t.maxVal), true, rest⟩
      else ⟨some (if t.signed then -(digitsVal ds : Int)
                  else (((2 ^ t.bits - digitsVal ds) % 2 ^ t.bits : Nat) : Int)), false, rest⟩ := by
  unfold extract
  rw [hs]
  simp [takeDigits_append ds rest hd hr, hne]

theorem extract_pos_form (t : IntTy) (s ds rest : Bytes) (hs : skipSpace s = ds ++ rest)
    (hne : ds ≠ []) (hd : ∀ c ∈ ds, isDigit c = true) (hr : startsWithDigit rest = false) :
    extract t s =
      if t.limit false < digitsVal ds then ⟨some t.maxVal, true, rest⟩
      else ⟨some (digitsVal ds : Int), false, rest⟩ := by
  cases ds with
  | nil => exact absurd rfl hne
  | cons c cs =>
    have hc := isDigit_facts c (hd c (by simp))
    have h45 : (c == 45) = false := by simpa using hc.2.1
    have h43 : (c == 43) = false := by simpa using hc.2.2
    have htd : takeDigits (c :: (cs ++ rest)) = (c :: cs, rest) := takeDigits_append (c :: cs) rest hd hr
    unfold extract
    rw [hs]
    simp [h45, h43, htd]

theorem two_pow_cast (k : Nat) : (2 : Int) ^ k = ((2 ^ k : Nat) : Int) := by
  simp [Int.natCast_pow]

theorem extract_render (t : IntTy) (v : Int) (hb : 0 < t.bits) (hv : t.inRange v = true) (ws rest : Bytes)
    (hws : ∀ c ∈ ws, isSpace c = true) (hr : startsWithDigit rest = false) :
    extract t (ws ++ render v ++ rest) = ⟨some v, false, rest⟩ := by
  have _ := hb
  unfold IntTy.inRange at hv
  rw [Bool.and_eq_true, decide_eq_true_eq, decide_eq_true_eq] at hv
  simp only [IntTy.minVal, IntTy.maxVal] at hv
  obtain ⟨hlo, hhi⟩ := hv
  rw [two_pow_cast] at hlo
  rw [two_pow_cast, two_pow_cast] at hhi
  have hP : 0 < 2 ^ (t.bits - 1) := Nat.two_pow_pos _
  have hQ : 0 < 2 ^ t.bits := Nat.two_pow_pos _
  rw [List.append_assoc]
  by_cases hneg : v < 0
  · -- negative: only possible for signed types
    have hsg : t.signed = true := by
      cases hsg : t.signed with
      | true => rfl
      | false => rw [hsg] at hlo; simp at hlo; omega
    have hrender : render v = 45 :: natDigits v.natAbs := by simp [render, hneg]
    have hskip : skipSpace (ws ++ (render v ++ rest)) = 45 :: (natDigits v.natAbs ++ rest) := by
      rw [skipSpace_append ws _ hws]
      · rw [hrender]; rfl
      · intro c cs hcs
        rw [hrender] at hcs
        simp at hcs
        rw [← hcs.1]
        decide
    rw [extract_neg_form t _ _ rest hskip (natDigits_ne_nil _) (natDigits_all_digit _) hr]
    rw [digitsVal_natDigits]
    simp only [hsg, if_true] at hlo ⊢
    simp only [IntTy.limit, hsg, if_true]
    generalize 2 ^ (t.bits - 1) = P at *
    have h1 : ¬ (P < v.natAbs) := by omega
    have h2 : -(v.natAbs : Int) = v := by omega
    simp [h1, h2]
  · -- non-negative
    have hrender : render v = natDigits v.toNat := by simp [render, hneg]
    obtain ⟨c, cs, hcs, hc⟩ := natDigits_head_digit v.toNat
    have hskip : skipSpace (ws ++ (render v ++ rest)) = natDigits v.toNat ++ rest := by
      rw [skipSpace_append ws _ hws]
      · rw [hrender]
      · intro c' cs' hcs'
        rw [hrender, hcs] at hcs'
        simp at hcs'
        rw [← hcs'.1]
        exact (isDigit_facts c hc).1
    rw [extract_pos_form t _ _ rest hskip (natDigits_ne_nil _) (natDigits_all_digit _) hr]
    rw [digitsVal_natDigits]
    have h2 : (v.toNat : Int) = v := by omega
    have h1 : ¬ (t.limit false < v.toNat) := by
      simp only [IntTy.limit]
      cases hsg : t.signed with
      | true =>
        rw [hsg] at hhi
        simp only [if_true] at hhi ⊢
        generalize 2 ^ (t.bits - 1) = P at *
        simp
        omega
      | false =>
        rw [hsg] at hhi
        simp only [Bool.false_eq_true, if_false] at hhi ⊢
        generalize 2 ^ t.bits = Q at *
        omega
    simp [h1, h2]

theorem extract_shape (t : IntTy) (s : Bytes) :
    (skipSpace s = [] ∧ extract t s = ⟨none, true, []⟩) ∨
    ∃ c cs, skipSpace s = c :: cs ∧
      (extract t s).rest = (takeDigits (if c == 45 || c == 43 then cs else c :: cs)).2 ∧
      ((extract t s).fail = false →
        (takeDigits (if c == 45 || c == 43 then cs else c :: cs)).1 ≠ []) := by
  cases hs : skipSpace s with
  | nil => left; simp [extract, hs]
  | cons c cs =>
    right
    refine ⟨c, cs, rfl, ?_⟩
    unfold extract
    rw [hs]
    simp only []
    generalize (if c == 45 || c == 43 then cs else c :: cs) = body
    by_cases hnil : (takeDigits body).1 = []
    · simp [hnil]
    · by_cases h2 : c = 45
      · subst h2
        by_cases h1 : t.limit true < digitsVal (takeDigits body).1 <;> simp [hnil, h1]
      · have h45 : (c == 45) = false := by simpa using h2
        by_cases h1 : t.limit false < digitsVal (takeDigits body).1 <;> simp [hnil, h1, h45]

theorem body_length_le (c : UInt8) (cs : Bytes) :
    (if c == 45 || c == 43 then cs else c :: cs).length ≤ cs.length + 1 := by
  split <;> simp

theorem extract_rest_length (t : IntTy) (s : Bytes) : (extract t s).rest.length ≤ s.length := by
  rcases extract_shape t s with ⟨_, he⟩ | ⟨c, cs, hs, hrest, _⟩
  · rw [he]; simp
  · rw [hrest]
    have h1 := skipSpace_length_le s
    rw [hs] at h1
    have h0 := body_length_le c cs
    have h2 := takeDigits_length (if c == 45 || c == 43 then cs else c :: cs)
    generalize (if c == 45 || c == 43 then cs else c :: cs) = body at *
    simp only [List.length_cons] at h1
    omega

theorem extract_ok_consumes (t : IntTy) (s : Bytes) (h : (extract t s).fail = false) :
    (extract t s).rest.length < s.length := by
  rcases extract_shape t s with ⟨_, he⟩ | ⟨c, cs, hs, hrest, hne⟩
  · rw [he] at h; simp at h
  · rw [hrest]
    have h1 := skipSpace_length_le s
    rw [hs] at h1
    have h3 := hne h
    have h0 := body_length_le c cs
    have h2 := takeDigits_length (if c == 45 || c == 43 then cs else c :: cs)
    generalize (if c == 45 || c == 43 then cs else c :: cs) = body at *
    have h4 : 0 < (takeDigits body).1.length := List.length_pos_iff.mpr h3
    simp only [List.length_cons] at h1
    omega

/-! ### `bool` -/

theorem extractBool_rest (s : Bytes) : (extractBool s).rest = (extract ⟨64, true⟩ s).rest := by
  unfold extractBool
  simp only []
  split
  · rfl
  · split
    · rfl
    · split <;> rfl

theorem extractBool_fail (s : Bytes) (h : (extractBool s).fail = false) :
    (extract ⟨64, true⟩ s).fail = false := by
  unfold extractBool at h
  simp only [] at h
  split at h
  · exact h
  · split at h
    · exact h
    · split at h
      · exact h
      · simp at h

theorem extractBool_renderBool (b : Bool) (ws rest : Bytes) (hws : ∀ c ∈ ws, isSpace c = true)
    (hr : startsWithDigit rest = false) :
    extractBool (ws ++ renderBool b ++ rest) = ⟨some b, false, rest⟩ := by
  have hrb : renderBool b = render (if b then 1 else 0) := by cases b <;> decide
  have hin : IntTy.inRange ⟨64, true⟩ (if b then 1 else 0) = true := by cases b <;> decide
  have := extract_render ⟨64, true⟩ (if b then 1 else 0) (by decide) hin ws rest hws hr
  unfold extractBool
  rw [hrb, this]
  cases b <;> simp

theorem extractBool_rest_length (s : Bytes) : (extractBool s).rest.length ≤ s.length := by
  rw [extractBool_rest]
  exact extract_rest_length _ s

theorem extractBool_ok_consumes (s : Bytes) (h : (extractBool s).fail = false) :
    (extractBool s).rest.length < s.length := by
  rw [extractBool_rest]
  exact extract_ok_consumes _ s (extractBool_fail s h)

/-! ### sanity checks -/

-- "-1" read into `unsigned` wraps without failbit
example : extract ⟨32, false⟩ [45, 49] = ⟨some 4294967295, false, []⟩ := by decide
-- "32768" into `short`: failbit, clamped to max
example : extract ⟨16, true⟩ [51, 50, 55, 54, 56] = ⟨some 32767, true, []⟩ := by decide
-- " -32768," into `short`
example : extract ⟨16, true⟩ [32, 45, 51, 50, 55, 54, 56, 44] = ⟨some (-32768), false, [44]⟩ := by decide
-- "-32769" into `short`: failbit, clamped to min
example : extract ⟨16, true⟩ [45, 51, 50, 55, 54, 57] = ⟨some (-32768), true, []⟩ := by decide
-- only white space: sentry fails, variable untouched
example : extract ⟨32, true⟩ [32, 9, 10] = ⟨none, true, []⟩ := by decide
-- no digit: failbit, value 0
example : extract ⟨32, true⟩ [120] = ⟨some 0, true, [120]⟩ := by decide
example : render (-120) = [45, 49, 50, 48] := by decide
example : render 0 = [48] := by decide
example : extractBool [50] = ⟨some true, true, []⟩ := by decide
example : extractBool [32, 49, 44] = ⟨some true, false, [44]⟩ := by decide

end DmlcModel.IStreamInt
