/-
The state-machine writer (`write`) agrees with the compositional specification (`enc`).
-/
import DmlcModel.Json.Model

namespace DmlcModel.Json
open DmlcModel DmlcModel.Gen.Json

/-! ### one step of the two loops -/

theorem writeArraySeperator_eq (o : Bytes) (n : Nat) (cs : List Nat) (ml : List Bool) :
    writeArraySeperator { out := o, cnt := n :: cs, ml := ml } =
      .ok { out := o ++ ((if wArrNeedSep n then arraySep else []) ++ sepBytes ml),
            cnt := (n + 1) :: cs, ml := ml } := by
  simp only [writeArraySeperator, writeSeperator, WState.emit]
  cases wArrNeedSep n <;> simp

theorem writeObjectKey_eq (k : Bytes) (o : Bytes) (n : Nat) (cs : List Nat) (ml : List Bool) :
    writeObjectKey k { out := o, cnt := n :: cs, ml := ml } =
      .ok { out := o ++ ((if wObjNeedSep n then objectSep else []) ++ sepBytes ml ++ encKey k ++ keyValueSep),
            cnt := (n + 1) :: cs, ml := ml } := by
  simp only [writeObjectKey, writeSeperator, WState.emit]
  cases wObjNeedSep n <;> simp

theorem wEndArray_eq (o : Bytes) (n : Nat) (cs : List Nat) (m : Bool) (ml : List Bool) :
    wEndArray { out := o, cnt := n :: cs, ml := m :: ml } =
      .ok { out := o ++ encClose true m n ml, cnt := cs, ml := ml } := by
  simp only [wEndArray, writeSeperator, WState.emit, encClose]
  cases wEndArrNewline m n <;> simp

theorem wEndObject_eq (o : Bytes) (n : Nat) (cs : List Nat) (m : Bool) (ml : List Bool) :
    wEndObject { out := o, cnt := n :: cs, ml := m :: ml } =
      .ok { out := o ++ encClose false m n ml, cnt := cs, ml := ml } := by
  simp only [wEndObject, writeSeperator, WState.emit, encClose]
  cases wEndObjNewline m n <;> simp

/-! ### the loops over an arbitrary element writer -/

theorem writeItems_eq (w : Val → WState → Except Err WState) (f : Val → Bytes) (ml' : List Bool)
    (xs : List Val)
    (hw : ∀ x ∈ xs, ∀ st : WState, st.ml = ml' →
      w x st = .ok { out := st.out ++ f x, cnt := st.cnt, ml := st.ml })
    (st : WState) (n : Nat) (cs : List Nat) (hc : st.cnt = n :: cs) (hm : st.ml = ml') :
    writeItems w xs st =
      .ok { out := st.out ++ encItems f ml' n xs, cnt := (n + xs.length) :: cs, ml := ml' } := by
  induction xs generalizing st n with
  | nil =>
    obtain ⟨o, c, m⟩ := st
    simp only at hc hm
    subst hc hm
    simp [writeItems, encItems]
  | cons x xs ih =>
    obtain ⟨o, c, m⟩ := st
    simp only at hc hm
    subst hc hm
    simp only [writeItems, bind, Except.bind, writeArraySeperator_eq]
    rw [hw x (by simp) _ rfl]
    simp only
    rw [ih (fun y hy => hw y (by simp [hy])) _ (n + 1) rfl rfl]
    simp [encItems, List.append_assoc, Nat.add_assoc, Nat.add_comm 1]

theorem writeMembers_eq (w : Val → WState → Except Err WState) (f : Val → Bytes) (ml' : List Bool)
    (kvs : List (Bytes × Val))
    (hw : ∀ kv ∈ kvs, ∀ st : WState, st.ml = ml' →
      w kv.2 st = .ok { out := st.out ++ f kv.2, cnt := st.cnt, ml := st.ml })
    (st : WState) (n : Nat) (cs : List Nat) (hc : st.cnt = n :: cs) (hm : st.ml = ml') :
    writeMembers w kvs st =
      .ok { out := st.out ++ encMembers f ml' n kvs, cnt := (n + kvs.length) :: cs, ml := ml' } := by
  induction kvs generalizing st n with
  | nil =>
    obtain ⟨o, c, m⟩ := st
    simp only at hc hm
    subst hc hm
    simp [writeMembers, encMembers]
  | cons kv kvs ih =>
    obtain ⟨o, c, m⟩ := st
    simp only at hc hm
    subst hc hm
    simp only [writeMembers, bind, Except.bind, writeObjectKey_eq]
    rw [hw kv (by simp) _ rfl]
    simp only
    rw [ih (fun y hy => hw y (by simp [hy])) _ (n + 1) rfl rfl]
    simp [encMembers, List.append_assoc, Nat.add_assoc, Nat.add_comm 1]

theorem hasTypeFields_length : (fs : Fields) → (vs : List Val) → hasTypeFields fs vs = true →
    fs.length = vs.length
  | .nil, [], _ => rfl
  | .nil, _ :: _, h => by simp [hasTypeFields] at h
  | .cons _ _ _ _, [], h => by simp [hasTypeFields] at h
  | .cons _ _ _ r, _ :: vs, h => by
    simp only [hasTypeFields, Bool.and_eq_true] at h
    simp [Fields.length, hasTypeFields_length r vs h.2]

/-! ### the main mutual recursion -/

mutual
/-- the state-machine writer appends exactly `enc t v ml` for a well-typed value and restores both scope stacks -/
theorem write_eq_enc : (t : JTy) → (v : Val) → (ht : hasType t v = true) → (st : WState) →
    write t v st = .ok { out := st.out ++ enc t v st.ml, cnt := st.cnt, ml := st.ml }
  | .str, v, ht, st => by
    cases v <;> simp [hasType] at ht
    simp [write, enc, WState.emit]
  | .int _ _, v, ht, st => by
    cases v <;> simp [hasType] at ht
    simp [write, enc, WState.emit]
  | .bool, v, ht, st => by
    cases v <;> simp [hasType] at ht
    simp [write, enc, WState.emit]
  | .pair a b, v, ht, st => by
    cases v <;> simp [hasType] at ht
    rename_i x y
    obtain ⟨o, c, ml⟩ := st
    simp only [write, wBeginArray, bind, Except.bind, writeArraySeperator_eq]
    rw [write_eq_enc a x ht.1]
    simp only [writeArraySeperator_eq]
    rw [write_eq_enc b y ht.2]
    simp only [wEndArray_eq]
    simp [enc, List.append_assoc, wArrNeedSep]
  | .vec e, v, ht, st => by
    cases v <;> simp [hasType] at ht
    rename_i xs
    obtain ⟨o, c, ml⟩ := st
    simp only [write, wBeginArray, bind, Except.bind]
    rw [writeItems_eq (write e) (fun x => enc e x (arrayMultiLine xs.length (isPod e) :: ml))
      (arrayMultiLine xs.length (isPod e) :: ml) xs
      (fun x hx st hm => by rw [write_eq_enc e x (ht x hx) st, hm]) _ 0 c rfl rfl]
    simp only [wEndArray_eq]
    simp [enc, List.append_assoc]
  | .list e, v, ht, st => by
    cases v <;> simp [hasType] at ht
    rename_i xs
    obtain ⟨o, c, ml⟩ := st
    simp only [write, wBeginArray, bind, Except.bind]
    rw [writeItems_eq (write e) (fun x => enc e x (arrayMultiLine xs.length (isPod e) :: ml))
      (arrayMultiLine xs.length (isPod e) :: ml) xs
      (fun x hx st hm => by rw [write_eq_enc e x (ht x hx) st, hm]) _ 0 c rfl rfl]
    simp only [wEndArray_eq]
    simp [enc, List.append_assoc]
  | .map e, v, ht, st => by
    cases v <;> simp [hasType] at ht
    rename_i kvs
    obtain ⟨o, c, ml⟩ := st
    simp only [write, wBeginObject, bind, Except.bind]
    rw [writeMembers_eq (write e) (fun x => enc e x (objectMultiLine kvs.length :: ml))
      (objectMultiLine kvs.length :: ml) kvs
      (fun kv hkv st hm => by rw [write_eq_enc e kv.2 (ht.2 kv.1 kv.2 hkv) st, hm]) _ 0 c rfl rfl]
    simp only [wEndObject_eq]
    simp [enc, List.append_assoc]
  | .umap e, v, ht, st => by
    cases v <;> simp [hasType] at ht
    rename_i kvs
    obtain ⟨o, c, ml⟩ := st
    simp only [write, wBeginObject, bind, Except.bind]
    rw [writeMembers_eq (write e) (fun x => enc e x (objectMultiLine kvs.length :: ml))
      (objectMultiLine kvs.length :: ml) kvs
      (fun kv hkv st hm => by rw [write_eq_enc e kv.2 (ht.2 kv.1 kv.2 hkv) st, hm]) _ 0 c rfl rfl]
    simp only [wEndObject_eq]
    simp [enc, List.append_assoc]
  | .any alts, v, ht, st => by
    cases v <;> simp [hasType] at ht
    rename_i name x
    obtain ⟨o, c, ml⟩ := st
    simp only [write, wBeginArray, bind, Except.bind, writeArraySeperator_eq, WState.emit]
    rw [writeAlt_eq alts name x _ ht]
    simp only [wEndArray_eq]
    simp [enc, List.append_assoc, wArrNeedSep]
  | .cls _ fs, v, ht, st => by
    cases v <;> simp [hasType] at ht
    rename_i vs
    obtain ⟨o, c, ml⟩ := st
    simp only [write, wBeginObject, bind, Except.bind]
    rw [writeFields_eq fs vs _ 0 c ht rfl]
    simp only [wEndObject_eq]
    simp [enc, List.append_assoc, hasTypeFields_length fs vs ht]

theorem writeAlt_eq : (alts : Alts) → (name : Bytes) → (v : Val) → (st : WState) →
    hasTypeAlt alts name v = true →
    writeAlt alts name v st = .ok { out := st.out ++ encAlt alts name v st.ml, cnt := st.cnt, ml := st.ml }
  | .nil, _, _, _, h => by simp [hasTypeAlt] at h
  | .cons n t r, name, v, st, h => by
    simp only [hasTypeAlt] at h
    by_cases hn : n = name
    · simp only [hn, if_true] at h
      simp only [writeAlt, encAlt, hn, if_true, bind, Except.bind]
      rw [write_eq_enc t v h st]
      simp
    · simp only [hn, if_false] at h
      simp only [writeAlt, encAlt, hn, if_false]
      exact writeAlt_eq r name v st h

theorem writeFields_eq : (fs : Fields) → (vs : List Val) → (st : WState) → (n : Nat) → (cs : List Nat) →
    hasTypeFields fs vs = true → st.cnt = n :: cs →
    writeFields fs vs st =
      .ok { out := st.out ++ encFields fs vs st.ml n, cnt := (n + vs.length) :: cs, ml := st.ml }
  | .nil, [], st, n, cs, _, hc => by
    obtain ⟨o, c, ml⟩ := st
    simp only at hc
    subst hc
    simp [writeFields, encFields]
  | .nil, _ :: _, _, _, _, h, _ => by simp [hasTypeFields] at h
  | .cons _ _ _ _, [], _, _, _, h, _ => by simp [hasTypeFields] at h
  | .cons k _ t r, v :: vs, st, n, cs, h, hc => by
    simp only [hasTypeFields, Bool.and_eq_true] at h
    obtain ⟨o, c, ml⟩ := st
    simp only at hc
    subst hc
    simp only [writeFields, bind, Except.bind, writeObjectKey_eq]
    rw [write_eq_enc t v h.1]
    simp only
    rw [writeFields_eq r vs _ (n + 1) cs h.2 rfl]
    simp [encFields, List.append_assoc, Nat.add_assoc, Nat.add_comm 1]
end

theorem writeTop_eq_enc (t : JTy) (v : Val) (ht : hasType t v = true) : writeTop t v = .ok (enc t v []) := by
  simp [writeTop, write_eq_enc t v ht]

/-- in particular the writer of a well-typed value never trips a scope CHECK, never touches an empty scope stack -/
theorem write_no_scope_error (t : JTy) (v : Val) (ht : hasType t v = true) (st : WState) :
    write t v st ≠ .error .scope ∧ write t v st ≠ .error .check ∧ write t v st ≠ .error .type := by
  rw [write_eq_enc t v ht st]
  simp

#print axioms write_eq_enc
#print axioms writeTop_eq_enc
#print axioms write_no_scope_error

end DmlcModel.Json
