/-
Round trip of the `dmlc::JSONWriter` / `dmlc::JSONReader` models: the reader positioned in front of the
writer's text of a well-typed value returns that value (maps in key-sorted canonical form), consumes exactly
the text and restores the scope stack.  Core Lean only.
-/
import DmlcModel.Json.Model
import DmlcModel.Json.IStreamIntLemmas
import DmlcModel.Json.WriterSpec
import DmlcModel.Json.WellFormed

namespace DmlcModel.Json
open DmlcModel DmlcModel.Gen.Json

set_option maxRecDepth 8000

/-! ## byte facts (brute force over the 256 values) -/

theorem byte_space_bridge : ∀ n, n < 256 →
    Gen.Json.isSpace (UInt8.ofNat n).toNat = IStreamInt.isSpace (UInt8.ofNat n) := by
  decide

theorem isSpace_bridge (c : UInt8) : Gen.Json.isSpace c.toNat = IStreamInt.isSpace c := by
  have := byte_space_bridge c.toNat c.toNat_lt
  rwa [UInt8.ofNat_toNat] at this

theorem byte_digit_space : ∀ n, n < 256 →
    (IStreamInt.isDigit (UInt8.ofNat n) = true →
      Gen.Json.isSpace (UInt8.ofNat n).toNat = false ∧ UInt8.ofNat n ≠ 93) ∧
    (Gen.Json.isSpace (UInt8.ofNat n).toNat = true → IStreamInt.isDigit (UInt8.ofNat n) = false) := by
  decide

theorem digit_not_space (c : UInt8) (h : IStreamInt.isDigit c = true) :
    Gen.Json.isSpace c.toNat = false ∧ c ≠ 93 := by
  have := byte_digit_space c.toNat c.toNat_lt
  rw [UInt8.ofNat_toNat] at this
  exact this.1 h

theorem space_not_digit (c : UInt8) (h : Gen.Json.isSpace c.toNat = true) : IStreamInt.isDigit c = false := by
  have := byte_digit_space c.toNat c.toNat_lt
  rw [UInt8.ofNat_toNat] at this
  exact this.2 h

theorem byte_escape_facts : ∀ n, n < 256 →
    ((escape (UInt8.ofNat n) = [UInt8.ofNat n] ∧ strIsEscLead (UInt8.ofNat n).toNat = false ∧
      strIsClose (UInt8.ofNat n).toNat = false ∧ strIsFatal (UInt8.ofNat n).toNat = false) ∨
     (∃ e ∈ [(114 : UInt8), 110, 92, 116, 34],
        escape (UInt8.ofNat n) = [92, e] ∧ unescape e = some (UInt8.ofNat n))) := by
  decide

theorem escape_facts (c : UInt8) :
    (escape c = [c] ∧ strIsEscLead c.toNat = false ∧ strIsClose c.toNat = false ∧ strIsFatal c.toNat = false) ∨
    (∃ e, escape c = [92, e] ∧ unescape e = some c) := by
  have := byte_escape_facts c.toNat c.toNat_lt
  rw [UInt8.ofNat_toNat] at this
  rcases this with h | ⟨e, _, h⟩
  · exact Or.inl h
  · exact Or.inr ⟨e, h⟩

/-! ## white space and what may follow a number -/

/-- all bytes are `isspace` -/
def Sp (ws : Bytes) : Prop := ∀ c ∈ ws, Gen.Json.isSpace c.toNat = true

theorem Sp.nil : Sp [] := by intro c hc; cases hc

theorem Sp.cons {c : UInt8} {ws : Bytes} (hc : Gen.Json.isSpace c.toNat = true) (h : Sp ws) : Sp (c :: ws) := by
  intro d hd
  rcases List.mem_cons.mp hd with rfl | hd
  · exact hc
  · exact h d hd

theorem Sp.tail {c : UInt8} {ws : Bytes} (h : Sp (c :: ws)) : Sp ws := fun d hd => h d (List.mem_cons_of_mem _ hd)

theorem Sp.head {c : UInt8} {ws : Bytes} (h : Sp (c :: ws)) : Gen.Json.isSpace c.toNat = true := h c (by simp)

theorem Sp.istream {ws : Bytes} (h : Sp ws) : ∀ c ∈ ws, IStreamInt.isSpace c = true := by
  intro c hc
  rw [← isSpace_bridge]
  exact h c hc

theorem isWs_space (c : UInt8) (h : Rfc.isWs c = true) : Gen.Json.isSpace c.toNat = true := by
  simp only [Rfc.isWs, Bool.or_eq_true, beq_iff_eq] at h
  rcases h with ((rfl | rfl) | rfl) | rfl <;> decide

theorem sepBytes_sp (ml : List Bool) : Sp (sepBytes ml) := fun c hc => isWs_space c (sepBytes_ws ml c hc)

theorem sp_space_cons {ws : Bytes} (h : Sp ws) : Sp (32 :: ws) := Sp.cons (by decide) h

/-- the closing part of a container: optional white space and the bracket -/
theorem encClose_arr' (m : Bool) (n : Nat) (ml : List Bool) :
    ∃ cw, Sp cw ∧ encClose true m n ml = cw ++ [93] := by
  obtain ⟨cw, h1, h2⟩ := encClose_arr m n ml
  exact ⟨cw, fun c hc => isWs_space c (h1 c hc), h2⟩

theorem encClose_obj' (m : Bool) (n : Nat) (ml : List Bool) :
    ∃ cw, Sp cw ∧ encClose false m n ml = cw ++ [125] := by
  obtain ⟨cw, h1, h2⟩ := encClose_obj m n ml
  exact ⟨cw, fun c hc => isWs_space c (h1 c hc), h2⟩

/-- white space followed by a non-digit does not start with a digit -/
theorem noDigit_ws (ws : Bytes) (c : UInt8) (r : Bytes) (hws : Sp ws) (hc : IStreamInt.isDigit c = false) :
    IStreamInt.startsWithDigit (ws ++ c :: r) = false := by
  cases ws with
  | nil => simpa [IStreamInt.startsWithDigit] using hc
  | cons w ws => simpa [IStreamInt.startsWithDigit] using space_not_digit w hws.head

/-! ## the primitives on the writer's text -/

theorem nextNonSpaceGo_ws (ws : Bytes) (hws : Sp ws) (c : UInt8) (hc : Gen.Json.isSpace c.toNat = false)
    (r : Bytes) : ∀ lr ln, ∃ lr' ln', nextNonSpaceGo (ws ++ c :: r) lr ln = (some c, r, lr', ln') := by
  induction ws with
  | nil =>
    intro lr ln
    simp only [List.nil_append, nextNonSpaceGo, hc]
    exact ⟨_, _, rfl⟩
  | cons w ws ih =>
    intro lr ln
    simp only [List.cons_append, nextNonSpaceGo, hws.head, if_true]
    exact ih hws.tail _ _

theorem peekNonSpaceGo_ws (ws : Bytes) (hws : Sp ws) (c : UInt8) (hc : Gen.Json.isSpace c.toNat = false)
    (r : Bytes) : ∀ lr ln, ∃ lr' ln', peekNonSpaceGo (ws ++ c :: r) lr ln = (some c, c :: r, lr', ln') := by
  induction ws with
  | nil =>
    intro lr ln
    simp only [List.nil_append, peekNonSpaceGo, hc]
    exact ⟨_, _, rfl⟩
  | cons w ws ih =>
    intro lr ln
    simp only [List.cons_append, peekNonSpaceGo, hws.head, if_true]
    exact ih hws.tail _ _

theorem nextNonSpace_ws (ws : Bytes) (hws : Sp ws) (c : UInt8) (hc : Gen.Json.isSpace c.toNat = false)
    (r : Bytes) (lr ln : Nat) (sc : List Nat) :
    ∃ lr' ln', nextNonSpace ⟨ws ++ c :: r, lr, ln, sc⟩ = (some c, ⟨r, lr', ln', sc⟩) := by
  obtain ⟨lr', ln', h⟩ := nextNonSpaceGo_ws ws hws c hc r lr ln
  exact ⟨lr', ln', by simp [nextNonSpace, h]⟩

theorem peekNonSpace_ws (ws : Bytes) (hws : Sp ws) (c : UInt8) (hc : Gen.Json.isSpace c.toNat = false)
    (r : Bytes) (lr ln : Nat) (sc : List Nat) :
    ∃ lr' ln', peekNonSpace ⟨ws ++ c :: r, lr, ln, sc⟩ = (some c, ⟨c :: r, lr', ln', sc⟩) := by
  obtain ⟨lr', ln', h⟩ := peekNonSpaceGo_ws ws hws c hc r lr ln
  exact ⟨lr', ln', by simp [peekNonSpace, h]⟩

/-! ### strings -/

theorem readStrGo_escape (c : UInt8) (tail s' rest' : Bytes) (h : readStrGo tail = some (s', rest')) :
    readStrGo (escape c ++ tail) = some (c :: s', rest') := by
  rcases escape_facts c with ⟨h1, h2, h3, h4⟩ | ⟨e, h1, h2⟩
  · rw [h1]
    show readStrGo (c :: tail) = _
    unfold readStrGo
    simp [h2, h3, h4, h]
  · rw [h1]
    have h92 : strIsEscLead (92 : UInt8).toNat = true := by decide
    show readStrGo (92 :: e :: tail) = _
    rw [readStrGo]
    simp only [h92, if_true, h2, h]

theorem readStrGo_flat (s rest : Bytes) : readStrGo (s.flatMap escape ++ 34 :: rest) = some (s, rest) := by
  induction s with
  | nil =>
    have h1 : strIsEscLead (34 : UInt8).toNat = false := by decide
    have h2 : strIsClose (34 : UInt8).toNat = true := by decide
    show readStrGo (34 :: rest) = _
    unfold readStrGo
    simp only [h1, h2, if_true, Bool.false_eq_true, if_false]
  | cons c s ih =>
    rw [List.flatMap_cons, List.append_assoc]
    exact readStrGo_escape c _ _ _ ih

/-- `ReadString` on `WriteString`'s text, normal form of the input -/
theorem readString_core (ws : Bytes) (hws : Sp ws) (s r : Bytes) (lr ln : Nat) (sc : List Nat) :
    ∃ lr' ln', readString ⟨ws ++ 34 :: (s.flatMap escape ++ 34 :: r), lr, ln, sc⟩
      = .ok (s, ⟨r, lr', ln', sc⟩) := by
  obtain ⟨lr', ln', h⟩ := nextNonSpace_ws ws hws 34 (by decide) (s.flatMap escape ++ 34 :: r) lr ln sc
  refine ⟨lr', ln', ?_⟩
  have h34 : ((34 : UInt8) == rStrOpen) = true := by decide
  simp [readString, h, h34, readStrGo_flat]

theorem encString_append (s r : Bytes) : encString s ++ r = 34 :: (s.flatMap escape ++ 34 :: r) := by
  simp [encString, strOpen, strClose]

theorem readString_enc (ws : Bytes) (hws : Sp ws) (s r : Bytes) (lr ln : Nat) (sc : List Nat) :
    ∃ lr' ln', readString ⟨ws ++ (encString s ++ r), lr, ln, sc⟩ = .ok (s, ⟨r, lr', ln', sc⟩) := by
  rw [encString_append]
  exact readString_core ws hws s r lr ln sc

/-! ### numbers -/

/-- `IStreamInt.extract_render` without the (unused) hypothesis `0 < t.bits` -/
theorem extract_render' (t : IStreamInt.IntTy) (v : Int) (hv : t.inRange v = true) (ws rest : Bytes)
    (hws : ∀ c ∈ ws, IStreamInt.isSpace c = true) (hr : IStreamInt.startsWithDigit rest = false) :
    IStreamInt.extract t (ws ++ IStreamInt.render v ++ rest) = ⟨some v, false, rest⟩ := by
  unfold IStreamInt.IntTy.inRange at hv
  rw [Bool.and_eq_true, decide_eq_true_eq, decide_eq_true_eq] at hv
  simp only [IStreamInt.IntTy.minVal, IStreamInt.IntTy.maxVal] at hv
  obtain ⟨hlo, hhi⟩ := hv
  rw [IStreamInt.two_pow_cast] at hlo
  rw [IStreamInt.two_pow_cast, IStreamInt.two_pow_cast] at hhi
  have hP : 0 < 2 ^ (t.bits - 1) := Nat.two_pow_pos _
  have hQ : 0 < 2 ^ t.bits := Nat.two_pow_pos _
  rw [List.append_assoc]
  by_cases hneg : v < 0
  · have hsg : t.signed = true := by
      cases hsg : t.signed with
      | true => rfl
      | false => rw [hsg] at hlo; simp at hlo; omega
    have hrender : IStreamInt.render v = 45 :: IStreamInt.natDigits v.natAbs := by
      simp [IStreamInt.render, hneg]
    have hskip : IStreamInt.skipSpace (ws ++ (IStreamInt.render v ++ rest))
        = 45 :: (IStreamInt.natDigits v.natAbs ++ rest) := by
      rw [IStreamInt.skipSpace_append ws _ hws]
      · rw [hrender]; rfl
      · intro c cs hcs
        rw [hrender] at hcs
        simp at hcs
        rw [← hcs.1]
        decide
    rw [IStreamInt.extract_neg_form t _ _ rest hskip (IStreamInt.natDigits_ne_nil _)
      (IStreamInt.natDigits_all_digit _) hr]
    rw [IStreamInt.digitsVal_natDigits]
    simp only [hsg, if_true] at hlo ⊢
    simp only [IStreamInt.IntTy.limit, hsg, if_true]
    generalize 2 ^ (t.bits - 1) = P at *
    have h1 : ¬ (P < v.natAbs) := by omega
    have h2 : -(v.natAbs : Int) = v := by omega
    simp [h1, h2]
  · have hrender : IStreamInt.render v = IStreamInt.natDigits v.toNat := by simp [IStreamInt.render, hneg]
    obtain ⟨c, cs, hcs, hc⟩ := IStreamInt.natDigits_head_digit v.toNat
    have hskip : IStreamInt.skipSpace (ws ++ (IStreamInt.render v ++ rest))
        = IStreamInt.natDigits v.toNat ++ rest := by
      rw [IStreamInt.skipSpace_append ws _ hws]
      · rw [hrender]
      · intro c' cs' hcs'
        rw [hrender, hcs] at hcs'
        simp at hcs'
        rw [← hcs'.1]
        exact (IStreamInt.isDigit_facts c hc).1
    rw [IStreamInt.extract_pos_form t _ _ rest hskip (IStreamInt.natDigits_ne_nil _)
      (IStreamInt.natDigits_all_digit _) hr]
    rw [IStreamInt.digitsVal_natDigits]
    have h2 : (v.toNat : Int) = v := by omega
    have h1 : ¬ (t.limit false < v.toNat) := by
      simp only [IStreamInt.IntTy.limit]
      cases hsg : t.signed with
      | true =>
        rw [hsg] at hhi
        simp only [if_true] at hhi ⊢
        generalize 2 ^ (t.bits - 1) = P at *
        simp
        omega
      | false =>
        rw [hsg] at hhi
        simp only [Bool.false_eq_true, if_false] at hhi ⊢
        generalize 2 ^ t.bits = Q at *
        omega
    simp [h1, h2]

theorem readNumber_enc (bits : Nat) (sg : Bool) (v : Int) (hv : (IStreamInt.IntTy.mk bits sg).inRange v = true)
    (ws : Bytes) (hws : Sp ws) (r : Bytes) (hr : IStreamInt.startsWithDigit r = false)
    (lr ln : Nat) (sc : List Nat) :
    readNumber bits sg ⟨ws ++ (IStreamInt.render v ++ r), lr, ln, sc⟩ = .ok (v, ⟨r, lr, ln, sc⟩) := by
  have h := extract_render' ⟨bits, sg⟩ v hv ws r hws.istream hr
  rw [List.append_assoc] at h
  simp [readNumber, h]

theorem readBool_enc (b : Bool) (ws : Bytes) (hws : Sp ws) (r : Bytes)
    (hr : IStreamInt.startsWithDigit r = false) (lr ln : Nat) (sc : List Nat) :
    readBool ⟨ws ++ (IStreamInt.renderBool b ++ r), lr, ln, sc⟩ = .ok (b, ⟨r, lr, ln, sc⟩) := by
  have h := IStreamInt.extractBool_renderBool b ws r hws.istream hr
  rw [List.append_assoc] at h
  simp [readBool, h]

/-! ### brackets, array items, object items -/

theorem rBeginArray_eq (ws : Bytes) (hws : Sp ws) (r : Bytes) (lr ln : Nat) (sc : List Nat) :
    ∃ lr' ln', rBeginArray ⟨ws ++ 91 :: r, lr, ln, sc⟩ = .ok ⟨r, lr', ln', 0 :: sc⟩ := by
  obtain ⟨lr', ln', h⟩ := nextNonSpace_ws ws hws 91 (by decide) r lr ln sc
  have h91 : ((91 : UInt8) == rOpenArr) = true := by decide
  exact ⟨lr', ln', by simp [rBeginArray, h, h91]⟩

theorem rBeginObject_eq (ws : Bytes) (hws : Sp ws) (r : Bytes) (lr ln : Nat) (sc : List Nat) :
    ∃ lr' ln', rBeginObject ⟨ws ++ 123 :: r, lr, ln, sc⟩ = .ok ⟨r, lr', ln', 0 :: sc⟩ := by
  obtain ⟨lr', ln', h⟩ := nextNonSpace_ws ws hws 123 (by decide) r lr ln sc
  have h123 : ((123 : UInt8) == rOpenObj) = true := by decide
  exact ⟨lr', ln', by simp [rBeginObject, h, h123]⟩

/-- the text starts with a byte that is neither white space nor `]` -/
def Hd (b : Bytes) : Prop := ∃ c cs, b = c :: cs ∧ Gen.Json.isSpace c.toNat = false ∧ c ≠ 93

theorem Hd.length_pos {b : Bytes} (h : Hd b) : 0 < b.length := by
  obtain ⟨c, cs, rfl, _⟩ := h
  simp

/-- first item: the reader peeks, the text of the item stays -/
theorem nextArrayItem_first (ws : Bytes) (hws : Sp ws) (b : Bytes) (hb : Hd b) (r : Bytes)
    (lr ln : Nat) (sc : List Nat) :
    ∃ lr' ln', nextArrayItem ⟨ws ++ (b ++ r), lr, ln, 0 :: sc⟩ = .ok (true, ⟨b ++ r, lr', ln', 1 :: sc⟩) := by
  obtain ⟨c, cs, rfl, hc, h93⟩ := hb
  obtain ⟨lr', ln', h⟩ := peekNonSpace_ws ws hws c hc (cs ++ r) lr ln (0 :: sc)
  refine ⟨lr', ln', ?_⟩
  have h0 : rArrNotFirst 0 = false := by decide
  have hne : (some c == some rArrCloseFirst) = false := by
    simp [rArrCloseFirst, h93]
  simp only [List.cons_append] at h ⊢
  simp [nextArrayItem, h0, h, hne]

theorem nextArrayItem_comma (i : Nat) (hi : i ≠ 0) (ws : Bytes) (hws : Sp ws) (r : Bytes)
    (lr ln : Nat) (sc : List Nat) :
    ∃ lr' ln', nextArrayItem ⟨ws ++ 44 :: r, lr, ln, i :: sc⟩ = .ok (true, ⟨r, lr', ln', (i + 1) :: sc⟩) := by
  obtain ⟨lr', ln', h⟩ := nextNonSpace_ws ws hws 44 (by decide) r lr ln (i :: sc)
  refine ⟨lr', ln', ?_⟩
  have h0 : rArrNotFirst i = true := by simp [rArrNotFirst, hi]
  have h1 : ((44 : UInt8) == rArrClose) = false := by decide
  have h2 : ((44 : UInt8) == rArrComma) = true := by decide
  simp [nextArrayItem, h0, h, h1, h2]

theorem nextArrayItem_close (i : Nat) (ws : Bytes) (hws : Sp ws) (r : Bytes)
    (lr ln : Nat) (sc : List Nat) :
    ∃ lr' ln', nextArrayItem ⟨ws ++ 93 :: r, lr, ln, i :: sc⟩ = .ok (false, ⟨r, lr', ln', sc⟩) := by
  by_cases hi : i = 0
  · subst hi
    obtain ⟨lr', ln', h⟩ := peekNonSpace_ws ws hws 93 (by decide) r lr ln (0 :: sc)
    refine ⟨lr', ln', ?_⟩
    have h0 : rArrNotFirst 0 = false := by decide
    have h1 : (some (93 : UInt8) == some rArrCloseFirst) = true := by decide
    simp [nextArrayItem, h0, h, h1, nextChar]
  · obtain ⟨lr', ln', h⟩ := nextNonSpace_ws ws hws 93 (by decide) r lr ln (i :: sc)
    refine ⟨lr', ln', ?_⟩
    have h0 : rArrNotFirst i = true := by simp [rArrNotFirst, hi]
    have h1 : ((93 : UInt8) == rArrClose) = true := by decide
    simp [nextArrayItem, h0, h, h1]

/-- item number `i` as `WriteArrayItem` lays it out: the reader stands in front of the item's text,
possibly after some white space -/
theorem nextArrayItem_item (i : Nat) (ws : Bytes) (hws : Sp ws) (b : Bytes) (hb : Hd b) (r : Bytes)
    (lr ln : Nat) (sc : List Nat) :
    ∃ ws' lr' ln', Sp ws' ∧
      nextArrayItem ⟨(if wArrNeedSep i then arraySep else []) ++ (ws ++ (b ++ r)), lr, ln, i :: sc⟩
        = .ok (true, ⟨ws' ++ (b ++ r), lr', ln', (i + 1) :: sc⟩) := by
  by_cases hi : i = 0
  · subst hi
    obtain ⟨lr', ln', h⟩ := nextArrayItem_first ws hws b hb r lr ln sc
    refine ⟨[], lr', ln', Sp.nil, ?_⟩
    have h0 : wArrNeedSep 0 = false := by decide
    simpa [h0] using h
  · obtain ⟨lr', ln', h⟩ := nextArrayItem_comma i hi [] Sp.nil (32 :: (ws ++ (b ++ r))) lr ln sc
    refine ⟨32 :: ws, lr', ln', sp_space_cons hws, ?_⟩
    have h0 : wArrNeedSep i = true := by simp [wArrNeedSep, hi]
    simpa [h0, arraySep] using h

theorem nextObjectItem_close (i : Nat) (ws : Bytes) (hws : Sp ws) (r : Bytes)
    (lr ln : Nat) (sc : List Nat) :
    ∃ lr' ln', nextObjectItem ⟨ws ++ 125 :: r, lr, ln, i :: sc⟩ = .ok (none, ⟨r, lr', ln', sc⟩) := by
  by_cases hi : i = 0
  · subst hi
    obtain ⟨lr', ln', h⟩ := peekNonSpace_ws ws hws 125 (by decide) r lr ln (0 :: sc)
    refine ⟨lr', ln', ?_⟩
    have h0 : rObjNotFirst 0 = false := by decide
    have h1 : (some (125 : UInt8) == some rObjCloseFirst) = true := by decide
    simp [nextObjectItem, h0, h, h1, nextChar]
  · obtain ⟨lr', ln', h⟩ := nextNonSpace_ws ws hws 125 (by decide) r lr ln (i :: sc)
    refine ⟨lr', ln', ?_⟩
    have h0 : rObjNotFirst i = true := by simp [rObjNotFirst, hi]
    have h1 : ((125 : UInt8) == rObjClose) = true := by decide
    simp [nextObjectItem, h0, h, h1]

/-- first member: peek, key, colon -/
theorem nextObjectItem_first (ws : Bytes) (hws : Sp ws) (k r : Bytes) (lr ln : Nat) (sc : List Nat) :
    ∃ lr' ln', nextObjectItem ⟨ws ++ 34 :: (k.flatMap escape ++ 34 :: 58 :: r), lr, ln, 0 :: sc⟩
      = .ok (some k, ⟨r, lr', ln', 1 :: sc⟩) := by
  obtain ⟨lr1, ln1, h1⟩ := peekNonSpace_ws ws hws 34 (by decide) (k.flatMap escape ++ 34 :: 58 :: r) lr ln (0 :: sc)
  obtain ⟨lr2, ln2, h2⟩ := readString_core [] Sp.nil k (58 :: r) lr1 ln1 (1 :: sc)
  obtain ⟨lr3, ln3, h3⟩ := nextNonSpace_ws [] Sp.nil 58 (by decide) r lr2 ln2 (1 :: sc)
  refine ⟨lr3, ln3, ?_⟩
  have h0 : rObjNotFirst 0 = false := by decide
  have hne : (some (34 : UInt8) == some rObjCloseFirst) = false := by decide
  have hcol : ((58 : UInt8) == rColon) = true := by decide
  simp only [List.nil_append] at h2 h3
  simp [nextObjectItem, h0, h1, hne, h2, h3, hcol]

/-- later members: comma, key, colon -/
theorem nextObjectItem_comma (i : Nat) (hi : i ≠ 0) (ws : Bytes) (hws : Sp ws) (ws1 : Bytes) (hws1 : Sp ws1)
    (k r : Bytes) (lr ln : Nat) (sc : List Nat) :
    ∃ lr' ln', nextObjectItem ⟨ws ++ 44 :: (ws1 ++ 34 :: (k.flatMap escape ++ 34 :: 58 :: r)), lr, ln, i :: sc⟩
      = .ok (some k, ⟨r, lr', ln', (i + 1) :: sc⟩) := by
  obtain ⟨lr1, ln1, h1⟩ := nextNonSpace_ws ws hws 44 (by decide)
    (ws1 ++ 34 :: (k.flatMap escape ++ 34 :: 58 :: r)) lr ln (i :: sc)
  obtain ⟨lr2, ln2, h2⟩ := readString_core ws1 hws1 k (58 :: r) lr1 ln1 ((i + 1) :: sc)
  obtain ⟨lr3, ln3, h3⟩ := nextNonSpace_ws [] Sp.nil 58 (by decide) r lr2 ln2 ((i + 1) :: sc)
  refine ⟨lr3, ln3, ?_⟩
  have h0 : rObjNotFirst i = true := by simp [rObjNotFirst, hi]
  have hc1 : ((44 : UInt8) == rObjClose) = false := by decide
  have hc2 : ((44 : UInt8) == rObjComma) = true := by decide
  have hcol : ((58 : UInt8) == rColon) = true := by decide
  simp only [List.nil_append] at h3
  simp [nextObjectItem, h0, h1, hc1, hc2, h2, h3, hcol]

/-- member number `i` as `WriteObjectKeyValue` lays it out: the reader returns the key and stands in
front of the blank that precedes the value -/
theorem nextObjectItem_member (i : Nat) (ws : Bytes) (hws : Sp ws) (k r : Bytes)
    (lr ln : Nat) (sc : List Nat) :
    ∃ lr' ln', nextObjectItem
        ⟨(if wObjNeedSep i then objectSep else []) ++ (ws ++ (encKey k ++ (keyValueSep ++ r))), lr, ln, i :: sc⟩
      = .ok (some k, ⟨32 :: r, lr', ln', (i + 1) :: sc⟩) := by
  have hk : encKey k ++ (keyValueSep ++ r) = 34 :: (k.flatMap escape ++ 34 :: 58 :: 32 :: r) := by
    rw [encKey_eq, encString_append]
    simp [keyValueSep]
  rw [hk]
  by_cases hi : i = 0
  · subst hi
    obtain ⟨lr', ln', h⟩ := nextObjectItem_first ws hws k (32 :: r) lr ln sc
    refine ⟨lr', ln', ?_⟩
    have h0 : wObjNeedSep 0 = false := by decide
    simpa [h0] using h
  · obtain ⟨lr', ln', h⟩ := nextObjectItem_comma i hi [] Sp.nil (32 :: ws) (sp_space_cons hws) k (32 :: r) lr ln sc
    refine ⟨lr', ln', ?_⟩
    have h0 : wObjNeedSep i = true := by simp [wObjNeedSep]; omega
    simpa [h0, objectSep] using h

/-! ## the loops over the writer's layout -/

/-- `rd`, started after any white space in front of the text `b`, returns `out`, leaves exactly what
follows `b` (which must not start with a digit) and restores the scope stack -/
def Reads (rd : Rd) (b : Bytes) (out : Val) : Prop :=
  ∀ (ws rest : Bytes) (lr ln : Nat) (sc : List Nat), Sp ws → IStreamInt.startsWithDigit rest = false →
    ∃ lr' ln', rd ⟨ws ++ (b ++ rest), lr, ln, sc⟩ = .ok (out, ⟨rest, lr', ln', sc⟩)

theorem encItems_tail_noDigit (f : Val → Bytes) (ml : List Bool) (i : Nat) (xs : List Val)
    (cw : Bytes) (hcw : Sp cw) (c : UInt8) (hc : IStreamInt.isDigit c = false) (rest : Bytes) :
    IStreamInt.startsWithDigit (encItems f ml (i + 1) xs ++ (cw ++ c :: rest)) = false := by
  cases xs with
  | nil => simpa [encItems] using noDigit_ws cw c rest hcw hc
  | cons x xs =>
    have h0 : wArrNeedSep (i + 1) = true := by simp [wArrNeedSep]
    simp [encItems, h0, arraySep, IStreamInt.startsWithDigit]
    decide

theorem encItems_length (f : Val → Bytes) (ml : List Bool) (xs : List Val) (h : ∀ x ∈ xs, Hd (f x)) :
    ∀ i, xs.length ≤ (encItems f ml i xs).length := by
  induction xs with
  | nil => intro i; simp
  | cons x xs ih =>
    intro i
    have h1 := (h x (by simp)).length_pos
    have h2 := ih (fun y hy => h y (by simp [hy])) (i + 1)
    simp only [encItems, List.length_append, List.length_cons]
    omega

theorem arrayLoop_items (rd : Rd) (f : Val → Bytes) (g : Val → Val) (ml : List Bool) (cw rest : Bytes)
    (hcw : Sp cw) (sc : List Nat) :
    ∀ (xs : List Val), (∀ x ∈ xs, Reads rd (f x) (g x) ∧ Hd (f x)) →
    ∀ (i fuel lr ln : Nat), xs.length < fuel →
    ∃ lr' ln', arrayLoop rd fuel ⟨encItems f ml i xs ++ (cw ++ 93 :: rest), lr, ln, i :: sc⟩
      = .ok (xs.map g, ⟨rest, lr', ln', sc⟩) := by
  intro xs
  induction xs with
  | nil =>
    intro _ i fuel lr ln hf
    cases fuel with
    | zero => omega
    | succ fuel =>
      obtain ⟨lr', ln', h⟩ := nextArrayItem_close i cw hcw rest lr ln sc
      refine ⟨lr', ln', ?_⟩
      simp only [encItems, List.nil_append, List.map_nil]
      rw [arrayLoop, h]
  | cons x xs ih =>
    intro hx i fuel lr ln hf
    cases fuel with
    | zero => omega
    | succ fuel =>
      have hx1 := hx x (by simp)
      have hnd := encItems_tail_noDigit f ml i xs cw hcw 93 (by decide) rest
      obtain ⟨ws1, lr1, ln1, hws1, h1⟩ := nextArrayItem_item i (sepBytes ml) (sepBytes_sp ml) (f x) hx1.2
        (encItems f ml (i + 1) xs ++ (cw ++ 93 :: rest)) lr ln sc
      obtain ⟨lr2, ln2, h2⟩ := hx1.1 ws1 _ lr1 ln1 ((i + 1) :: sc) hws1 hnd
      obtain ⟨lr3, ln3, h3⟩ := ih (fun y hy => hx y (by simp [hy])) (i + 1) fuel lr2 ln2
        (by simp only [List.length_cons] at hf; omega)
      refine ⟨lr3, ln3, ?_⟩
      have e : encItems f ml i (x :: xs) ++ (cw ++ 93 :: rest)
          = (if wArrNeedSep i then arraySep else []) ++ (sepBytes ml ++ (f x ++
              (encItems f ml (i + 1) xs ++ (cw ++ 93 :: rest)))) := by
        simp [encItems, List.append_assoc]
      rw [e, arrayLoop, h1]
      simp only []
      rw [h2]
      simp only []
      rw [h3]
      simp

theorem encMembers_tail_noDigit (f : Val → Bytes) (ml : List Bool) (i : Nat) (kvs : List (Bytes × Val))
    (cw : Bytes) (hcw : Sp cw) (c : UInt8) (hc : IStreamInt.isDigit c = false) (rest : Bytes) :
    IStreamInt.startsWithDigit (encMembers f ml (i + 1) kvs ++ (cw ++ c :: rest)) = false := by
  cases kvs with
  | nil => simpa [encMembers] using noDigit_ws cw c rest hcw hc
  | cons x xs =>
    have h0 : wObjNeedSep (i + 1) = true := by simp [wObjNeedSep]
    simp [encMembers, h0, objectSep, IStreamInt.startsWithDigit]
    decide

theorem encMembers_length (f : Val → Bytes) (ml : List Bool) (kvs : List (Bytes × Val)) :
    ∀ i, kvs.length ≤ (encMembers f ml i kvs).length := by
  induction kvs with
  | nil => intro i; simp
  | cons x xs ih =>
    intro i
    have h2 := ih (i + 1)
    simp only [encMembers, List.length_append, List.length_cons, keyValueSep]
    omega

theorem objectLoop_members (rd : Rd) (f : Val → Bytes) (g : Val → Val) (ml : List Bool) (cw rest : Bytes)
    (hcw : Sp cw) (sc : List Nat) :
    ∀ (kvs : List (Bytes × Val)), (∀ kv ∈ kvs, Reads rd (f kv.2) (g kv.2)) →
    ∀ (i fuel lr ln : Nat), kvs.length < fuel →
    ∃ lr' ln', objectLoop rd fuel ⟨encMembers f ml i kvs ++ (cw ++ 125 :: rest), lr, ln, i :: sc⟩
      = .ok (kvs.map (fun kv => (kv.1, g kv.2)), ⟨rest, lr', ln', sc⟩) := by
  intro kvs
  induction kvs with
  | nil =>
    intro _ i fuel lr ln hf
    cases fuel with
    | zero => omega
    | succ fuel =>
      obtain ⟨lr', ln', h⟩ := nextObjectItem_close i cw hcw rest lr ln sc
      refine ⟨lr', ln', ?_⟩
      simp only [encMembers, List.nil_append, List.map_nil]
      rw [objectLoop, h]
  | cons x xs ih =>
    intro hx i fuel lr ln hf
    cases fuel with
    | zero => omega
    | succ fuel =>
      have hx1 := hx x (by simp)
      have hnd := encMembers_tail_noDigit f ml i xs cw hcw 125 (by decide) rest
      obtain ⟨lr1, ln1, h1⟩ := nextObjectItem_member i (sepBytes ml) (sepBytes_sp ml) x.1
        (f x.2 ++ (encMembers f ml (i + 1) xs ++ (cw ++ 125 :: rest))) lr ln sc
      obtain ⟨lr2, ln2, h2⟩ := hx1 [32] _ lr1 ln1 ((i + 1) :: sc) (sp_space_cons Sp.nil) hnd
      obtain ⟨lr3, ln3, h3⟩ := ih (fun y hy => hx y (by simp [hy])) (i + 1) fuel lr2 ln2
        (by simp only [List.length_cons] at hf; omega)
      refine ⟨lr3, ln3, ?_⟩
      have e : encMembers f ml i (x :: xs) ++ (cw ++ 125 :: rest)
          = (if wObjNeedSep i then objectSep else []) ++ (sepBytes ml ++ (encKey x.1 ++ (keyValueSep ++
              (f x.2 ++ (encMembers f ml (i + 1) xs ++ (cw ++ 125 :: rest)))))) := by
        simp [encMembers, List.append_assoc]
      simp only [List.cons_append, List.nil_append] at h2
      rw [e, objectLoop, h1]
      simp only []
      rw [h2]
      simp only []
      rw [h3]
      simp

/-! ### class fields -/

/-- (field name, text of the value, value read back) -/
abbrev Entry := Bytes × Bytes × Val

/-- `encFields` over entries -/
def membersE (ml : List Bool) : Nat → List Entry → Bytes
  | _, [] => []
  | i, e :: es =>
    (if wObjNeedSep i then objectSep else []) ++ sepBytes ml ++ encKey e.1 ++ keyValueSep ++ e.2.1
      ++ membersE ml (i + 1) es

/-- `look` finds entry number `j` (counted from `i`) under its name, with a reader for its text -/
def LookOK (look : Bytes → Option (Nat × Rd)) : Nat → List Entry → Prop
  | _, [] => True
  | i, e :: es => (∃ rd, look e.1 = some (i, rd) ∧ Reads rd e.2.1 e.2.2) ∧ LookOK look (i + 1) es

theorem LookOK.congr (look look' : Bytes → Option (Nat × Rd)) : ∀ (es : List Entry) (i : Nat),
    (∀ e ∈ es, look' e.1 = look e.1) → LookOK look i es → LookOK look' i es := by
  intro es
  induction es with
  | nil => intro i _ _; trivial
  | cons e es ih =>
    intro i hc h
    obtain ⟨⟨rd, h1, h2⟩, h3⟩ := h
    refine ⟨⟨rd, ?_, h2⟩, ih (i + 1) (fun e' he' => hc e' (by simp [he'])) h3⟩
    rw [hc e (by simp)]
    exact h1

def setSlots : List (Option Val) → Nat → List Val → List (Option Val)
  | sl, _, [] => sl
  | sl, i, o :: os => setSlots (setSlot sl i o) (i + 1) os

theorem setSlot_append (pre : List Val) (tl : List (Option Val)) (o : Val) :
    setSlot (pre.map some ++ none :: tl) pre.length o = pre.map some ++ some o :: tl := by
  induction pre with
  | nil => simp [setSlot]
  | cons p pre ih => simp [setSlot, ih]

theorem setSlots_fill : ∀ (os pre : List Val) (k : Nat),
    setSlots (pre.map some ++ List.replicate (os.length + k) none) pre.length os
      = (pre ++ os).map some ++ List.replicate k none := by
  intro os
  induction os with
  | nil => intro pre k; simp [setSlots]
  | cons o os ih =>
    intro pre k
    have e1 : List.replicate ((o :: os).length + k) (none : Option Val)
        = none :: List.replicate (os.length + k) none := by
      have : (o :: os).length + k = (os.length + k) + 1 := by simp only [List.length_cons]; omega
      rw [this, List.replicate_succ]
    rw [e1, setSlots, setSlot_append]
    have := ih (pre ++ [o]) k
    simp only [List.map_append, List.map_cons, List.map_nil, List.length_append, List.length_cons,
      List.length_nil, List.append_assoc, List.cons_append, List.nil_append] at this ⊢
    exact this

theorem setSlots_replicate (os : List Val) : setSlots (List.replicate os.length none) 0 os = os.map some := by
  simpa using setSlots_fill os [] 0

theorem membersE_tail_noDigit (ml : List Bool) (i : Nat) (es : List Entry)
    (cw : Bytes) (hcw : Sp cw) (c : UInt8) (hc : IStreamInt.isDigit c = false) (rest : Bytes) :
    IStreamInt.startsWithDigit (membersE ml (i + 1) es ++ (cw ++ c :: rest)) = false := by
  cases es with
  | nil => simpa [membersE] using noDigit_ws cw c rest hcw hc
  | cons x xs =>
    have h0 : wObjNeedSep (i + 1) = true := by simp [wObjNeedSep]
    simp [membersE, h0, objectSep, IStreamInt.startsWithDigit]
    decide

theorem membersE_length (ml : List Bool) (es : List Entry) :
    ∀ i, es.length ≤ (membersE ml i es).length := by
  induction es with
  | nil => intro i; simp
  | cons x xs ih =>
    intro i
    have h2 := ih (i + 1)
    simp only [membersE, List.length_append, List.length_cons, keyValueSep]
    omega

theorem fieldLoop_entries (look : Bytes → Option (Nat × Rd)) (ml : List Bool) (cw rest : Bytes)
    (hcw : Sp cw) (sc : List Nat) :
    ∀ (es : List Entry) (i fuel lr ln : Nat) (slots : List (Option Val)), LookOK look i es → es.length < fuel →
    ∃ lr' ln', fieldLoop look fuel ⟨membersE ml i es ++ (cw ++ 125 :: rest), lr, ln, i :: sc⟩ slots
      = .ok (setSlots slots i (es.map (fun e => e.2.2)), ⟨rest, lr', ln', sc⟩) := by
  intro es
  induction es with
  | nil =>
    intro i fuel lr ln slots _ hf
    cases fuel with
    | zero => omega
    | succ fuel =>
      obtain ⟨lr', ln', h⟩ := nextObjectItem_close i cw hcw rest lr ln sc
      refine ⟨lr', ln', ?_⟩
      simp only [membersE, List.nil_append, List.map_nil, setSlots]
      rw [fieldLoop, h]
  | cons x xs ih =>
    intro i fuel lr ln slots hl hf
    cases fuel with
    | zero => omega
    | succ fuel =>
      obtain ⟨⟨rd, hlook, hrd⟩, hl'⟩ := hl
      have hnd := membersE_tail_noDigit ml i xs cw hcw 125 (by decide) rest
      obtain ⟨lr1, ln1, h1⟩ := nextObjectItem_member i (sepBytes ml) (sepBytes_sp ml) x.1
        (x.2.1 ++ (membersE ml (i + 1) xs ++ (cw ++ 125 :: rest))) lr ln sc
      obtain ⟨lr2, ln2, h2⟩ := hrd [32] _ lr1 ln1 ((i + 1) :: sc) (sp_space_cons Sp.nil) hnd
      obtain ⟨lr3, ln3, h3⟩ := ih (i + 1) fuel lr2 ln2 (setSlot slots i x.2.2) hl'
        (by simp only [List.length_cons] at hf; omega)
      refine ⟨lr3, ln3, ?_⟩
      have e : membersE ml i (x :: xs) ++ (cw ++ 125 :: rest)
          = (if wObjNeedSep i then objectSep else []) ++ (sepBytes ml ++ (encKey x.1 ++ (keyValueSep ++
              (x.2.1 ++ (membersE ml (i + 1) xs ++ (cw ++ 125 :: rest)))))) := by
        simp [membersE, List.append_assoc]
      simp only [List.cons_append, List.nil_append] at h2
      rw [e, fieldLoop, h1]
      simp only [hlook]
      rw [h2]
      simp only [List.map_cons, setSlots]
      exact h3

/-! ## the container readers on the writer's layout -/

def pairRd (ra rb : Rd) : Rd := fun st =>
  match rBeginArray st with
  | .error e => .error e
  | .ok st0 =>
  match nextArrayItem st0 with
  | .error e => .error e
  | .ok (false, _) => .error .check
  | .ok (true, st1) =>
  match ra st1 with
  | .error e => .error e
  | .ok (x, st2) =>
  match nextArrayItem st2 with
  | .error e => .error e
  | .ok (false, _) => .error .check
  | .ok (true, st3) =>
  match rb st3 with
  | .error e => .error e
  | .ok (y, st4) =>
  match nextArrayItem st4 with
  | .error e => .error e
  | .ok (true, _) => .error .check
  | .ok (false, st5) => .ok (.pair x y, st5)

theorem read_pair_eq (a b : JTy) : read (.pair a b) = pairRd (read a) (read b) := by
  funext st
  rw [read]
  rfl

theorem pairRd_reads (ra rb : Rd) (ba bb : Bytes) (oa ob : Val) (ha : Reads ra ba oa) (hda : Hd ba)
    (hb : Reads rb bb ob) (w1 w2 cw : Bytes) (h1 : Sp w1) (h2 : Sp w2) (hcw : Sp cw) :
    Reads (pairRd ra rb) (91 :: (w1 ++ (ba ++ (44 :: 32 :: (w2 ++ (bb ++ (cw ++ [93]))))))) (.pair oa ob) := by
  intro ws rest lr ln sc hws _
  obtain ⟨lr0, ln0, e0⟩ := rBeginArray_eq ws hws
    (w1 ++ (ba ++ (44 :: 32 :: (w2 ++ (bb ++ (cw ++ 93 :: rest)))))) lr ln sc
  obtain ⟨lr1, ln1, e1⟩ := nextArrayItem_first w1 h1 ba hda
    (44 :: 32 :: (w2 ++ (bb ++ (cw ++ 93 :: rest)))) lr0 ln0 sc
  obtain ⟨lr2, ln2, e2⟩ := ha [] (44 :: 32 :: (w2 ++ (bb ++ (cw ++ 93 :: rest)))) lr1 ln1 (1 :: sc) Sp.nil
    (by simp only [IStreamInt.startsWithDigit]; decide)
  obtain ⟨lr3, ln3, e3⟩ := nextArrayItem_comma 1 (by decide) [] Sp.nil
    (32 :: (w2 ++ (bb ++ (cw ++ 93 :: rest)))) lr2 ln2 sc
  obtain ⟨lr4, ln4, e4⟩ := hb (32 :: w2) (cw ++ 93 :: rest) lr3 ln3 ((1 + 1) :: sc) (sp_space_cons h2)
    (noDigit_ws cw 93 rest hcw (by decide))
  obtain ⟨lr5, ln5, e5⟩ := nextArrayItem_close (1 + 1) cw hcw rest lr4 ln4 sc
  refine ⟨lr5, ln5, ?_⟩
  simp only [List.nil_append, List.cons_append, List.append_assoc] at e0 e1 e2 e3 e4 e5 ⊢
  simp only [pairRd, e0, e1, e2, e3, e4, e5]

def anyRd (look : Bytes → Option Rd) : Rd := fun st =>
  match rBeginArray st with
  | .error e => .error e
  | .ok st0 =>
  match nextArrayItem st0 with
  | .error e => .error e
  | .ok (false, _) => .error .check
  | .ok (true, st1) =>
  match readString st1 with
  | .error e => .error e
  | .ok (name, st2) =>
  match look name with
  | none => .error .check
  | some rd =>
  match nextArrayItem st2 with
  | .error e => .error e
  | .ok (false, _) => .error .check
  | .ok (true, st3) =>
  match rd st3 with
  | .error e => .error e
  | .ok (v, st4) =>
  match nextArrayItem st4 with
  | .error e => .error e
  | .ok (true, _) => .error .check
  | .ok (false, st5) => .ok (.any name v, st5)

theorem read_any_eq (alts : Alts) : read (.any alts) = anyRd (readAlt alts) := by
  funext st
  rw [read]
  rfl

theorem encString_hd (s : Bytes) : Hd (encString s) :=
  ⟨34, _, rfl, by decide, by decide⟩

theorem anyRd_reads (look : Bytes → Option Rd) (name : Bytes) (rd : Rd) (hl : look name = some rd)
    (b : Bytes) (o : Val) (hrd : Reads rd b o) (w1 w2 cw : Bytes) (h1 : Sp w1) (h2 : Sp w2) (hcw : Sp cw) :
    Reads (anyRd look) (91 :: (w1 ++ (encString name ++ (44 :: 32 :: (w2 ++ (b ++ (cw ++ [93])))))))
      (.any name o) := by
  intro ws rest lr ln sc hws _
  obtain ⟨lr0, ln0, e0⟩ := rBeginArray_eq ws hws
    (w1 ++ (encString name ++ (44 :: 32 :: (w2 ++ (b ++ (cw ++ 93 :: rest)))))) lr ln sc
  obtain ⟨lr1, ln1, e1⟩ := nextArrayItem_first w1 h1 (encString name) (encString_hd name)
    (44 :: 32 :: (w2 ++ (b ++ (cw ++ 93 :: rest)))) lr0 ln0 sc
  obtain ⟨lr2, ln2, e2⟩ := readString_enc [] Sp.nil name (44 :: 32 :: (w2 ++ (b ++ (cw ++ 93 :: rest))))
    lr1 ln1 (1 :: sc)
  obtain ⟨lr3, ln3, e3⟩ := nextArrayItem_comma 1 (by decide) [] Sp.nil
    (32 :: (w2 ++ (b ++ (cw ++ 93 :: rest)))) lr2 ln2 sc
  obtain ⟨lr4, ln4, e4⟩ := hrd (32 :: w2) (cw ++ 93 :: rest) lr3 ln3 ((1 + 1) :: sc) (sp_space_cons h2)
    (noDigit_ws cw 93 rest hcw (by decide))
  obtain ⟨lr5, ln5, e5⟩ := nextArrayItem_close (1 + 1) cw hcw rest lr4 ln4 sc
  refine ⟨lr5, ln5, ?_⟩
  simp only [List.nil_append, List.cons_append, List.append_assoc] at e0 e1 e2 e3 e4 e5 ⊢
  simp only [anyRd, e0, e1, e2, hl, e3, e4, e5]

def arrRd (rd : Rd) : Rd := fun st =>
  match rBeginArray st with
  | .error err => .error err
  | .ok st0 =>
  match arrayLoop rd (st0.inp.length + 1) st0 with
  | .error err => .error err
  | .ok (vs, st1) => .ok (.arr vs, st1)

theorem read_vec_eq (e : JTy) : read (.vec e) = arrRd (read e) := by
  funext st
  rw [read]
  rfl

theorem read_list_eq (e : JTy) : read (.list e) = arrRd (read e) := by
  funext st
  rw [read]
  rfl

theorem arrRd_reads (rd : Rd) (f : Val → Bytes) (g : Val → Val) (ml : List Bool) (xs : List Val)
    (h : ∀ x ∈ xs, Reads rd (f x) (g x) ∧ Hd (f x)) (cw : Bytes) (hcw : Sp cw) :
    Reads (arrRd rd) (91 :: (encItems f ml 0 xs ++ (cw ++ [93]))) (.arr (xs.map g)) := by
  intro ws rest lr ln sc hws _
  obtain ⟨lr0, ln0, e0⟩ := rBeginArray_eq ws hws (encItems f ml 0 xs ++ (cw ++ 93 :: rest)) lr ln sc
  have hlen := encItems_length f ml xs (fun x hx => (h x hx).2) 0
  obtain ⟨lr1, ln1, e1⟩ := arrayLoop_items rd f g ml cw rest hcw sc xs h 0
    ((encItems f ml 0 xs ++ (cw ++ 93 :: rest)).length + 1) lr0 ln0
    (by simp only [List.length_append]; omega)
  refine ⟨lr1, ln1, ?_⟩
  simp only [List.nil_append, List.cons_append, List.append_assoc] at e0 e1 ⊢
  simp only [arrRd, e0, e1]

def objRd (rd : Rd) : Rd := fun st =>
  match rBeginObject st with
  | .error err => .error err
  | .ok st0 =>
  match objectLoop rd (st0.inp.length + 1) st0 with
  | .error err => .error err
  | .ok (kvs, st1) => .ok (.obj (mapOfList kvs), st1)

theorem read_map_eq (e : JTy) : read (.map e) = objRd (read e) := by
  funext st
  rw [read]
  rfl

theorem read_umap_eq (e : JTy) : read (.umap e) = objRd (read e) := by
  funext st
  rw [read]
  rfl

theorem objRd_reads (rd : Rd) (f : Val → Bytes) (g : Val → Val) (ml : List Bool) (kvs : List (Bytes × Val))
    (h : ∀ kv ∈ kvs, Reads rd (f kv.2) (g kv.2)) (cw : Bytes) (hcw : Sp cw) :
    Reads (objRd rd) (123 :: (encMembers f ml 0 kvs ++ (cw ++ [125])))
      (.obj (mapOfList (kvs.map (fun kv => (kv.1, g kv.2))))) := by
  intro ws rest lr ln sc hws _
  obtain ⟨lr0, ln0, e0⟩ := rBeginObject_eq ws hws (encMembers f ml 0 kvs ++ (cw ++ 125 :: rest)) lr ln sc
  have hlen := encMembers_length f ml kvs 0
  obtain ⟨lr1, ln1, e1⟩ := objectLoop_members rd f g ml cw rest hcw sc kvs h 0
    ((encMembers f ml 0 kvs ++ (cw ++ 125 :: rest)).length + 1) lr0 ln0
    (by simp only [List.length_append]; omega)
  refine ⟨lr1, ln1, ?_⟩
  simp only [List.nil_append, List.cons_append, List.append_assoc] at e0 e1 ⊢
  simp only [objRd, e0, e1]

def clsRd (look : Bytes → Option (Nat × Rd)) (n : Nat) (fin : List (Option Val) → Option (List Val)) : Rd :=
  fun st =>
  match rBeginObject st with
  | .error e => .error e
  | .ok st0 =>
  match fieldLoop look (st0.inp.length + 1) st0 (List.replicate n none) with
  | .error e => .error e
  | .ok (slots, st1) =>
    match fin slots with
    | some vs => .ok (.cls vs, st1)
    | none => .error .check

theorem read_cls_eq (pod : Bool) (fs : Fields) :
    read (.cls pod fs) = clsRd (fun key => readField fs key 0) fs.length (finishFields fs) := by
  funext st
  rw [read]
  rfl

theorem clsRd_reads (look : Bytes → Option (Nat × Rd)) (fin : List (Option Val) → Option (List Val))
    (ml : List Bool) (es : List Entry) (hl : LookOK look 0 es) (out : List Val)
    (hfin : fin ((es.map (fun e => e.2.2)).map some) = some out) (cw : Bytes) (hcw : Sp cw) :
    Reads (clsRd look es.length fin) (123 :: (membersE ml 0 es ++ (cw ++ [125]))) (.cls out) := by
  intro ws rest lr ln sc hws _
  obtain ⟨lr0, ln0, e0⟩ := rBeginObject_eq ws hws (membersE ml 0 es ++ (cw ++ 125 :: rest)) lr ln sc
  have hlen := membersE_length ml es 0
  obtain ⟨lr1, ln1, e1⟩ := fieldLoop_entries look ml cw rest hcw sc es 0
    ((membersE ml 0 es ++ (cw ++ 125 :: rest)).length + 1) lr0 ln0 (List.replicate es.length none) hl
    (by simp only [List.length_append]; omega)
  have hs := setSlots_replicate (es.map (fun e => e.2.2))
  rw [List.length_map] at hs
  rw [hs] at e1
  refine ⟨lr1, ln1, ?_⟩
  simp only [List.nil_append, List.cons_append, List.append_assoc] at e0 e1 ⊢
  simp only [clsRd, e0, e1, hfin]

/-! ## the value read back -/

mutual
/-- what reading back yields: maps come back as `mapOfList` of their pairs (for std::map, whose keys are
strictly increasing, that is the list itself; for unordered_map it is the key-sorted canonical form) -/
def canon : JTy → Val → Val
  | .pair a b, .pair x y => .pair (canon a x) (canon b y)
  | .vec e, .arr xs => .arr (xs.map (canon e))
  | .list e, .arr xs => .arr (xs.map (canon e))
  | .map e, .obj kvs => .obj (mapOfList (kvs.map fun kv => (kv.1, canon e kv.2)))
  | .umap e, .obj kvs => .obj (mapOfList (kvs.map fun kv => (kv.1, canon e kv.2)))
  | .any alts, .any name v => .any name (canonAlt alts name v)
  | .cls _ fs, .cls vs => .cls (canonFields fs vs)
  | _, v => v
def canonAlt : Alts → Bytes → Val → Val
  | .nil, _, v => v
  | .cons n t r, name, v => if n = name then canon t v else canonAlt r name v
def canonFields : Fields → List Val → List Val
  | .cons _ _ t r, v :: vs => canon t v :: canonFields r vs
  | _, vs => vs
end

/-- the text of a well-typed value starts with a byte that is neither white space nor `]` -/
theorem enc_hd (t : JTy) (v : Val) (ml : List Bool) (ht : hasType t v = true) : Hd (enc t v ml) := by
  cases t <;> cases v <;> simp [hasType] at ht
  · exact ⟨34, _, rfl, by decide, by decide⟩
  · rename_i bits sg i
    simp only [enc]
    rw [IStreamInt.render_eq]
    by_cases hneg : i < 0
    · simp only [hneg, if_true]
      exact ⟨45, _, rfl, by decide, by decide⟩
    · simp only [hneg, if_false, List.nil_append]
      obtain ⟨c, cs, hcs, hc⟩ := IStreamInt.natDigits_head_digit i.natAbs
      exact ⟨c, cs, hcs, (digit_not_space c hc).1, (digit_not_space c hc).2⟩
  · rename_i b
    simp only [enc, IStreamInt.renderBool]
    cases b
    · exact ⟨48, _, rfl, by decide, by decide⟩
    · exact ⟨49, _, rfl, by decide, by decide⟩
  all_goals
    simp only [enc, List.cons_append, List.nil_append, List.append_assoc]
    exact ⟨_, _, rfl, by decide, by decide⟩

def fieldEntries : Fields → List Val → List Bool → List Entry
  | .cons n _ t r, v :: vs, ml => (n, enc t v ml, canon t v) :: fieldEntries r vs ml
  | _, _, _ => []

theorem encFields_entries : ∀ (fs : Fields) (vs : List Val) (ml : List Bool) (i : Nat),
    encFields fs vs ml i = membersE ml i (fieldEntries fs vs ml)
  | .nil, _, _, _ => by simp [encFields, fieldEntries, membersE]
  | .cons _ _ _ _, [], _, _ => by simp [encFields, fieldEntries, membersE]
  | .cons n o t r, v :: vs, ml, i => by
    simp [encFields, fieldEntries, membersE, encFields_entries r vs ml (i + 1)]

theorem fieldEntries_length : ∀ (fs : Fields) (vs : List Val) (ml : List Bool),
    hasTypeFields fs vs = true → (fieldEntries fs vs ml).length = fs.length
  | .nil, [], _, _ => rfl
  | .nil, _ :: _, _, h => by simp [hasTypeFields] at h
  | .cons _ _ _ _, [], _, h => by simp [hasTypeFields] at h
  | .cons _ _ _ r, _ :: vs, ml, h => by
    simp only [hasTypeFields, Bool.and_eq_true] at h
    simp [fieldEntries, Fields.length, fieldEntries_length r vs ml h.2]

theorem fieldEntries_canon : ∀ (fs : Fields) (vs : List Val) (ml : List Bool),
    hasTypeFields fs vs = true → (fieldEntries fs vs ml).map (fun e => e.2.2) = canonFields fs vs
  | .nil, [], _, _ => by simp [fieldEntries, canonFields]
  | .nil, _ :: _, _, h => by simp [hasTypeFields] at h
  | .cons _ _ _ _, [], _, h => by simp [hasTypeFields] at h
  | .cons _ _ _ r, _ :: vs, ml, h => by
    simp only [hasTypeFields, Bool.and_eq_true] at h
    simp [fieldEntries, canonFields, fieldEntries_canon r vs ml h.2]

theorem fieldEntries_names : ∀ (fs : Fields) (vs : List Val) (ml : List Bool),
    ∀ e ∈ fieldEntries fs vs ml, fs.hasName e.1 = true
  | .nil, _, _ => by simp [fieldEntries]
  | .cons _ _ _ _, [], _ => by simp [fieldEntries]
  | .cons n o t r, v :: vs, ml => by
    intro e he
    simp only [fieldEntries, List.mem_cons] at he
    rcases he with rfl | he
    · simp [Fields.hasName]
    · simp [Fields.hasName, fieldEntries_names r vs ml e he]

theorem finishFields_some : ∀ (fs : Fields) (vs : List Val), fs.length = vs.length →
    finishFields fs (vs.map some) = some vs
  | .nil, [], _ => by simp [finishFields]
  | .nil, _ :: _, h => by simp [Fields.length] at h
  | .cons _ _ _ _, [], h => by simp [Fields.length] at h
  | .cons _ _ _ r, v :: vs, h => by
    simp only [Fields.length, List.length_cons, Nat.add_right_cancel_iff] at h
    simp [finishFields, finishFields_some r vs h]

theorem canonFields_length : ∀ (fs : Fields) (vs : List Val), hasTypeFields fs vs = true →
    (canonFields fs vs).length = fs.length := by
  intro fs vs h
  rw [← fieldEntries_canon fs vs [] h, List.length_map, fieldEntries_length fs vs [] h]

/-! ## MAIN -/

mutual
theorem reads_enc : (t : JTy) → ∀ (v : Val) (ml : List Bool), t.wf = true → hasType t v = true →
    Reads (read t) (enc t v ml) (canon t v)
  | .str => by
    intro v ml _ ht
    cases v <;> simp [hasType] at ht
    rename_i s
    intro ws rest lr ln sc hws _
    obtain ⟨lr', ln', h⟩ := readString_enc ws hws s rest lr ln sc
    refine ⟨lr', ln', ?_⟩
    simp only [enc, canon]
    rw [read, h]
  | .int bits sg => by
    intro v ml _ ht
    cases v <;> simp [hasType] at ht
    rename_i i
    intro ws rest lr ln sc hws hrest
    refine ⟨lr, ln, ?_⟩
    simp only [enc, canon]
    rw [read, readNumber_enc bits sg i ht ws hws rest hrest lr ln sc]
  | .bool => by
    intro v ml _ ht
    cases v <;> simp [hasType] at ht
    rename_i b
    intro ws rest lr ln sc hws hrest
    refine ⟨lr, ln, ?_⟩
    simp only [enc, canon]
    rw [read, readBool_enc b ws hws rest hrest lr ln sc]
  | .pair a b => by
    intro v ml hwf ht
    cases v <;> simp [hasType] at ht
    rename_i x y
    simp only [JTy.wf, Bool.and_eq_true] at hwf
    have iha := reads_enc a x (defaultArrayMultiLine :: ml) hwf.1 ht.1
    have ihb := reads_enc b y (defaultArrayMultiLine :: ml) hwf.2 ht.2
    have hda := enc_hd a x (defaultArrayMultiLine :: ml) ht.1
    obtain ⟨cw, hcw, hclose⟩ := encClose_arr' defaultArrayMultiLine 2 ml
    have e1 : enc (.pair a b) (.pair x y) ml
        = 91 :: (sepBytes (defaultArrayMultiLine :: ml) ++ (enc a x (defaultArrayMultiLine :: ml) ++
            (44 :: 32 :: (sepBytes (defaultArrayMultiLine :: ml) ++ (enc b y (defaultArrayMultiLine :: ml) ++
              (cw ++ [93])))))) := by
      simp [enc, hclose, wOpenArr, arraySep]
    rw [e1, read_pair_eq]
    simp only [canon]
    exact pairRd_reads _ _ _ _ _ _ iha hda ihb _ _ cw (sepBytes_sp _) (sepBytes_sp _) hcw
  | .vec e => by
    intro v ml hwf ht
    cases v <;> simp [hasType] at ht
    rename_i xs
    simp only [JTy.wf] at hwf
    obtain ⟨cw, hcw, hclose⟩ := encClose_arr' (arrayMultiLine xs.length (isPod e)) xs.length ml
    have e1 : enc (.vec e) (.arr xs) ml
        = 91 :: (encItems (fun x => enc e x (arrayMultiLine xs.length (isPod e) :: ml))
            (arrayMultiLine xs.length (isPod e) :: ml) 0 xs ++ (cw ++ [93])) := by
      simp [enc, hclose, wOpenArr]
    rw [e1, read_vec_eq]
    simp only [canon]
    exact arrRd_reads (read e) _ (canon e) _ xs
      (fun x hx => ⟨reads_enc e x _ hwf (ht x hx), enc_hd e x _ (ht x hx)⟩) cw hcw
  | .list e => by
    intro v ml hwf ht
    cases v <;> simp [hasType] at ht
    rename_i xs
    simp only [JTy.wf] at hwf
    obtain ⟨cw, hcw, hclose⟩ := encClose_arr' (arrayMultiLine xs.length (isPod e)) xs.length ml
    have e1 : enc (.list e) (.arr xs) ml
        = 91 :: (encItems (fun x => enc e x (arrayMultiLine xs.length (isPod e) :: ml))
            (arrayMultiLine xs.length (isPod e) :: ml) 0 xs ++ (cw ++ [93])) := by
      simp [enc, hclose, wOpenArr]
    rw [e1, read_list_eq]
    simp only [canon]
    exact arrRd_reads (read e) _ (canon e) _ xs
      (fun x hx => ⟨reads_enc e x _ hwf (ht x hx), enc_hd e x _ (ht x hx)⟩) cw hcw
  | .map e => by
    intro v ml hwf ht
    cases v <;> simp [hasType] at ht
    rename_i kvs
    simp only [JTy.wf] at hwf
    obtain ⟨cw, hcw, hclose⟩ := encClose_obj' (objectMultiLine kvs.length) kvs.length ml
    have e1 : enc (.map e) (.obj kvs) ml
        = 123 :: (encMembers (fun x => enc e x (objectMultiLine kvs.length :: ml))
            (objectMultiLine kvs.length :: ml) 0 kvs ++ (cw ++ [125])) := by
      simp [enc, hclose, wOpenObj]
    rw [e1, read_map_eq]
    simp only [canon]
    exact objRd_reads (read e) _ (canon e) _ kvs
      (fun kv hkv => reads_enc e kv.2 _ hwf (ht.2 kv.1 kv.2 hkv)) cw hcw
  | .umap e => by
    intro v ml hwf ht
    cases v <;> simp [hasType] at ht
    rename_i kvs
    simp only [JTy.wf] at hwf
    obtain ⟨cw, hcw, hclose⟩ := encClose_obj' (objectMultiLine kvs.length) kvs.length ml
    have e1 : enc (.umap e) (.obj kvs) ml
        = 123 :: (encMembers (fun x => enc e x (objectMultiLine kvs.length :: ml))
            (objectMultiLine kvs.length :: ml) 0 kvs ++ (cw ++ [125])) := by
      simp [enc, hclose, wOpenObj]
    rw [e1, read_umap_eq]
    simp only [canon]
    exact objRd_reads (read e) _ (canon e) _ kvs
      (fun kv hkv => reads_enc e kv.2 _ hwf (ht.2 kv.1 kv.2 hkv)) cw hcw
  | .any alts => by
    intro v ml hwf ht
    cases v <;> simp [hasType] at ht
    rename_i name x
    simp only [JTy.wf] at hwf
    obtain ⟨rd, hl, hrd⟩ := readsAlt_enc alts name x (anyMultiLine :: ml) hwf ht
    obtain ⟨cw, hcw, hclose⟩ := encClose_arr' anyMultiLine 2 ml
    have e1 : enc (.any alts) (.any name x) ml
        = 91 :: (sepBytes (anyMultiLine :: ml) ++ (encString name ++
            (44 :: 32 :: (sepBytes (anyMultiLine :: ml) ++ (encAlt alts name x (anyMultiLine :: ml) ++
              (cw ++ [93])))))) := by
      simp [enc, hclose, wOpenArr, arraySep]
    rw [e1, read_any_eq]
    simp only [canon]
    exact anyRd_reads _ name rd hl _ _ hrd _ _ cw (sepBytes_sp _) (sepBytes_sp _) hcw
  | .cls pod fs => by
    intro v ml hwf ht
    cases v <;> simp [hasType] at ht
    rename_i vs
    simp only [JTy.wf] at hwf
    obtain ⟨cw, hcw, hclose⟩ := encClose_obj' defaultObjectMultiLine fs.length ml
    have hl := readsFields_enc fs vs (defaultObjectMultiLine :: ml) hwf ht 0
    have e1 : enc (.cls pod fs) (.cls vs) ml
        = 123 :: (membersE (defaultObjectMultiLine :: ml) 0 (fieldEntries fs vs (defaultObjectMultiLine :: ml))
            ++ (cw ++ [125])) := by
      simp [enc, hclose, wOpenObj, encFields_entries]
    rw [e1, read_cls_eq, ← fieldEntries_length fs vs (defaultObjectMultiLine :: ml) ht]
    simp only [canon]
    refine clsRd_reads _ _ _ _ hl _ ?_ cw hcw
    rw [fieldEntries_canon fs vs _ ht]
    exact finishFields_some fs _ (canonFields_length fs vs ht).symm
theorem readsAlt_enc : (alts : Alts) → ∀ (name : Bytes) (v : Val) (ml : List Bool), alts.wf = true →
    hasTypeAlt alts name v = true →
    ∃ rd, readAlt alts name = some rd ∧ Reads rd (encAlt alts name v ml) (canonAlt alts name v)
  | .nil => by
    intro name v ml _ ht
    simp [hasTypeAlt] at ht
  | .cons n t r => by
    intro name v ml hwf ht
    simp only [Alts.wf, Bool.and_eq_true] at hwf
    by_cases h : n = name
    · simp only [hasTypeAlt, h, if_true] at ht
      simp only [readAlt, encAlt, canonAlt, h, if_true]
      exact ⟨read t, rfl, reads_enc t v ml hwf.1 ht⟩
    · simp only [hasTypeAlt, h, if_false] at ht
      simp only [readAlt, encAlt, canonAlt, h, if_false]
      exact readsAlt_enc r name v ml hwf.2 ht
theorem readsFields_enc : (fs : Fields) → ∀ (vs : List Val) (ml : List Bool), fs.wf = true →
    hasTypeFields fs vs = true →
    ∀ i, LookOK (fun key => readField fs key i) i (fieldEntries fs vs ml)
  | .nil => by
    intro vs ml _ _ i
    simp [fieldEntries, LookOK]
  | .cons n o t r => by
    intro vs ml hwf ht i
    cases vs with
    | nil => simp [hasTypeFields] at ht
    | cons v vs =>
      simp only [hasTypeFields, Bool.and_eq_true] at ht
      simp only [Fields.wf, Bool.and_eq_true, Bool.not_eq_true'] at hwf
      simp only [fieldEntries, LookOK]
      refine ⟨⟨read t, by simp [readField], reads_enc t v ml hwf.1.2 ht.1⟩, ?_⟩
      refine LookOK.congr _ _ _ _ ?_ (readsFields_enc r vs ml hwf.2 ht.2 (i + 1))
      intro e he
      have hn := fieldEntries_names r vs ml e he
      have hne : n ≠ e.1 := by
        intro heq
        rw [← heq, hwf.1.1] at hn
        cases hn
      simp [readField, hne]
end

/-- MAIN: after any whitespace `ws`, the reader positioned in front of the writer's bytes for `v` returns the
(canonical) value, leaves exactly `rest` unread and the scope stack as it was. `rest` must not start with a
decimal digit (it would be absorbed by a trailing number). -/
theorem read_enc (t : JTy) (v : Val) (hwf : t.wf = true) (ht : hasType t v = true) (ml : List Bool)
    (ws rest : Bytes) (hws : ∀ c ∈ ws, Gen.Json.isSpace c.toNat = true)
    (hrest : IStreamInt.startsWithDigit rest = false) (lr ln : Nat) (sc : List Nat) :
    ∃ lr' ln', read t { inp := ws ++ enc t v ml ++ rest, lineR := lr, lineN := ln, scope := sc }
      = .ok (canon t v, { inp := rest, lineR := lr', lineN := ln', scope := sc }) := by
  rw [List.append_assoc]
  exact reads_enc t v ml hwf ht ws rest lr ln sc hws hrest

theorem readTop_writeTop (t : JTy) (v : Val) (hwf : t.wf = true) (ht : hasType t v = true) (rest : Bytes)
    (hrest : IStreamInt.startsWithDigit rest = false) :
    ∃ bs, writeTop t v = .ok bs ∧
      ∃ st, readTop t (bs ++ rest) = .ok (canon t v, st) ∧ st.inp = rest ∧ st.scope = [] := by
  refine ⟨enc t v [], writeTop_eq_enc t v ht, ?_⟩
  obtain ⟨lr', ln', h⟩ := read_enc t v hwf ht [] [] rest (by intro c hc; cases hc) hrest 0 0 []
  refine ⟨⟨rest, lr', ln', []⟩, ?_, rfl, rfl⟩
  simpa [readTop] using h

/-! ## `canon` is the identity when no unordered_map occurs -/

theorem bytesLt_irrefl : ∀ (a : Bytes), bytesLt a a = false
  | [] => rfl
  | x :: xs => by
    simp [bytesLt, bytesLt_irrefl xs, UInt8.lt_irrefl]

theorem bytesLt_trans : ∀ (a b c : Bytes), bytesLt a b = true → bytesLt b c = true → bytesLt a c = true
  | [], [], _, h, _ => by simp [bytesLt] at h
  | [], _ :: _, [], _, h => by simp [bytesLt] at h
  | [], _ :: _, _ :: _, _, _ => by simp [bytesLt]
  | _ :: _, [], _, h, _ => by simp [bytesLt] at h
  | _ :: _, _ :: _, [], _, h => by simp [bytesLt] at h
  | x :: xs, y :: ys, z :: zs, h1, h2 => by
    simp only [bytesLt, Bool.or_eq_true, decide_eq_true_eq, Bool.and_eq_true, beq_iff_eq] at h1 h2 ⊢
    rcases h1 with h1 | ⟨rfl, h1⟩
    · rcases h2 with h2 | ⟨rfl, _⟩
      · exact Or.inl (UInt8.lt_trans h1 h2)
      · exact Or.inl h1
    · rcases h2 with h2 | ⟨rfl, h2⟩
      · exact Or.inl h2
      · exact Or.inr ⟨rfl, bytesLt_trans xs ys zs h1 h2⟩

theorem bytesLt_asymm (a b : Bytes) (h : bytesLt a b = true) : bytesLt b a = false := by
  cases h' : bytesLt b a with
  | false => rfl
  | true =>
    have := bytesLt_trans a b a h h'
    rw [bytesLt_irrefl] at this
    cases this

theorem bytesLt_ne (a b : Bytes) (h : bytesLt a b = true) : a ≠ b := by
  intro hab
  subst hab
  rw [bytesLt_irrefl] at h
  cases h

theorem keysIncreasing_cons (a : Bytes × Val) : ∀ (l : List (Bytes × Val)),
    keysIncreasing (a :: l) = true ↔ (∀ b ∈ l, bytesLt a.1 b.1 = true) ∧ keysIncreasing l = true := by
  intro l
  induction l generalizing a with
  | nil => simp [keysIncreasing]
  | cons b l ih =>
    simp only [keysIncreasing, Bool.and_eq_true]
    constructor
    · intro ⟨h1, h2⟩
      refine ⟨?_, h2⟩
      intro c hc
      rcases List.mem_cons.mp hc with rfl | hc
      · exact h1
      · exact bytesLt_trans _ _ _ h1 (((ih b).mp h2).1 c hc)
    · intro ⟨h1, h2⟩
      exact ⟨h1 b (by simp), h2⟩

theorem keysIncreasing_append_lt : ∀ (acc : List (Bytes × Val)) (kv : Bytes × Val) (kvs : List (Bytes × Val)),
    keysIncreasing (acc ++ kv :: kvs) = true → ∀ a ∈ acc, bytesLt a.1 kv.1 = true := by
  intro acc
  induction acc with
  | nil => intro kv kvs _ a ha; cases ha
  | cons a0 acc ih =>
    intro kv kvs h a ha
    rw [List.cons_append, keysIncreasing_cons] at h
    rcases List.mem_cons.mp ha with rfl | ha
    · exact h.1 kv (by simp)
    · exact ih kv kvs h.2 a ha

theorem mapInsert_last (k : Bytes) (v : Val) : ∀ (m : List (Bytes × Val)),
    (∀ kv ∈ m, bytesLt kv.1 k = true) → mapInsert k v m = m ++ [(k, v)] := by
  intro m
  induction m with
  | nil => intro _; rfl
  | cons kv m ih =>
    intro h
    have h1 := h kv (by simp)
    have hne : k ≠ kv.1 := fun e => bytesLt_ne _ _ h1 e.symm
    have hnl : bytesLt k kv.1 = false := bytesLt_asymm _ _ h1
    simp [mapInsert, hne, hnl, ih (fun kv' hkv' => h kv' (by simp [hkv']))]

theorem foldl_mapInsert_increasing : ∀ (kvs acc : List (Bytes × Val)),
    keysIncreasing (acc ++ kvs) = true →
    kvs.foldl (fun m kv => mapInsert kv.1 kv.2 m) acc = acc ++ kvs := by
  intro kvs
  induction kvs with
  | nil => intro acc _; simp
  | cons kv kvs ih =>
    intro acc h
    have hlt := keysIncreasing_append_lt acc kv kvs h
    rw [List.foldl_cons, mapInsert_last kv.1 kv.2 acc hlt, ih (acc ++ [(kv.1, kv.2)])]
    · simp
    · simpa using h

/-- a `std::map` (keys strictly increasing) is rebuilt unchanged -/
theorem mapOfList_increasing (kvs : List (Bytes × Val)) (h : keysIncreasing kvs = true) :
    mapOfList kvs = kvs := by
  simpa [mapOfList] using foldl_mapInsert_increasing kvs [] (by simpa using h)

theorem map_eq_self {α : Type} (f : α → α) : ∀ (l : List α), (∀ x ∈ l, f x = x) → l.map f = l := by
  intro l
  induction l with
  | nil => intro _; rfl
  | cons a l ih =>
    intro h
    simp [h a (by simp), ih (fun x hx => h x (by simp [hx]))]

mutual
/-- a type without unordered_map anywhere -/
def noUmap : JTy → Bool
  | .pair a b => noUmap a && noUmap b
  | .vec e => noUmap e
  | .list e => noUmap e
  | .map e => noUmap e
  | .umap _ => false
  | .any alts => noUmapAlts alts
  | .cls _ fs => noUmapFields fs
  | _ => true
def noUmapAlts : Alts → Bool
  | .nil => true
  | .cons _ t r => noUmap t && noUmapAlts r
def noUmapFields : Fields → Bool
  | .nil => true
  | .cons _ _ t r => noUmap t && noUmapFields r
end

mutual
theorem canon_self : (t : JTy) → ∀ (v : Val), noUmap t = true → hasType t v = true → canon t v = v
  | .str => by
    intro v _ ht
    cases v <;> simp [hasType] at ht
    simp [canon]
  | .int _ _ => by
    intro v _ ht
    cases v <;> simp [hasType] at ht
    simp [canon]
  | .bool => by
    intro v _ ht
    cases v <;> simp [hasType] at ht
    simp [canon]
  | .pair a b => by
    intro v hn ht
    cases v <;> simp [hasType] at ht
    rename_i x y
    simp only [noUmap, Bool.and_eq_true] at hn
    simp [canon, canon_self a x hn.1 ht.1, canon_self b y hn.2 ht.2]
  | .vec e => by
    intro v hn ht
    cases v <;> simp [hasType] at ht
    rename_i xs
    simp only [noUmap] at hn
    simp only [canon]
    rw [map_eq_self (canon e) xs (fun x hx => canon_self e x hn (ht x hx))]
  | .list e => by
    intro v hn ht
    cases v <;> simp [hasType] at ht
    rename_i xs
    simp only [noUmap] at hn
    simp only [canon]
    rw [map_eq_self (canon e) xs (fun x hx => canon_self e x hn (ht x hx))]
  | .map e => by
    intro v hn ht
    cases v <;> simp [hasType] at ht
    rename_i kvs
    simp only [noUmap] at hn
    simp only [canon]
    rw [map_eq_self (fun kv : Bytes × Val => (kv.1, canon e kv.2)) kvs
      (fun kv hkv => by simp only [canon_self e kv.2 hn (ht.2 kv.1 kv.2 hkv)]),
      mapOfList_increasing kvs ht.1]
  | .umap e => by
    intro v hn _
    simp [noUmap] at hn
  | .any alts => by
    intro v hn ht
    cases v <;> simp [hasType] at ht
    rename_i name x
    simp only [noUmap] at hn
    simp only [canon]
    rw [canonAlt_self alts name x hn ht]
  | .cls pod fs => by
    intro v hn ht
    cases v <;> simp [hasType] at ht
    rename_i vs
    simp only [noUmap] at hn
    simp only [canon]
    rw [canonFields_self fs vs hn ht]
theorem canonAlt_self : (alts : Alts) → ∀ (name : Bytes) (v : Val), noUmapAlts alts = true →
    hasTypeAlt alts name v = true → canonAlt alts name v = v
  | .nil => by
    intro name v _ ht
    simp [hasTypeAlt] at ht
  | .cons n t r => by
    intro name v hn ht
    simp only [noUmapAlts, Bool.and_eq_true] at hn
    by_cases h : n = name
    · simp only [hasTypeAlt, h, if_true] at ht
      simp only [canonAlt, h, if_true]
      exact canon_self t v hn.1 ht
    · simp only [hasTypeAlt, h, if_false] at ht
      simp only [canonAlt, h, if_false]
      exact canonAlt_self r name v hn.2 ht
theorem canonFields_self : (fs : Fields) → ∀ (vs : List Val), noUmapFields fs = true →
    hasTypeFields fs vs = true → canonFields fs vs = vs
  | .nil => by
    intro vs _ _
    simp [canonFields]
  | .cons n o t r => by
    intro vs hn ht
    cases vs with
    | nil => simp [hasTypeFields] at ht
    | cons v vs =>
      simp only [hasTypeFields, Bool.and_eq_true] at ht
      simp only [noUmapFields, Bool.and_eq_true] at hn
      simp [canonFields, canon_self t v hn.1 ht.1, canonFields_self r vs hn.2 ht.2]
end

theorem canon_eq_self (t : JTy) (v : Val) (hn : noUmap t = true) (ht : hasType t v = true) : canon t v = v :=
  canon_self t v hn ht

#print axioms read_enc
#print axioms canon_eq_self
#print axioms readTop_writeTop

/-! ## `mapOfList` on distinct keys (unordered_map): sorted permutation, same lookup -/

theorem bytesLt_total : ∀ (a b : Bytes), a ≠ b → bytesLt a b = true ∨ bytesLt b a = true
  | [], [], h => absurd rfl h
  | [], _ :: _, _ => by simp [bytesLt]
  | _ :: _, [], _ => by simp [bytesLt]
  | x :: xs, y :: ys, h => by
    simp only [bytesLt, Bool.or_eq_true, decide_eq_true_eq, Bool.and_eq_true, beq_iff_eq]
    by_cases hxy : x = y
    · subst hxy
      have hne : xs ≠ ys := fun e => h (by rw [e])
      rcases bytesLt_total xs ys hne with h1 | h1
      · exact Or.inl (Or.inr ⟨rfl, h1⟩)
      · exact Or.inr (Or.inr ⟨rfl, h1⟩)
    · have hn : x.toNat ≠ y.toNat := fun e => hxy (UInt8.toNat_inj.mp e)
      rcases Nat.lt_or_gt_of_ne hn with h1 | h1
      · exact Or.inl (Or.inl (UInt8.lt_iff_toNat_lt.mpr h1))
      · exact Or.inr (Or.inl (UInt8.lt_iff_toNat_lt.mpr h1))

theorem mem_mapInsert (k : Bytes) (v : Val) : ∀ (m : List (Bytes × Val)) (b : Bytes × Val),
    b ∈ mapInsert k v m → b = (k, v) ∨ b ∈ m := by
  intro m
  induction m with
  | nil => intro b hb; simp [mapInsert] at hb; exact Or.inl hb
  | cons kv m ih =>
    intro b hb
    simp only [mapInsert] at hb
    split at hb
    · rcases List.mem_cons.mp hb with rfl | hb
      · exact Or.inl rfl
      · exact Or.inr (List.mem_cons_of_mem _ hb)
    · split at hb
      · rcases List.mem_cons.mp hb with rfl | hb
        · exact Or.inl rfl
        · exact Or.inr hb
      · rcases List.mem_cons.mp hb with rfl | hb
        · exact Or.inr (by simp)
        · rcases ih b hb with h | h
          · exact Or.inl h
          · exact Or.inr (List.mem_cons_of_mem _ h)

/-- `(*map)[key] = value` keeps the association list sorted -/
theorem mapInsert_increasing (k : Bytes) (v : Val) : ∀ (m : List (Bytes × Val)),
    keysIncreasing m = true → keysIncreasing (mapInsert k v m) = true := by
  intro m
  induction m with
  | nil => intro _; rfl
  | cons kv m ih =>
    intro h
    have h' := (keysIncreasing_cons kv m).mp h
    simp only [mapInsert]
    split
    · rename_i hk
      rw [keysIncreasing_cons]
      refine ⟨fun b hb => ?_, h'.2⟩
      show bytesLt k b.1 = true
      rw [hk]
      exact h'.1 b hb
    · rename_i hk
      split
      · rename_i hlt
        rw [keysIncreasing_cons]
        refine ⟨fun b hb => ?_, h⟩
        rcases List.mem_cons.mp hb with rfl | hb
        · exact hlt
        · exact bytesLt_trans _ _ _ hlt (h'.1 b hb)
      · rename_i hlt
        rw [keysIncreasing_cons]
        refine ⟨fun b hb => ?_, ih h'.2⟩
        rcases mem_mapInsert k v m b hb with rfl | hb
        · rcases bytesLt_total k kv.1 hk with h1 | h1
          · exact absurd h1 hlt
          · exact h1
        · exact h'.1 b hb

theorem mapInsert_perm (k : Bytes) (v : Val) : ∀ (m : List (Bytes × Val)),
    (∀ a ∈ m, a.1 ≠ k) → (mapInsert k v m).Perm ((k, v) :: m) := by
  intro m
  induction m with
  | nil => intro _; exact List.Perm.refl _
  | cons kv m ih =>
    intro h
    have hk : ¬ k = kv.1 := fun e => h kv (by simp) e.symm
    simp only [mapInsert, hk, if_false]
    split
    · exact List.Perm.refl _
    · exact ((ih (fun a ha => h a (by simp [ha]))).cons kv).trans (List.Perm.swap _ _ _)

theorem keysDistinct_cons (a : Bytes × Val) (l : List (Bytes × Val)) :
    keysDistinct (a :: l) = true ↔ (∀ b ∈ l, a.1 ≠ b.1) ∧ keysDistinct l = true := by
  simp [keysDistinct]

theorem foldl_mapInsert_distinct : ∀ (kvs acc : List (Bytes × Val)),
    keysIncreasing acc = true → keysDistinct kvs = true → (∀ a ∈ acc, ∀ b ∈ kvs, a.1 ≠ b.1) →
    keysIncreasing (kvs.foldl (fun m kv => mapInsert kv.1 kv.2 m) acc) = true ∧
    (kvs.foldl (fun m kv => mapInsert kv.1 kv.2 m) acc).Perm (acc ++ kvs) := by
  intro kvs
  induction kvs with
  | nil => intro acc h _ _; simpa using h
  | cons kv kvs ih =>
    intro acc hacc hd hx
    rw [keysDistinct_cons] at hd
    have hperm := mapInsert_perm kv.1 kv.2 acc (fun a ha => hx a ha kv (by simp))
    have := ih (mapInsert kv.1 kv.2 acc) (mapInsert_increasing kv.1 kv.2 acc hacc) hd.2 (by
      intro a ha b hb
      rcases mem_mapInsert kv.1 kv.2 acc a ha with rfl | ha
      · exact hd.1 b hb
      · exact hx a ha b (by simp [hb]))
    rw [List.foldl_cons]
    refine ⟨this.1, this.2.trans ?_⟩
    exact (hperm.append_right kvs).trans (List.perm_middle.symm)

/-- first-match lookup in an association list -/
def lookupKey (k : Bytes) : List (Bytes × Val) → Option Val
  | [] => none
  | kv :: r => if kv.1 = k then some kv.2 else lookupKey k r

theorem lookupKey_iff (k : Bytes) (v : Val) : ∀ (l : List (Bytes × Val)), keysDistinct l = true →
    (lookupKey k l = some v ↔ (k, v) ∈ l) := by
  intro l
  induction l with
  | nil => intro _; simp [lookupKey]
  | cons kv l ih =>
    intro h
    rw [keysDistinct_cons] at h
    simp only [lookupKey]
    by_cases hk : kv.1 = k
    · simp only [hk, if_true, List.mem_cons]
      constructor
      · intro hv
        cases hv
        exact Or.inl (by rw [← hk])
      · intro hm
        rcases hm with hm | hm
        · rw [← hm]
        · exact absurd hk (h.1 (k, v) hm)
    · simp only [hk, if_false, List.mem_cons]
      rw [ih h.2]
      constructor
      · exact Or.inr
      · intro hm
        rcases hm with hm | hm
        · exact absurd (by rw [← hm]) hk
        · exact hm

theorem keysIncreasing_distinct : ∀ (l : List (Bytes × Val)), keysIncreasing l = true → keysDistinct l = true := by
  intro l
  induction l with
  | nil => intro _; rfl
  | cons a l ih =>
    intro h
    rw [keysIncreasing_cons] at h
    rw [keysDistinct_cons]
    exact ⟨fun b hb => bytesLt_ne _ _ (h.1 b hb), ih h.2⟩

/-- for an `unordered_map` (distinct keys, any iteration order) the map read back is the key-sorted
permutation of the pairs, and has the same key → value lookup -/
theorem mapOfList_lookup (kvs : List (Bytes × Val)) (h : keysDistinct kvs = true) :
    keysIncreasing (mapOfList kvs) = true ∧ (mapOfList kvs).Perm kvs ∧
    ∀ k, lookupKey k (mapOfList kvs) = lookupKey k kvs := by
  have h0 := foldl_mapInsert_distinct kvs [] rfl h (by intro a ha; cases ha)
  have hinc : keysIncreasing (mapOfList kvs) = true := h0.1
  have hperm : (mapOfList kvs).Perm kvs := by simpa [mapOfList] using h0.2
  refine ⟨hinc, hperm, fun k => ?_⟩
  have hiff : ∀ v, lookupKey k (mapOfList kvs) = some v ↔ lookupKey k kvs = some v := by
    intro v
    rw [lookupKey_iff k v _ (keysIncreasing_distinct _ hinc), lookupKey_iff k v _ h]
    exact hperm.mem_iff
  cases h1 : lookupKey k (mapOfList kvs) with
  | some v => exact ((hiff v).mp h1).symm
  | none =>
    cases h2 : lookupKey k kvs with
    | none => rfl
    | some v => rw [(hiff v).mpr h2] at h1; cases h1

#print axioms mapOfList_lookup

end DmlcModel.Json
