/- Digit accumulation without wrap-around; finiteness and relative error of the roundings of ParseFloat; the mantissa is finite (core Lean only) -/
import DmlcModel.StrToNum.Value
import DmlcModel.StrToNum.Round
namespace DmlcModel.StrToNum
open DmlcModel DmlcModel.Gen.StrToNum

/-! ### digit accumulation without wrap-around -/

def Dig (ds : List Nat) : Prop := ∀ d ∈ ds, d ≤ 9

theorem foldl_digits_lt (ds : List Nat) (hd : Dig ds) :
    ∀ a, ds.foldl (fun a d => a * 10 + d) a < (a + 1) * 10 ^ ds.length := by
  induction ds with
  | nil => intro a; simp
  | cons d ds ih =>
    intro a
    have hd9 : d ≤ 9 := hd d (by simp)
    have := ih (fun x hx => hd x (by simp [hx])) (a * 10 + d)
    simp only [List.foldl_cons, List.length_cons]
    have e : (a * 10 + d + 1) * 10 ^ ds.length ≤ (a + 1) * 10 ^ (ds.length + 1) := by
      have h1 : (a * 10 + d + 1) ≤ (a + 1) * 10 := by omega
      calc (a * 10 + d + 1) * 10 ^ ds.length ≤ ((a + 1) * 10) * 10 ^ ds.length := Nat.mul_le_mul_right _ h1
        _ = (a + 1) * 10 ^ (ds.length + 1) := by rw [Nat.pow_succ, Nat.mul_assoc, Nat.mul_comm 10]
    omega

theorem digitsVal_lt (ds : List Nat) (hd : Dig ds) : digitsVal ds < 10 ^ ds.length := by
  have := foldl_digits_lt ds hd 0
  simpa [digitsVal] using this

theorem foldl_mod_exact (M : Nat) (ds : List Nat) (hd : Dig ds) :
    ∀ a, (a + 1) * 10 ^ ds.length ≤ M →
      ds.foldl (fun a d => (a * 10 + d) % M) a = ds.foldl (fun a d => a * 10 + d) a := by
  induction ds with
  | nil => intro a _; rfl
  | cons d ds ih =>
    intro a ha
    have hd9 : d ≤ 9 := hd d (by simp)
    simp only [List.foldl_cons, List.length_cons] at ha ⊢
    have e : (a * 10 + d + 1) * 10 ^ ds.length ≤ (a + 1) * 10 ^ (ds.length + 1) := by
      have h1 : (a * 10 + d + 1) ≤ (a + 1) * 10 := by omega
      calc (a * 10 + d + 1) * 10 ^ ds.length ≤ ((a + 1) * 10) * 10 ^ ds.length := Nat.mul_le_mul_right _ h1
        _ = (a + 1) * 10 ^ (ds.length + 1) := by rw [Nat.pow_succ, Nat.mul_assoc, Nat.mul_comm 10]
    have hpos : 1 ≤ 10 ^ ds.length := Nat.one_le_pow _ _ (by decide)
    have hlt : a * 10 + d < M := by
      have : (a * 10 + d + 1) * 1 ≤ (a * 10 + d + 1) * 10 ^ ds.length := Nat.mul_le_mul_left _ hpos
      omega
    rw [Nat.mod_eq_of_lt hlt]
    exact ih (fun x hx => hd x (by simp [hx])) _ (by omega)

theorem pow10_19 : 10 ^ 19 < 18446744073709551616 := by decide

/-- up to 19 integer digits: `predec` is the exact value -/
theorem predecL_exact (ds : List Nat) (hd : Dig ds) (hl : ds.length ≤ 19) : predecL ds = digitsVal ds := by
  unfold predecL digitsVal
  apply foldl_mod_exact _ ds hd 0
  have : 10 ^ ds.length ≤ 10 ^ 19 := Nat.pow_le_pow_right (by decide) hl
  have := pow10_19
  omega

theorem foldl_mod_lt (M : Nat) (hM : 0 < M) (ds : List Nat) :
    ∀ a, a < M → ds.foldl (fun a d => (a * 10 + d) % M) a < M := by
  induction ds with
  | nil => intro a h; exact h
  | cons d ds ih => intro a _; exact ih _ (Nat.mod_lt _ hM)

theorem predecL_lt (ds : List Nat) : predecL ds < 18446744073709551616 :=
  foldl_mod_lt _ (by decide) ds 0 (by decide)

/-- invariant of the fraction loop: `pow10 = 10^min(cnt,19)`, `val2 < pow10` -/
theorem fracL_inv (ds : List Nat) (hd : Dig ds) :
    ∀ st : Nat × Nat × Nat, st.2.1 = 10 ^ (min st.2.2 19) → st.1 < st.2.1 →
      (ds.foldl fracStepL st).2.1 = 10 ^ (min (ds.foldl fracStepL st).2.2 19) ∧
      (ds.foldl fracStepL st).1 < (ds.foldl fracStepL st).2.1 := by
  induction ds with
  | nil => intro st h1 h2; exact ⟨h1, h2⟩
  | cons d ds ih =>
    intro st h1 h2
    have hd9 : d ≤ 9 := hd d (by simp)
    simp only [List.foldl_cons]
    apply ih (fun x hx => hd x (by simp [hx]))
    · unfold fracStepL
      by_cases hc : st.2.2 < 19
      · simp only [hc, if_true]
        have hm : min st.2.2 19 = st.2.2 := by omega
        have hm' : min (st.2.2 + 1) 19 = st.2.2 + 1 := by omega
        rw [hm] at h1
        have hle : 10 ^ (st.2.2 + 1) ≤ 10 ^ 19 := Nat.pow_le_pow_right (by decide) (by omega)
        have := pow10_19
        rw [hm', h1, ← Nat.pow_succ]
        exact Nat.mod_eq_of_lt (by omega)
      · simp only [hc, if_false]
        have hm : min st.2.2 19 = 19 := by omega
        have hm' : min (st.2.2 + 1) 19 = 19 := by omega
        rw [hm'] ; rw [hm] at h1; exact h1
    · unfold fracStepL
      by_cases hc : st.2.2 < 19
      · simp only [hc, if_true]
        have hm : min st.2.2 19 = st.2.2 := by omega
        rw [hm] at h1
        have hle : 10 ^ (st.2.2 + 1) ≤ 10 ^ 19 := Nat.pow_le_pow_right (by decide) (by omega)
        have hp : 10 ^ (st.2.2 + 1) = 10 ^ st.2.2 * 10 := by rw [Nat.pow_succ]
        have := pow10_19
        rw [Nat.mod_eq_of_lt (by omega), Nat.mod_eq_of_lt (by omega)]
        omega
      · simp only [hc, if_false]; exact h2

theorem fracL_bounds (ds : List Nat) (hd : Dig ds) :
    1 ≤ (fracL ds).2.1 ∧ (fracL ds).2.1 ≤ 10 ^ 19 ∧ (fracL ds).1 < (fracL ds).2.1 := by
  have := fracL_inv ds hd (0, 1, 0) (by decide) (by decide)
  unfold fracL
  refine ⟨?_, ?_, this.2⟩
  · rw [this.1]; exact Nat.one_le_pow _ _ (by decide)
  · rw [this.1]; exact Nat.pow_le_pow_right (by decide) (by omega)


/-! ### finiteness and relative error of the individual roundings -/

/-- unit round-off `2^-p` -/
def uf (f : Fmt) : Rat := pow2 (-(f.prec : Int))

theorem uf_pos (f : Fmt) : 0 < uf f := pow2_pos _
theorem uf_le_half (f : Fmt) : uf f ≤ 1 / 2 := by
  have h : pow2 (-(f.prec : Int)) ≤ pow2 (-1) := pow2_mono (by cases f <;> simp [Fmt.prec])
  have : pow2 (-1) = 1 / 2 := by decide +kernel
  unfold uf; rw [this] at h; exact h

theorem rnd_fin (f : Fmt) {x : Rat} (hx : 0 < x) (hn : pow2 (f.qmin + (f.prec : Int) - 1) ≤ x)
    (hb : x + x * uf f < pow2 ((f.emax : Int) + 1)) :
    rnd f x = .fin (rndQ f x) ∧ rndQ f x ≤ x + x * uf f ∧ x ≤ rndQ f x + x * uf f := by
  have hr := rndQ_rel f hx hn
  rw [rnd_pos_eq f hx]
  refine ⟨?_, hr.1, hr.2⟩
  have : ¬ pow2 ((f.emax : Int) + 1) ≤ rndQ f x := by
    unfold uf at hb; grind
  rw [if_neg this]

/-- roundings in the "middle" range `[2^-120, 2^120]` are finite with relative error `2^-p`, in both formats -/
theorem rnd_mid (f : Fmt) {x : Rat} (h1 : pow2 (-120) ≤ x) (h2 : x ≤ pow2 120) :
    ∃ q, rnd f x = .fin q ∧ q ≤ x + x * uf f ∧ x ≤ q + x * uf f ∧ q ≤ 2 * x ∧ x ≤ 2 * q := by
  have hx : 0 < x := by have := pow2_pos (-120); grind
  have hn : pow2 (f.qmin + (f.prec : Int) - 1) ≤ x := by
    have : pow2 (f.qmin + (f.prec : Int) - 1) ≤ pow2 (-120) := pow2_mono (by cases f <;> simp [Fmt.prec, Fmt.qmin])
    grind
  have hu := uf_le_half f
  have hup := uf_pos f
  have hxu : x * uf f ≤ x * (1 / 2) := Rat.mul_le_mul_of_nonneg_left hu (Rat.le_of_lt hx)
  have hxu0 : 0 ≤ x * uf f := Rat.le_of_lt (Rat.mul_pos hx hup)
  have hb : x + x * uf f < pow2 ((f.emax : Int) + 1) := by
    have e : pow2 121 = pow2 120 * 2 := pow2_succ 120
    have : pow2 121 ≤ pow2 ((f.emax : Int) + 1) := pow2_mono (by cases f <;> simp [Fmt.emax])
    have hp := pow2_pos 120
    grind
  have := rnd_fin f hx hn hb
  refine ⟨rndQ f x, this.1, this.2.1, this.2.2, ?_, ?_⟩ <;> grind

theorem natCast_le_pow2 {n k : Nat} (h : n ≤ 2 ^ k) : (n : Rat) ≤ pow2 (k : Int) := by
  rw [pow2_nat]; exact Rat.natCast_le_natCast.mpr h

theorem one_le_natCast {n : Nat} (h : 1 ≤ n) : (1 : Rat) ≤ (n : Rat) := by
  have := Rat.natCast_le_natCast.mpr h
  simpa using this

theorem pow2_m120_le_one : pow2 (-120) ≤ 1 := by
  have : pow2 (-120) ≤ pow2 0 := pow2_mono (by decide)
  rwa [pow2_zero] at this

/-- rounding a natural number below `2^64` -/
theorem rnd_nat (f : Fmt) (n : Nat) (hn : n < 18446744073709551616) :
    ∃ q, rnd f (n : Rat) = .fin q ∧ 0 ≤ q ∧ q ≤ (n : Rat) + (n : Rat) * uf f ∧ (n : Rat) ≤ q + (n : Rat) * uf f ∧
      q ≤ pow2 65 ∧ (1 ≤ n → 1 / 2 ≤ q) := by
  by_cases h0 : n = 0
  · subst h0
    refine ⟨0, rnd_nonpos f (by decide), by decide +kernel, by simp; decide +kernel, by simp; decide +kernel, Rat.le_of_lt (pow2_pos _), fun h => by omega⟩
  · have h1 : (1 : Rat) ≤ (n : Rat) := one_le_natCast (by omega)
    have h2 : (n : Rat) ≤ pow2 64 := natCast_le_pow2 (k := 64) (by omega)
    have h3 : pow2 64 ≤ pow2 120 := pow2_mono (by decide)
    have := pow2_m120_le_one
    obtain ⟨q, hq, a, b, c, d⟩ := rnd_mid f (x := (n : Rat)) (by grind) (by grind)
    have e : pow2 65 = pow2 64 * 2 := pow2_succ 64
    refine ⟨q, hq, by grind, a, b, by grind, fun _ => by grind⟩


theorem zero_div' (w : Rat) : (0 : Rat) / w = 0 := by rw [Rat.div_def, Rat.zero_mul]

/-- two successive roundings (double, then `FloatType`) of a quotient in `(2^-70, 4)` -/
theorem twice_mid (f : Fmt) {c : Rat} (hlo : pow2 (-70) < c) (hhi : c < 4) :
    ∃ d1 d, rnd .F64 c = .fin d1 ∧ rnd f d1 = .fin d ∧ pow2 (-72) ≤ d ∧ d ≤ 16 := by
  have m1 : pow2 (-120) ≤ pow2 (-70) := pow2_mono (by decide)
  have m2 : (16 : Rat) ≤ pow2 120 := by
    have : pow2 4 ≤ pow2 120 := pow2_mono (by decide)
    have e : pow2 4 = 16 := by decide +kernel
    rwa [e] at this
  obtain ⟨d1, hd1, _, _, a1, b1⟩ := rnd_mid .F64 (x := c) (by grind) (by grind)
  have m3 : pow2 (-71) * 2 = pow2 (-70) := by rw [← pow2_succ]; rfl
  have m4 : pow2 (-72) * 2 = pow2 (-71) := by rw [← pow2_succ]; rfl
  have m5 : pow2 (-120) ≤ pow2 (-71) := pow2_mono (by decide)
  have k1 : pow2 (-120) ≤ d1 := by grind
  have k2 : d1 ≤ pow2 120 := by grind
  obtain ⟨d, hd, _, _, a2, b2⟩ := rnd_mid f (x := d1) k1 k2
  exact ⟨d1, d, hd1, hd, by grind, by grind⟩

/-- the fraction term `(FloatType)((double)val2 / (double)pow10)` is finite and small -/
theorem fracTerm_fin (f : Fmt) (V W : Nat) (hW1 : 1 ≤ W) (hW : W ≤ 10 ^ 19) (hV : V < W) :
    ∃ d, (Mag.div .F64 (rnd .F64 (V : Rat)) (rnd .F64 (W : Rat))).cast f = .fin d ∧ 0 ≤ d ∧ d ≤ 16 ∧
      (d = 0 ∨ pow2 (-72) ≤ d) := by
  have hWlt : W < 18446744073709551616 := by have := pow10_19; omega
  obtain ⟨w, hw, _, hw1, hw2, _, hw3⟩ := rnd_nat .F64 W hWlt
  obtain ⟨v, hv, hv0, hv1, hv2, _, hv3⟩ := rnd_nat .F64 V (by omega)
  have hwpos : 0 < w := by have := hw3 hW1; grind
  have hu := uf_le_half .F64
  have hup := uf_pos .F64
  have hWr : (0 : Rat) ≤ (W : Rat) := Rat.natCast_nonneg
  have hVr : (0 : Rat) ≤ (V : Rat) := Rat.natCast_nonneg
  have hWu : (W : Rat) * uf .F64 ≤ (W : Rat) * (1 / 2) := Rat.mul_le_mul_of_nonneg_left hu hWr
  have hVu : (V : Rat) * uf .F64 ≤ (V : Rat) * (1 / 2) := Rat.mul_le_mul_of_nonneg_left hu hVr
  by_cases hV0 : V = 0
  · subst hV0
    have : v = 0 := by
      have : rnd .F64 ((0 : Nat) : Rat) = .fin 0 := rnd_nonpos _ (by decide +kernel)
      rw [this] at hv; cases hv; rfl
    subst this
    refine ⟨0, ?_, by decide +kernel, by decide +kernel, Or.inl rfl⟩
    rw [hv, hw]
    have hne : w ≠ 0 := by grind
    simp only [Mag.div, hne, if_false, zero_div']
    rw [rnd_nonpos .F64 (by decide +kernel)]
    simp only [Mag.cast]
    exact rnd_nonpos f (by decide +kernel)
  · have hV1 : 1 ≤ V := by omega
    have hvh := hv3 hV1
    have hVW : (V : Rat) + 1 ≤ (W : Rat) := by
      have := Rat.natCast_le_natCast.mpr (show V + 1 ≤ W by omega)
      simpa [Rat.natCast_add] using this
    have hW65 : (W : Rat) ≤ pow2 64 := natCast_le_pow2 (k := 64) (by omega)
    -- the quotient is in the middle range
    have hc4 : v / w < 4 := (Rat.div_lt_iff hwpos).mpr (by grind)
    have hclo : pow2 (-70) < v / w := by
      apply (Rat.lt_div_iff hwpos).mpr
      have e : pow2 (-70) * pow2 65 = pow2 (-5) := by rw [← pow2_add]; rfl
      have e5 : pow2 (-5) < 1 / 2 := by decide +kernel
      have e65 : pow2 65 = pow2 64 * 2 := pow2_succ 64
      have hw65 : w ≤ pow2 65 := by grind
      have := Rat.mul_le_mul_of_nonneg_left hw65 (Rat.le_of_lt (pow2_pos (-70)))
      grind
    obtain ⟨d1, d, hd1, hd, dlo, dhi⟩ := twice_mid f hclo hc4
    refine ⟨d, ?_, by have := pow2_pos (-72); grind, dhi, Or.inr dlo⟩
    rw [hv, hw]
    have hne : w ≠ 0 := by grind
    simp only [Mag.div, hne, if_false, hd1, Mag.cast, hd]

/-- **The mantissa is always finite** (whatever the digits: `predec` and `val2` are 64-bit quantities) -/
theorem mantissa_fin (f : Fmt) (ip fp : List Nat) (hasDot : Bool) (hfp : Dig fp) :
    ∃ q, mantissaL f ip hasDot fp = .fin q ∧ 0 ≤ q := by
  obtain ⟨q0, hq0, hq0n, _, _, hq65, _⟩ := rnd_nat f (predecL ip) (predecL_lt ip)
  unfold mantissaL
  cases hasDot with
  | false => exact ⟨q0, by simpa using hq0, hq0n⟩
  | true =>
    have hb := fracL_bounds fp hfp
    obtain ⟨d, hd, hd0, hd16, hdz⟩ := fracTerm_fin f (fracL fp).1 (fracL fp).2.1 hb.1 hb.2.1 hb.2.2
    simp only [if_true, hq0, hd, Mag.add]
    by_cases hz : q0 + d ≤ 0
    · exact ⟨0, rnd_nonpos f hz, by decide +kernel⟩
    · -- positive: at least 2^-72 or at least 1/2
      have hpos : 0 < q0 + d := by grind
      have hlow : pow2 (-120) ≤ q0 + d := by
        have m : pow2 (-120) ≤ pow2 (-72) := pow2_mono (by decide)
        rcases hdz with h | h
        · -- d = 0, so q0 > 0; q0 is the rounding of a positive integer
          subst h
          have hP : 1 ≤ predecL ip := by
            apply Decidable.byContradiction
            intro hc
            have h0 : predecL ip = 0 := by omega
            rw [h0] at hq0
            have : rnd f ((0 : Nat) : Rat) = .fin 0 := rnd_nonpos _ (by decide +kernel)
            rw [this] at hq0; cases hq0
            grind
          obtain ⟨q0', hq0', _, _, _, _, hh⟩ := rnd_nat f (predecL ip) (predecL_lt ip)
          rw [hq0] at hq0'; cases hq0'
          have := hh hP
          have mh : pow2 (-120) ≤ 1 / 2 := by
            have : pow2 (-120) ≤ pow2 (-1) := pow2_mono (by decide)
            have e : pow2 (-1) = 1 / 2 := by decide +kernel
            rwa [e] at this
          grind
        · grind
      have hhigh : q0 + d ≤ pow2 120 := by
        have e1 : pow2 66 = pow2 65 * 2 := pow2_succ 65
        have e2 : (16 : Rat) ≤ pow2 65 := by
          have : pow2 4 ≤ pow2 65 := pow2_mono (by decide)
          have e : pow2 4 = 16 := by decide +kernel
          rwa [e] at this
        have e3 : pow2 66 ≤ pow2 120 := pow2_mono (by decide)
        grind
      obtain ⟨q, hq, _, _, _, _⟩ := rnd_mid f hlow hhigh
      exact ⟨q, hq, by grind⟩

end DmlcModel.StrToNum
