/-
Helper lemmas for the StrToNum model (core Lean only).

1. `*_ok`: on a list that still contains a *hard stopper* byte `z` (the terminating NUL, or any byte no
   scanner accepts: `Hard z`) every model function succeeds and equals its pure specification
   (`hd` ↦ `hd0`, `scanLoop` ↦ `takeWhile`/`foldl`): `parseFloatCore_ok`, `parseFloat_eq`.
2. `*_ext`: prefix extension — a run that succeeds on `s` succeeds with the same result on `s ++ ext`
   (it never looked beyond `s`): `parseFloatCore_ext`.
-/
import DmlcModel.StrToNum.Model
namespace DmlcModel.StrToNum
open DmlcModel DmlcModel.Gen.StrToNum

/-- the list still contains the stopper byte `z` (the terminating NUL, or any byte no scanner accepts) -/
def Z (z : Byte) (s : Bytes) : Prop := z ∈ s

/-- a byte at which every loop and matcher of the scanners stops: not white space, digit, letter, sign,
dot, parenthesis or underscore.  NUL is one (`hard0`); so are `,` `:` `#` `/` … -/
structure Hard (z : Byte) : Prop where
  space : isSpace z = false
  digit : isDigit z = false
  nanBody : nanBodyChar z.toNat = false
  low : ∀ l ∈ infLit ++ nanLit, lowerOf z.toNat ≠ l
  minus : isMinus z.toNat = false
  plus : isPlus z.toNat = false
  dot : isDot z.toNat = false
  expm : isExpMarker z.toNat = false
  lparen : isLParen z.toNat = false

theorem hard0 : Hard 0 := by constructor <;> decide

/-- `*p` with a default, for the pure specifications (never defaulted on a `Z` list) -/
def hd0 : Bytes → Byte
  | [] => 0
  | c :: _ => c

theorem hd_Z {z : Byte} {s : Bytes} (hz : Z z s) : hd s = .ok (hd0 s) := by
  cases s with
  | nil => simp [Z] at hz
  | cons c cs => rfl

theorem Z_drop1 {z : Byte} {s : Bytes} (hz : Z z s) (hc : hd0 s ≠ z) : Z z (s.drop 1) := by
  cases s with
  | nil => simp [Z] at hz
  | cons c cs =>
    simp only [Z, List.mem_cons, hd0] at hz hc ⊢
    rcases hz with h | h
    · exact absurd h.symm hc
    · simpa using h

theorem Z_dropTW {z : Byte} {s : Bytes} (p : Byte → Bool) (hz : Z z s) (hp : p z = false) :
    Z z (s.drop (s.takeWhile p).length) := by
  induction s with
  | nil => simp [Z] at hz
  | cons c cs ih =>
    by_cases hc : p c = true
    · have hc0 : c ≠ z := by rintro rfl; simp [hp] at hc
      have : Z z cs := by
        simp only [Z, List.mem_cons] at hz ⊢
        rcases hz with h | h
        · exact absurd h.symm hc0
        · exact h
      simpa [List.takeWhile_cons, hc] using ih this
    · simpa [List.takeWhile_cons, hc] using hz

theorem scanLoop_Z {σ : Type} {z : Byte} (p : Byte → Bool) (step : σ → Byte → σ) (hp : p z = false) :
    ∀ (s : Bytes) (st : σ) (k : Nat), Z z s →
      scanLoop p step st k s = .ok ((s.takeWhile p).foldl step st, k + (s.takeWhile p).length) := by
  intro s
  induction s with
  | nil => intro st k hz; simp [Z] at hz
  | cons c cs ih =>
    intro st k hz
    by_cases hc : p c = true
    · have hc0 : c ≠ z := by rintro rfl; simp [hp] at hc
      have hz' : Z z cs := by
        simp only [Z, List.mem_cons] at hz ⊢
        rcases hz with h | h
        · exact absurd h.symm hc0
        · exact h
      simp only [scanLoop, hc, if_true, ih _ _ hz', List.takeWhile_cons, List.foldl_cons, List.length_cons]
      congr 2; omega
    · simp [scanLoop, hc]

/-- pure version of `matchLit` -/
def matchLitP (more : Nat → Bool) : List Nat → Nat → Bytes → Nat
  | lit, i, s =>
    if more i then
      match s with
      | [] => i
      | c :: cs =>
        match lit with
        | l :: ls => if lowerOf c.toNat = l then matchLitP more ls (i + 1) cs else i
        | [] => i
    else i

theorem matchLit_Z {z : Byte} (more : Nat → Bool) :
    ∀ (s : Bytes) (lit : List Nat) (i : Nat), Z z s → (∀ l ∈ lit, lowerOf z.toNat ≠ l) →
      matchLit more lit i s = .ok (matchLitP more lit i s) ∧ i ≤ matchLitP more lit i s ∧
      Z z (s.drop (matchLitP more lit i s - i)) := by
  intro s
  induction s with
  | nil => intro lit i hz; simp [Z] at hz
  | cons c cs ih =>
    intro lit i hz hl
    unfold matchLit matchLitP
    by_cases hm : more i = true
    · simp only [hm, if_true]
      cases lit with
      | nil => simpa using hz
      | cons l ls =>
        by_cases he : lowerOf c.toNat = l
        · have hc0 : c ≠ z := by
            rintro rfl
            exact hl l (by simp) he
          have hz' : Z z cs := by
            simp only [Z, List.mem_cons] at hz ⊢
            rcases hz with h | h
            · exact absurd h.symm hc0
            · exact h
          have := ih ls (i + 1) hz' (fun x hx => hl x (by simp [hx]))
          simp only [he, if_true]
          refine ⟨this.1, by omega, ?_⟩
          have h3 := this.2.2
          have h2 := this.2.1
          have : matchLitP more ls (i + 1) cs - i = (matchLitP more ls (i + 1) cs - (i + 1)) + 1 := by omega
          rw [this, List.drop_succ_cons]; exact h3
        · simp [he]; exact hz
    · simp [hm]; exact hz


/-! ### pure specifications of the model functions (`hd` ↦ `hd0`, `scanLoop` ↦ `takeWhile`/`foldl`) -/

def scanP {σ : Type} (p : Byte → Bool) (step : σ → Byte → σ) (st : σ) (s : Bytes) : σ × Nat :=
  ((s.takeWhile p).foldl step st, (s.takeWhile p).length)

def rangeReturnP (pos : Nat) (rest : Bytes) : PRes :=
  { val := ⟨false, .inf⟩, endIdx := pos + (if isSuffixRange (hd0 rest).toNat then 1 else 0), erange := true }

def parseExponentP (f : Fmt) (chk : Bool) (sign : Bool) (value : Mag) (pos : Nat) (rest : Bytes) (c1 : Byte) : PRes :=
  let frac := isMinus c1.toNat
  let nsg := if isMinus c1.toNat then 1 else if isPlus c1.toNat then 1 else 0
  let r1 := rest.drop (1 + nsg)
  let sc := scanP isDigit (fun (a : Nat) c => exponStep a c.toNat) 0 r1
  let expon0 := sc.1
  let ne := sc.2
  let pos2 := pos + 1 + nsg + ne
  let r2 := r1.drop ne
  let kmax := kMaxExponent f
  if exponTooBig expon0 kmax && chk then rangeReturnP pos2 r2
  else
    let expon := if exponTooBig expon0 kmax then kmax else expon0
    let edge := exponIsMax expon kmax && edgeOutM frac value (kMaxSignificand f) (kNegMaxSignificand f)
    if edge && chk then rangeReturnP pos2 r2
    else
      let value1 := if edge then (if frac then kNegMaxSignificand f else kMaxSignificand f) else value
      let scale := scaleOf f expon
      let value2 := if frac then Mag.div f value1 scale else Mag.mul f value1 scale
      if scaledResultChecked && chk && value2 = .inf then rangeReturnP pos2 r2
      else { val := ⟨!sign, value2⟩, endIdx := pos2 + (if isSuffix (hd0 r2).toNat then 1 else 0), erange := false }


theorem rangeReturn_ok {z : Byte} {pos : Nat} {rest : Bytes} (hz : Z z rest) : rangeReturn pos rest = .ok (rangeReturnP pos rest) := by
  simp [rangeReturn, rangeReturnP, hd_Z hz, bind, Except.bind]

theorem drop_drop' (s : Bytes) (a b : Nat) : (s.drop a).drop b = s.drop (a + b) := by
  rw [List.drop_drop]

theorem ne_of {p : Nat → Bool} {c z : Byte} (h : p c.toNat = true) (h0 : p z.toNat = false) : c ≠ z := by
  rintro rfl
  rw [h0] at h
  exact Bool.noConfusion h

theorem ite_ok {α ε : Type} {c : Prop} [Decidable c] {a b : Except ε α} {a' b' : α}
    (ha : a = .ok a') (hb : b = .ok b') : (if c then a else b) = .ok (if c then a' else b') := by
  split <;> assumption

theorem parseExponent_ok {z : Byte} (hh : Hard z) {f chk sign value pos} {rest : Bytes} {c1 : Byte}
    (hz : Z z rest) (hm : isExpMarker (hd0 rest).toNat = true) (h1 : hd0 (rest.drop 1) = c1) :
    parseExponent f chk sign value pos rest c1 = .ok (parseExponentP f chk sign value pos rest c1) := by
  have hz1 : Z z (rest.drop 1) := Z_drop1 hz (ne_of hm hh.expm)
  have hz2 : Z z (rest.drop (1 + (if isMinus c1.toNat then 1 else if isPlus c1.toNat then 1 else 0))) := by
    by_cases hmi : isMinus c1.toNat = true
    · have : c1 ≠ z := ne_of hmi hh.minus
      simp only [hmi, if_true]
      have := Z_drop1 hz1 (by rw [h1]; exact this)
      rwa [List.drop_drop] at this
    · by_cases hpl : isPlus c1.toNat = true
      · have : c1 ≠ z := ne_of hpl hh.plus
        simp only [hmi, hpl, if_true]
        have := Z_drop1 hz1 (by rw [h1]; exact this)
        rwa [List.drop_drop] at this
      · simpa [hmi, hpl] using hz1
  have hz3 := Z_dropTW isDigit hz2 hh.digit
  unfold parseExponent parseExponentP scanP
  generalize (if isMinus c1.toNat = true then 1 else if isPlus c1.toNat = true then 1 else 0) = nsg at hz2 hz3 ⊢
  simp only [scanLoop_Z isDigit _ hh.digit _ _ _ hz2, bind, Except.bind, Nat.zero_add]
  refine ite_ok (rangeReturn_ok hz3) (ite_ok (rangeReturn_ok hz3) (ite_ok (rangeReturn_ok hz3) ?_))
  rw [hd_Z hz3]


def hdIfP (cond : Bool) (s : Bytes) : Byte := if cond then hd0 s else 0

theorem hdIf_ok {z : Byte} {cond : Bool} {s : Bytes} (h : cond = true → Z z s) : hdIf cond s = .ok (hdIfP cond s) := by
  cases cond with
  | false => rfl
  | true => simp [hdIf, hdIfP, hd_Z (h rfl)]

def parseTailP (f : Fmt) (chk : Bool) (sign : Bool) (value : Mag) (pos : Nat) (rest : Bytes) : PRes :=
  let c := hd0 rest
  if isExpMarker c.toNat then
    let e1 := hd0 (rest.drop 1)
    let e2 := hdIfP (isMinus e1.toNat || isPlus e1.toNat) (rest.drop 2)
    if expLookahead e1.toNat e2.toNat then parseExponentP f chk sign value pos rest e1
    else { val := ⟨!sign, value⟩, endIdx := pos + (if isSuffix c.toNat then 1 else 0), erange := false }
  else { val := ⟨!sign, value⟩, endIdx := pos + (if isSuffix c.toNat then 1 else 0), erange := false }

theorem parseTail_ok {z : Byte} (hh : Hard z) {f chk sign value pos} {rest : Bytes} (hz : Z z rest) :
    parseTail f chk sign value pos rest = .ok (parseTailP f chk sign value pos rest) := by
  unfold parseTail parseTailP
  rw [hd_Z hz]
  simp only [bind, Except.bind]
  by_cases hm : isExpMarker (hd0 rest).toNat = true
  · have hz1 : Z z (rest.drop 1) := Z_drop1 hz (ne_of hm hh.expm)
    have h2 : hdIf (isMinus (hd0 (rest.drop 1)).toNat || isPlus (hd0 (rest.drop 1)).toNat) (rest.drop 2) =
        .ok (hdIfP (isMinus (hd0 (rest.drop 1)).toNat || isPlus (hd0 (rest.drop 1)).toNat) (rest.drop 2)) := by
      apply hdIf_ok
      intro h
      have hne : hd0 (rest.drop 1) ≠ z := by
        rcases Bool.or_eq_true _ _ |>.mp h with h | h
        · exact ne_of h hh.minus
        · exact ne_of h hh.plus
      have := Z_drop1 hz1 hne
      rwa [List.drop_drop] at this
    simp only [hm, if_true, hd_Z hz1, h2]
    exact ite_ok (parseExponent_ok hh hz hm rfl) rfl
  · simp only [hm]
    rfl

def parseFractionP (f : Fmt) (value0 : Mag) (rest : Bytes) : Mag × Nat :=
  let fs := scanP isDigit fracStep ((0, 1, 0) : Nat × Nat × Nat) rest
  (Mag.add f value0 ((Mag.div .F64 (rnd .F64 (fs.1.1 : Rat)) (rnd .F64 (fs.1.2.1 : Rat))).cast f), 1 + fs.2)

theorem parseFraction_ok {z : Byte} (hh : Hard z) {f value0} {rest : Bytes} (hz : Z z rest) :
    parseFraction f value0 rest = .ok (parseFractionP f value0 rest) := by
  unfold parseFraction parseFractionP scanP
  simp only [scanLoop_Z isDigit _ hh.digit _ _ _ hz, bind, Except.bind, Nat.zero_add]

def parseFractionOptP (takeDot : Bool) (f : Fmt) (value0 : Mag) (rest : Bytes) : Mag × Nat :=
  if takeDot then parseFractionP f value0 rest else (value0, 0)

theorem parseFractionOpt_ok {z : Byte} (hh : Hard z) {takeDot f value0} {rest : Bytes} (hz : takeDot = true → Z z rest) :
    parseFractionOpt takeDot f value0 rest = .ok (parseFractionOptP takeDot f value0 rest) := by
  cases takeDot with
  | false => rfl
  | true => simp [parseFractionOpt, parseFractionOptP, parseFraction_ok hh (hz rfl)]

def parseDecimalP (f : Fmt) (chk : Bool) (sign : Bool) (pos : Nat) (rest : Bytes) : PRes :=
  let sc := scanP isDigit (fun (a : Nat) c => predecStep a c.toNat) 0 rest
  let hasDigits0 := sc.2 != 0
  let value0 := rnd f (sc.1 : Rat)
  let r1 := rest.drop sc.2
  let c := hd0 r1
  let c1 := hdIfP (isDot c.toNat && !hasDigits0) (r1.drop 1)
  let takeDot := isDot c.toNat && dotTaken hasDigits0 c1.toNat
  let vn := parseFractionOptP takeDot f value0 (r1.drop 1)
  if !(hasDigits0 || takeDot) then { val := ⟨false, .fin 0⟩, endIdx := 0, erange := false }
  else parseTailP f chk sign vn.1 (pos + sc.2 + vn.2) (r1.drop vn.2)

theorem parseDecimal_ok {z : Byte} (hh : Hard z) {f chk sign pos} {rest : Bytes} (hz : Z z rest) :
    parseDecimal f chk sign pos rest = .ok (parseDecimalP f chk sign pos rest) := by
  have hz1 := Z_dropTW isDigit hz hh.digit
  unfold parseDecimal parseDecimalP scanP
  simp only [scanLoop_Z isDigit _ hh.digit _ _ _ hz, bind, Except.bind, Nat.zero_add]
  generalize List.drop (List.takeWhile isDigit rest).length rest = r1 at hz1 ⊢
  generalize (List.takeWhile isDigit rest).length = nd
  generalize List.foldl (fun (a : Nat) c => predecStep a c.toNat) 0 (List.takeWhile isDigit rest) = predec
  rw [hd_Z hz1]
  simp only []
  have hdotZ : isDot (hd0 r1).toNat = true → Z z (r1.drop 1) := fun h => Z_drop1 hz1 (ne_of h hh.dot)
  have hc1 : hdIf (isDot (hd0 r1).toNat && !(nd != 0)) (r1.drop 1) =
      .ok (hdIfP (isDot (hd0 r1).toNat && !(nd != 0)) (r1.drop 1)) := by
    apply hdIf_ok
    intro h
    exact hdotZ ((Bool.and_eq_true _ _ |>.mp h).1)
  rw [hc1]
  simp only []
  generalize hdIfP (isDot (hd0 r1).toNat && !(nd != 0)) (r1.drop 1) = c1
  have hfr : parseFractionOpt (isDot (hd0 r1).toNat && dotTaken (nd != 0) c1.toNat) f (rnd f (predec : Rat)) (r1.drop 1) =
      .ok (parseFractionOptP (isDot (hd0 r1).toNat && dotTaken (nd != 0) c1.toNat) f (rnd f (predec : Rat)) (r1.drop 1)) := by
    apply parseFractionOpt_ok hh
    intro h
    exact hdotZ ((Bool.and_eq_true _ _ |>.mp h).1)
  rw [hfr]
  simp only []
  refine ite_ok rfl ?_
  apply parseTail_ok hh
  -- Z (r1.drop vn.2)
  unfold parseFractionOptP
  by_cases ht : (isDot (hd0 r1).toNat && dotTaken (nd != 0) c1.toNat) = true
  · simp only [ht, if_true, parseFractionP, scanP]
    have := Z_dropTW isDigit (hdotZ ((Bool.and_eq_true _ _ |>.mp ht).1)) hh.digit
    rwa [List.drop_drop] at this
  · simp only [ht]
    simpa using hz1

def parseNanParenP (rest : Bytes) : Nat :=
  if isLParen (hd0 rest).toNat then
    let nb := ((rest.drop 1).takeWhile (fun b => nanBodyChar b.toNat)).length
    if isRParen (hd0 (rest.drop (1 + nb))).toNat then nb + 2 else 0
  else 0

theorem parseNanParen_ok {z : Byte} (hh : Hard z) {rest : Bytes} (hz : Z z rest) : parseNanParen rest = .ok (parseNanParenP rest) := by
  unfold parseNanParen parseNanParenP
  rw [hd_Z hz]
  simp only [bind, Except.bind]
  by_cases hl : isLParen (hd0 rest).toNat = true
  · have hz1 : Z z (rest.drop 1) := Z_drop1 hz (ne_of hl hh.lparen)
    have hz2 := Z_dropTW (fun b => nanBodyChar b.toNat) hz1 hh.nanBody
    rw [List.drop_drop] at hz2
    simp only [hl, if_true, scanLoop_Z (fun b => nanBodyChar b.toNat) noUnit hh.nanBody _ _ _ hz1, Nat.zero_add, hd_Z hz2]
  · simp only [hl]
    rfl

def parseBodyP (f : Fmt) (chk : Bool) (sign : Bool) (p0 : Nat) (s2 : Bytes) : PRes :=
  let i := matchLitP infMore infLit 0 s2
  if infAccept i then
    { val := ⟨!sign, .inf⟩, endIdx := p0 + (i - (if infIsShort i then infBackoff i else 0)), erange := false }
  else
    let j := matchLitP nanMore nanLit 0 s2
    if nanAccept j then
      { val := ⟨false, .nan⟩, endIdx := p0 + j + parseNanParenP (s2.drop j), erange := false }
    else parseDecimalP f chk sign p0 s2

theorem parseBody_ok {z : Byte} (hh : Hard z) {f chk sign p0} {s2 : Bytes} (hz : Z z s2) :
    parseBody f chk sign p0 s2 = .ok (parseBodyP f chk sign p0 s2) := by
  have hi := matchLit_Z infMore s2 infLit 0 hz (fun l hl => hh.low l (by simp [hl]))
  have hj := matchLit_Z nanMore s2 nanLit 0 hz (fun l hl => hh.low l (by simp [hl]))
  unfold parseBody parseBodyP
  simp only [hi.1, hj.1, bind, Except.bind]
  refine ite_ok rfl (ite_ok ?_ (parseDecimal_ok hh hz))
  have := parseNanParen_ok hh (by simpa using hj.2.2)
  rw [this]

def parseFloatCoreP (f : Fmt) (chk : Bool) (s : Bytes) : PRes :=
  let nws := (s.takeWhile isSpace).length
  let s1 := s.drop nws
  let c := hd0 s1
  let nsg := if isMinus c.toNat then 1 else if isPlus c.toNat then 1 else 0
  parseBodyP f chk (!isMinus c.toNat) (nws + nsg) (s1.drop nsg)

theorem Z_dropSign {z : Byte} (hh : Hard z) {s1 : Bytes} (hz : Z z s1) :
    Z z (s1.drop (if isMinus (hd0 s1).toNat then 1 else if isPlus (hd0 s1).toNat then 1 else 0)) := by
  by_cases hmi : isMinus (hd0 s1).toNat = true
  · simpa [hmi] using Z_drop1 hz (ne_of hmi hh.minus)
  · by_cases hpl : isPlus (hd0 s1).toNat = true
    · simpa [hmi, hpl] using Z_drop1 hz (ne_of hpl hh.plus)
    · simpa [hmi, hpl] using hz

theorem parseFloatCore_ok {z : Byte} (hh : Hard z) {f chk} {s : Bytes} (hz : Z z s) :
    parseFloatCore f chk s = .ok (parseFloatCoreP f chk s) := by
  have hz1 := Z_dropTW isSpace hz hh.space
  unfold parseFloatCore parseFloatCoreP
  simp only [scanLoop_Z isSpace noUnit hh.space _ _ _ hz, bind, Except.bind, Nat.zero_add, hd_Z hz1]
  exact parseBody_ok hh (Z_dropSign hh hz1)

theorem Z_cstr {s : Bytes} (h : (0 : Byte) ∈ s) : Z 0 (cstr s) := by
  induction s with
  | nil => simp at h
  | cons c cs ih =>
    unfold cstr
    by_cases hc : c = 0
    · simp [hc, Z]
    · simp only [hc, if_false, Z, List.mem_cons] at h ⊢
      rcases h with h | h
      · exact absurd h.symm hc
      · exact Or.inr (ih h)

/-- the pure specification of `parseFloat` on a NUL-terminated string -/
theorem parseFloat_eq {f chk} {s : Bytes} (h : (0 : Byte) ∈ s) :
    parseFloat f chk s = .ok (parseFloatCoreP f chk (cstr s)) :=
  parseFloatCore_ok hard0 (Z_cstr h)


/-! ### prefix extension: a run that succeeds on `s` reads nothing beyond `s` -/

theorem hd_ne_nil {s : Bytes} {c : Byte} (h : hd s = .ok c) : s ≠ [] := by
  cases s with
  | nil => simp [hd] at h
  | cons _ _ => simp

theorem hd_ext {s : Bytes} {c : Byte} (ext : Bytes) (h : hd s = .ok c) : hd (s ++ ext) = .ok c := by
  cases s with
  | nil => simp [hd] at h
  | cons _ _ => simpa [hd] using h

theorem drop_app {s : Bytes} {n : Nat} (ext : Bytes) (h : s.drop n ≠ []) : (s ++ ext).drop n = s.drop n ++ ext := by
  have : n < s.length := by
    rcases Nat.lt_or_ge n s.length with h' | h'
    · exact h'
    · exact absurd (List.drop_eq_nil_of_le h') h
  exact List.drop_append_of_le_length (Nat.le_of_lt this)

theorem hdIf_ne_nil {cond : Bool} {s : Bytes} {c : Byte} (h : hdIf cond s = .ok c) (hc : cond = true) : s ≠ [] := by
  subst hc; exact hd_ne_nil (by simpa [hdIf] using h)

theorem hdIf_ext {cond : Bool} {s : Bytes} {c : Byte} (ext : Bytes) (h : hdIf cond s = .ok c) :
    hdIf cond (s ++ ext) = .ok c := by
  cases cond with
  | false => simpa [hdIf] using h
  | true => simpa [hdIf] using hd_ext ext (by simpa [hdIf] using h)

theorem scanLoop_ext {σ : Type} (p : Byte → Bool) (step : σ → Byte → σ) (ext : Bytes) :
    ∀ (s : Bytes) (st : σ) (k : Nat) (r : σ × Nat), scanLoop p step st k s = .ok r →
      scanLoop p step st k (s ++ ext) = .ok r ∧ s.drop (r.2 - k) ≠ [] ∧ k ≤ r.2 := by
  intro s
  induction s with
  | nil => intro st k r h; simp [scanLoop] at h
  | cons c cs ih =>
    intro st k r h
    by_cases hc : p c = true
    · simp only [scanLoop, hc, if_true, List.cons_append] at h ⊢
      have := ih _ _ _ h
      refine ⟨this.1, ?_, by omega⟩
      have e : r.2 - k = (r.2 - (k + 1)) + 1 := by omega
      rw [e, List.drop_succ_cons]; exact this.2.1
    · simp only [scanLoop, hc, List.cons_append] at h ⊢
      simp only [Bool.false_eq_true, if_false] at h ⊢
      cases h
      simp

theorem matchLit_ext (more : Nat → Bool) (ext : Bytes) :
    ∀ (s : Bytes) (lit : List Nat) (i r : Nat), matchLit more lit i s = .ok r →
      matchLit more lit i (s ++ ext) = .ok r := by
  intro s
  induction s with
  | nil =>
    intro lit i r h
    unfold matchLit at h ⊢
    by_cases hm : more i = true
    · simp [hm] at h
    · simpa [hm] using h
  | cons c cs ih =>
    intro lit i r h
    unfold matchLit at h ⊢
    by_cases hm : more i = true
    · simp only [hm, if_true, List.cons_append] at h ⊢
      cases lit with
      | nil => simpa using h
      | cons l ls =>
        by_cases he : lowerOf c.toNat = l
        · simp only [he, if_true] at h ⊢
          exact ih _ _ _ h
        · simpa [he] using h
    · simpa [hm] using h

theorem rangeReturn_ext {pos : Nat} {rest : Bytes} {r : PRes} (ext : Bytes) (h : rangeReturn pos rest = .ok r) :
    rangeReturn pos (rest ++ ext) = .ok r := by
  cases rest with
  | nil => simp [rangeReturn, hd, bind, Except.bind] at h
  | cons c cs => simpa [rangeReturn, hd, bind, Except.bind] using h

theorem bind_ok_inv {α β ε : Type} {x : Except ε α} {k : α → Except ε β} {r : β} (h : (x >>= k) = .ok r) :
    ∃ a, x = .ok a ∧ k a = .ok r := by
  cases x with
  | error e => simp [bind, Except.bind] at h
  | ok a => exact ⟨a, rfl, by simpa [bind, Except.bind] using h⟩

theorem ite_ext {c : Prop} [Decidable c] {a b a' b' : Except Fault PRes} {r : PRes}
    (h : (if c then a else b) = .ok r) (ha : a = .ok r → a' = .ok r) (hb : b = .ok r → b' = .ok r) :
    (if c then a' else b') = .ok r := by
  split at h
  · simp [*]
  · simp [*]

theorem parseExponent_ext {f chk sign value pos} {rest : Bytes} {c1 : Byte} {r : PRes} (ext : Bytes)
    (h : parseExponent f chk sign value pos rest c1 = .ok r) :
    parseExponent f chk sign value pos (rest ++ ext) c1 = .ok r := by
  unfold parseExponent at h ⊢
  dsimp only at h ⊢
  generalize (if isMinus c1.toNat = true then 1 else if isPlus c1.toNat = true then 1 else 0) = nsg at h ⊢
  obtain ⟨sc, h1, h2⟩ := bind_ok_inv h
  have hs := scanLoop_ext isDigit (fun (a : Nat) c => exponStep a c.toNat) ext _ _ _ _ h1
  have hne : rest.drop (1 + nsg) ≠ [] := by
    intro e; rw [e] at h1; simp [scanLoop] at h1
  have hd1 : (rest ++ ext).drop (1 + nsg) = rest.drop (1 + nsg) ++ ext := drop_app ext hne
  have hd2 : (rest.drop (1 + nsg) ++ ext).drop sc.2 = (rest.drop (1 + nsg)).drop sc.2 ++ ext :=
    drop_app ext (by simpa using hs.2.1)
  rw [hd1, hs.1]
  simp only [bind, Except.bind, hd2] at h2 ⊢
  refine ite_ext h2 (rangeReturn_ext ext) (fun h3 => ite_ext h3 (rangeReturn_ext ext) (fun h4 => ite_ext h4 (rangeReturn_ext ext) (fun h5 => ?_)))
  cases h6 : hd (List.drop sc.2 (List.drop (1 + nsg) rest)) with
  | error e => rw [h6] at h5; cases h5
  | ok c => rw [h6] at h5; rw [hd_ext ext h6]; exact h5


theorem parseTail_ext {f chk sign value pos} {rest : Bytes} {r : PRes} (ext : Bytes)
    (h : parseTail f chk sign value pos rest = .ok r) : parseTail f chk sign value pos (rest ++ ext) = .ok r := by
  unfold parseTail at h ⊢
  obtain ⟨c, h1, h2⟩ := bind_ok_inv h
  rw [hd_ext ext h1]
  show (if isExpMarker c.toNat = true then _ else _) = _
  refine ite_ext h2 (fun h3 => ?_) (fun h3 => h3)
  obtain ⟨e1, h4, h5⟩ := bind_ok_inv h3
  obtain ⟨e2, h6, h7⟩ := bind_ok_inv h5
  rw [drop_app ext (hd_ne_nil h4), hd_ext ext h4]
  show (hdIf _ _ >>= _) = _
  by_cases hs : (isMinus e1.toNat || isPlus e1.toNat) = true
  · rw [drop_app ext (hdIf_ne_nil h6 hs), hdIf_ext ext h6]
    exact ite_ext h7 (parseExponent_ext ext) (fun h8 => h8)
  · have hs' : (isMinus e1.toNat || isPlus e1.toNat) = false := by simpa using hs
    rw [hs'] at h6 ⊢
    have : e2 = 0 := by simp [hdIf] at h6; exact h6.symm
    subst this
    show (if _ then _ else _) = _
    exact ite_ext h7 (parseExponent_ext ext) (fun h8 => h8)

theorem parseFractionOpt_ext {takeDot f value0} {rest : Bytes} {r : Mag × Nat} (ext : Bytes)
    (h : parseFractionOpt takeDot f value0 rest = .ok r) :
    parseFractionOpt takeDot f value0 (rest ++ ext) = .ok r ∧ (takeDot = true → rest.drop (r.2 - 1) ≠ [] ∧ 1 ≤ r.2) := by
  cases takeDot with
  | false => exact ⟨by simpa [parseFractionOpt] using h, fun h => by cases h⟩
  | true =>
    simp only [parseFractionOpt, if_true, parseFraction] at h ⊢
    obtain ⟨sc, h1, h2⟩ := bind_ok_inv h
    have hs := scanLoop_ext isDigit fracStep ext _ _ _ _ h1
    rw [hs.1]
    refine ⟨h2, fun _ => ?_⟩
    have : r = (Mag.add f value0 ((Mag.div .F64 (rnd .F64 (sc.1.1 : Rat)) (rnd .F64 (sc.1.2.1 : Rat))).cast f), 1 + sc.2) := by
      cases h2; rfl
    subst this
    refine ⟨?_, by simp⟩
    have := hs.2.1
    simpa using this

theorem parseDecimal_ext {f chk sign pos} {rest : Bytes} {r : PRes} (ext : Bytes)
    (h : parseDecimal f chk sign pos rest = .ok r) : parseDecimal f chk sign pos (rest ++ ext) = .ok r := by
  unfold parseDecimal at h ⊢
  dsimp only at h ⊢
  obtain ⟨sc, h1, h2⟩ := bind_ok_inv h
  have hs := scanLoop_ext isDigit (fun (a : Nat) c => predecStep a c.toNat) ext _ _ _ _ h1
  rw [hs.1]
  show (hd _ >>= _) = _
  obtain ⟨c, h3, h4⟩ := bind_ok_inv h2
  have hd1 : (rest ++ ext).drop sc.2 = rest.drop sc.2 ++ ext := drop_app ext (by simpa using hs.2.1)
  rw [hd1, hd_ext ext h3]
  show (hdIf _ _ >>= _) = _
  obtain ⟨c1, h5, h6⟩ := bind_ok_inv h4
  obtain ⟨vn, h7, h8⟩ := bind_ok_inv h6
  -- the byte after `c` exists whenever `c` is the dot that is looked beyond
  have hdot : isDot c.toNat = true → (rest.drop sc.2).drop 1 ≠ [] := by
    intro hdt
    by_cases hh : (sc.2 != 0) = true
    · -- has_digits: p[1] was not read; the fraction loop reads it
      have ht : (isDot c.toNat && dotTaken (sc.2 != 0) c1.toNat) = true := by simp [hdt, hh, dotTaken]
      rw [ht] at h7
      simp only [parseFractionOpt, if_true, parseFraction] at h7
      obtain ⟨sc2, h9, _⟩ := bind_ok_inv h7
      intro e; rw [e] at h9; simp [scanLoop] at h9
    · have hc : (isDot c.toNat && !(sc.2 != 0)) = true := by simp [hdt, hh]
      exact hdIf_ne_nil h5 hc
  have h5' : hdIf (isDot c.toNat && !(sc.2 != 0)) ((rest.drop sc.2 ++ ext).drop 1) = .ok c1 := by
    by_cases hc : (isDot c.toNat && !(sc.2 != 0)) = true
    · have hdt : isDot c.toNat = true := (Bool.and_eq_true _ _ |>.mp hc).1
      rw [drop_app ext (hdot hdt)]; exact hdIf_ext ext h5
    · have hc' : (isDot c.toNat && !(sc.2 != 0)) = false := by simpa using hc
      rw [hc'] at h5 ⊢; simpa [hdIf] using h5
  rw [h5']
  show (parseFractionOpt _ _ _ _ >>= _) = _
  have hfe := parseFractionOpt_ext ext h7
  have h7' : parseFractionOpt (isDot c.toNat && dotTaken (sc.2 != 0) c1.toNat) f (rnd f (sc.1 : Rat))
      ((rest.drop sc.2 ++ ext).drop 1) = .ok vn := by
    by_cases ht : (isDot c.toNat && dotTaken (sc.2 != 0) c1.toNat) = true
    · have hdt : isDot c.toNat = true := (Bool.and_eq_true _ _ |>.mp ht).1
      rw [drop_app ext (hdot hdt)]; exact hfe.1
    · have ht' : (isDot c.toNat && dotTaken (sc.2 != 0) c1.toNat) = false := by simpa using ht
      rw [ht'] at h7 ⊢; simpa [parseFractionOpt] using h7
  rw [h7']
  show (if _ then _ else _) = _
  refine ite_ext h8 (fun h9 => h9) (fun h9 => ?_)
  have hne : (rest.drop sc.2).drop vn.2 ≠ [] := by
    intro e
    unfold parseTail at h9
    rw [e] at h9
    simp [hd, bind, Except.bind] at h9
  rw [drop_app ext hne]
  exact parseTail_ext ext h9

theorem parseNanParen_ext {rest : Bytes} {r : Nat} (ext : Bytes) (h : parseNanParen rest = .ok r) :
    parseNanParen (rest ++ ext) = .ok r := by
  unfold parseNanParen at h ⊢
  obtain ⟨c, h1, h2⟩ := bind_ok_inv h
  rw [hd_ext ext h1]
  show (if isLParen c.toNat = true then _ else _) = _
  by_cases hl : isLParen c.toNat = true
  · simp only [hl, if_true] at h2 ⊢
    obtain ⟨sc, h3, h4⟩ := bind_ok_inv h2
    obtain ⟨cq, h5, h6⟩ := bind_ok_inv h4
    have hne1 : rest.drop 1 ≠ [] := by intro e; rw [e] at h3; simp [scanLoop] at h3
    have hs := scanLoop_ext (fun b => nanBodyChar b.toNat) noUnit ext _ _ _ _ h3
    rw [drop_app ext hne1, hs.1]
    show (hd _ >>= _) = _
    rw [drop_app ext (hd_ne_nil h5), hd_ext ext h5]
    exact h6
  · simp only [hl] at h2 ⊢
    exact h2

theorem parseBody_ext {f chk sign p0} {s2 : Bytes} {r : PRes} (ext : Bytes)
    (h : parseBody f chk sign p0 s2 = .ok r) : parseBody f chk sign p0 (s2 ++ ext) = .ok r := by
  unfold parseBody at h ⊢
  obtain ⟨i, h1, h2⟩ := bind_ok_inv h
  rw [matchLit_ext infMore ext _ _ _ _ h1]
  show (if _ then _ else _) = _
  refine ite_ext h2 (fun h3 => h3) (fun h3 => ?_)
  obtain ⟨j, h4, h5⟩ := bind_ok_inv h3
  rw [matchLit_ext nanMore ext _ _ _ _ h4]
  show (if _ then _ else _) = _
  refine ite_ext h5 (fun h6 => ?_) (parseDecimal_ext ext)
  obtain ⟨ex, h7, h8⟩ := bind_ok_inv h6
  have hne : s2.drop j ≠ [] := by
    intro e; rw [e] at h7; simp [parseNanParen, hd, bind, Except.bind] at h7
  rw [drop_app ext hne, parseNanParen_ext ext h7]
  exact h8

theorem parseFloatCore_ext {f chk} {s : Bytes} {r : PRes} (ext : Bytes)
    (h : parseFloatCore f chk s = .ok r) : parseFloatCore f chk (s ++ ext) = .ok r := by
  unfold parseFloatCore at h ⊢
  dsimp only at h ⊢
  obtain ⟨sc, h1, h2⟩ := bind_ok_inv h
  have hs := scanLoop_ext isSpace noUnit ext _ _ _ _ h1
  rw [hs.1]
  show (hd _ >>= _) = _
  obtain ⟨c, h3, h4⟩ := bind_ok_inv h2
  have hne : s.drop sc.2 ≠ [] := by simpa using hs.2.1
  rw [drop_app ext hne, hd_ext ext h3]
  show parseBody _ _ _ _ _ = _
  have hne2 : (s.drop sc.2).drop (if isMinus c.toNat = true then 1 else if isPlus c.toNat = true then 1 else 0) ≠ [] := by
    intro e
    unfold parseBody at h4
    rw [e] at h4
    have : matchLit infMore infLit 0 [] = .error .oob := by unfold matchLit; simp [infMore]
    simp [this, bind, Except.bind] at h4
  rw [drop_app ext hne2]
  exact parseBody_ext ext h4

end DmlcModel.StrToNum
