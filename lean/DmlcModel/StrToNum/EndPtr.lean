/- End index of the pure specification = longest numeric prefix (scanNum); spec lemmas of the Gen predicates (core Lean only) -/
import DmlcModel.StrToNum.Int
namespace DmlcModel.StrToNum
open DmlcModel DmlcModel.Gen.StrToNum

/-! ### specification lemmas for the Gen predicates (they stop compiling when the C++ tests change) -/
theorem byte_eq (c k : Byte) : (c = k) ↔ c.toNat = k.toNat := UInt8.toNat_inj.symm
theorem isMinus_spec (c : Byte) : isMinus c.toNat = true ↔ c = 45 := by rw [byte_eq]; simp [isMinus]
theorem isPlus_spec (c : Byte) : isPlus c.toNat = true ↔ c = 43 := by rw [byte_eq]; simp [isPlus]
theorem isDot_spec (c : Byte) : isDot c.toNat = true ↔ c = 46 := by rw [byte_eq]; simp [isDot]
theorem isLParen_spec (c : Byte) : isLParen c.toNat = true ↔ c = 40 := by rw [byte_eq]; simp [isLParen]
theorem isRParen_spec (c : Byte) : isRParen c.toNat = true ↔ c = 41 := by rw [byte_eq]; simp [isRParen]
theorem isSuffix_spec (c : Byte) : isSuffix c.toNat = true ↔ (c = 102 ∨ c = 70) := by
  rw [byte_eq, byte_eq]; simp [isSuffix]
theorem isSuffixRange_spec (c : Byte) : isSuffixRange c.toNat = true ↔ (c = 102 ∨ c = 70) := by
  rw [byte_eq, byte_eq]; simp [isSuffixRange]
theorem isExpMarker_spec (c : Byte) : isExpMarker c.toNat = true ↔ (c = 101 ∨ c = 69) := by
  rw [byte_eq, byte_eq]; simp [isExpMarker]
theorem nanBody_spec : (fun b : Byte => nanBodyChar b.toNat) = isNanBody := by
  funext b
  simp only [nanBodyChar, isNanBody, isDigit, isAlpha]
  congr 1
  rw [Bool.eq_iff_iff]; simp [byte_eq]
theorem expLookahead_spec (c1 c2 : Byte) :
    expLookahead c1.toNat c2.toNat = (isDigit c1 || ((isMinus c1.toNat || isPlus c1.toNat) && isDigit c2)) := by
  simp [expLookahead, isDigit, isMinus, isPlus]
theorem dotTaken_spec (h : Bool) (c1 : Byte) : dotTaken h c1.toNat = (h || isDigit c1) := rfl

theorem drop_tw (p : Byte → Bool) (s : Bytes) : s.drop (s.takeWhile p).length = s.dropWhile p := by
  induction s with
  | nil => rfl
  | cons c cs ih => by_cases h : p c = true <;> simp [h, ih]

theorem tw_ne_nil (p : Byte → Bool) (s : Bytes) : (s.takeWhile p ≠ []) ↔ p (hd0 s) = true ∧ s ≠ [] := by
  cases s with
  | nil => simp
  | cons c cs => by_cases h : p c = true <;> simp [h, hd0]

theorem hd0_zero_facts : isMinus (0 : Byte).toNat = false ∧ isPlus (0 : Byte).toNat = false ∧
    isDot (0 : Byte).toNat = false ∧ isExpMarker (0 : Byte).toNat = false ∧ isSuffix (0 : Byte).toNat = false ∧
    isSuffixRange (0 : Byte).toNat = false ∧ isLParen (0 : Byte).toNat = false ∧ isDigit 0 = false := by decide

/-! ### the stages of the pure specification against the grammar parts of `scanNum` -/

theorem sign_spec (s1 : Bytes) :
    isMinus (hd0 s1).toNat = (signPart s1).1 ∧
    (if isMinus (hd0 s1).toNat then 1 else if isPlus (hd0 s1).toNat then 1 else 0) = (signPart s1).2 := by
  cases s1 with
  | nil => exact ⟨rfl, rfl⟩
  | cons c cs =>
    simp only [hd0, signPart]
    by_cases h1 : c = 45
    · subst h1; exact ⟨rfl, rfl⟩
    · by_cases h2 : c = 43
      · subst h2; exact ⟨rfl, rfl⟩
      · have e1 : isMinus c.toNat = false := by
          cases h : isMinus c.toNat
          · rfl
          · exact absurd ((isMinus_spec c).mp h) h1
        have e2 : isPlus c.toNat = false := by
          cases h : isPlus c.toNat
          · rfl
          · exact absurd ((isPlus_spec c).mp h) h2
        simp [h1, h2, e1, e2]

theorem suf_spec (r : Bytes) : (if isSuffix (hd0 r).toNat then 1 else 0) = sufLen r := by
  cases r with
  | nil => rfl
  | cons c cs =>
    simp only [hd0, sufLen]
    by_cases h : isSuffix c.toNat = true
    · simp [h, (isSuffix_spec c).mp h]
    · have : ¬(c = 102 ∨ c = 70) := fun h' => h ((isSuffix_spec c).mpr h')
      simp [h, this]

theorem sufR_spec (r : Bytes) : (if isSuffixRange (hd0 r).toNat then 1 else 0) = sufLen r := by
  cases r with
  | nil => rfl
  | cons c cs =>
    simp only [hd0, sufLen]
    by_cases h : isSuffixRange c.toNat = true
    · simp [h, (isSuffixRange_spec c).mp h]
    · have : ¬(c = 102 ∨ c = 70) := fun h' => h ((isSuffixRange_spec c).mpr h')
      simp [h, this]

theorem exponent_end (f : Fmt) (chk sign : Bool) (v : Mag) (pos : Nat) (rest : Bytes) (c1 : Byte) :
    (parseExponentP f chk sign v pos rest c1).endIdx =
      pos + 1 + (if isMinus c1.toNat then 1 else if isPlus c1.toNat then 1 else 0) +
        ((rest.drop (1 + (if isMinus c1.toNat then 1 else if isPlus c1.toNat then 1 else 0))).takeWhile isDigit).length +
        sufLen ((rest.drop (1 + (if isMinus c1.toNat then 1 else if isPlus c1.toNat then 1 else 0))).drop
          ((rest.drop (1 + (if isMinus c1.toNat then 1 else if isPlus c1.toNat then 1 else 0))).takeWhile isDigit).length) := by
  unfold parseExponentP rangeReturnP scanP
  generalize (if isMinus c1.toNat = true then 1 else if isPlus c1.toNat = true then 1 else 0) = nsg
  simp only [apply_ite PRes.endIdx, sufR_spec, suf_spec, ite_self]

theorem nanParen_spec (rest : Bytes) : parseNanParenP rest = nanParenLen rest := by
  unfold parseNanParenP
  cases rest with
  | nil => rfl
  | cons c r =>
    simp only [hd0, nanParenLen]
    by_cases h : isLParen c.toNat = true
    · have hc := (isLParen_spec c).mp h
      have l40 : isLParen 40 = true := by decide
      have r41 : isRParen 41 = true := by decide
      subst hc
      simp only [l40, UInt8.toNat_ofNat, if_true, nanBody_spec, List.drop_succ_cons, List.drop_zero]
      have e : List.drop (1 + (List.takeWhile isNanBody r).length) (40 :: r) = r.dropWhile isNanBody := by
        rw [Nat.add_comm, List.drop_succ_cons, drop_tw]
      rw [e]
      cases hdw : r.dropWhile isNanBody with
      | nil => rfl
      | cons q qs =>
        simp only [hd0]
        by_cases hq : isRParen q.toNat = true
        · simp [l40, r41, (isRParen_spec q).mp hq]
        · have hq' : q ≠ 41 := fun e => hq ((isRParen_spec q).mpr e)
          simp [l40, hq, hq']
    · have hc : c ≠ 40 := fun e => h ((isLParen_spec c).mpr e)
      simp [h, hc]


theorem tw_ne_nil' (s : Bytes) : (s.takeWhile isDigit ≠ []) ↔ isDigit (hd0 s) = true := by
  rw [tw_ne_nil]
  constructor
  · exact fun h => h.1
  · intro h
    refine ⟨h, ?_⟩
    rintro rfl
    simp [hd0, hd0_zero_facts.2.2.2.2.2.2.2] at h

theorem sign_not_digit (c : Byte) (h : (isMinus c.toNat || isPlus c.toNat) = true) : isDigit c = false := by
  rcases (Bool.or_eq_true _ _).mp h with h | h
  · rw [(isMinus_spec c).mp h]; decide
  · rw [(isPlus_spec c).mp h]; decide

theorem tw_decide (s : Bytes) : decide (s.takeWhile isDigit ≠ []) = isDigit (hd0 s) := by
  rw [Bool.eq_iff_iff, decide_eq_true_eq]; exact tw_ne_nil' s

/-- the look-ahead after an exponent marker (`r` = bytes after the marker) is the grammar's `sign? digit+` test -/
theorem look_spec (r : Bytes) :
    expLookahead (hd0 r).toNat (hdIfP (isMinus (hd0 r).toNat || isPlus (hd0 r).toNat) (r.drop 1)).toNat =
      decide ((r.drop (signPart r).2).takeWhile isDigit ≠ []) := by
  have ⟨_, hs2⟩ := sign_spec r
  rw [expLookahead_spec, tw_decide]
  by_cases hsg : (isMinus (hd0 r).toNat || isPlus (hd0 r).toNat) = true
  · have h1 : (signPart r).2 = 1 := by
      rw [← hs2]
      rcases (Bool.or_eq_true _ _).mp hsg with h | h
      · simp [h]
      · by_cases h' : isMinus (hd0 r).toNat = true <;> simp [h, h']
    rw [h1, sign_not_digit _ hsg, hsg]
    simp only [hdIfP, if_true, Bool.false_or, Bool.true_and]
  · have hsg' : (isMinus (hd0 r).toNat || isPlus (hd0 r).toNat) = false := by simpa using hsg
    have h1 : (signPart r).2 = 0 := by
      rw [← hs2]
      have a : isMinus (hd0 r).toNat = false := by
        cases h : isMinus (hd0 r).toNat <;> simp_all
      have b : isPlus (hd0 r).toNat = false := by
        cases h : isPlus (hd0 r).toNat <;> simp_all
      simp [a, b]
    rw [h1, hsg']
    simp only [Bool.false_and, Bool.or_false, List.drop_zero]

theorem tail_end (f : Fmt) (chk sign : Bool) (v : Mag) (pos : Nat) (rest : Bytes) :
    (parseTailP f chk sign v pos rest).endIdx = pos + (expPart rest).2 + sufLen (rest.drop (expPart rest).2) := by
  cases rest with
  | nil =>
    have a : isExpMarker (hd0 []).toNat = false := by decide
    have b : isSuffix (hd0 []).toNat = false := by decide
    simp only [parseTailP, a, b, Bool.false_eq_true, if_false, expPart, sufLen, Nat.add_zero, List.drop_nil]
  | cons m r =>
    unfold parseTailP
    have h0 : hd0 (m :: r) = m := rfl
    simp only [h0, List.drop_succ_cons, List.drop_zero]
    by_cases hm : isExpMarker m.toNat = true
    · have hm' := (isExpMarker_spec m).mp hm
      have hnsuf : isSuffix m.toNat = false := by rcases hm' with rfl | rfl <;> decide
      have hnsuf' : ¬(m = 102 ∨ m = 70) := by rcases hm' with rfl | rfl <;> decide
      have ⟨_, hs2⟩ := sign_spec r
      simp only [hm, if_true, expPart, hm', look_spec r]
      by_cases hl : (r.drop (signPart r).2).takeWhile isDigit ≠ []
      · rw [if_pos (decide_eq_true hl), if_pos hl, exponent_end]
        simp only [hs2]
        have e2 : List.drop (1 + (signPart r).2 + ((r.drop (signPart r).2).takeWhile isDigit).length) (m :: r) =
            (r.drop (signPart r).2).drop ((r.drop (signPart r).2).takeWhile isDigit).length := by
          rw [Nat.add_assoc, Nat.add_comm 1, List.drop_succ_cons, List.drop_drop]
        rw [e2]
        have e3 : List.drop (1 + (signPart r).2) (m :: r) = r.drop (signPart r).2 := by
          rw [Nat.add_comm, List.drop_succ_cons]
        simp only [e3]
        omega
      · rw [if_neg (by simpa using hl), if_neg hl]
        simp only [hnsuf, Bool.false_eq_true, if_false, Nat.add_zero, List.drop_zero, sufLen, hnsuf']
    · have hm' : ¬(m = 101 ∨ m = 69) := fun h => hm ((isExpMarker_spec m).mpr h)
      simp only [hm, Bool.false_eq_true, if_false, expPart, hm', Nat.add_zero, List.drop_zero]
      have := suf_spec (m :: r)
      rw [h0] at this
      rw [this]


/-! ### the literal matchers -/

/-- length of the common prefix of `lit` and the lower-cased bytes -/
def cpl : List Nat → Bytes → Nat
  | [], _ => 0
  | _ :: _, [] => 0
  | l :: ls, c :: cs => if lowerOf c.toNat = l then 1 + cpl ls cs else 0

theorem matchLitP_cpl (more : Nat → Bool) :
    ∀ (lit : List Nat) (s : Bytes) (i : Nat), (∀ k, k < i + lit.length → more k = true) →
      matchLitP more lit i s = i + cpl lit s := by
  intro lit
  induction lit with
  | nil =>
    intro s i _
    unfold matchLitP
    cases s <;> simp [cpl]
  | cons l ls ih =>
    intro s i hm
    unfold matchLitP
    have hi : more i = true := hm i (by simp)
    cases s with
    | nil => simp [hi, cpl]
    | cons c cs =>
      simp only [hi, if_true, cpl]
      by_cases he : lowerOf c.toNat = l
      · simp only [he, if_true]
        rw [ih cs (i + 1) (fun k hk => hm k (by simp only [List.length_cons]; omega))]
        omega
      · simp [he]

theorem cpl_le (lit : List Nat) (s : Bytes) : cpl lit s ≤ lit.length := by
  induction lit generalizing s with
  | nil => simp [cpl]
  | cons l ls ih =>
    cases s with
    | nil => simp [cpl]
    | cons c cs =>
      simp only [cpl, List.length_cons]
      split
      · have := ih cs; omega
      · omega

theorem cpl_ge_iff (lit : List Nat) (s : Bytes) (k : Nat) (hk : k ≤ lit.length) :
    k ≤ cpl lit s ↔ startsCI (lit.take k) s = true := by
  induction lit generalizing s k with
  | nil =>
    have : k = 0 := by simpa using hk
    subst this; simp [cpl, startsCI]
  | cons l ls ih =>
    cases k with
    | zero => simp [startsCI]
    | succ k =>
      cases s with
      | nil => simp [cpl, startsCI]
      | cons c cs =>
        simp only [cpl, List.take_succ_cons, startsCI, lower, Bool.and_eq_true, decide_eq_true_eq]
        have hk' : k ≤ ls.length := by simpa using hk
        by_cases he : lowerOf c.toNat = l
        · have he' : c.toNat ||| 32 = l := he
          simp only [he, if_true, he', true_and]
          rw [← ih cs k hk']; simp only [decide_true, true_and]; omega
        · have he' : ¬ (c.toNat ||| 32 = l) := he
          simp [he, he']

theorem infLit_eq : infLit = [105, 110, 102, 105, 110, 105, 116, 121] := rfl
theorem nanLit_eq : nanLit = [110, 97, 110] := rfl

theorem inf_match (s2 : Bytes) :
    matchLitP infMore infLit 0 s2 = cpl infLit s2 ∧ cpl infLit s2 ≤ 8 ∧
    (startsCI [105, 110, 102, 105, 110, 105, 116, 121] s2 = true ↔ 8 ≤ cpl infLit s2) ∧
    (startsCI [105, 110, 102] s2 = true ↔ 3 ≤ cpl infLit s2) := by
  refine ⟨?_, cpl_le infLit s2, ?_, ?_⟩
  · rw [matchLitP_cpl infMore infLit s2 0 (fun k hk => by
      have : k < 8 := by simpa [infLit_eq] using hk
      simp [infMore, this])]
    omega
  · rw [cpl_ge_iff infLit s2 8 (by decide)]; rfl
  · rw [cpl_ge_iff infLit s2 3 (by decide)]; rfl

theorem nan_match (s2 : Bytes) :
    matchLitP nanMore nanLit 0 s2 = cpl nanLit s2 ∧ cpl nanLit s2 ≤ 3 ∧
    (startsCI [110, 97, 110] s2 = true ↔ 3 ≤ cpl nanLit s2) := by
  refine ⟨?_, cpl_le nanLit s2, ?_⟩
  · rw [matchLitP_cpl nanMore nanLit s2 0 (fun k hk => by
      have : k < 3 := by simpa [nanLit_eq] using hk
      simp [nanMore, this])]
    omega
  · rw [cpl_ge_iff nanLit s2 3 (by decide)]; rfl


/-! ### mantissa, body, whole -/

theorem frac_spec (f : Fmt) (v0 : Mag) (h0 : Bool) (r1 : Bytes) :
    (parseFractionOptP (isDot (hd0 r1).toNat &&
        dotTaken h0 (hdIfP (isDot (hd0 r1).toNat && !h0) (r1.drop 1)).toNat) f v0 (r1.drop 1)).2 = (fracPart h0 r1).2 ∧
    ((h0 || (isDot (hd0 r1).toNat &&
        dotTaken h0 (hdIfP (isDot (hd0 r1).toNat && !h0) (r1.drop 1)).toNat)) = false ↔
      (h0 = false ∧ (fracPart h0 r1).2 = 0)) := by
  cases r1 with
  | nil =>
    have a : isDot (hd0 []).toNat = false := by decide
    simp [a, parseFractionOptP, fracPart]
  | cons c r =>
    have h00 : hd0 (c :: r) = c := rfl
    simp only [h00, List.drop_succ_cons, List.drop_zero, fracPart, dotTaken_spec]
    by_cases hd : isDot c.toNat = true
    · have hc := (isDot_spec c).mp hd
      have d46 : isDot 46 = true := by decide
      subst hc
      cases h0 with
      | true => simp [d46, parseFractionOptP, parseFractionP, scanP]
      | false =>
        by_cases hdg : isDigit (hd0 r) = true
        · have := (tw_ne_nil' r).mpr hdg
          simp [d46, hdIfP, hdg, this, parseFractionOptP, parseFractionP, scanP]
        · have : ¬ (r.takeWhile isDigit ≠ []) := fun h => hdg ((tw_ne_nil' r).mp h)
          have hdg' : isDigit (hd0 r) = false := by simpa using hdg
          simp only [ne_eq, Decidable.not_not] at this
          simp [d46, hdIfP, hdg', this, parseFractionOptP]
    · have hc : c ≠ 46 := fun e => hd ((isDot_spec c).mpr e)
      have hd' : isDot c.toNat = false := by simpa using hd
      simp [hd', hc, parseFractionOptP]

theorem len_ne_zero (l : Bytes) : (l.length != 0) = decide (l ≠ []) := by
  cases l <;> simp

theorem decimal_end (f : Fmt) (chk sign : Bool) (pos : Nat) (rest : Bytes) :
    (parseDecimalP f chk sign pos rest).endIdx =
      if rest.takeWhile isDigit = [] ∧ (fracPart (decide (rest.takeWhile isDigit ≠ [])) (rest.dropWhile isDigit)).2 = 0 then 0
      else
        pos + (rest.takeWhile isDigit).length +
          (fracPart (decide (rest.takeWhile isDigit ≠ [])) (rest.dropWhile isDigit)).2 +
          (expPart ((rest.dropWhile isDigit).drop
            (fracPart (decide (rest.takeWhile isDigit ≠ [])) (rest.dropWhile isDigit)).2)).2 +
          sufLen (((rest.dropWhile isDigit).drop
            (fracPart (decide (rest.takeWhile isDigit ≠ [])) (rest.dropWhile isDigit)).2).drop
              (expPart ((rest.dropWhile isDigit).drop
                (fracPart (decide (rest.takeWhile isDigit ≠ [])) (rest.dropWhile isDigit)).2)).2) := by
  unfold parseDecimalP scanP
  simp only [drop_tw, len_ne_zero]
  have hfs := frac_spec f
    (rnd f ((List.foldl (fun (a : Nat) c => predecStep a c.toNat) 0 (rest.takeWhile isDigit) : Nat) : Rat))
    (decide (rest.takeWhile isDigit ≠ [])) (rest.dropWhile isDigit)
  rw [hfs.1]
  by_cases hno : rest.takeWhile isDigit = [] ∧
      (fracPart (decide (rest.takeWhile isDigit ≠ [])) (rest.dropWhile isDigit)).2 = 0
  · have : (decide (rest.takeWhile isDigit ≠ []) = false ∧
        (fracPart (decide (rest.takeWhile isDigit ≠ [])) (rest.dropWhile isDigit)).2 = 0) := by
      refine ⟨by simp [hno.1], hno.2⟩
    have h2 := hfs.2.mpr this
    rw [if_pos hno]
    simp only [h2, Bool.not_false, if_true]
  · have : ¬ (decide (rest.takeWhile isDigit ≠ []) = false ∧
        (fracPart (decide (rest.takeWhile isDigit ≠ [])) (rest.dropWhile isDigit)).2 = 0) := by
      intro h; apply hno; refine ⟨by simpa using h.1, h.2⟩
    have h2 : ¬ _ := fun h => this (hfs.2.mp h)
    rw [if_neg hno]
    simp only [Bool.not_eq_false] at h2
    simp only [h2, Bool.not_true, Bool.false_eq_true, if_false, tail_end]

theorem body_end (f : Fmt) (chk sign : Bool) (p0 : Nat) (s2 : Bytes) :
    (parseBodyP f chk sign p0 s2).endIdx =
      if startsCI [105, 110, 102, 105, 110, 105, 116, 121] s2 then p0 + 8
      else if startsCI [105, 110, 102] s2 then p0 + 3
      else if startsCI [110, 97, 110] s2 then p0 + 3 + nanParenLen (s2.drop 3)
      else (parseDecimalP f chk sign p0 s2).endIdx := by
  have hi := inf_match s2
  have hn := nan_match s2
  unfold parseBodyP
  simp only [hi.1, hn.1]
  by_cases h8 : 8 ≤ cpl infLit s2
  · have e : cpl infLit s2 = 8 := by have := hi.2.1; omega
    have a : infAccept 8 = true := by decide
    have b : infIsShort 8 = false := by decide
    simp [e, a, b, hi.2.2.1.mpr h8]
  · have n8 : ¬ (startsCI [105, 110, 102, 105, 110, 105, 116, 121] s2 = true) := fun h => h8 (hi.2.2.1.mp h)
    simp only [n8, if_false]
    by_cases h3 : 3 ≤ cpl infLit s2
    · have a : infAccept (cpl infLit s2) = true := by simp [infAccept, h3]
      have b : infIsShort (cpl infLit s2) = true := by simp only [infIsShort]; simp; omega
      have c : cpl infLit s2 - infBackoff (cpl infLit s2) = 3 := by simp only [infBackoff, sub32]; omega
      simp [a, b, c, hi.2.2.2.mpr h3]
    · have n3 : ¬ (startsCI [105, 110, 102] s2 = true) := fun h => h3 (hi.2.2.2.mp h)
      have a : infAccept (cpl infLit s2) = false := by simp only [infAccept]; simp; omega
      simp only [n3, a, Bool.false_eq_true, if_false]
      by_cases hn3 : 3 ≤ cpl nanLit s2
      · have e : cpl nanLit s2 = 3 := by have := hn.2.1; omega
        have a : nanAccept 3 = true := by decide
        simp [e, a, hn.2.2.mpr hn3, nanParen_spec]
      · have nn : ¬ (startsCI [110, 97, 110] s2 = true) := fun h => hn3 (hn.2.2.mp h)
        have a : nanAccept (cpl nanLit s2) = false := by simp only [nanAccept]; simp; omega
        simp [nn, a]

/-- **End index = longest numeric prefix**, on the pure specification -/
theorem endIdx_eq_numPrefix (f : Fmt) (chk : Bool) (t : Bytes) :
    (parseFloatCoreP f chk t).endIdx = (numPrefix t).getD 0 := by
  have hs := sign_spec (t.dropWhile isSpace)
  unfold parseFloatCoreP numPrefix scanNum
  simp only [drop_tw, body_end, hs.2, decimal_end]
  by_cases h8 : startsCI [105, 110, 102, 105, 110, 105, 116, 121] ((t.dropWhile isSpace).drop (signPart (t.dropWhile isSpace)).2) = true
  · simp [h8]
  · simp only [h8, Bool.false_eq_true, if_false]
    by_cases h3 : startsCI [105, 110, 102] ((t.dropWhile isSpace).drop (signPart (t.dropWhile isSpace)).2) = true
    · simp [h3]
    · simp only [h3, Bool.false_eq_true, if_false]
      by_cases hn : startsCI [110, 97, 110] ((t.dropWhile isSpace).drop (signPart (t.dropWhile isSpace)).2) = true
      · simp [hn]
      · simp only [hn, Bool.false_eq_true, if_false]
        split
        · rename_i h; simp [h]
        · rename_i h
          simp only [ne_eq, decide_not] at h ⊢
          simp [h]

end DmlcModel.StrToNum
