/- Value and range flag of the pure specification as a function of the lexeme: evalLex, value_spec; leading white space (core Lean only) -/
import DmlcModel.StrToNum.Range
namespace DmlcModel.StrToNum
open DmlcModel DmlcModel.Gen.StrToNum

/-! ### the value the code computes, as a function of the lexeme (`evalLex`) -/

/-- `predec` after the integer digits (values 0-9), with the `uint64_t` wrap-around -/
def predecL (ds : List Nat) : Nat := ds.foldl (fun a d => (a * 10 + d) % 18446744073709551616) 0

/-- `(val2, pow10, digit_cnt)` after the fraction digits -/
def fracStepL (st : Nat × Nat × Nat) (d : Nat) : Nat × Nat × Nat :=
  if st.2.2 < 19 then ((st.1 * 10 + d) % 18446744073709551616, (st.2.1 * 10) % 18446744073709551616, st.2.2 + 1)
  else (st.1, st.2.1, st.2.2 + 1)

def fracL (ds : List Nat) : Nat × Nat × Nat := ds.foldl fracStepL (0, 1, 0)

/-- `expon` after the exponent digits, with the `unsigned` wrap-around -/
def exponL (ds : List Nat) : Nat := ds.foldl (fun a d => (a * 10 + d) % 4294967296) 0

/-- the mantissa value: `(FloatType)predec`, plus `(FloatType)((double)val2 / (double)pow10)` when a '.' was consumed -/
def mantissaL (f : Fmt) (ip : List Nat) (hasDot : Bool) (fp : List Nat) : Mag :=
  let value0 := rnd f ((predecL ip : Nat) : Rat)
  if hasDot then
    Mag.add f value0 ((Mag.div .F64 (rnd .F64 (((fracL fp).1 : Nat) : Rat)) (rnd .F64 (((fracL fp).2.1 : Nat) : Rat))).cast f)
  else value0

/-- the exponent part: value and whether `errno = ERANGE` is raised -/
def expL (f : Fmt) (chk : Bool) (neg : Bool) (value : Mag) (eneg : Bool) (eds : List Nat) : FVal × Bool :=
  let expon0 := exponL eds
  let kmax := kMaxExponent f
  if exponTooBig expon0 kmax && chk then (⟨false, .inf⟩, true)
  else
    let expon := if exponTooBig expon0 kmax then kmax else expon0
    let edge := exponIsMax expon kmax && edgeOutM eneg value (kMaxSignificand f) (kNegMaxSignificand f)
    if edge && chk then (⟨false, .inf⟩, true)
    else
      let value1 := if edge then (if eneg then kNegMaxSignificand f else kMaxSignificand f) else value
      let scale := scaleOf f expon
      let value2 := if eneg then Mag.div f value1 scale else Mag.mul f value1 scale
      if scaledResultChecked && chk && value2 = .inf then (⟨false, .inf⟩, true)
      else (⟨neg, value2⟩, false)

/-- value and range flag of a decimal lexeme, as `ParseFloat<f, chk>` computes them -/
def evalLex (f : Fmt) (chk : Bool) (l : Lexeme) : FVal × Bool :=
  let value := mantissaL f l.intDigits l.hasDot l.fracDigits
  match l.exp with
  | none => (⟨l.neg, value⟩, false)
  | some (eneg, eds) => expL f chk l.neg value eneg eds

/-! ### folds over digit bytes = folds over digit values -/

theorem predec_fold (ds : Bytes) (hd : ∀ c ∈ ds, isDigit c = true) :
    ∀ a, ds.foldl (fun (a : Nat) c => predecStep a c.toNat) a =
      (ds.map digitOf).foldl (fun a d => (a * 10 + d) % 18446744073709551616) a := by
  induction ds with
  | nil => intro a; rfl
  | cons c cs ih =>
    intro a
    have hc := isDigit_range (hd c (by simp))
    simp only [List.foldl_cons, List.map_cons]
    have : predecStep a c.toNat = (a * 10 + digitOf c) % 18446744073709551616 := by
      simp only [predecStep, u64, sub32, digitOf]; omega
    rw [this]
    exact ih (fun x hx => hd x (by simp [hx])) _

theorem expon_fold (ds : Bytes) (hd : ∀ c ∈ ds, isDigit c = true) :
    ∀ a, ds.foldl (fun (a : Nat) c => exponStep a c.toNat) a =
      (ds.map digitOf).foldl (fun a d => (a * 10 + d) % 4294967296) a := by
  induction ds with
  | nil => intro a; rfl
  | cons c cs ih =>
    intro a
    have hc := isDigit_range (hd c (by simp))
    simp only [List.foldl_cons, List.map_cons]
    have : exponStep a c.toNat = (a * 10 + digitOf c) % 4294967296 := by
      simp only [exponStep, u32, sub32, digitOf]; omega
    rw [this]
    exact ih (fun x hx => hd x (by simp [hx])) _

theorem fracDigitTaken_spec (n : Nat) : fracDigitTaken n = decide (n < 19) := rfl
theorem val2Step_spec (a : Nat) (c : Byte) (hc : 48 ≤ c.toNat ∧ c.toNat ≤ 57) :
    val2Step a c.toNat = (a * 10 + digitOf c) % 18446744073709551616 := by
  simp only [val2Step, u64, sub32, digitOf]; omega
theorem pow10Step_spec (a : Nat) : pow10Step a = (a * 10) % 18446744073709551616 := rfl

theorem fracStep_spec (st : Nat × Nat × Nat) (c : Byte) (hc : 48 ≤ c.toNat ∧ c.toNat ≤ 57) :
    fracStep st c = fracStepL st (digitOf c) := by
  unfold fracStep fracStepL
  rw [fracDigitTaken_spec, val2Step_spec _ _ hc, pow10Step_spec]
  by_cases h : st.2.2 < 19 <;> simp [h]

theorem frac_fold (ds : Bytes) (hd : ∀ c ∈ ds, isDigit c = true) :
    ∀ st, ds.foldl fracStep st = (ds.map digitOf).foldl fracStepL st := by
  induction ds with
  | nil => intro st; rfl
  | cons c cs ih =>
    intro st
    have hc := isDigit_range (hd c (by simp))
    simp only [List.foldl_cons, List.map_cons]
    rw [fracStep_spec st c hc]
    exact ih (fun x hx => hd x (by simp [hx])) _

theorem tw_all (p : Byte → Bool) (s : Bytes) : ∀ c ∈ s.takeWhile p, p c = true := by
  induction s with
  | nil => intro c hc; simp at hc
  | cons a as ih =>
    intro c hc
    by_cases ha : p a = true
    · simp only [List.takeWhile_cons, ha, if_true, List.mem_cons] at hc
      rcases hc with rfl | hc
      · exact ha
      · exact ih c hc
    · simp [List.takeWhile_cons, ha] at hc


/-! ### value and range flag of the pure specification, stage by stage -/

def vr (r : PRes) : FVal × Bool := (r.val, r.erange)

theorem vr_ite {c : Prop} [Decidable c] {a b : PRes} {x y : FVal × Bool} (ha : vr a = x) (hb : vr b = y) :
    vr (if c then a else b) = if c then x else y := by
  split <;> assumption

theorem exponent_val (f : Fmt) (chk sign : Bool) (v : Mag) (pos : Nat) (rest : Bytes) (c1 : Byte) :
    vr (parseExponentP f chk sign v pos rest c1) =
      expL f chk (!sign) v (isMinus c1.toNat)
        (((rest.drop (1 + (if isMinus c1.toNat then 1 else if isPlus c1.toNat then 1 else 0))).takeWhile isDigit).map digitOf) := by
  unfold parseExponentP rangeReturnP scanP expL exponL
  generalize (if isMinus c1.toNat = true then 1 else if isPlus c1.toNat = true then 1 else 0) = nsg
  simp only [expon_fold _ (tw_all isDigit _) 0]
  exact vr_ite rfl (vr_ite rfl (vr_ite rfl rfl))

theorem tail_val (f : Fmt) (chk sign : Bool) (v : Mag) (pos : Nat) (rest : Bytes) :
    vr (parseTailP f chk sign v pos rest) =
      match (expPart rest).1 with
      | none => (⟨!sign, v⟩, false)
      | some (eneg, eds) => expL f chk (!sign) v eneg eds := by
  cases rest with
  | nil =>
    have a : isExpMarker (hd0 []).toNat = false := by decide
    simp [parseTailP, a, expPart, vr]
  | cons m r =>
    unfold parseTailP
    have h0 : hd0 (m :: r) = m := rfl
    simp only [h0, List.drop_succ_cons, List.drop_zero]
    by_cases hm : isExpMarker m.toNat = true
    · have hm' := (isExpMarker_spec m).mp hm
      have hs := sign_spec r
      simp only [hm, if_true, look_spec r, expPart, hm']
      by_cases hl : (r.drop (signPart r).2).takeWhile isDigit ≠ []
      · rw [if_pos (decide_eq_true hl), if_pos hl, exponent_val]
        simp only [hs.2]
        simp only [hs.1]
        have e3 : List.drop (1 + (signPart r).2) (m :: r) = r.drop (signPart r).2 := by
          rw [Nat.add_comm, List.drop_succ_cons]
        rw [e3]
      · rw [if_neg (by simpa using hl), if_neg hl]
        rfl
    · have hm' : ¬(m = 101 ∨ m = 69) := fun h => hm ((isExpMarker_spec m).mpr h)
      simp only [hm, Bool.false_eq_true, if_false, expPart, hm']
      rfl

/-- value part of `frac_spec` -/
theorem frac_val (f : Fmt) (v0 : Mag) (h0 : Bool) (r1 : Bytes) :
    (parseFractionOptP (isDot (hd0 r1).toNat &&
        dotTaken h0 (hdIfP (isDot (hd0 r1).toNat && !h0) (r1.drop 1)).toNat) f v0 (r1.drop 1)).1 =
      if (fracPart h0 r1).2 != 0 then
        Mag.add f v0 ((Mag.div .F64 (rnd .F64 (((fracL ((fracPart h0 r1).1.map digitOf)).1 : Nat) : Rat))
          (rnd .F64 (((fracL ((fracPart h0 r1).1.map digitOf)).2.1 : Nat) : Rat))).cast f)
      else v0 := by
  cases r1 with
  | nil =>
    have a : isDot (hd0 []).toNat = false := by decide
    simp [a, parseFractionOptP, fracPart]
  | cons c r =>
    have h00 : hd0 (c :: r) = c := rfl
    simp only [h00, List.drop_succ_cons, List.drop_zero, fracPart, dotTaken_spec]
    by_cases hd : isDot c.toNat = true
    · have hc := (isDot_spec c).mp hd
      have d46 : isDot 46 = true := by decide
      subst hc
      have hfold : List.foldl fracStep (0, 1, 0) (List.takeWhile isDigit r) =
          fracL ((List.takeWhile isDigit r).map digitOf) := frac_fold _ (tw_all isDigit r) _
      cases h0 with
      | true => simp [d46, parseFractionOptP, parseFractionP, scanP, hfold]
      | false =>
        by_cases hdg : isDigit (hd0 r) = true
        · have := (tw_ne_nil' r).mpr hdg
          simp [d46, hdIfP, hdg, this, parseFractionOptP, parseFractionP, scanP, hfold]
        · have : ¬ (r.takeWhile isDigit ≠ []) := fun h => hdg ((tw_ne_nil' r).mp h)
          have hdg' : isDigit (hd0 r) = false := by simpa using hdg
          simp only [ne_eq, Decidable.not_not] at this
          simp [d46, hdIfP, hdg', this, parseFractionOptP]
    · have hc : c ≠ 46 := fun e => hd ((isDot_spec c).mpr e)
      have hd' : isDot c.toNat = false := by simpa using hd
      simp [hd', hc, parseFractionOptP]


theorem decimal_val (f : Fmt) (chk sign : Bool) (pos : Nat) (rest : Bytes)
    (hno : ¬(rest.takeWhile isDigit = [] ∧
      (fracPart (decide (rest.takeWhile isDigit ≠ [])) (rest.dropWhile isDigit)).2 = 0)) :
    vr (parseDecimalP f chk sign pos rest) =
      evalLex f chk
        { neg := !sign, intDigits := (rest.takeWhile isDigit).map digitOf,
          hasDot := (fracPart (decide (rest.takeWhile isDigit ≠ [])) (rest.dropWhile isDigit)).2 != 0,
          fracDigits := (fracPart (decide (rest.takeWhile isDigit ≠ [])) (rest.dropWhile isDigit)).1.map digitOf,
          exp := (expPart ((rest.dropWhile isDigit).drop
            (fracPart (decide (rest.takeWhile isDigit ≠ [])) (rest.dropWhile isDigit)).2)).1 } := by
  unfold parseDecimalP scanP
  simp only [drop_tw, len_ne_zero]
  have hfs := frac_spec f
    (rnd f ((List.foldl (fun (a : Nat) c => predecStep a c.toNat) 0 (rest.takeWhile isDigit) : Nat) : Rat))
    (decide (rest.takeWhile isDigit ≠ [])) (rest.dropWhile isDigit)
  have hfv := frac_val f
    (rnd f ((List.foldl (fun (a : Nat) c => predecStep a c.toNat) 0 (rest.takeWhile isDigit) : Nat) : Rat))
    (decide (rest.takeWhile isDigit ≠ [])) (rest.dropWhile isDigit)
  rw [hfs.1, hfv]
  have : ¬ (decide (rest.takeWhile isDigit ≠ []) = false ∧
      (fracPart (decide (rest.takeWhile isDigit ≠ [])) (rest.dropWhile isDigit)).2 = 0) := by
    intro h'; apply hno; exact ⟨by simpa using h'.1, h'.2⟩
  have h2 : ¬ _ := fun h' => this (hfs.2.mp h')
  simp only [Bool.not_eq_false] at h2
  simp only [h2, Bool.not_true, Bool.false_eq_true, if_false, tail_val]
  unfold evalLex mantissaL predecL
  simp only [predec_fold _ (tw_all isDigit _) 0]

/-- **Value specification.**  Value and range flag of the pure specification of `ParseFloat`, by the kind of the
numeric prefix: for a decimal lexeme they are `evalLex` of the lexeme. -/
theorem value_spec (f : Fmt) (chk : Bool) (t : Bytes) :
    match scanNum t with
    | some (.dec l, _) => vr (parseFloatCoreP f chk t) = evalLex f chk l
    | some (.inf neg, _) => vr (parseFloatCoreP f chk t) = (⟨neg, .inf⟩, false)
    | some (.nan, _) => vr (parseFloatCoreP f chk t) = (⟨false, .nan⟩, false)
    | none => vr (parseFloatCoreP f chk t) = (⟨false, .fin 0⟩, false) := by
  have hs := sign_spec (t.dropWhile isSpace)
  unfold parseFloatCoreP scanNum
  simp only [drop_tw, hs.2]
  generalize hs2 : (t.dropWhile isSpace).drop (signPart (t.dropWhile isSpace)).2 = s2
  have hi := inf_match s2
  have hn := nan_match s2
  unfold parseBodyP
  simp only [hi.1, hn.1, hs.1, Bool.not_not]
  by_cases h8 : 8 ≤ cpl infLit s2
  · have a : infAccept (cpl infLit s2) = true := by simp only [infAccept]; simp; omega
    simp only [hi.2.2.1.mpr h8, if_true, a]; rfl
  · have n8 : startsCI [105, 110, 102, 105, 110, 105, 116, 121] s2 = false := by
      cases hh : startsCI [105, 110, 102, 105, 110, 105, 116, 121] s2
      · rfl
      · exact absurd (hi.2.2.1.mp hh) h8
    simp only [n8, Bool.false_eq_true, if_false]
    by_cases h3 : 3 ≤ cpl infLit s2
    · have a : infAccept (cpl infLit s2) = true := by simp [infAccept, h3]
      simp only [hi.2.2.2.mpr h3, if_true, a]; rfl
    · have n3 : startsCI [105, 110, 102] s2 = false := by
        cases hh : startsCI [105, 110, 102] s2
        · rfl
        · exact absurd (hi.2.2.2.mp hh) h3
      have a : infAccept (cpl infLit s2) = false := by simp only [infAccept]; simp; omega
      simp only [n3, a, Bool.false_eq_true, if_false]
      by_cases hn3 : 3 ≤ cpl nanLit s2
      · have e : cpl nanLit s2 = 3 := by have := hn.2.1; omega
        have a : nanAccept 3 = true := by decide
        simp only [hn.2.2.mpr hn3, if_true, e, a]; rfl
      · have nn : startsCI [110, 97, 110] s2 = false := by
          cases hh : startsCI [110, 97, 110] s2
          · rfl
          · exact absurd (hn.2.2.mp hh) hn3
        have a : nanAccept (cpl nanLit s2) = false := by simp only [nanAccept]; simp; omega
        simp only [nn, a, Bool.false_eq_true, if_false]
        by_cases hno : (s2.takeWhile isDigit = [] ∧
            (fracPart (decide (s2.takeWhile isDigit ≠ [])) (s2.dropWhile isDigit)).2 = 0)
        · rw [if_pos hno]
          -- no conversion
          unfold parseDecimalP scanP
          simp only [drop_tw, len_ne_zero]
          have hfs := frac_spec f
            (rnd f ((List.foldl (fun (a : Nat) c => predecStep a c.toNat) 0 (s2.takeWhile isDigit) : Nat) : Rat))
            (decide (s2.takeWhile isDigit ≠ [])) (s2.dropWhile isDigit)
          have : (decide (s2.takeWhile isDigit ≠ []) = false ∧
              (fracPart (decide (s2.takeWhile isDigit ≠ [])) (s2.dropWhile isDigit)).2 = 0) :=
            ⟨by simp [hno.1], hno.2⟩
          have h2 := hfs.2.mpr this
          simp only [h2, Bool.not_false, if_true]; rfl
        · rw [if_neg hno]
          have := decimal_val f chk (!(signPart (t.dropWhile isSpace)).1)
            ((t.takeWhile isSpace).length + (signPart (t.dropWhile isSpace)).2) s2 hno
          simpa using this

/-! ### leading white space -/

theorem dropWhile_append_all {p : Byte → Bool} {a b : Bytes} (ha : ∀ c ∈ a, p c = true) :
    (a ++ b).dropWhile p = b.dropWhile p := by
  induction a with
  | nil => rfl
  | cons c cs ih =>
    have hc : p c = true := ha c (by simp)
    simp [List.dropWhile_cons, hc, ih (fun x hx => ha x (by simp [hx]))]

/-- leading white space (the code's `isspace`: space, `\t`, `\r`, `\n`, `\f`) only shifts the numeric prefix -/
theorem scanNum_ws (ws t : Bytes) (hws : ∀ c ∈ ws, isSpace c = true) :
    scanNum (ws ++ t) = (scanNum t).map (fun kn => (kn.1, kn.2 + ws.length)) := by
  unfold scanNum
  simp only [takeWhile_append_all hws, dropWhile_append_all hws, List.length_append]
  generalize List.dropWhile isSpace t = s1
  generalize (List.takeWhile isSpace t).length = nws
  split
  · simp only [Option.map_some, Option.some.injEq, Prod.mk.injEq, true_and]; omega
  · split
    · simp only [Option.map_some, Option.some.injEq, Prod.mk.injEq, true_and]; omega
    · split
      · simp only [Option.map_some, Option.some.injEq, Prod.mk.injEq, true_and]; omega
      · split
        · rfl
        · simp only [Option.map_some, Option.some.injEq, Prod.mk.injEq, true_and]; omega

end DmlcModel.StrToNum
