/- Scale tables, exact digit values, and the mantissa approximation (core Lean only) -/
import DmlcModel.StrToNum.Calc
namespace DmlcModel.StrToNum
open DmlcModel DmlcModel.Gen.StrToNum

/-! ### the scaling factor `10^expon` as the code computes it: checked for every admissible exponent -/

/-- `scaleOf f E` is finite and within `k` units of round-off of `10^E` -/
def scaleOK (f : Fmt) (k : Nat) (E : Nat) : Bool :=
  match scaleOf f E with
  | .fin sc =>
    decide (((10 ^ E : Nat) : Rat) ≤ sc + ((10 ^ E : Nat) : Rat) * ((k : Rat) * pow2 (-(f.prec : Int)))) &&
    decide (sc ≤ ((10 ^ E : Nat) : Rat) + ((10 ^ E : Nat) : Rat) * ((k : Rat) * pow2 (-(f.prec : Int))))
  | _ => false

set_option maxRecDepth 100000 in
theorem scale_table32 : ∀ E, E < 39 → scaleOK .F32 2 E = true := by decide +kernel
set_option maxRecDepth 100000 in
theorem scale_table64 : ∀ E, E < 309 → scaleOK .F64 5 E = true := by decide +kernel

/-- units of round-off the scaling factor may be off (observed maxima: 1.2 and 4.8) -/
def kS : Fmt → Nat | .F32 => 2 | .F64 => 5

theorem scale_approx (f : Fmt) (E : Nat) (hE : E ≤ kMaxExponent f) :
    ∃ sc, scaleOf f E = .fin sc ∧ Approx ((kS f : Rat) * uf f) sc ((10 ^ E : Nat) : Rat) := by
  have h : scaleOK f (kS f) E = true := by
    cases f with
    | F32 => exact scale_table32 E (by have : kMaxExponent .F32 = 38 := rfl; omega)
    | F64 => exact scale_table64 E (by have : kMaxExponent .F64 = 308 := rfl; omega)
  unfold scaleOK at h
  cases hs : scaleOf f E with
  | fin sc =>
    rw [hs] at h
    simp only [Bool.and_eq_true, decide_eq_true_eq] at h
    exact ⟨sc, rfl, ⟨h.1, h.2⟩⟩
  | inf => rw [hs] at h; cases h
  | nan => rw [hs] at h; cases h

/-! ### exact digit values for at most 19 digits -/

theorem foldl_exact_of_lt (M : Nat) (ds : List Nat) :
    ∀ a, ds.foldl (fun a d => a * 10 + d) a < M →
      ds.foldl (fun a d => (a * 10 + d) % M) a = ds.foldl (fun a d => a * 10 + d) a := by
  induction ds with
  | nil => intro a _; rfl
  | cons d ds ih =>
    intro a ha
    simp only [List.foldl_cons] at ha ⊢
    have mono : ∀ (l : List Nat) (b : Nat), b ≤ l.foldl (fun a d => a * 10 + d) b := by
      intro l
      induction l with
      | nil => intro b; exact Nat.le_refl _
      | cons e es ihh => intro b; simp only [List.foldl_cons]; have := ihh (b * 10 + e); omega
    have := mono ds (a * 10 + d)
    rw [Nat.mod_eq_of_lt (by omega)]
    exact ih _ ha

/-- the exponent field when it is at most `2^32 - 1` (leading zeros allowed) -/
theorem exponL_exact (ds : List Nat) (h : digitsVal ds < 4294967296) : exponL ds = digitsVal ds :=
  foldl_exact_of_lt _ ds 0 h


theorem fracL_exact_aux (ds : List Nat) (hd : Dig ds) :
    ∀ st : Nat × Nat × Nat, st.2.2 + ds.length ≤ 19 → st.2.1 = 10 ^ st.2.2 → st.1 < st.2.1 →
      ds.foldl fracStepL st =
        (ds.foldl (fun a d => a * 10 + d) st.1, st.2.1 * 10 ^ ds.length, st.2.2 + ds.length) := by
  induction ds with
  | nil => intro st _ _ _; simp
  | cons d ds ih =>
    intro st hc hw hv
    have hd9 : d ≤ 9 := hd d (by simp)
    simp only [List.length_cons] at hc
    have hlt : st.2.2 < 19 := by omega
    have hle : 10 ^ (st.2.2 + 1) ≤ 10 ^ 19 := Nat.pow_le_pow_right (by decide) (by omega)
    have hp : 10 ^ (st.2.2 + 1) = 10 ^ st.2.2 * 10 := by rw [Nat.pow_succ]
    have hM := pow10_19
    have hstep : fracStepL st d = (st.1 * 10 + d, st.2.1 * 10, st.2.2 + 1) := by
      unfold fracStepL
      simp only [hlt, if_true]
      rw [Nat.mod_eq_of_lt (by omega), Nat.mod_eq_of_lt (by omega)]
    simp only [List.foldl_cons, hstep, List.length_cons]
    rw [ih (fun x hx => hd x (by simp [hx])) _ (by simp only []; omega) (by simp only []; rw [hw, hp]) (by simp only []; omega)]
    simp only [Prod.mk.injEq, true_and]
    constructor
    · rw [Nat.pow_succ, Nat.mul_assoc, Nat.mul_comm 10]
    · omega

/-- at most 19 fraction digits: `val2` is their exact value and `pow10 = 10^n` -/
theorem fracL_exact (ds : List Nat) (hd : Dig ds) (hl : ds.length ≤ 19) :
    (fracL ds).1 = digitsVal ds ∧ (fracL ds).2.1 = 10 ^ ds.length := by
  have := fracL_exact_aux ds hd (0, 1, 0) (by simpa using hl) (by decide) (by decide)
  unfold fracL
  rw [this]
  exact ⟨rfl, by simp⟩


/-! ### the mantissa: `(FloatType)predec + (FloatType)((double)val2 / (double)pow10)` -/

theorem natCast_div_nonneg (V W : Nat) : (0 : Rat) ≤ (V : Rat) / (W : Rat) := by
  rw [Rat.div_def]
  apply Rat.mul_nonneg Rat.natCast_nonneg
  by_cases h : W = 0
  · subst h; simp
  · exact Rat.le_of_lt (Rat.inv_pos.mpr (Rat.natCast_pos.mpr (Nat.pos_of_ne_zero h)))

theorem eps_frac (f : Fmt) :
    uf f + (uf .F64 + (uf .F64 + 2 * uf .F64 + 2 * uf .F64 * uf .F64) + uf .F64 * (uf .F64 + 2 * uf .F64 + 2 * uf .F64 * uf .F64)) +
      uf f * (uf .F64 + (uf .F64 + 2 * uf .F64 + 2 * uf .F64 * uf .F64) + uf .F64 * (uf .F64 + 2 * uf .F64 + 2 * uf .F64 * uf .F64)) ≤
    8 * uf f := by cases f <;> decide +kernel

/-- the fraction term approximates `V / W` within 8 units of round-off -/
theorem fracTerm_approx (f : Fmt) (V W : Nat) (hW1 : 1 ≤ W) (hW : W ≤ 10 ^ 19) (hV : V < W) :
    ∃ d, (Mag.div .F64 (rnd .F64 (V : Rat)) (rnd .F64 (W : Rat))).cast f = .fin d ∧
      Approx (8 * uf f) d ((V : Rat) / (W : Rat)) ∧ 0 ≤ d ∧ d ≤ 16 ∧ (V = 0 → d = 0) ∧ (1 ≤ V → pow2 (-72) ≤ d) := by
  have hWlt : W < 18446744073709551616 := by have := pow10_19; omega
  obtain ⟨w, hw, _, hw1, hw2, _, hw3⟩ := rnd_nat .F64 W hWlt
  obtain ⟨v, hv, hv0, hv1, hv2, _, hv3⟩ := rnd_nat .F64 V (by omega)
  have hwpos : 0 < w := by have := hw3 hW1; grind
  have hne : w ≠ 0 := by grind
  by_cases hV0 : V = 0
  · subst hV0
    have : v = 0 := by
      have : rnd .F64 ((0 : Nat) : Rat) = .fin 0 := rnd_nonpos _ (by decide +kernel)
      rw [this] at hv; cases hv; rfl
    subst this
    refine ⟨0, ?_, ?_, by decide +kernel, by decide +kernel, fun _ => rfl, fun h => by omega⟩
    · rw [hv, hw]
      simp only [Mag.div, hne, if_false, zero_div']
      rw [rnd_nonpos .F64 (by decide +kernel)]
      simp only [Mag.cast]
      exact rnd_nonpos f (by decide +kernel)
    · have : ((0 : Nat) : Rat) / (W : Rat) = 0 := by
        have : ((0 : Nat) : Rat) = 0 := rfl
        rw [this, zero_div']
      rw [this]
      exact ⟨by simp; decide +kernel, by simp; decide +kernel⟩
  · have hV1 : 1 ≤ V := by omega
    have hvh := hv3 hV1
    have hu := uf_le_half .F64
    have hup := uf_pos .F64
    have hWr : (0 : Rat) ≤ (W : Rat) := Rat.natCast_nonneg
    have hVr : (0 : Rat) ≤ (V : Rat) := Rat.natCast_nonneg
    have hWpos : (0 : Rat) < (W : Rat) := Rat.natCast_pos.mpr (by omega)
    have hWu : (W : Rat) * uf .F64 ≤ (W : Rat) * (1 / 2) := Rat.mul_le_mul_of_nonneg_left hu hWr
    have hVu : (V : Rat) * uf .F64 ≤ (V : Rat) * (1 / 2) := Rat.mul_le_mul_of_nonneg_left hu hVr
    have hVW : (V : Rat) + 1 ≤ (W : Rat) := by
      have := Rat.natCast_le_natCast.mpr (show V + 1 ≤ W by omega)
      simpa [Rat.natCast_add] using this
    have hW65 : (W : Rat) ≤ pow2 64 := natCast_le_pow2 (k := 64) (by omega)
    have hc4 : v / w < 4 := (Rat.div_lt_iff hwpos).mpr (by grind)
    have hclo : pow2 (-70) < v / w := by
      apply (Rat.lt_div_iff hwpos).mpr
      have e : pow2 (-70) * pow2 65 = pow2 (-5) := by rw [← pow2_add]; rfl
      have e5 : pow2 (-5) < 1 / 2 := by decide +kernel
      have e65 : pow2 65 = pow2 64 * 2 := pow2_succ 64
      have hw65 : w ≤ pow2 65 := by grind
      have := Rat.mul_le_mul_of_nonneg_left hw65 (Rat.le_of_lt (pow2_pos (-70)))
      grind
    -- error of the quotient
    have aV : Approx (uf .F64) v (V : Rat) := ⟨hv2, hv1⟩
    have aW : Approx (uf .F64) w (W : Rat) := ⟨hw2, hw1⟩
    have aQ := Approx.div aV aW hVr hWpos (Rat.le_of_lt hup) (Rat.le_of_lt hup) hu
    -- the two roundings
    have m1 : pow2 (-120) ≤ pow2 (-70) := pow2_mono (by decide)
    have m2 : (16 : Rat) ≤ pow2 120 := by
      have : pow2 4 ≤ pow2 120 := pow2_mono (by decide)
      have e : pow2 4 = 16 := by decide +kernel
      rwa [e] at this
    obtain ⟨d1, hd1, r1, r2, a1, b1⟩ := rnd_mid .F64 (x := v / w) (by grind) (by grind)
    have m3 : pow2 (-71) * 2 = pow2 (-70) := by rw [← pow2_succ]; rfl
    have m4 : pow2 (-72) * 2 = pow2 (-71) := by rw [← pow2_succ]; rfl
    have m5 : pow2 (-120) ≤ pow2 (-71) := pow2_mono (by decide)
    have k1 : pow2 (-120) ≤ d1 := by grind
    have k2 : d1 ≤ pow2 120 := by grind
    obtain ⟨d, hd, r3, r4, a2, b2⟩ := rnd_mid f (x := d1) k1 k2
    have hq0 := natCast_div_nonneg V W
    have aD1 : Approx (uf .F64) d1 (v / w) := ⟨r2, r1⟩
    have aD : Approx (uf f) d d1 := ⟨r4, r3⟩
    have t1 := Approx.trans aD1 aQ hq0 (Rat.le_of_lt hup) (by grind) (by
      have : 0 ≤ uf .F64 * uf .F64 := Rat.mul_nonneg (Rat.le_of_lt hup) (Rat.le_of_lt hup); grind)
    have huf := uf_le_half f
    have hufp := uf_pos f
    have t2 := Approx.trans aD t1 hq0 (Rat.le_of_lt hufp) (by grind) (by
      have h1 : 0 ≤ uf .F64 * uf .F64 := Rat.mul_nonneg (Rat.le_of_lt hup) (Rat.le_of_lt hup)
      have h2 : 0 ≤ uf .F64 * (uf .F64 + 2 * uf .F64 + 2 * uf .F64 * uf .F64) :=
        Rat.mul_nonneg (Rat.le_of_lt hup) (by grind)
      grind)
    refine ⟨d, ?_, t2.mono hq0 (eps_frac f), by have := pow2_pos (-72); grind, by grind, fun h => by omega, fun _ => by grind⟩
    rw [hv, hw]
    simp only [Mag.div, hne, if_false, hd1, Mag.cast, hd]


/-- the code's mantissa from `predec = P` and, when a '.' was consumed, `(val2, pow10) = (V, W)` -/
def mantissaPVW (f : Fmt) (P : Nat) (hasDot : Bool) (V W : Nat) : Mag :=
  if hasDot then Mag.add f (rnd f (P : Rat)) ((Mag.div .F64 (rnd .F64 (V : Rat)) (rnd .F64 (W : Rat))).cast f)
  else rnd f (P : Rat)

theorem mantissaL_eq (f : Fmt) (ip fp : List Nat) (hasDot : Bool) :
    mantissaL f ip hasDot fp = mantissaPVW f (predecL ip) hasDot (fracL fp).1 (fracL fp).2.1 := rfl

theorem eps_mant (f : Fmt) : uf f + 8 * uf f + uf f * (8 * uf f) ≤ 10 * uf f := by cases f <;> decide +kernel
theorem eps_one (f : Fmt) : uf f ≤ 10 * uf f := by cases f <;> decide +kernel
theorem eps_eight (f : Fmt) : uf f ≤ 8 * uf f := by cases f <;> decide +kernel

/-- **the mantissa is within 10 units of round-off of `P + V/W`** -/
theorem mantissa_approx (f : Fmt) (P V W : Nat) (hP : P < 18446744073709551616) (hW1 : 1 ≤ W) (hW : W ≤ 10 ^ 19)
    (hV : V < W) (hasDot : Bool) :
    ∃ q, mantissaPVW f P hasDot V W = .fin q ∧
      Approx (10 * uf f) q ((P : Rat) + (if hasDot then (V : Rat) / (W : Rat) else 0)) := by
  obtain ⟨q0, hq0, hq0n, hq1, hq2, hq65, hqh⟩ := rnd_nat f P hP
  have aP : Approx (uf f) q0 (P : Rat) := ⟨hq2, hq1⟩
  have hPr : (0 : Rat) ≤ (P : Rat) := Rat.natCast_nonneg
  unfold mantissaPVW
  cases hasDot with
  | false =>
    refine ⟨q0, by simpa using hq0, ?_⟩
    simp only [Bool.false_eq_true, if_false, Rat.add_zero]
    exact aP.mono hPr (eps_one f)
  | true =>
    obtain ⟨d, hd, aD, hd0, hd16, hdz, hdl⟩ := fracTerm_approx f V W hW1 hW hV
    have hF := natCast_div_nonneg V W
    simp only [if_true, hq0, hd, Mag.add]
    have aS : Approx (8 * uf f) (q0 + d) ((P : Rat) + (V : Rat) / (W : Rat)) :=
      (aP.mono hPr (eps_eight f)).add aD
    by_cases hz : q0 + d ≤ 0
    · -- both parts are zero
      have hq00 : q0 = 0 := by grind
      have hd00 : d = 0 := by grind
      have hP0 : P = 0 := by
        apply Decidable.byContradiction
        intro hc
        have := hqh (by omega)
        grind
      have hV0 : V = 0 := by
        apply Decidable.byContradiction
        intro hc
        have := hdl (by omega)
        have := pow2_pos (-72)
        grind
      subst hP0 hV0
      refine ⟨0, rnd_nonpos f hz, ?_⟩
      have : ((0 : Nat) : Rat) + ((0 : Nat) : Rat) / (W : Rat) = 0 := by
        have e : ((0 : Nat) : Rat) = 0 := rfl
        rw [e, zero_div', Rat.add_zero]
      rw [this]
      exact ⟨by simp; decide +kernel, by simp; decide +kernel⟩
    · have hpos : 0 < q0 + d := by grind
      have hlow : pow2 (-120) ≤ q0 + d := by
        have m : pow2 (-120) ≤ pow2 (-72) := pow2_mono (by decide)
        have mh : pow2 (-120) ≤ 1 / 2 := by
          have : pow2 (-120) ≤ pow2 (-1) := pow2_mono (by decide)
          have e : pow2 (-1) = 1 / 2 := by decide +kernel
          rwa [e] at this
        by_cases hV0 : V = 0
        · have hd00 := hdz hV0
          have hP1 : 1 ≤ P := by
            apply Decidable.byContradiction
            intro hc
            have h0 : P = 0 := by omega
            subst h0
            have : rnd f ((0 : Nat) : Rat) = .fin 0 := rnd_nonpos _ (by decide +kernel)
            rw [this] at hq0; cases hq0
            grind
          have := hqh hP1
          grind
        · have := hdl (by omega)
          grind
      have hhigh : q0 + d ≤ pow2 120 := by
        have e1 : pow2 66 = pow2 65 * 2 := pow2_succ 65
        have e2 : (16 : Rat) ≤ pow2 65 := by
          have : pow2 4 ≤ pow2 65 := pow2_mono (by decide)
          have e : pow2 4 = 16 := by decide +kernel
          rwa [e] at this
        have e3 : pow2 66 ≤ pow2 120 := pow2_mono (by decide)
        grind
      obtain ⟨q, hq, r1, r2, _, _⟩ := rnd_mid f hlow hhigh
      have aQ : Approx (uf f) q (q0 + d) := ⟨r2, r1⟩
      have hm0 : (0 : Rat) ≤ (P : Rat) + (V : Rat) / (W : Rat) := by grind
      have hup := uf_pos f
      have huh := uf_le_half f
      have t := Approx.trans aQ aS hm0 (Rat.le_of_lt hup) (by grind) (by grind)
      exact ⟨q, hq, t.mono hm0 (eps_mant f)⟩

end DmlcModel.StrToNum
