/- The final scaling step: rounding in the normal range, the kMaxExponent significand test, expL_approx (core Lean only) -/
import DmlcModel.StrToNum.Trunc
namespace DmlcModel.StrToNum
open DmlcModel DmlcModel.Gen.StrToNum

/-! ### the final multiplication / division and its rounding -/

/-- smallest normal number and the overflow threshold of a format -/
def minNormal (f : Fmt) : Rat := pow2 (f.qmin + (f.prec : Int) - 1)
def ovfl (f : Fmt) : Rat := pow2 ((f.emax : Int) + 1)
/-- the margin a relative-error claim needs at both ends of the normal range -/
def δ : Rat := 1 / 10 ^ 6

theorem minNormal_pos (f : Fmt) : 0 < minNormal f := pow2_pos _

/-- rounding `x ≈ v` when `v` is in the normal range with margin `δ` -/
theorem final_round (f : Fmt) {x v ε : Rat} (hv : minNormal f * (1 + δ) ≤ v) (hvP : v * (1 + δ) ≤ ovfl f)
    (ax : Approx ε x v) (hε0 : 0 ≤ ε) (N1 : 1 ≤ (1 + δ) * (1 - ε)) (N2 : (1 + ε) * (1 + uf f) < 1 + δ) :
    ∃ q, rnd f x = .fin q ∧ Approx (uf f + ε + uf f * ε) q v := by
  have hL := minNormal_pos f
  have hδ : (0 : Rat) < δ := by decide +kernel
  have hu := uf_pos f
  have huh := uf_le_half f
  have hvpos : 0 < v := by
    have : 0 < minNormal f * (1 + δ) := Rat.mul_pos hL (by grind)
    grind
  have hε1 : ε < 1 := by
    -- from N2: (1 + ε)(1 + u) < 1 + δ < 2
    have : 0 ≤ ε * uf f := Rat.mul_nonneg hε0 (Rat.le_of_lt hu)
    have : δ < 1 := by decide +kernel
    grind
  have l := ax.lo; have h := ax.hi
  -- lower bound: x ≥ v (1 - ε) ≥ L (1 + δ)(1 - ε) ≥ L
  have s1 : minNormal f * (1 + δ) * (1 - ε) ≤ v * (1 - ε) := Rat.mul_le_mul_of_nonneg_right hv (by grind)
  have s2 : minNormal f * 1 ≤ minNormal f * ((1 + δ) * (1 - ε)) := Rat.mul_le_mul_of_nonneg_left N1 (Rat.le_of_lt hL)
  have hxL : minNormal f ≤ x := by grind
  have hxpos : 0 < x := by grind
  -- upper bound: x (1 + u) ≤ v (1 + ε)(1 + u) < v (1 + δ) ≤ P
  have s3 : x * (1 + uf f) ≤ (v + v * ε) * (1 + uf f) := Rat.mul_le_mul_of_nonneg_right h (by grind)
  have s4 : v * ((1 + ε) * (1 + uf f)) < v * (1 + δ) := Rat.mul_lt_mul_of_pos_left N2 hvpos
  have hxP : x + x * uf f < ovfl f := by grind
  obtain ⟨q, hq, aq⟩ := rnd_approx f hxpos hxL hxP
  exact ⟨q, hq, Approx.trans aq ax (Rat.le_of_lt hvpos) (Rat.le_of_lt hu) (by grind) hε0⟩

/-- relative error admitted for the truncation of fraction digits beyond the 19th -/
def εt : Fmt → Rat | .F32 => 1 / 10 ^ 7 | .F64 => 1 / 10 ^ 15
/-- error of the mantissa: 10 units of round-off composed with the truncation -/
def εm (f : Fmt) : Rat := 10 * uf f + εt f + 10 * uf f * εt f
/-- error constants: product `εm ⊗ kS·u`, quotient, and the final rounding -/
def εmul (f : Fmt) : Rat := εm f + (kS f : Rat) * uf f + εm f * ((kS f : Rat) * uf f)
def εdiv (f : Fmt) : Rat := εm f + 2 * ((kS f : Rat) * uf f) + 2 * εm f * ((kS f : Rat) * uf f)
/-- the tolerance of the property -/
def tol : Fmt → Rat | .F32 => 1 / 10 ^ 6 | .F64 => 1 / 10 ^ 14

theorem num_facts (f : Fmt) :
    0 ≤ εmul f ∧ 0 ≤ εdiv f ∧
    1 ≤ (1 + δ) * (1 - εmul f) ∧ (1 + εmul f) * (1 + uf f) < 1 + δ ∧ uf f + εmul f + uf f * εmul f ≤ tol f ∧
    1 ≤ (1 + δ) * (1 - εdiv f) ∧ (1 + εdiv f) * (1 + uf f) < 1 + δ ∧ uf f + εdiv f + uf f * εdiv f ≤ tol f ∧
    εm f ≤ tol f ∧ (kS f : Rat) * uf f ≤ 1 / 2 ∧ 0 ≤ (kS f : Rat) * uf f ∧ εm f ≤ 1 ∧ 0 ≤ εm f ∧ 10 * uf f ≤ εm f := by
  cases f <;> decide +kernel


/-! ### the `expon == kMaxExponent` significand test does not fire inside the normal range with margin -/

def KM (f : Fmt) : Rat := match kMaxSignificand f with | .fin q => q | _ => 0
def KN (f : Fmt) : Rat := match kNegMaxSignificand f with | .fin q => q | _ => 0
theorem kMax_eq (f : Fmt) : kMaxSignificand f = .fin (KM f) := by cases f <;> decide +kernel
theorem kNeg_eq (f : Fmt) : kNegMaxSignificand f = .fin (KN f) := by cases f <;> decide +kernel

/-- `10^kMaxExponent` -/
def Tmax (f : Fmt) : Rat := ((10 ^ kMaxExponent f : Nat) : Rat)

theorem edge_facts (f : Fmt) :
    ovfl f * (1 + εm f) ≤ KM f * (Tmax f * (1 + δ)) ∧
    KN f ≤ minNormal f * (1 + δ) * Tmax f * (1 - εm f) ∧ 0 < Tmax f := by
  cases f <;> decide +kernel

theorem edge_hi (f : Fmt) {qm m : Rat} (am : Approx (εm f) qm m) (_hm : 0 ≤ m)
    (hvP : m * Tmax f * (1 + δ) ≤ ovfl f) : qm ≤ KM f := by
  have ef := edge_facts f
  have hT := ef.2.2
  have hδ : (0 : Rat) < δ := by decide +kernel
  have hc : 0 < Tmax f * (1 + δ) := Rat.mul_pos hT (by grind)
  have hu := uf_pos f
  have h := am.hi
  apply Rat.le_of_mul_le_mul_right _ hc
  -- qm c ≤ (m + 10 u m) c = (m T (1+δ)) (1 + 10u) ≤ P (1 + 10u) ≤ KM c
  have he0 := (num_facts f).2.2.2.2.2.2.2.2.2.2.2.2.1
  have s1 : qm * (Tmax f * (1 + δ)) ≤ (m + m * εm f) * (Tmax f * (1 + δ)) :=
    Rat.mul_le_mul_of_nonneg_right h (Rat.le_of_lt hc)
  have s2 : m * Tmax f * (1 + δ) * (1 + εm f) ≤ ovfl f * (1 + εm f) :=
    Rat.mul_le_mul_of_nonneg_right hvP (by grind)
  grind

theorem edge_lo (f : Fmt) {qm m v : Rat} (am : Approx (εm f) qm m) (hvT : v * Tmax f = m)
    (hv : minNormal f * (1 + δ) ≤ v) : KN f ≤ qm := by
  have ef := edge_facts f
  have hT := ef.2.2
  have nf := num_facts f
  have l := am.lo
  -- m = v T ≥ L (1+δ) T ; qm ≥ m (1 - 10u)
  have s1 : minNormal f * (1 + δ) * Tmax f ≤ v * Tmax f := Rat.mul_le_mul_of_nonneg_right hv (Rat.le_of_lt hT)
  have s2 : minNormal f * (1 + δ) * Tmax f * (1 - εm f) ≤ m * (1 - εm f) := by
    rw [← hvT]
    exact Rat.mul_le_mul_of_nonneg_right s1 (by have := nf.2.2.2.2.2.2.2.2.2.2.2.1; grind)
  grind


/-- **the exponent part**: with the mantissa within `εm` of `m`, an exponent field `≤ kMaxExponent` and the scaled
value in the normal range (margin `δ`), the result is finite, not flagged, and within the tolerance of the scaled value -/
theorem expL_approx (f : Fmt) (chk neg : Bool) {qm m : Rat} (am : Approx (εm f) qm m) (hm : 0 < m)
    (eneg : Bool) (eds : List Nat) (hEk : exponL eds ≤ kMaxExponent f)
    (hv : minNormal f * (1 + δ) ≤
      (if eneg then m / ((10 ^ exponL eds : Nat) : Rat) else m * ((10 ^ exponL eds : Nat) : Rat)))
    (hvP : (if eneg then m / ((10 ^ exponL eds : Nat) : Rat) else m * ((10 ^ exponL eds : Nat) : Rat)) * (1 + δ) ≤ ovfl f) :
    ∃ q, expL f chk neg (.fin qm) eneg eds = (⟨neg, .fin q⟩, false) ∧
      Approx (tol f) q (if eneg then m / ((10 ^ exponL eds : Nat) : Rat) else m * ((10 ^ exponL eds : Nat) : Rat)) := by
  have nf := num_facts f
  obtain ⟨n1, n2, n3, n4, n5, n6, n7, n8, n9, n10, n11, n12, n13, n14⟩ := nf
  have hT := pow10_pos (exponL eds)
  obtain ⟨sc, hsc, asc⟩ := scale_approx f (exponL eds) hEk
  have hu := uf_pos f
  have h10u : 0 ≤ εm f := n13
  have hm0 : 0 ≤ m := Rat.le_of_lt hm
  -- the two range tests do not fire
  have h1 : exponTooBig (exponL eds) (kMaxExponent f) = false := by
    simp only [exponTooBig]; simp; omega
  have hedge : (exponIsMax (exponL eds) (kMaxExponent f) &&
      edgeOutM eneg (.fin qm) (kMaxSignificand f) (kNegMaxSignificand f)) = false := by
    by_cases hE : exponL eds = kMaxExponent f
    · rw [kMax_eq, kNeg_eq]
      simp only [edgeOutM, edgeOut]
      have hTm : ((10 ^ exponL eds : Nat) : Rat) = Tmax f := by rw [hE]; rfl
      cases eneg with
      | false =>
        simp only [Bool.false_eq_true, if_false] at hvP
        rw [hTm] at hvP
        have := edge_hi f am hm0 hvP
        have : ¬ (qm > KM f) := by grind
        simp [this]
      | true =>
        simp only [if_true] at hv
        rw [hTm] at hv
        have hTne : Tmax f ≠ 0 := by have := (edge_facts f).2.2; grind
        have := edge_lo f am (Rat.div_mul_cancel hTne) hv
        have : ¬ (qm < KN f) := by grind
        simp [this]
    · have : exponIsMax (exponL eds) (kMaxExponent f) = false := by
        simp only [exponIsMax]; simpa using hE
      simp [this]
  unfold expL
  simp only [h1, Bool.false_and, Bool.false_eq_true, if_false, hedge, hsc]
  cases eneg with
  | false =>
    simp only [Bool.false_eq_true, if_false] at hv hvP ⊢
    have ax := Approx.mul am asc hm0 (Rat.le_of_lt hT) h10u n12 n11 (by grind)
    obtain ⟨q, hq, aq⟩ := final_round f hv hvP ax n1 n3 n4
    refine ⟨q, ?_, aq.mono (Rat.le_of_lt (Rat.mul_pos hm hT)) n5⟩
    simp only [Mag.mul, hq]
    simp
  | true =>
    simp only [if_true] at hv hvP ⊢
    have ax := Approx.div am asc hm0 hT h10u n11 n10
    have hv0 : 0 < m / ((10 ^ exponL eds : Nat) : Rat) := by
      have : 0 < minNormal f * (1 + δ) := Rat.mul_pos (minNormal_pos f) (by decide +kernel)
      grind
    obtain ⟨q, hq, aq⟩ := final_round f hv hvP ax n2 n6 n7
    have hsc0 : sc ≠ 0 := by
      have l := asc.lo
      have : ((10 ^ exponL eds : Nat) : Rat) * ((kS f : Rat) * uf f) ≤ ((10 ^ exponL eds : Nat) : Rat) * (1 / 2) :=
        Rat.mul_le_mul_of_nonneg_left n10 (Rat.le_of_lt hT)
      grind
    refine ⟨q, ?_, aq.mono (Rat.le_of_lt hv0) n8⟩
    simp only [Mag.div, hsc0, if_false, hq]
    simp

end DmlcModel.StrToNum
