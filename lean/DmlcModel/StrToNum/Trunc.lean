/- More than 19 fraction digits: structure of the fraction loop and truncation bounds (core Lean only) -/
import DmlcModel.StrToNum.Mantissa
namespace DmlcModel.StrToNum
open DmlcModel DmlcModel.Gen.StrToNum

/-! ### more than 19 fraction digits: the tail is truncated -/

theorem pow10_pos (E : Nat) : (0 : Rat) < ((10 ^ E : Nat) : Rat) :=
  Rat.natCast_pos.mpr (Nat.pow_pos (by decide))


theorem frac_frozen (b : List Nat) : ∀ st : Nat × Nat × Nat, 19 ≤ st.2.2 →
    (b.foldl fracStepL st).1 = st.1 ∧ (b.foldl fracStepL st).2.1 = st.2.1 := by
  induction b with
  | nil => intro st _; exact ⟨rfl, rfl⟩
  | cons d b ih =>
    intro st h
    have hs : fracStepL st d = (st.1, st.2.1, st.2.2 + 1) := by
      unfold fracStepL
      have : ¬ st.2.2 < 19 := by omega
      simp only [this, if_false]
    simp only [List.foldl_cons, hs]
    have := ih (st.1, st.2.1, st.2.2 + 1) (by simp only []; omega)
    exact this

theorem Dig_take {ds : List Nat} (h : Dig ds) (n : Nat) : Dig (ds.take n) :=
  fun d hd => h d (List.mem_of_mem_take hd)
theorem Dig_drop {ds : List Nat} (h : Dig ds) (n : Nat) : Dig (ds.drop n) :=
  fun d hd => h d (List.mem_of_mem_drop hd)

/-- with at least 19 fraction digits only the first 19 count: `val2 = value(first 19)`, `pow10 = 10^19` -/
theorem fracL_trunc (ds : List Nat) (hd : Dig ds) (hl : 19 ≤ ds.length) :
    (fracL ds).1 = digitsVal (ds.take 19) ∧ (fracL ds).2.1 = 10 ^ 19 := by
  have hlen : (ds.take 19).length = 19 := by simp; omega
  have h1 := fracL_exact_aux (ds.take 19) (Dig_take hd 19) (0, 1, 0) (by simp only []; omega) (by decide) (by decide)
  have hsplit : ds = ds.take 19 ++ ds.drop 19 := (List.take_append_drop 19 ds).symm
  unfold fracL
  rw [hsplit, List.foldl_append, h1]
  have := frac_frozen (ds.drop 19)
    (List.foldl (fun a d => a * 10 + d) 0 (ds.take 19), 1 * 10 ^ (ds.take 19).length, 0 + (ds.take 19).length)
    (by simp only []; omega)
  simp only [List.take_append_drop] at this ⊢
  rw [this.1, this.2, hlen]
  exact ⟨rfl, by simp⟩

theorem foldl_shift (b : List Nat) : ∀ x : Nat,
    b.foldl (fun a d => a * 10 + d) x = x * 10 ^ b.length + b.foldl (fun a d => a * 10 + d) 0 := by
  induction b with
  | nil => intro x; simp
  | cons d b ih =>
    intro x
    simp only [List.foldl_cons, List.length_cons]
    rw [ih (x * 10 + d), ih (0 * 10 + d)]
    rw [Nat.pow_succ]
    have : (x * 10 + d) * 10 ^ b.length = x * (10 ^ b.length * 10) + (0 * 10 + d) * 10 ^ b.length := by
      rw [Nat.zero_mul, Nat.zero_add, Nat.add_mul, Nat.mul_assoc, Nat.mul_comm 10]
    omega

theorem digitsVal_append (a b : List Nat) : digitsVal (a ++ b) = digitsVal a * 10 ^ b.length + digitsVal b := by
  unfold digitsVal
  rw [List.foldl_append, foldl_shift]

/-- the truncated fraction is at most `10^-19` below the true fraction -/
theorem trunc_bounds (ds : List Nat) (hd : Dig ds) (hl : 19 ≤ ds.length) :
    (digitsVal (ds.take 19) : Rat) / ((10 ^ 19 : Nat) : Rat) ≤ (digitsVal ds : Rat) / ((10 ^ ds.length : Nat) : Rat) ∧
    (digitsVal ds : Rat) / ((10 ^ ds.length : Nat) : Rat) ≤
      (digitsVal (ds.take 19) : Rat) / ((10 ^ 19 : Nat) : Rat) + 1 / ((10 ^ 19 : Nat) : Rat) := by
  have hsplit : ds = ds.take 19 ++ ds.drop 19 := (List.take_append_drop 19 ds).symm
  have hlen : ds.length = 19 + (ds.drop 19).length := by simp; omega
  have hval : digitsVal ds = digitsVal (ds.take 19) * 10 ^ (ds.drop 19).length + digitsVal (ds.drop 19) := by
    have := digitsVal_append (ds.take 19) (ds.drop 19)
    rwa [List.take_append_drop] at this
  have hB := digitsVal_lt (ds.drop 19) (Dig_drop hd 19)
  generalize digitsVal (ds.take 19) = V at *
  generalize digitsVal (ds.drop 19) = B at *
  generalize (ds.drop 19).length = k at *
  have hpow : (10 : Nat) ^ ds.length = 10 ^ 19 * 10 ^ k := by rw [hlen, Nat.pow_add]
  rw [hpow, hval]
  -- casts
  have hW : (0 : Rat) < ((10 ^ 19 : Nat) : Rat) := pow10_pos 19
  have hT : (0 : Rat) < ((10 ^ k : Nat) : Rat) := pow10_pos k
  have c1 : ((10 ^ 19 * 10 ^ k : Nat) : Rat) = ((10 ^ 19 : Nat) : Rat) * ((10 ^ k : Nat) : Rat) := Rat.natCast_mul _ _
  have c2 : ((V * 10 ^ k + B : Nat) : Rat) = (V : Rat) * ((10 ^ k : Nat) : Rat) + (B : Rat) := by
    rw [Rat.natCast_add, Rat.natCast_mul]
  have hB0 : (0 : Rat) ≤ (B : Rat) := Rat.natCast_nonneg
  have hBT : (B : Rat) ≤ ((10 ^ k : Nat) : Rat) := Rat.natCast_le_natCast.mpr (by omega)
  rw [c1, c2]
  generalize ((10 ^ 19 : Nat) : Rat) = W at *
  generalize ((10 ^ k : Nat) : Rat) = T at *
  generalize (V : Rat) = v at *
  generalize (B : Rat) = b at *
  have hWT : 0 < W * T := Rat.mul_pos hW hT
  have e1 : v / W * (W * T) = v * T := by
    have := Rat.div_mul_cancel (a := v) (b := W) (by grind)
    calc v / W * (W * T) = (v / W * W) * T := by grind
      _ = v * T := by rw [this]
  have e2 : (v * T + b) / (W * T) * (W * T) = v * T + b := Rat.div_mul_cancel (by grind)
  have e3 : 1 / W * (W * T) = T := by
    have := Rat.div_mul_cancel (a := (1 : Rat)) (b := W) (by grind)
    calc 1 / W * (W * T) = (1 / W * W) * T := by grind
      _ = T := by rw [this]; grind
  constructor
  · apply Rat.le_of_mul_le_mul_right _ hWT
    rw [e1, e2]; grind
  · apply Rat.le_of_mul_le_mul_right _ hWT
    rw [Rat.add_mul, e1, e2, e3]; grind

end DmlcModel.StrToNum
