/- cstr facts and the integer parsers: pure specification, exact accumulation (core Lean only) -/
import DmlcModel.StrToNum.Lemmas
namespace DmlcModel.StrToNum
open DmlcModel DmlcModel.Gen.StrToNum

theorem cstr_append_of_mem {pre : Bytes} (e : Bytes) (h : (0 : Byte) ∈ pre) : cstr (pre ++ e) = cstr pre := by
  induction pre with
  | nil => simp at h
  | cons c cs ih =>
    by_cases hc : c = 0
    · simp [cstr, hc]
    · have : (0 : Byte) ∈ cs := by
        simp only [List.mem_cons] at h
        rcases h with h | h
        · exact absurd h.symm hc
        · exact h
      simp [cstr, hc, ih this]

theorem cstr_append_of_not_mem {pre : Bytes} (e : Bytes) (h : (0 : Byte) ∉ pre) : cstr (pre ++ e) = pre ++ cstr e := by
  induction pre with
  | nil => rfl
  | cons c cs ih =>
    have hc : c ≠ 0 := fun hc => h (by simp [hc])
    have : (0 : Byte) ∉ cs := fun h' => h (by simp [h'])
    simp [cstr, hc, ih this]

theorem cstr_of_not_mem {s : Bytes} (h : (0 : Byte) ∉ s) : cstr s = s := by
  have := cstr_append_of_not_mem [] h
  simpa [cstr] using this

/-- integer front part: pure version -/
def intFrontP (s : Bytes) : Bool × Nat × Bytes :=
  let nws := (s.takeWhile isSpace).length
  let s1 := s.drop nws
  let c := hd0 s1
  let nsg := if isMinus c.toNat then 1 else if isPlus c.toNat then 1 else 0
  (!isMinus c.toNat, nws + nsg, s1.drop nsg)

theorem intFront_ok {z : Byte} (hh : Hard z) {s : Bytes} (hz : Z z s) :
    intFront s = .ok (intFrontP s) ∧ Z z (intFrontP s).2.2 := by
  have hz1 := Z_dropTW isSpace hz hh.space
  unfold intFront intFrontP
  simp only [scanLoop_Z isSpace noUnit hh.space _ _ _ hz, bind, Except.bind, Nat.zero_add, hd_Z hz1]
  exact ⟨trivial, Z_dropSign hh hz1⟩

theorem parseSigned_ok {z : Byte} (hh : Hard z) {bits base : Nat} {s : Bytes} (hz : Z z (cstr s))
    (hb : sBaseOk base = true) :
    parseSigned bits base s =
      .ok ((if (intFrontP (cstr s)).1 then
              ((intFrontP (cstr s)).2.2.takeWhile isDigit).foldl (fun (a : Nat) c => sStep a base c.toNat) 0
            else sNegate (((intFrontP (cstr s)).2.2.takeWhile isDigit).foldl (fun (a : Nat) c => sStep a base c.toNat) 0))
              % 2 ^ bits,
           (intFrontP (cstr s)).2.1 + ((intFrontP (cstr s)).2.2.takeWhile isDigit).length) := by
  have hf := intFront_ok hh hz
  unfold parseSigned
  simp only [hb, Bool.not_true, Bool.false_eq_true, if_false, hf.1, bind, Except.bind,
    scanLoop_Z isDigit _ hh.digit _ _ _ hf.2, Nat.zero_add]

theorem parseUnsigned_ok {z : Byte} (hh : Hard z) {bits base : Nat} {s : Bytes} (hz : Z z (cstr s))
    (hb : uBaseOk base = true) (hs : (intFrontP (cstr s)).1 = true) :
    parseUnsigned bits base s =
      .ok (((intFrontP (cstr s)).2.2.takeWhile isDigit).foldl (fun (a : Nat) c => uStep a base c.toNat % 2 ^ bits) 0,
           (intFrontP (cstr s)).2.1 + ((intFrontP (cstr s)).2.2.takeWhile isDigit).length) := by
  have hf := intFront_ok hh hz
  unfold parseUnsigned
  simp only [hb, Bool.not_true, Bool.false_eq_true, if_false, hf.1, bind, Except.bind, hs,
    scanLoop_Z isDigit _ hh.digit _ _ _ hf.2, Nat.zero_add]


theorem takeWhile_append_all {p : Byte → Bool} {a b : Bytes} (ha : ∀ c ∈ a, p c = true) :
    (a ++ b).takeWhile p = a ++ b.takeWhile p := by
  induction a with
  | nil => rfl
  | cons c cs ih =>
    have hc : p c = true := ha c (by simp)
    simp [hc, ih (fun x hx => ha x (by simp [hx]))]

theorem takeWhile_stop {p : Byte → Bool} {b : Bytes} (hb : p (hd0 b) = false) (hne : b ≠ []) : b.takeWhile p = [] := by
  cases b with
  | nil => exact absurd rfl hne
  | cons c cs => simp [List.takeWhile_cons, hd0] at hb ⊢; exact hb

theorem isDigit_range {c : Byte} (h : isDigit c = true) : 48 ≤ c.toNat ∧ c.toNat ≤ 57 := by
  simpa [isDigit, isdigit] using h

/-- exact value of a string of digit bytes -/
def digitsNat (ds : Bytes) : Nat := ds.foldl (fun a c => a * 10 + (c.toNat - 48)) 0

theorem fold_sStep (ds : Bytes) (hd : ∀ c ∈ ds, isDigit c = true) :
    ∀ a : Nat, ds.foldl (fun (a : Nat) c => sStep a 10 c.toNat) (a % 18446744073709551616) =
      (ds.foldl (fun a c => a * 10 + (c.toNat - 48)) a) % 18446744073709551616 := by
  induction ds with
  | nil => intro a; rfl
  | cons c cs ih =>
    intro a
    have hc := isDigit_range (hd c (by simp))
    simp only [List.foldl_cons]
    have : sStep (a % 18446744073709551616) 10 c.toNat = (a * 10 + (c.toNat - 48)) % 18446744073709551616 := by
      simp only [sStep, u64, sub32]; omega
    rw [this]
    exact ih (fun x hx => hd x (by simp [hx])) _

theorem fold_uStep (bits : Nat) (hb : bits = 32 ∨ bits = 64) (ds : Bytes) (hd : ∀ c ∈ ds, isDigit c = true) :
    ∀ a : Nat, ds.foldl (fun (a : Nat) c => uStep a 10 c.toNat % 2 ^ bits) (a % 2 ^ bits) =
      (ds.foldl (fun a c => a * 10 + (c.toNat - 48)) a) % 2 ^ bits := by
  induction ds with
  | nil => intro a; rfl
  | cons c cs ih =>
    intro a
    have hc := isDigit_range (hd c (by simp))
    simp only [List.foldl_cons]
    have : uStep (a % 2 ^ bits) 10 c.toNat % 2 ^ bits = (a * 10 + (c.toNat - 48)) % 2 ^ bits := by
      simp only [uStep, u64, sub32]
      rcases hb with rfl | rfl <;> omega
    rw [this]
    exact ih (fun x hx => hd x (by simp [hx])) _


theorem not_mem_zero_of_all {p : Byte → Bool} (hp : p 0 = false) {a : Bytes} (ha : ∀ c ∈ a, p c = true) : (0 : Byte) ∉ a := by
  intro h; have := ha 0 h; rw [hp] at this; exact Bool.noConfusion this

theorem cstr_hd_ne_nil {s : Bytes} (h : (0 : Byte) ∈ s) : cstr s ≠ [] := by
  cases s with
  | nil => simp at h
  | cons c cs => unfold cstr; split <;> simp

theorem hd0_cstr (s : Bytes) : hd0 (cstr s) = hd0 s := by
  cases s with
  | nil => rfl
  | cons c cs => unfold cstr; split <;> simp_all [hd0]

/-- the front part on `ws ++ sg ++ (d :: ds) ++ rest` -/
theorem intFrontP_shape {ws sg : Bytes} {d : Byte} {tl : Bytes}
    (hws : ∀ c ∈ ws, isSpace c = true) (hsg : sg = [] ∨ sg = [43] ∨ sg = [45]) (hd : isDigit d = true) :
    intFrontP (ws ++ (sg ++ d :: tl)) = (decide (sg ≠ [45]), ws.length + sg.length, d :: tl) := by
  have hdr := isDigit_range hd
  have hdsp : isSpace d = false := by
    simp only [isSpace, isspace]; 
    have : d.toNat ≠ 32 ∧ d.toNat ≠ 9 ∧ d.toNat ≠ 13 ∧ d.toNat ≠ 10 ∧ d.toNat ≠ 12 := by omega
    simp [this]
  have hdm : isMinus d.toNat = false := by simp only [isMinus]; have : d.toNat ≠ 45 := by omega
                                           simp [this]
  have hdp : isPlus d.toNat = false := by simp only [isPlus]; have : d.toNat ≠ 43 := by omega
                                          simp [this]
  unfold intFrontP
  rcases hsg with rfl | rfl | rfl
  · have h1 : (ws ++ d :: tl).takeWhile isSpace = ws := by
      rw [takeWhile_append_all hws]; simp [hdsp]
    simp [h1, hd0, hdm, hdp]
  · have h1 : (ws ++ 43 :: d :: tl).takeWhile isSpace = ws := by
      rw [takeWhile_append_all hws]
      have : isSpace 43 = false := by decide
      simp [this]
    have e1 : isMinus 43 = false := by decide
    have e2 : isPlus 43 = true := by decide
    simp [h1, hd0, e1, e2]
  · have h1 : (ws ++ 45 :: d :: tl).takeWhile isSpace = ws := by
      rw [takeWhile_append_all hws]
      have : isSpace 45 = false := by decide
      simp [this]
    have e1 : isMinus 45 = true := by decide
    simp [h1, hd0, e1]

end DmlcModel.StrToNum
