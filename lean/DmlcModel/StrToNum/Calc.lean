/- Relative-error calculus (Approx) on non-negative rationals: composition, product, quotient, sum; rounding step (core Lean only) -/
import DmlcModel.StrToNum.Analysis
namespace DmlcModel.StrToNum
open DmlcModel DmlcModel.Gen.StrToNum

/-! ### relative-error calculus on non-negative rationals -/

/-- `q` approximates `x ≥ 0` with relative error at most `ε` -/
structure Approx (ε q x : Rat) : Prop where
  lo : x ≤ q + x * ε
  hi : q ≤ x + x * ε

theorem Approx.refl (x : Rat) : Approx 0 x x := ⟨by grind, by grind⟩

theorem Approx.mono {ε ε' q x : Rat} (h : Approx ε q x) (hx : 0 ≤ x) (he : ε ≤ ε') : Approx ε' q x := by
  have := Rat.mul_le_mul_of_nonneg_left he hx
  exact ⟨by have := h.lo; grind, by have := h.hi; grind⟩

theorem Approx.nonneg {ε q x : Rat} (h : Approx ε q x) (hx : 0 ≤ x) (he : ε ≤ 1) : 0 ≤ q := by
  have := Rat.mul_le_mul_of_nonneg_left he hx
  have := h.lo
  grind

theorem Approx.add {ε p q x y : Rat} (h1 : Approx ε p x) (h2 : Approx ε q y) : Approx ε (p + q) (x + y) := by
  have := h1.lo; have := h1.hi; have := h2.lo; have := h2.hi
  constructor <;> grind

/-- composition: `q ≈ y` and `y ≈ x` -/
theorem Approx.trans {a b q y x : Rat} (h1 : Approx a q y) (h2 : Approx b y x) (hx : 0 ≤ x) (ha0 : 0 ≤ a) (ha : a ≤ 1)
    (hb0 : 0 ≤ b) : Approx (a + b + a * b) q x := by
  have l1 := h1.lo; have u1 := h1.hi; have l2 := h2.lo; have u2 := h2.hi
  -- y ≤ x (1 + b), y ≥ x (1 - b)
  have e1 : y * a ≤ (x + x * b) * a := Rat.mul_le_mul_of_nonneg_right u2 ha0
  have xb0 : 0 ≤ x * b := Rat.mul_nonneg hx hb0
  have xab : 0 ≤ x * b * a := Rat.mul_nonneg xb0 ha0
  have xa0 : 0 ≤ x * a := Rat.mul_nonneg hx ha0
  constructor
  · -- x ≤ y + x b ≤ q + y a + x b
    grind
  · grind

theorem Approx.mul {a b p q x y : Rat} (h1 : Approx a p x) (h2 : Approx b q y) (hx : 0 ≤ x) (hy : 0 ≤ y)
    (ha0 : 0 ≤ a) (ha : a ≤ 1) (hb0 : 0 ≤ b) (hb : b ≤ 1) : Approx (a + b + a * b) (p * q) (x * y) := by
  have hp := h1.nonneg hx ha
  have hq := h2.nonneg hy hb
  have l1 := h1.lo; have u1 := h1.hi; have l2 := h2.lo; have u2 := h2.hi
  constructor
  · -- (x - x a)(y - y b) ≤ p q
    have h3 : x - x * a ≤ p := by grind
    have h4 : y - y * b ≤ q := by grind
    have n3 : 0 ≤ x - x * a := by
      have := Rat.mul_le_mul_of_nonneg_left ha hx; grind
    have n4 : 0 ≤ y - y * b := by
      have := Rat.mul_le_mul_of_nonneg_left hb hy; grind
    have := mul_le_mul4 h3 h4 n3 n4
    have xyab : 0 ≤ x * y * (a * b) := Rat.mul_nonneg (Rat.mul_nonneg hx hy) (Rat.mul_nonneg ha0 hb0)
    grind
  · have := mul_le_mul4 u1 u2 hp hq
    grind


theorem div_hi_aux {a b z y r q : Rat} (u1 : r * q ≤ z * y + z * y * a) (l2 : y ≤ q + y * b)
    (hz : 0 ≤ z) (ha0 : 0 ≤ a) (hb0 : 0 ≤ b) (hb : b ≤ 1 / 2) (hy : 0 < y) (hq : 0 < q) :
    r ≤ z + z * (a + 2 * b + 2 * a * b) := by
  have s1 : 0 ≤ z * y := Rat.mul_nonneg hz (Rat.le_of_lt hy)
  have s2 : 0 ≤ z * y * (1 + a) := Rat.mul_nonneg s1 (by grind)
  have s3 : 0 ≤ z * y * (1 + a) * b := Rat.mul_nonneg s2 hb0
  have s4 : 0 ≤ z * y * (1 + a) * b * (1 - 2 * b) := Rat.mul_nonneg s3 (by grind)
  have hab : 0 ≤ a * b := Rat.mul_nonneg ha0 hb0
  have hε0 : 0 ≤ a + 2 * b + 2 * a * b := by grind
  have hzε : 0 ≤ z + z * (a + 2 * b + 2 * a * b) := by
    have := Rat.mul_nonneg hz hε0; grind
  have id1 : (z + z * (a + 2 * b + 2 * a * b)) * (y - y * b) - (z * y + z * y * a) =
      z * y * (1 + a) * b * (1 - 2 * b) := by grind
  have st2 : z * y + z * y * a ≤ (z + z * (a + 2 * b + 2 * a * b)) * (y - y * b) := by grind
  have st3 : (z + z * (a + 2 * b + 2 * a * b)) * (y - y * b) ≤ (z + z * (a + 2 * b + 2 * a * b)) * q :=
    Rat.mul_le_mul_of_nonneg_left (by grind) hzε
  apply Rat.le_of_mul_le_mul_right _ hq
  grind

theorem div_lo_aux {a b z y r q : Rat} (l1 : z * y ≤ r * q + z * y * a) (l2 : y ≤ q + y * b) (u2 : q ≤ y + y * b)
    (hz : 0 ≤ z) (ha0 : 0 ≤ a) (hb0 : 0 ≤ b) (hb : b ≤ 1 / 2) (hy : 0 < y) (hq : 0 < q) :
    z ≤ r + z * (a + 2 * b + 2 * a * b) := by
  have s1 : 0 ≤ z * y := Rat.mul_nonneg hz (Rat.le_of_lt hy)
  have s2 : 0 ≤ z * y * (1 + a) := Rat.mul_nonneg s1 (by grind)
  have s3 : 0 ≤ z * y * (1 + a) * b := Rat.mul_nonneg s2 hb0
  have s4 : 0 ≤ z * y * (1 + a) * b * (1 - 2 * b) := Rat.mul_nonneg s3 (by grind)
  have hab : 0 ≤ a * b := Rat.mul_nonneg ha0 hb0
  have hε0 : 0 ≤ a + 2 * b + 2 * a * b := by grind
  have hzε : 0 ≤ z * (a + 2 * b + 2 * a * b) := Rat.mul_nonneg hz hε0
  -- z q ≤ z (y + y b)
  have st1 : z * q ≤ z * (y + y * b) := Rat.mul_le_mul_of_nonneg_left u2 hz
  -- z ε (y - y b) ≤ z ε q
  have st2 : z * (a + 2 * b + 2 * a * b) * (y - y * b) ≤ z * (a + 2 * b + 2 * a * b) * q :=
    Rat.mul_le_mul_of_nonneg_left (by grind) hzε
  have id1 : (z * y - z * y * a) + z * (a + 2 * b + 2 * a * b) * (y - y * b) - z * (y + y * b) =
      z * y * (1 + a) * b * (1 - 2 * b) := by grind
  apply Rat.le_of_mul_le_mul_right _ hq
  grind

theorem Approx.div {a b p q x y : Rat} (h1 : Approx a p x) (h2 : Approx b q y) (hx : 0 ≤ x) (hy : 0 < y)
    (ha0 : 0 ≤ a) (hb0 : 0 ≤ b) (hb : b ≤ 1 / 2) : Approx (a + 2 * b + 2 * a * b) (p / q) (x / y) := by
  have l1 := h1.lo; have u1 := h1.hi; have l2 := h2.lo; have u2 := h2.hi
  have hyb : y * b ≤ y * (1 / 2) := Rat.mul_le_mul_of_nonneg_left hb (Rat.le_of_lt hy)
  have hq : 0 < q := by grind
  have hzy : x / y * y = x := Rat.div_mul_cancel (by grind)
  have hrq : p / q * q = p := Rat.div_mul_cancel (by grind)
  have hz : 0 ≤ x / y := by
    rcases Rat.le_iff_lt_or_eq.mp hx with h | h
    · have : 0 < x / y * y := by rw [hzy]; exact h
      exact Rat.le_of_lt ((Rat.mul_pos_iff_of_pos_right hy).mp this)
    · rw [← h, zero_div']; exact Rat.le_refl
  rw [← hzy, ← hrq] at l1 u1
  exact ⟨div_lo_aux l1 l2 u2 hz ha0 hb0 hb hy hq, div_hi_aux u1 l2 hz ha0 hb0 hb hy hq⟩

/-- a rounding step in `Approx` form -/
theorem rnd_approx (f : Fmt) {x : Rat} (hx : 0 < x) (hn : pow2 (f.qmin + (f.prec : Int) - 1) ≤ x)
    (hb : x + x * uf f < pow2 ((f.emax : Int) + 1)) : ∃ q, rnd f x = .fin q ∧ Approx (uf f) q x := by
  have := rnd_fin f hx hn hb
  exact ⟨_, this.1, ⟨this.2.2, this.2.1⟩⟩

end DmlcModel.StrToNum
