/- IEEE round-to-nearest-even on exact rationals: pow2, ilog2, rne and the error bounds of rnd (core Lean only) -/
import DmlcModel.StrToNum.Model
namespace DmlcModel.StrToNum
open DmlcModel

theorem two_ne : (2 : Rat) ≠ 0 := by decide
theorem two_pos : (0 : Rat) < 2 := by decide

theorem pow2_eq (e : Int) : pow2 e = (2 : Rat) ^ e := by
  unfold pow2
  by_cases h : 0 ≤ e
  · rw [if_pos h]
    obtain ⟨n, rfl⟩ := Int.eq_ofNat_of_zero_le h
    rw [Int.toNat_natCast, Rat.zpow_natCast, Rat.natCast_pow]; rfl
  · rw [if_neg h]
    have hn : 0 ≤ -e := by omega
    obtain ⟨n, hn'⟩ := Int.eq_ofNat_of_zero_le hn
    have : e = -(n : Int) := by omega
    rw [hn', Int.toNat_natCast, this, Rat.zpow_neg, Rat.zpow_natCast, Rat.natCast_pow, Rat.div_def, Rat.one_mul]; rfl

theorem pow2_pos (e : Int) : 0 < pow2 e := by rw [pow2_eq]; exact Rat.zpow_pos two_pos
theorem pow2_add (a b : Int) : pow2 (a + b) = pow2 a * pow2 b := by
  simp only [pow2_eq]; exact Rat.zpow_add two_ne a b
theorem pow2_zero : pow2 0 = 1 := by rw [pow2_eq]; exact Rat.zpow_zero 2
theorem pow2_one : pow2 1 = 2 := by rw [pow2_eq]; exact Rat.zpow_one 2
theorem pow2_succ (e : Int) : pow2 (e + 1) = pow2 e * 2 := by rw [pow2_add, pow2_one]
theorem pow2_nat (n : Nat) : pow2 (n : Int) = ((2 ^ n : Nat) : Rat) := by
  unfold pow2; simp



theorem mul_le_mul4 {a b c d : Rat} (h1 : a ≤ b) (h2 : c ≤ d) (ha : 0 ≤ a) (hc : 0 ≤ c) : a * c ≤ b * d :=
  Rat.le_trans (Rat.mul_le_mul_of_nonneg_left h2 ha) (Rat.mul_le_mul_of_nonneg_right h1 (Rat.le_trans hc h2))

theorem mul_lt_mul4 {a b c d : Rat} (h1 : a < b) (h2 : c < d) (ha : 0 ≤ a) (hc : 0 < c) : a * c < b * d :=
  by
    have e1 := Rat.mul_le_mul_of_nonneg_left (Rat.le_of_lt h2) ha
    have hd : 0 < d := by grind
    have e2 := Rat.mul_lt_mul_of_pos_right h1 hd
    grind

theorem pow2_ge_one (n : Nat) : 1 ≤ pow2 (n : Int) := by
  rw [pow2_nat]
  have : (1 : Nat) ≤ 2 ^ n := Nat.one_le_two_pow
  exact (Rat.natCast_le_natCast (a := 1) (b := 2 ^ n)).mpr this

theorem pow2_mono {a b : Int} (h : a ≤ b) : pow2 a ≤ pow2 b := by
  obtain ⟨n, hn⟩ := Int.eq_ofNat_of_zero_le (show 0 ≤ b - a by omega)
  have : b = a + (n : Int) := by omega
  rw [this, pow2_add]
  have h1 := pow2_ge_one n
  have h2 := pow2_pos a
  calc pow2 a = pow2 a * 1 := (Rat.mul_one _).symm
    _ ≤ pow2 a * pow2 n := Rat.mul_le_mul_of_nonneg_left h1 (Rat.le_of_lt h2)

theorem pow2_lt {a b : Int} (h : a < b) : pow2 a < pow2 b := by
  have h1 : pow2 (a + 1) ≤ pow2 b := pow2_mono (by omega)
  have h2 : pow2 a < pow2 (a + 1) := by
    rw [pow2_succ]; have := pow2_pos a; grind
  grind

/-- a positive rational as numerator over denominator, multiplied out -/
theorem mul_den (x : Rat) : x * (x.den : Rat) = (x.num : Rat) := by
  have h := Rat.num_divInt_den x
  rw [Rat.divInt_eq_div] at h
  have hd : ((x.den : Int) : Rat) ≠ 0 := by
    have := x.den_nz
    intro e
    have : (x.den : Int) = 0 := by exact_mod_cast (Rat.intCast_eq_zero_iff.mp e)
    omega
  have := Rat.div_mul_cancel (a := (x.num : Rat)) hd
  rw [h] at this
  exact this


theorem num_pos_of_pos {x : Rat} (h : 0 < x) : 0 < x.num := by
  have := (Rat.lt_iff 0 x).mp h
  simpa using this

theorem natCast_num {x : Rat} (h : 0 < x) : ((x.num.toNat : Nat) : Rat) = (x.num : Rat) := by
  have hp := num_pos_of_pos h
  have : ((x.num.toNat : Nat) : Int) = x.num := Int.toNat_of_nonneg (by omega)
  rw [← Rat.intCast_natCast, this]

theorem cast_pow_le {n k : Nat} (h : 2 ^ k ≤ n) : pow2 (k : Int) ≤ (n : Rat) := by
  rw [pow2_nat]; exact Rat.natCast_le_natCast.mpr h

theorem cast_lt_pow {n k : Nat} (h : n < 2 ^ k) : (n : Rat) < pow2 (k : Int) := by
  rw [pow2_nat]; exact Rat.natCast_lt_natCast.mpr h

/-- `ilog2` is the floor of the binary logarithm -/
theorem ilog2_spec {x : Rat} (hx : 0 < x) : pow2 (ilog2 x) ≤ x ∧ x < pow2 (ilog2 x + 1) := by
  have hn := num_pos_of_pos hx
  have hn0 : x.num.toNat ≠ 0 := by omega
  have hd0 : x.den ≠ 0 := x.den_nz
  have hN := natCast_num hx
  have hxd := mul_den x
  -- bounds of numerator and denominator
  have a1 := cast_pow_le (Nat.log2_self_le hn0)
  have a2 := cast_lt_pow (Nat.lt_log2_self (n := x.num.toNat))
  have b1 := cast_pow_le (Nat.log2_self_le hd0)
  have b2 := cast_lt_pow (Nat.lt_log2_self (n := x.den))
  rw [hN, ← hxd] at a1 a2
  push_cast at a2 b2
  have hD : (0 : Rat) < (x.den : Rat) := Rat.natCast_pos.mpr (by omega)
  unfold ilog2
  simp only []
  generalize (Nat.log2 x.num.toNat : Int) = a at *
  generalize (Nat.log2 x.den : Int) = b at *
  generalize (x.den : Rat) = D at *
  by_cases hk : pow2 (a - b) ≤ x
  · rw [if_pos hk]
    refine ⟨hk, ?_⟩
    -- otherwise x * D ≥ 2^(k+1) * 2^b = 2^(a+1)
    apply Decidable.byContradiction
    intro hc
    have hc' : pow2 (a - b + 1) ≤ x := by grind
    have := mul_le_mul4 hc' b1 (Rat.le_of_lt (pow2_pos _)) (Rat.le_of_lt (pow2_pos _))
    rw [← pow2_add] at this
    have e : a - b + 1 + b = a + 1 := by omega
    rw [e] at this
    grind
  · rw [if_neg hk]
    have hk' : x < pow2 (a - b) := by grind
    have e0 : a - b - 1 + 1 = a - b := by omega
    refine ⟨?_, by rw [e0]; exact hk'⟩
    apply Decidable.byContradiction
    intro hc
    have hc' : x < pow2 (a - b - 1) := by grind
    have := mul_lt_mul4 hc' b2 (Rat.le_of_lt hx) hD
    rw [← pow2_add] at this
    have e : a - b - 1 + (b + 1) = a := by omega
    rw [e] at this
    grind

/-- nearest-even integer rounding is within one half -/
theorem rne_spec {y : Rat} (hy : 0 ≤ y) : 2 * (rne y : Rat) ≤ 2 * y + 1 ∧ 2 * y ≤ 2 * (rne y : Rat) + 1 := by
  have hn : 0 ≤ y.num := by
    have := (Rat.le_iff 0 y).mp hy
    simpa using this
  have hD : (0 : Rat) < (y.den : Rat) := Rat.natCast_pos.mpr (Nat.pos_of_ne_zero y.den_nz)
  have hyd := mul_den y
  have hN : ((y.num.toNat : Nat) : Rat) = (y.num : Rat) := by
    have : ((y.num.toNat : Nat) : Int) = y.num := Int.toNat_of_nonneg hn
    rw [← Rat.intCast_natCast, this]
  -- integer facts
  have hdm := Nat.div_add_mod y.num.toNat y.den
  have hml := Nat.mod_lt y.num.toNat (Nat.pos_of_ne_zero y.den_nz)
  have key : 2 * (rne y * y.den) ≤ 2 * y.num.toNat + y.den ∧ 2 * y.num.toNat ≤ 2 * (rne y * y.den) + y.den := by
    unfold rne
    simp only []
    generalize y.num.toNat / y.den = q at *
    generalize y.num.toNat % y.den = r at *
    generalize y.num.toNat = n at *
    generalize y.den = d at *
    have e1 : (q + 1) * d = d * q + d := by rw [Nat.add_mul, Nat.mul_comm, Nat.one_mul]
    have e2 : q * d = d * q := Nat.mul_comm _ _
    split
    · rw [e2]; omega
    · split
      · rw [e1]; omega
      · split
        · rw [e2]; omega
        · rw [e1]; omega
  -- transfer to Rat and divide by the denominator
  have k1 : (2 : Rat) * ((rne y : Rat) * (y.den : Rat)) ≤ 2 * (y.num.toNat : Rat) + (y.den : Rat) := by
    have := Rat.natCast_le_natCast.mpr key.1
    simpa [Rat.natCast_mul, Rat.natCast_add] using this
  have k2 : (2 : Rat) * (y.num.toNat : Rat) ≤ 2 * ((rne y : Rat) * (y.den : Rat)) + (y.den : Rat) := by
    have := Rat.natCast_le_natCast.mpr key.2
    simpa [Rat.natCast_mul, Rat.natCast_add] using this
  rw [hN, ← hyd] at k1 k2
  generalize (y.den : Rat) = D at *
  generalize (rne y : Rat) = M at *
  constructor
  · apply Rat.le_of_mul_le_mul_right _ hD
    grind
  · apply Rat.le_of_mul_le_mul_right _ hD
    grind


/-- the rounded value before the overflow test -/
def rndQ (f : Fmt) (x : Rat) : Rat := ((rne (x / pow2 (quantum f x)) : Nat) : Rat) * pow2 (quantum f x)

theorem rnd_pos_eq (f : Fmt) {x : Rat} (hx : 0 < x) :
    rnd f x = if pow2 ((f.emax : Int) + 1) ≤ rndQ f x then .inf else .fin (rndQ f x) := by
  unfold rnd rndQ
  have : ¬ x ≤ 0 := by grind
  simp only [this, if_false]

theorem rnd_nonpos (f : Fmt) {x : Rat} (hx : x ≤ 0) : rnd f x = .fin 0 := by
  unfold rnd; simp [hx]

/-- absolute error of rounding: half a unit of the rounding grid -/
theorem rndQ_err (f : Fmt) {x : Rat} (hx : 0 < x) :
    2 * rndQ f x ≤ 2 * x + pow2 (quantum f x) ∧ 2 * x ≤ 2 * rndQ f x + pow2 (quantum f x) := by
  have hP := pow2_pos (quantum f x)
  have hyP : x / pow2 (quantum f x) * pow2 (quantum f x) = x := Rat.div_mul_cancel (by grind)
  have hy : 0 ≤ x / pow2 (quantum f x) := by
    have : 0 < x / pow2 (quantum f x) * pow2 (quantum f x) := by rw [hyP]; exact hx
    exact Rat.le_of_lt ((Rat.mul_pos_iff_of_pos_right hP).mp this)
  have hr := rne_spec hy
  unfold rndQ
  generalize (rne (x / pow2 (quantum f x)) : Rat) = M at *
  generalize x / pow2 (quantum f x) = y at *
  generalize pow2 (quantum f x) = P at *
  have h1 := Rat.mul_le_mul_of_nonneg_right hr.1 (Rat.le_of_lt hP)
  have h2 := Rat.mul_le_mul_of_nonneg_right hr.2 (Rat.le_of_lt hP)
  constructor <;> grind

theorem ilog2_ge {x : Rat} (hx : 0 < x) {k : Int} (h : pow2 k ≤ x) : k ≤ ilog2 x := by
  have := (ilog2_spec hx).2
  apply Decidable.byContradiction
  intro hc
  have : pow2 (ilog2 x + 1) ≤ pow2 k := pow2_mono (by omega)
  grind

theorem ilog2_lt {x : Rat} (hx : 0 < x) {k : Int} (h : x < pow2 k) : ilog2 x < k := by
  have := (ilog2_spec hx).1
  apply Decidable.byContradiction
  intro hc
  have : pow2 k ≤ pow2 (ilog2 x) := pow2_mono (by omega)
  grind

/-- the rounding grid is at most `2^(1-p)` times the value, or the subnormal grid -/
theorem quantum_le (f : Fmt) {x : Rat} (hx : 0 < x) :
    pow2 (quantum f x) ≤ x * pow2 (1 - (f.prec : Int)) ∨ quantum f x = f.qmin := by
  unfold quantum
  by_cases h : ilog2 x - ((f.prec : Int) - 1) ≥ f.qmin
  · left
    have e : max (ilog2 x - ((f.prec : Int) - 1)) f.qmin = ilog2 x + (1 - (f.prec : Int)) := by omega
    rw [e, pow2_add]
    exact Rat.mul_le_mul_of_nonneg_right (ilog2_spec hx).1 (Rat.le_of_lt (pow2_pos _))
  · right; omega

/-- relative error of rounding in the normal range: `|rnd x - x| ≤ 2^-p · x` -/
theorem rndQ_rel (f : Fmt) {x : Rat} (hx : 0 < x) (hn : pow2 (f.qmin + (f.prec : Int) - 1) ≤ x) :
    rndQ f x ≤ x + x * pow2 (-(f.prec : Int)) ∧ x ≤ rndQ f x + x * pow2 (-(f.prec : Int)) := by
  have hk := ilog2_ge hx hn
  have he := rndQ_err f hx
  have hq : pow2 (quantum f x) ≤ x * pow2 (1 - (f.prec : Int)) := by
    rcases quantum_le f hx with h | h
    · exact h
    · -- quantum = qmin happens here only when it is also the normal exponent
      have e : quantum f x = ilog2 x + (1 - (f.prec : Int)) := by
        unfold quantum at h ⊢; omega
      rw [e, pow2_add]
      exact Rat.mul_le_mul_of_nonneg_right (ilog2_spec hx).1 (Rat.le_of_lt (pow2_pos _))
  have e2 : pow2 (1 - (f.prec : Int)) = pow2 (-(f.prec : Int)) * 2 := by
    have : (1 - (f.prec : Int)) = -(f.prec : Int) + 1 := by omega
    rw [this, pow2_succ]
  rw [e2] at hq
  generalize pow2 (quantum f x) = P at *
  generalize pow2 (-(f.prec : Int)) = u at *
  generalize rndQ f x = r at *
  have : x * (u * 2) = 2 * (x * u) := by grind
  constructor <;> grind

end DmlcModel.StrToNum
