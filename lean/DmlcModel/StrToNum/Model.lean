/-
Executable model of include/dmlc/strtonum.h (core Lean only).

  * character classes        `isSpace isBlank isDigit isAlpha isDigitChars : Byte → Bool`
  * floating point           `parseFloat (f : Fmt) (check : Bool) (s : Bytes) : Except Fault PRes`
                             (= dmlc::ParseFloat<float|double, check>; strtof/strtod/…_check_range/atof)
  * integers                 `parseSigned bits base s`, `parseUnsigned bits base s`, `strtoull`, `atol`
  * throwing wrappers        `stof errno s`, `stod errno s`   (errno is an explicit input)
  * `Str2Type`               `str2type : NumTy → Bytes → Except Fault Nat` (bit pattern)
  * specification side       `scanNum`, `numPrefix : Bytes → Option Nat`, `Lexeme`, `decimalValue`

Conventions.
  * The input `s` is a NUL-terminated byte string: the accessible memory is `cstr s`, the bytes up to and
    INCLUDING the first NUL.  Reading `*p` beyond it is the outcome `Fault.oob` (`ub:oob`).  A `CHECK`
    failure (`dmlc::Error`) is `Fault.check`.
  * All integer arithmetic, character tests and constants come from the GENERATED file
    `Gen/StrToNum.lean` (tools/items/StrToNum.py); control flow is modelled by hand, statement by
    statement, and tied to the code by harness/h_strtonum.cc.
  * Floating point: every C++ floating operation is the exact `Rat` operation followed by the explicit
    IEEE-754 round-to-nearest-even function `rnd` (binary32: `rnd .F32`, binary64: `rnd .F64`;
    overflow to infinity, gradual underflow).  No opaque `Float` anywhere.  Magnitudes are non-negative;
    the sign is applied last, as in the code.
  * The model follows the REPAIRED code (fixes/C14-1 … C14-6).
-/
import DmlcModel.Basic
import DmlcModel.Gen.StrToNum

namespace DmlcModel.StrToNum
open DmlcModel DmlcModel.Gen.StrToNum

/-! ### character classes (exported) -/
def isSpace (b : Byte) : Bool := isspace b.toNat
def isBlank (b : Byte) : Bool := isblank b.toNat
def isDigit (b : Byte) : Bool := isdigit b.toNat
def isAlpha (b : Byte) : Bool := isalpha b.toNat
def isDigitChars (b : Byte) : Bool := isdigitchars b.toNat

/-! ### IEEE-754 binary32 / binary64 as exact rationals -/
inductive Fmt | F32 | F64
  deriving DecidableEq, Repr

/-- precision in bits (with the hidden bit) -/
def Fmt.prec : Fmt → Nat | .F32 => 24 | .F64 => 53
/-- largest binary exponent of a finite value: finite values are `< 2^(emax+1)` -/
def Fmt.emax : Fmt → Nat | .F32 => 127 | .F64 => 1023
/-- binary exponent of the smallest subnormal (the coarsest grid is `2^qmin`) -/
def Fmt.qmin : Fmt → Int | .F32 => -149 | .F64 => -1074
def Fmt.expBits : Fmt → Nat | .F32 => 8 | .F64 => 11

/-- `2^e` for an integer `e` -/
def pow2 (e : Int) : Rat :=
  if 0 ≤ e then ((2 ^ e.toNat : Nat) : Rat) else 1 / ((2 ^ (-e).toNat : Nat) : Rat)

/-- `⌊log2 x⌋` for `x > 0` -/
def ilog2 (x : Rat) : Int :=
  let k : Int := (Nat.log2 x.num.toNat : Int) - (Nat.log2 x.den : Int)
  if pow2 k ≤ x then k else k - 1

/-- nearest integer, ties to even, of a non-negative rational -/
def rne (x : Rat) : Nat :=
  let n := x.num.toNat
  let d := x.den
  let q := n / d
  let r := n % d
  if 2 * r < d then q else if d < 2 * r then q + 1 else if q % 2 = 0 then q else q + 1

/-- a non-negative floating-point magnitude: finite (exact rational), infinity, or NaN -/
inductive Mag
  | fin (q : Rat)
  | inf
  | nan
  deriving DecidableEq

/-- the binary exponent of the grid on which `x > 0` is rounded -/
def quantum (f : Fmt) (x : Rat) : Int := max (ilog2 x - ((f.prec : Int) - 1)) f.qmin

/-- round-to-nearest-even into format `f` (argument `≥ 0`) -/
def rnd (f : Fmt) (x : Rat) : Mag :=
  if x ≤ 0 then .fin 0
  else
    let e := quantum f x
    let r := ((rne (x / pow2 e) : Nat) : Rat) * pow2 e
    if pow2 ((f.emax : Int) + 1) ≤ r then .inf else .fin r

abbrev rnd24 := rnd .F32
abbrev rnd53 := rnd .F64

/-- conversion between floating types (`static_cast<FloatType>(…)`) -/
def Mag.cast (f : Fmt) : Mag → Mag
  | .fin q => rnd f q
  | .inf => .inf
  | .nan => .nan

def Mag.mul (f : Fmt) : Mag → Mag → Mag
  | .fin a, .fin b => rnd f (a * b)
  | .nan, _ => .nan
  | _, .nan => .nan
  | .inf, .fin b => if b = 0 then .nan else .inf
  | .fin a, .inf => if a = 0 then .nan else .inf
  | .inf, .inf => .inf

def Mag.div (f : Fmt) : Mag → Mag → Mag
  | .fin a, .fin b => if b = 0 then (if a = 0 then .nan else .inf) else rnd f (a / b)
  | .nan, _ => .nan
  | _, .nan => .nan
  | .inf, .fin _ => .inf
  | .fin _, .inf => .fin 0
  | .inf, .inf => .nan

def Mag.add (f : Fmt) : Mag → Mag → Mag
  | .fin a, .fin b => rnd f (a + b)
  | .nan, _ => .nan
  | _, .nan => .nan
  | _, _ => .inf

/-- a signed floating-point value -/
structure FVal where
  neg : Bool
  mag : Mag
  deriving DecidableEq

/-- IEEE bit pattern (NaN is the canonical positive quiet NaN, as `std::numeric_limits::quiet_NaN()`) -/
def FVal.bits (f : Fmt) (v : FVal) : Nat :=
  let w := f.prec - 1
  let signBit := if v.neg then 2 ^ (w + f.expBits) else 0
  match v.mag with
  | .nan => (2 ^ f.expBits - 1) * 2 ^ w + 2 ^ (w - 1)
  | .inf => signBit + (2 ^ f.expBits - 1) * 2 ^ w
  | .fin q =>
    if q ≤ 0 then signBit
    else
      let e := quantum f q
      let m := (q / pow2 e).floor.toNat
      if m < 2 ^ w then signBit + m
      else signBit + (e - f.qmin + 1).toNat * 2 ^ w + (m - 2 ^ w)

/-- a `float` literal (`1E8f`) used in a `FloatType` expression -/
def litF (f : Fmt) (q : Rat) : Mag := (rnd .F32 q).cast f
/-- a `double` literal cast to `FloatType` -/
def litD (f : Fmt) (q : Rat) : Mag := (rnd .F64 q).cast f

def kMaxExponent : Fmt → Nat | .F32 => kMaxExponentF32 | .F64 => kMaxExponentF64
def kMaxSignificand : Fmt → Mag | .F32 => litD .F32 kMaxSigF32 | .F64 => litD .F64 kMaxSigF64
def kNegMaxSignificand : Fmt → Mag | .F32 => litD .F32 kNegMaxSigF32 | .F64 => litD .F64 kNegMaxSigF64

/-- `(!frac && value > kMaxSignificandForMaxExponent) || (frac && value < kMaxSignificandForNegMaxExponent)`;
the operators come from the source (`Gen.edgeOut`); an infinite `value` (unreachable) compares as in IEEE -/
def edgeOutM (frac : Bool) (value kMax kNeg : Mag) : Bool :=
  match value, kMax, kNeg with
  | .fin v, .fin a, .fin b => edgeOut frac v a b
  | .inf, .fin _, .fin _ => !frac
  | _, _, _ => false

/-! ### memory and outcomes -/
inductive Fault | oob | check
  deriving DecidableEq, Repr

def ERANGE : Nat := 34

/-- the accessible part of a C string: up to and including the first NUL -/
def cstr : Bytes → Bytes
  | [] => []
  | c :: cs => if c = 0 then [0] else c :: cstr cs

/-- `*p` -/
def hd : Bytes → Except Fault Byte
  | [] => .error .oob
  | c :: _ => .ok c

/-- `while (pred(*p)) { st = step(st, *p); ++p; }` — final state and number of bytes consumed (`k` = count so far) -/
def scanLoop {σ : Type} (pred : Byte → Bool) (step : σ → Byte → σ) : σ → Nat → Bytes → Except Fault (σ × Nat)
  | _, _, [] => .error .oob
  | st, k, c :: cs => if pred c then scanLoop pred step (step st c) (k + 1) cs else .ok (st, k)

/-- `while (more i && lower(*p) == lit[i]) { ++i; ++p; }` — returns `i` -/
def matchLit (more : Nat → Bool) : List Nat → Nat → Bytes → Except Fault Nat
  | lit, i, s =>
    if more i then
      match s with
      | [] => .error .oob
      | c :: cs =>
        match lit with
        | l :: ls => if lowerOf c.toNat = l then matchLit more ls (i + 1) cs else .ok i
        | [] => .ok i
    else .ok i

/-- result of `ParseFloat`: value, `*endptr - nptr`, and whether `errno = ERANGE` was executed -/
structure PRes where
  val : FVal
  endIdx : Nat
  erange : Bool
  deriving DecidableEq

def noUnit (u : Unit) (_ : Byte) : Unit := u

/-- state of the fraction loop: `val2`, `pow10`, `digit_cnt` -/
def fracStep (st : Nat × Nat × Nat) (c : Byte) : Nat × Nat × Nat :=
  if fracDigitTaken st.2.2 then (val2Step st.1 c.toNat, pow10Step st.2.1, st.2.2 + 1)
  else (st.1, st.2.1, st.2.2 + 1)

/-- `while (expon >= 8U) { scale *= 1E8f; expon -= 8U; }` -/
def scaleBigLoop (f : Fmt) : Nat → Nat → Mag → Nat × Mag
  | 0, e, sc => (e, sc)
  | fuel + 1, e, sc =>
    if scaleBigMore e then scaleBigLoop f fuel (scaleBigDec e) (Mag.mul f sc (litF f kScaleBig)) else (e, sc)

/-- `while (expon > 0U) { scale *= 10.0f; expon -= 1U; }` -/
def scaleSmallLoop (f : Fmt) : Nat → Nat → Mag → Nat × Mag
  | 0, e, sc => (e, sc)
  | fuel + 1, e, sc =>
    if scaleSmallMore e then scaleSmallLoop f fuel (scaleSmallDec e) (Mag.mul f sc (litF f kScaleSmall)) else (e, sc)

/-- the scaling factor `10^expon` as the code computes it -/
def scaleOf (f : Fmt) (expon : Nat) : Mag :=
  let r := scaleBigLoop f (expon + 1) expon (litF f kScaleInit)
  (scaleSmallLoop f (r.1 + 1) r.1 r.2).2

/-- the three `errno = ERANGE; consume suffix; *endptr = p; return +inf` blocks; `pos` = offset of `p`, `rest` = bytes at `p` -/
def rangeReturn (pos : Nat) (rest : Bytes) : Except Fault PRes := do
  let c ← hd rest
  .ok { val := ⟨false, .inf⟩, endIdx := pos + (if isSuffixRange c.toNat then 1 else 0), erange := true }

/-- the exponent part once the marker has been accepted; `pos`/`rest` are at the marker (`*p == 'e'`),
`c1 = p[1]` -/
def parseExponent (f : Fmt) (chk : Bool) (sign : Bool) (value : Mag) (pos : Nat) (rest : Bytes) (c1 : Byte) :
    Except Fault PRes := do
  -- ++p; sign of the exponent
  let frac := isMinus c1.toNat
  let nsg := if isMinus c1.toNat then 1 else if isPlus c1.toNat then 1 else 0
  let r1 := rest.drop (1 + nsg)
  let (expon0, ne) ← scanLoop isDigit (fun (a : Nat) c => exponStep a c.toNat) 0 0 r1
  let pos2 := pos + 1 + nsg + ne
  let r2 := r1.drop ne
  let kmax := kMaxExponent f
  if exponTooBig expon0 kmax && chk then rangeReturn pos2 r2
  else
    let expon := if exponTooBig expon0 kmax then kmax else expon0
    let edge := exponIsMax expon kmax && edgeOutM frac value (kMaxSignificand f) (kNegMaxSignificand f)
    if edge && chk then rangeReturn pos2 r2
    else
      let value1 := if edge then (if frac then kNegMaxSignificand f else kMaxSignificand f) else value
      let scale := scaleOf f expon
      let value2 := if frac then Mag.div f value1 scale else Mag.mul f value1 scale
      if scaledResultChecked && chk && value2 = .inf then rangeReturn pos2 r2
      else do
        let c ← hd r2
        .ok { val := ⟨!sign, value2⟩, endIdx := pos2 + (if isSuffix c.toNat then 1 else 0), erange := false }

/-- a read that the C++ short-circuit evaluation performs only under `cond` (`0` stands for "not read") -/
def hdIf (cond : Bool) (s : Bytes) : Except Fault Byte := if cond then hd s else .ok 0

/-- exponent (if its marker is followed by digits) and `f` suffix; `pos`/`rest` just after the mantissa -/
def parseTail (f : Fmt) (chk : Bool) (sign : Bool) (value : Mag) (pos : Nat) (rest : Bytes) : Except Fault PRes := do
  let c ← hd rest
  if isExpMarker c.toNat then do
    -- `isdigit(p[1]) || ((p[1] == '-' || p[1] == '+') && isdigit(p[2]))`: p[2] is read only after a sign
    let e1 ← hd (rest.drop 1)
    let e2 ← hdIf (isMinus e1.toNat || isPlus e1.toNat) (rest.drop 2)
    if expLookahead e1.toNat e2.toNat then parseExponent f chk sign value pos rest e1
    else .ok { val := ⟨!sign, value⟩, endIdx := pos + (if isSuffix c.toNat then 1 else 0), erange := false }
  else
    .ok { val := ⟨!sign, value⟩, endIdx := pos + (if isSuffix c.toNat then 1 else 0), erange := false }

/-- the fraction digits (`rest` = bytes after the '.'): new value and number of bytes consumed including the '.' -/
def parseFraction (f : Fmt) (value0 : Mag) (rest : Bytes) : Except Fault (Mag × Nat) := do
  let (st, nf) ← scanLoop isDigit fracStep ((0, 1, 0) : Nat × Nat × Nat) 0 rest
  -- value += static_cast<FloatType>(static_cast<double>(val2) / static_cast<double>(pow10));
  let fr := (Mag.div .F64 (rnd .F64 (st.1 : Rat)) (rnd .F64 (st.2.1 : Rat))).cast f
  .ok (Mag.add f value0 fr, 1 + nf)

def parseFractionOpt (takeDot : Bool) (f : Fmt) (value0 : Mag) (rest : Bytes) : Except Fault (Mag × Nat) :=
  if takeDot then parseFraction f value0 rest else .ok (value0, 0)

/-- `ParseFloat` after the whitespace, sign and inf/nan matchers: `pos`/`rest` at the first digit candidate -/
def parseDecimal (f : Fmt) (chk : Bool) (sign : Bool) (pos : Nat) (rest : Bytes) : Except Fault PRes := do
  let (predec, nd) ← scanLoop isDigit (fun (a : Nat) c => predecStep a c.toNat) 0 0 rest
  let hasDigits0 := nd != 0
  let value0 := rnd f (predec : Rat)
  let r1 := rest.drop nd
  let c ← hd r1
  -- `*p == '.' && (has_digits || isdigit(p[1]))`; p[1] is read only when needed
  let c1 ← hdIf (isDot c.toNat && !hasDigits0) (r1.drop 1)
  let takeDot := isDot c.toNat && dotTaken hasDigits0 c1.toNat
  let vn ← parseFractionOpt takeDot f value0 (r1.drop 1)
  if !(hasDigits0 || takeDot) then .ok { val := ⟨false, .fin 0⟩, endIdx := 0, erange := false }
  else parseTail f chk sign vn.1 (pos + nd + vn.2) (r1.drop vn.2)

/-- the optional `(n-char-sequence)` after "nan": number of bytes it adds (`rest` at the byte after "nan") -/
def parseNanParen (rest : Bytes) : Except Fault Nat := do
  let c ← hd rest
  if isLParen c.toNat then do
    let (_, nb) ← scanLoop (fun b => nanBodyChar b.toNat) noUnit () 0 (rest.drop 1)
    let cq ← hd (rest.drop (1 + nb))
    .ok (if isRParen cq.toNat then nb + 2 else 0)
  else .ok 0

/-- after whitespace and sign (`p0` bytes): the inf / nan matchers with their back-off, then the decimal scanner -/
def parseBody (f : Fmt) (chk : Bool) (sign : Bool) (p0 : Nat) (s2 : Bytes) : Except Fault PRes := do
  let i ← matchLit infMore infLit 0 s2
  if infAccept i then
    .ok { val := ⟨!sign, .inf⟩, endIdx := p0 + (i - (if infIsShort i then infBackoff i else 0)), erange := false }
  else do
    let j ← matchLit nanMore nanLit 0 s2
    if nanAccept j then do
      let extra ← parseNanParen (s2.drop j)
      .ok { val := ⟨false, .nan⟩, endIdx := p0 + j + extra, erange := false }
    else parseDecimal f chk sign p0 s2

/-- `ParseFloat` on the accessible bytes -/
def parseFloatCore (f : Fmt) (chk : Bool) (s : Bytes) : Except Fault PRes := do
  let (_, nws) ← scanLoop isSpace noUnit () 0 s
  let s1 := s.drop nws
  let c ← hd s1
  let nsg := if isMinus c.toNat then 1 else if isPlus c.toNat then 1 else 0
  parseBody f chk (!isMinus c.toNat) (nws + nsg) (s1.drop nsg)

/-- `dmlc::ParseFloat<FloatType, CheckRange>(nptr, &endptr)` on a NUL-terminated string -/
def parseFloat (f : Fmt) (chk : Bool) (s : Bytes) : Except Fault PRes := parseFloatCore f chk (cstr s)

/-! ### integer parsers -/

/-- common front part of `ParseSignedInt` / `ParseUnsignedInt`: whitespace and sign.
Returns (sign, offset of the first digit candidate, bytes there). -/
def intFront (s : Bytes) : Except Fault (Bool × Nat × Bytes) := do
  let (_, nws) ← scanLoop isSpace noUnit () 0 s
  let s1 := s.drop nws
  let c ← hd s1
  let nsg := if isMinus c.toNat then 1 else if isPlus c.toNat then 1 else 0
  .ok (!isMinus c.toNat, nws + nsg, s1.drop nsg)

/-- `ParseSignedInt<intN_t>(nptr, &endptr, base)`: bit pattern of the result (mod `2^bits`) and end offset.
(After fixes/C14-5 the accumulation is in `uint64_t`: wrap-around, no undefined behaviour.) -/
def parseSigned (bits : Nat) (base : Nat) (s : Bytes) : Except Fault (Nat × Nat) :=
  if !sBaseOk base then .error .check
  else do
    let (sign, p0, r) ← intFront (cstr s)
    let (v, nd) ← scanLoop isDigit (fun (a : Nat) c => sStep a base c.toNat) 0 0 r
    .ok ((if sign then v else sNegate v) % 2 ^ bits, p0 + nd)

/-- `ParseUnsignedInt<uintN_t>(nptr, &endptr, base)`; a minus sign fails `CHECK_EQ(sign, true)` -/
def parseUnsigned (bits : Nat) (base : Nat) (s : Bytes) : Except Fault (Nat × Nat) :=
  if !uBaseOk base then .error .check
  else do
    let (sign, p0, r) ← intFront (cstr s)
    if !sign then .error .check
    else do
      let (v, nd) ← scanLoop isDigit (fun (a : Nat) c => uStep a base c.toNat % 2 ^ bits) 0 0 r
      .ok (v, p0 + nd)

def strtoull (base : Nat) (s : Bytes) := parseUnsigned 64 base s
/-- `dmlc::atol` (`long` is 64 bits on the modelled platform) -/
def atol (s : Bytes) : Except Fault Nat := (parseSigned 64 10 s).map (·.1)
/-- `dmlc::atof` -/
def atof (s : Bytes) : Except Fault FVal := (parseFloat .F32 false s).map (·.val)

inductive NumTy | i32 | u32 | i64 | u64 | f32 | f64
  deriving DecidableEq, Repr

/-- `Str2Type<T>(begin)`: bit pattern of the result -/
def str2type (t : NumTy) (s : Bytes) : Except Fault Nat :=
  match t with
  | .i32 => (parseSigned 32 10 s).map (·.1)
  | .i64 => (parseSigned 64 10 s).map (·.1)
  | .u32 => (parseUnsigned 32 10 s).map (·.1)
  | .u64 => (parseUnsigned 64 10 s).map (·.1)
  | .f32 => (parseFloat .F32 false s).map (·.val.bits .F32)
  | .f64 => (parseFloat .F64 false s).map (·.val.bits .F64)

/-! ### stof / stod -/
inductive SRes
  | ok (val : FVal) (pos : Nat) (errno : Nat)
  | throwInvalid            -- std::invalid_argument
  | throwRange              -- std::out_of_range
  | fault (e : Fault)
  deriving DecidableEq

/-- `dmlc::stof` / `dmlc::stod` with `errno` on entry as an explicit input (after fixes/C14-2: the entry
value is saved, `errno` is cleared, and only an `ERANGE` raised by this conversion counts) -/
def sto (f : Fmt) (errno : Nat) (s : Bytes) : SRes :=
  match parseFloat f true s with
  | .error e => .fault e
  | .ok r =>
    let errnoAfterParse := if r.erange then ERANGE else 0
    let rangeError := errnoAfterParse == ERANGE
    if rangeError && r.val == ⟨false, .inf⟩ then .throwRange
    else if r.endIdx == 0 then .throwInvalid
    else .ok r.val r.endIdx (if rangeError then errnoAfterParse else errno)

def stof := sto .F32
def stod := sto .F64

/-! ### specification side: the grammar, the longest numeric prefix, the exact decimal value -/

/-- a decimal lexeme: sign, integer digits, whether a '.' is present, fraction digits, optional exponent
(is it negative?, digits); digits as values 0-9 -/
structure Lexeme where
  neg : Bool
  intDigits : List Nat
  hasDot : Bool
  fracDigits : List Nat
  exp : Option (Bool × List Nat)
  deriving DecidableEq, Repr

def digitsVal (ds : List Nat) : Nat := ds.foldl (fun a d => a * 10 + d) 0

/-- the rational number a lexeme denotes (sign included) -/
def decimalValue (l : Lexeme) : Rat :=
  let m : Rat := (digitsVal l.intDigits : Rat) + (digitsVal l.fracDigits : Rat) / ((10 ^ l.fracDigits.length : Nat) : Rat)
  let scaled : Rat :=
    match l.exp with
    | none => m
    | some (false, ds) => m * ((10 ^ digitsVal ds : Nat) : Rat)
    | some (true, ds) => m / ((10 ^ digitsVal ds : Nat) : Rat)
  if l.neg then -scaled else scaled

inductive NumKind
  | dec (l : Lexeme)
  | inf (neg : Bool)
  | nan
  deriving DecidableEq, Repr

def digitOf (b : Byte) : Nat := b.toNat - 48

def lower (b : Byte) : Nat := b.toNat ||| 32

/-- does `s` start with `lit` (ASCII case-insensitive)? -/
def startsCI : List Nat → Bytes → Bool
  | [], _ => true
  | _ :: _, [] => false
  | l :: ls, c :: cs => lower c = l && startsCI ls cs

/-- optional sign: (is it a minus?, its length) -/
def signPart : Bytes → Bool × Nat
  | c :: _ => if c = 45 then (true, 1) else if c = 43 then (false, 1) else (false, 0)
  | [] => (false, 0)

/-- a character of the `n-char-sequence` in `nan(...)` -/
def isNanBody (b : Byte) : Bool := isDigit b || isAlpha b || b == 95

/-- length of an optional `(n-char-sequence)` (the bytes after "nan"); `0` if it is not closed -/
def nanParenLen : Bytes → Nat
  | c :: r =>
    if c = 40 then
      match r.dropWhile isNanBody with
      | q :: _ => if q = 41 then (r.takeWhile isNanBody).length + 2 else 0
      | [] => 0
    else 0
  | [] => 0

/-- optional fraction `'.' digit*` (needs a digit on at least one side of the dot): its digits and length -/
def fracPart (hasInt : Bool) : Bytes → Bytes × Nat
  | c :: r =>
    if c = 46 then
      let fd := r.takeWhile isDigit
      if hasInt ∨ fd ≠ [] then (fd, 1 + fd.length) else ([], 0)
    else ([], 0)
  | [] => ([], 0)

/-- optional exponent `[eE] sign? digit+`: (sign, digit values) and length -/
def expPart : Bytes → Option (Bool × List Nat) × Nat
  | m :: r =>
    if m = 101 ∨ m = 69 then
      let sg := signPart r
      let ed := (r.drop sg.2).takeWhile isDigit
      if ed ≠ [] then (some (sg.1, ed.map digitOf), 1 + sg.2 + ed.length) else (none, 0)
    else (none, 0)
  | [] => (none, 0)

/-- optional suffix `[fF]` -/
def sufLen : Bytes → Nat
  | c :: _ => if c = 102 ∨ c = 70 then 1 else 0
  | [] => 0

/--
The numeric prefix of `s` in the grammar
`ws* sign? (digit+ ('.' digit*)? | '.' digit+) ([eE] sign? digit+)? [fF]?`  |  `ws* sign? (infinity | inf | nan ('(' [0-9A-Za-z_]* ')')?)`
(`ws` = the code's `isspace`: space, `\t`, `\r`, `\n`, `\f`) by maximal munch: its kind and its length.
Written with `takeWhile`/`dropWhile` and byte literals, independently of the loop model and of the Gen items. -/
def scanNum (s : Bytes) : Option (NumKind × Nat) :=
  let ws := s.takeWhile isSpace
  let s1 := s.dropWhile isSpace
  let sg := signPart s1
  let s2 := s1.drop sg.2
  let p0 := ws.length + sg.2
  if startsCI [105, 110, 102, 105, 110, 105, 116, 121] s2 then some (.inf sg.1, p0 + 8)
  else if startsCI [105, 110, 102] s2 then some (.inf sg.1, p0 + 3)
  else if startsCI [110, 97, 110] s2 then some (.nan, p0 + 3 + nanParenLen (s2.drop 3))
  else
    let ip := s2.takeWhile isDigit
    let s3 := s2.dropWhile isDigit
    let fr := fracPart (ip ≠ []) s3
    if ip = [] ∧ fr.2 = 0 then none
    else
      let s4 := s3.drop fr.2
      let ex := expPart s4
      let s5 := s4.drop ex.2
      some (.dec { neg := sg.1, intDigits := ip.map digitOf, hasDot := fr.2 != 0, fracDigits := fr.1.map digitOf, exp := ex.1 },
            p0 + ip.length + fr.2 + ex.2 + sufLen s5)

/-- length of the longest numeric prefix of `s`, `none` if `s` does not start with a number -/
def numPrefix (s : Bytes) : Option Nat := (scanNum s).map (·.2)

/-- the decimal lexeme at the start of `s`, if `s` starts with a finite decimal number -/
def lexemeOf (s : Bytes) : Option Lexeme :=
  match scanNum s with
  | some (.dec l, _) => some l
  | _ => none

end DmlcModel.StrToNum
