/- Where ERANGE can arise in the pure specification of ParseFloat (core Lean only) -/
import DmlcModel.StrToNum.EndPtr
namespace DmlcModel.StrToNum
open DmlcModel DmlcModel.Gen.StrToNum

/-! ### where `errno = ERANGE` can come from: only the exponent part -/

theorem exponent_end_pos (f : Fmt) (chk sign : Bool) (v : Mag) (pos : Nat) (rest : Bytes) (c1 : Byte) :
    1 ≤ (parseExponentP f chk sign v pos rest c1).endIdx := by
  rw [exponent_end]; omega

theorem tail_erange {f : Fmt} {chk sign : Bool} {v : Mag} {pos : Nat} {rest : Bytes}
    (h : (parseTailP f chk sign v pos rest).erange = true) :
    (expPart rest).1 ≠ none ∧ 1 ≤ (parseTailP f chk sign v pos rest).endIdx := by
  cases rest with
  | nil =>
    have a : isExpMarker (hd0 []).toNat = false := by decide
    simp [parseTailP, a] at h
  | cons m r =>
    unfold parseTailP at h ⊢
    have h0 : hd0 (m :: r) = m := rfl
    simp only [h0, List.drop_succ_cons, List.drop_zero] at h ⊢
    by_cases hm : isExpMarker m.toNat = true
    · have hm' := (isExpMarker_spec m).mp hm
      simp only [hm, if_true, look_spec r] at h ⊢
      by_cases hl : (r.drop (signPart r).2).takeWhile isDigit ≠ []
      · rw [if_pos (decide_eq_true hl)] at h ⊢
        refine ⟨?_, exponent_end_pos ..⟩
        simp only [expPart, hm', if_true]
        rw [if_pos hl]; simp
      · rw [if_neg (by simpa using hl)] at h
        simp at h
    · simp only [hm] at h
      simp at h

theorem decimal_erange {f : Fmt} {chk sign : Bool} {pos : Nat} {rest : Bytes}
    (h : (parseDecimalP f chk sign pos rest).erange = true) :
    ¬(rest.takeWhile isDigit = [] ∧ (fracPart (decide (rest.takeWhile isDigit ≠ [])) (rest.dropWhile isDigit)).2 = 0) ∧
    (expPart ((rest.dropWhile isDigit).drop
        (fracPart (decide (rest.takeWhile isDigit ≠ [])) (rest.dropWhile isDigit)).2)).1 ≠ none ∧
    1 ≤ (parseDecimalP f chk sign pos rest).endIdx := by
  unfold parseDecimalP scanP at h ⊢
  simp only [drop_tw, len_ne_zero] at h ⊢
  have hfs := frac_spec f
    (rnd f ((List.foldl (fun (a : Nat) c => predecStep a c.toNat) 0 (rest.takeWhile isDigit) : Nat) : Rat))
    (decide (rest.takeWhile isDigit ≠ [])) (rest.dropWhile isDigit)
  rw [hfs.1] at h ⊢
  by_cases hno : rest.takeWhile isDigit = [] ∧
      (fracPart (decide (rest.takeWhile isDigit ≠ [])) (rest.dropWhile isDigit)).2 = 0
  · have : (decide (rest.takeWhile isDigit ≠ []) = false ∧
        (fracPart (decide (rest.takeWhile isDigit ≠ [])) (rest.dropWhile isDigit)).2 = 0) :=
      ⟨by simp [hno.1], hno.2⟩
    have h2 := hfs.2.mpr this
    simp only [h2, Bool.not_false, if_true] at h
    simp at h
  · have : ¬ (decide (rest.takeWhile isDigit ≠ []) = false ∧
        (fracPart (decide (rest.takeWhile isDigit ≠ [])) (rest.dropWhile isDigit)).2 = 0) := by
      intro h'; apply hno; exact ⟨by simpa using h'.1, h'.2⟩
    have h2 : ¬ _ := fun h' => this (hfs.2.mp h')
    simp only [Bool.not_eq_false] at h2
    simp only [h2, Bool.not_true, Bool.false_eq_true, if_false] at h ⊢
    exact ⟨hno, tail_erange h⟩

/-- **Where a range error can come from.**  If the pure specification reports `errno = ERANGE`, the input starts with a
finite decimal lexeme that HAS an exponent part, and at least one byte was consumed. -/
theorem erange_imp_exp {f : Fmt} {chk : Bool} {t : Bytes} (h : (parseFloatCoreP f chk t).erange = true) :
    (∃ l n, scanNum t = some (.dec l, n) ∧ l.exp ≠ none) ∧ 1 ≤ (parseFloatCoreP f chk t).endIdx := by
  have hs := sign_spec (t.dropWhile isSpace)
  unfold parseFloatCoreP at h ⊢
  simp only [drop_tw, hs.2] at h ⊢
  generalize hs2 : (t.dropWhile isSpace).drop (signPart (t.dropWhile isSpace)).2 = s2 at h ⊢
  have hi := inf_match s2
  have hn := nan_match s2
  unfold parseBodyP at h ⊢
  simp only [hi.1, hn.1] at h ⊢
  by_cases a1 : infAccept (cpl infLit s2) = true
  · simp [a1] at h
  · simp only [a1, Bool.false_eq_true, if_false] at h ⊢
    by_cases a2 : nanAccept (cpl nanLit s2) = true
    · simp [a2] at h
    · simp only [a2, Bool.false_eq_true, if_false] at h ⊢
      have hd := decimal_erange h
      refine ⟨?_, hd.2.2⟩
      -- the spellings do not match
      have n3 : ¬ (3 ≤ cpl infLit s2) := by
        intro h3; apply a1; simp [infAccept, h3]
      have nn : ¬ (3 ≤ cpl nanLit s2) := by
        intro h3; apply a2
        have : cpl nanLit s2 = 3 := by have := hn.2.1; omega
        rw [this]; decide
      have e8 : startsCI [105, 110, 102, 105, 110, 105, 116, 121] s2 = false := by
        cases hh : startsCI [105, 110, 102, 105, 110, 105, 116, 121] s2
        · rfl
        · have := hi.2.2.1.mp hh; omega
      have e3 : startsCI [105, 110, 102] s2 = false := by
        cases hh : startsCI [105, 110, 102] s2
        · rfl
        · exact absurd (hi.2.2.2.mp hh) n3
      have en : startsCI [110, 97, 110] s2 = false := by
        cases hh : startsCI [110, 97, 110] s2
        · rfl
        · exact absurd (hn.2.2.mp hh) nn
      unfold scanNum
      simp only [hs2, e8, e3, en, Bool.false_eq_true, if_false]
      rw [if_neg (by simpa using hd.1)]
      exact ⟨_, _, rfl, by simpa using hd.2.1⟩

end DmlcModel.StrToNum
