import DmlcModel.RecordIO.Lemmas

namespace DmlcModel.RecordIO
open DmlcModel DmlcModel.Gen.RecordIO

theorem le32_length (x : Nat) : (le32 x).length = 4 := rfl
theorem magicBytes_length : magicBytes.length = 4 := by decide

theorem bne_congr (a b c : Nat) (h : a = b ↔ c = 0) : (a != b) = (c != 0) := by
  rw [Bool.eq_iff_iff]; simp [h]

/-- one step of the reader over a well-formed part header -/
theorem readGo_part (fuel : Nat) (acc more : Bytes) (x : Nat) (hx : x < 4294967296) :
    readGo (fuel + 1) acc (magicBytes ++ le32 x ++ more) =
      (if more.length < rUpperAlign (decodeLength x) then Rd.invalid
       else if rStops (decodeFlag x) then
         Rd.record (acc ++ (more.take (rUpperAlign (decodeLength x))).take (decodeLength x))
           (more.drop (rUpperAlign (decodeLength x)))
       else readGo fuel (acc ++ (more.take (rUpperAlign (decodeLength x))).take (decodeLength x) ++ magicBytes)
           (more.drop (rUpperAlign (decodeLength x)))) := by
  conv => lhs; rw [magicBytes_eq]
  simp only [le32, List.cons_append, List.nil_append, readGo]
  rw [word32_le32 x hx]
  have : word32 0x0a 0x23 0xd7 0xce = kMagic := by decide
  simp only [this, if_true]

theorem part_eq (flag len : Nat) (hasData : Bool) (data : Bytes) (h : data.length = len)
    (hd : hasData = (len != 0)) :
    part flag len hasData data = magicBytes ++ le32 (encodeLRec flag len) ++ data := by
  unfold part
  subst hd
  by_cases h0 : len = 0
  · subst h0; simp [List.length_eq_zero_iff.mp h]
  · simp [← h]

/-- a part of `n` data bytes (n a multiple of 4) followed by anything: what the reader does with it -/
theorem readGo_over_part (fuel : Nat) (acc data more : Bytes) (flag : Nat) (hf : flag < 8)
    (hn : data.length < 2 ^ 29) (pad : Nat) (hp : data.length + pad = (data.length + 3) / 4 * 4) :
    readGo (fuel + 1) acc (magicBytes ++ le32 (encodeLRec flag data.length) ++ (data ++ zeros pad ++ more)) =
      (if rStops flag then Rd.record (acc ++ data) more
       else readGo fuel (acc ++ data ++ magicBytes) more) := by
  rw [readGo_part _ _ _ _ (encodeLRec_lt _ _ hf hn)]
  rw [decodeLength_encode _ _ hf hn, decodeFlag_encode _ _ hf hn, rUpperAlign_spec _ hn, ← hp]
  have h1 : ¬ (data ++ zeros pad ++ more).length < data.length + pad := by
    simp [zeros]
  have h2 : (data ++ zeros pad ++ more).take (data.length + pad) = data ++ zeros pad := by
    rw [List.take_append_of_le_length (by simp [zeros])]
    exact List.take_of_length_le (by simp [zeros])
  have h3 : (data ++ zeros pad ++ more).drop (data.length + pad) = more := by
    have : data.length + pad = (data ++ zeros pad).length := by simp [zeros]
    rw [this, List.drop_left]
  simp only [h1, if_false, h2, h3, List.take_left]

end DmlcModel.RecordIO

namespace DmlcModel.RecordIO
open DmlcModel DmlcModel.Gen.RecordIO

/-- loop invariant of `WriteRecord`: `cur = bhead[dptr, i)`, `rest = bhead[i, len)` -/
structure WInv (len i dptr : Nat) (cur rest : Bytes) : Prop where
  hlen : len < 2 ^ 29
  hi : i % 4 = 0
  hd : dptr % 4 = 0
  hle : dptr ≤ i
  hcur : cur.length = i - dptr
  hrest : i + rest.length = len

theorem writeLast_read (fuel : Nat) (acc s data : Bytes) (len dptr : Nat) (hlen : len < 2 ^ 29)
    (hd : dptr % 4 = 0) (hle : dptr ≤ len) (hdata : data.length = len - dptr) :
    readGo (fuel + 1) acc ((writeGo.writeLast len dptr data).1 ++ s) = Rd.record (acc ++ data) s := by
  unfold writeGo.writeLast
  have hL : wLastLen len dptr = data.length := by
    unfold wLastLen sub32; omega
  have hflag : wLastFlag dptr < 8 ∧ rStops (wLastFlag dptr) = true := by
    unfold wLastFlag rStops; split <;> simp
  have hpart : part (wLastFlag dptr) (wLastLen len dptr) (len != dptr) data
      = magicBytes ++ le32 (encodeLRec (wLastFlag dptr) data.length) ++ data := by
    rw [hL]
    apply part_eq _ _ _ _ rfl
    exact bne_congr _ _ _ (by omega)
  have hua := wUpperAlign_spec len hlen
  have hpad : (if wPadNeeded (wUpperAlign len) len = true then zeros (wPadLen (wUpperAlign len) len) else [])
      = zeros ((len + 3) / 4 * 4 - len) := by
    rw [hua]
    unfold wPadNeeded wPadLen sub32
    by_cases h : (len + 3) / 4 * 4 = len
    · simp [h, zeros]
    · have : ((len + 3) / 4 * 4 + 4294967296 - len % 4294967296) % 4294967296 = (len + 3) / 4 * 4 - len := by omega
      simp [h, this]
  simp only [hpart, hpad]
  have := readGo_over_part fuel acc data s (wLastFlag dptr) hflag.1 (by omega) ((len + 3) / 4 * 4 - len) (by omega)
  simp only [List.append_assoc] at this ⊢
  rw [this, hflag.2]; simp

theorem writeGo_read (len i dptr : Nat) (cur rest : Bytes) (h : WInv len i dptr cur rest) :
    ∀ (fuel : Nat) (acc s : Bytes), rest.length < fuel →
      readGo fuel acc ((writeGo len i dptr cur rest).1 ++ s) = Rd.record (acc ++ cur ++ rest) s := by
  fun_induction writeGo len i dptr cur rest with
  | case1 i dptr cur a b c d rest hlt hm p r ih =>
    intro fuel acc s hf
    obtain ⟨hlen, hi, hd, hle, hcur, hrest⟩ := h
    simp only [List.length_cons] at hrest hf
    obtain ⟨fuel, rfl⟩ : ∃ k, fuel = k + 1 := ⟨fuel - 1, by omega⟩
    have hL : wPartLen i dptr = cur.length := by unfold wPartLen sub32; omega
    have hflag : wPartFlag dptr < 8 ∧ rStops (wPartFlag dptr) = false := by
      unfold wPartFlag rStops; split <;> simp
    have hpart : p = magicBytes ++ le32 (encodeLRec (wPartFlag dptr) cur.length) ++ cur := by
      show part _ _ _ _ = _
      rw [hL]
      apply part_eq _ _ _ _ rfl
      unfold wPartHasData
      exact bne_congr _ _ _ (by omega)
    have hnext : u32 (i + 4) = i + 4 ∧ wNextDptr i = i + 4 := by
      unfold wNextDptr u32; omega
    rw [hnext.1, hnext.2] at ih
    have hinv : WInv len (i + 4) (i + 4) [] rest := ⟨hlen, by omega, by omega, by omega, by simp, by omega⟩
    have := readGo_over_part fuel acc cur (r.1 ++ s) (wPartFlag dptr) hflag.1 (by omega) 0 (by omega)
    simp only [hpart, List.append_assoc, zeros, List.replicate_zero, List.nil_append] at this ⊢
    rw [this, hflag.2]
    simp only [Bool.false_eq_true, if_false]
    have ih' := ih hinv fuel (acc ++ (cur ++ magicBytes)) s (by omega)
    simp only [List.append_assoc] at ih'
    show readGo fuel _ ((writeGo len (u32 (i + 4)) (wNextDptr i) [] rest).1 ++ s) = _
    rw [hnext.1, hnext.2, ih', ← hm]
    simp
  | case2 i dptr cur a b c d rest hlt hm ih =>
    intro fuel acc s hf
    obtain ⟨hlen, hi, hd, hle, hcur, hrest⟩ := h
    simp only [List.length_cons] at hrest hf
    have hnext : u32 (i + 4) = i + 4 := by unfold u32; omega
    rw [hnext] at ih ⊢
    have hinv : WInv len (i + 4) dptr (cur ++ [a, b, c, d]) rest :=
      ⟨hlen, by omega, hd, by omega, by simp; omega, by omega⟩
    have := ih hinv fuel acc s (by omega)
    rw [this]; simp
  | case3 i dptr cur a b c d rest hlt =>
    intro fuel acc s hf
    obtain ⟨hlen, hi, hd, hle, hcur, hrest⟩ := h
    simp only [List.length_cons] at hrest hf
    exfalso
    rw [wLowerAlign_spec len (by omega)] at hlt
    omega
  | case4 i dptr cur tail hnot =>
    intro fuel acc s hf
    obtain ⟨hlen, hi, hd, hle, hcur, hrest⟩ := h
    obtain ⟨fuel, rfl⟩ : ∃ k, fuel = k + 1 := ⟨fuel - 1, by omega⟩
    have := writeLast_read fuel acc s (cur ++ tail) len dptr hlen hd (by omega) (by simp; omega)
    rw [this]; simp

end DmlcModel.RecordIO

namespace DmlcModel.RecordIO
open DmlcModel DmlcModel.Gen.RecordIO

/-- specification of `except_counter_`: number of 4-byte-aligned occurrences of the magic word -/
def alignedMagicCount : Bytes → Nat
  | a :: b :: c :: d :: rest => (if [a, b, c, d] = magicBytes then 1 else 0) + alignedMagicCount rest
  | _ => 0

theorem part_length (flag len : Nat) (hasData : Bool) (data : Bytes) (h : data.length = len) :
    (part flag len hasData data).length = 8 + (if hasData then len else 0) := by
  unfold part
  cases hasData <;> simp [magicBytes_length, le32_length, h] <;> omega

theorem writeLast_length (len dptr : Nat) (data : Bytes) (hlen : len < 2 ^ 29) (hle : dptr ≤ len)
    (hdata : data.length = len - dptr) :
    (writeGo.writeLast len dptr data).1.length = 8 + data.length + ((len + 3) / 4 * 4 - len)
    ∧ (writeGo.writeLast len dptr data).2 = 0 := by
  unfold writeGo.writeLast
  have hL : wLastLen len dptr = data.length := by unfold wLastLen sub32; omega
  refine ⟨?_, rfl⟩
  simp only [List.length_append]
  rw [part_length _ _ _ _ hL.symm, wUpperAlign_spec len hlen]
  have hpad : (if wPadNeeded ((len + 3) / 4 * 4) len = true then zeros (wPadLen ((len + 3) / 4 * 4) len) else []).length
      = (len + 3) / 4 * 4 - len := by
    unfold wPadNeeded wPadLen sub32
    by_cases h2 : (len + 3) / 4 * 4 = len
    · simp [h2]
    · have : ((len + 3) / 4 * 4 + 4294967296 - len % 4294967296) % 4294967296 = (len + 3) / 4 * 4 - len := by omega
      simp [h2, zeros, this]
  rw [hpad]
  by_cases h1 : len = dptr
  · have : data.length = 0 := by omega
    simp [h1, this]
  · simp [h1, hL]

theorem writeGo_length (len i dptr : Nat) (cur rest : Bytes) (h : WInv len i dptr cur rest) :
    (writeGo len i dptr cur rest).1.length
      = 8 + 4 * (writeGo len i dptr cur rest).2 + cur.length + rest.length + ((len + 3) / 4 * 4 - len)
    ∧ (writeGo len i dptr cur rest).2 = alignedMagicCount rest := by
  fun_induction writeGo len i dptr cur rest with
  | case1 i dptr cur a b c d rest hlt hm p r ih =>
    obtain ⟨hlen, hi, hd, hle, hcur, hrest⟩ := h
    simp only [List.length_cons] at hrest
    have hL : wPartLen i dptr = cur.length := by unfold wPartLen sub32; omega
    have hnext : u32 (i + 4) = i + 4 ∧ wNextDptr i = i + 4 := by unfold wNextDptr u32; omega
    have hinv : WInv len (i + 4) (i + 4) [] rest := ⟨hlen, by omega, by omega, by omega, by simp, by omega⟩
    rw [hnext.1, hnext.2] at ih
    have ih' := ih hinv
    have hr : r = writeGo len (i + 4) (i + 4) [] rest := by
      show writeGo len (u32 (i + 4)) (wNextDptr i) [] rest = _
      rw [hnext.1, hnext.2]
    have hp : p.length = 8 + cur.length := by
      show (part _ _ _ _).length = _
      rw [part_length _ _ _ _ hL.symm]
      unfold wPartHasData
      by_cases h : i = dptr
      · have : cur.length = 0 := by omega
        simp [h, this]
      · simp [h, hL]
    rw [hr]
    constructor
    · simp only [List.length_append, hp, ih'.1, List.length_nil, List.length_cons]; omega
    · simp only [ih'.2, alignedMagicCount, hm, if_true]; omega
  | case2 i dptr cur a b c d rest hlt hm ih =>
    obtain ⟨hlen, hi, hd, hle, hcur, hrest⟩ := h
    simp only [List.length_cons] at hrest
    have hnext : u32 (i + 4) = i + 4 := by unfold u32; omega
    rw [hnext] at ih ⊢
    have hinv : WInv len (i + 4) dptr (cur ++ [a, b, c, d]) rest :=
      ⟨hlen, by omega, hd, by omega, by simp; omega, by omega⟩
    have ih' := ih hinv
    constructor
    · rw [ih'.1]; simp only [List.length_append, List.length_cons, List.length_nil]; omega
    · simp only [ih'.2, alignedMagicCount, hm, if_false]; omega
  | case3 i dptr cur a b c d rest hlt =>
    obtain ⟨hlen, hi, hd, hle, hcur, hrest⟩ := h
    simp only [List.length_cons] at hrest
    exfalso
    rw [wLowerAlign_spec len (by omega)] at hlt
    omega
  | case4 i dptr cur tail hnot =>
    obtain ⟨hlen, hi, hd, hle, hcur, hrest⟩ := h
    have := writeLast_length len dptr (cur ++ tail) hlen (by omega) (by simp; omega)
    rw [this.1, this.2]
    have hc : alignedMagicCount tail = 0 := by
      unfold alignedMagicCount
      split
      · exact absurd rfl (hnot _ _ _ _ _)
      · rfl
    exact ⟨by simp only [List.length_append]; omega, hc.symm⟩

theorem winv_init (r : Bytes) (h : r.length < 2 ^ 29) : WInv (u32 r.length) 0 0 [] r := by
  have : u32 r.length = r.length := by unfold u32; omega
  rw [this]
  exact ⟨h, rfl, rfl, Nat.le_refl _, rfl, by omega⟩

theorem u32_length (r : Bytes) (h : r.length < 2 ^ 29) : u32 r.length = r.length := by
  unfold u32; omega

end DmlcModel.RecordIO
