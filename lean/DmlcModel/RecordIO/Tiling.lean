/- chunk-reader parts tile a chunk of whole records -/
import DmlcModel.RecordIO.ChunkRead

namespace DmlcModel.RecordIO
open DmlcModel DmlcModel.Gen.RecordIO

theorem writeAll_append (a b : List Bytes) : writeAll (a ++ b) = writeAll a ++ writeAll b := by
  induction a with
  | nil => rfl
  | cons r rs ih => simp [writeAll, ih]

theorem imageLen_pos (r : Bytes) (h : r.length < 2 ^ 29) : 8 ≤ imageLen r := by
  have := imageLen_eq r h; omega

/-- draining a reader positioned at the start of `rs` with `pend` exactly after them -/
theorem drain_records (rs : List Bytes) (h : ∀ r ∈ rs, r.length < 2 ^ 29) :
    ∀ (fuel : Nat) (chunk post : Bytes) (pb : Nat), rs.length < fuel →
      chunk.drop pb = writeAll rs ++ post →
      ChunkReader.drainFuel fuel { chunk := chunk, pbegin := pb, pend := pb + (writeAll rs).length }
        = some rs := by
  induction rs with
  | nil =>
    intro fuel chunk post pb hf _
    obtain ⟨fuel, rfl⟩ : ∃ k, fuel = k + 1 := ⟨fuel - 1, by simp at hf; omega⟩
    simp [ChunkReader.drainFuel, ChunkReader.next, writeAll, crDone]
  | cons r rs ih =>
    intro fuel chunk post pb hf hdrop
    obtain ⟨fuel, rfl⟩ : ∃ k, fuel = k + 1 := ⟨fuel - 1, by simp at hf; omega⟩
    have hr := h r (by simp)
    simp only [writeAll, List.append_assoc] at hdrop
    have hlen : (writeAll (r :: rs)).length = imageLen r + (writeAll rs).length := by
      simp [writeAll, imageLen]
    unfold ChunkReader.drainFuel
    rw [next_at_record chunk (writeAll rs ++ post) r pb _ hr hdrop (by omega)]
    simp only
    have hdrop' : chunk.drop (pb + imageLen r) = writeAll rs ++ post := by
      rw [← List.drop_drop, hdrop]; unfold imageLen; rw [List.drop_left]
    have := ih (fun x hx => h x (by simp [hx])) fuel chunk post (pb + imageLen r)
      (by simp at hf; omega) hdrop'
    rw [hlen, show pb + (imageLen r + (writeAll rs).length) = pb + imageLen r + (writeAll rs).length by omega,
      this]
    rfl

/-- number of records of `rs` (placed at `base`) that start before `o` -/
def startIdx : List Bytes → Nat → Nat → Nat
  | [], _, _ => 0
  | r :: rs, base, o => if o ≤ base then 0 else 1 + startIdx rs (base + imageLen r) o

theorem startIdx_le (rs : List Bytes) (base o : Nat) : startIdx rs base o ≤ rs.length := by
  induction rs generalizing base with
  | nil => simp [startIdx]
  | cons r rs ih =>
    simp only [startIdx, List.length_cons]
    split
    · omega
    · have := ih (base + imageLen r); omega

theorem nextStart_eq (rs : List Bytes) (base o : Nat) :
    nextStart rs base o = base + (writeAll (rs.take (startIdx rs base o))).length := by
  induction rs generalizing base with
  | nil => simp [nextStart, startIdx, writeAll]
  | cons r rs ih =>
    simp only [nextStart, startIdx]
    split
    · simp [writeAll]
    · rw [ih, Nat.add_comm 1, List.take_succ_cons]
      simp only [writeAll, List.length_append, imageLen]
      omega

theorem startIdx_mono (rs : List Bytes) (base o1 o2 : Nat) (h : o1 ≤ o2) :
    startIdx rs base o1 ≤ startIdx rs base o2 := by
  induction rs generalizing base with
  | nil => simp [startIdx]
  | cons r rs ih =>
    simp only [startIdx]
    by_cases h1 : o1 ≤ base
    · simp [h1]
    · have h2 : ¬ o2 ≤ base := by omega
      simp only [h1, h2, if_false]
      have := ih (base + imageLen r); omega

theorem startIdx_end (rs : List Bytes) (h : ∀ r ∈ rs, r.length < 2 ^ 29) (base : Nat) :
    startIdx rs base (base + (writeAll rs).length) = rs.length := by
  induction rs generalizing base with
  | nil => simp [startIdx]
  | cons r rs ih =>
    have hp := imageLen_pos r (h r (by simp))
    have hl : (writeAll (r :: rs)).length = imageLen r + (writeAll rs).length := by
      simp [writeAll, imageLen]
    simp only [startIdx, hl, List.length_cons]
    have : ¬ base + (imageLen r + (writeAll rs).length) ≤ base := by omega
    simp only [this, if_false]
    have := ih (fun x hx => h x (by simp [hx])) (base + imageLen r)
    rw [show base + (imageLen r + (writeAll rs).length) = base + imageLen r + (writeAll rs).length by omega,
      this]
    omega

/-- telescoping of consecutive slices -/
theorem flatMap_slices {α : Type} (l : List α) (f : Nat → Nat) (hmono : ∀ k, f k ≤ f (k + 1)) (n : Nat) :
    (List.range n).flatMap (fun k => (l.drop (f k)).take (f (k + 1) - f k))
      = (l.drop (f 0)).take (f n - f 0) := by
  have hmono' : ∀ k, f 0 ≤ f k := by
    intro k; induction k with
    | zero => exact Nat.le_refl _
    | succ k ih => exact Nat.le_trans ih (hmono k)
  induction n with
  | zero => simp
  | succ n ih =>
    rw [List.range_succ, List.flatMap_append, ih]
    simp only [List.flatMap_cons, List.flatMap_nil, List.append_nil]
    have h1 := hmono' n
    have h2 := hmono n
    have : f (n + 1) - f 0 = (f n - f 0) + (f (n + 1) - f n) := by omega
    rw [this, List.take_add]
    congr 1
    rw [List.drop_drop]
    congr 2
    omega

/-- one part of the chunk reader over a whole-record chunk, with the part boundaries `b ≤ e`
(aligned, inside the chunk) as computed by the constructor -/
theorem part_records (rs : List Bytes) (h : ∀ r ∈ rs, r.length < 2 ^ 29) (b e : Nat)
    (hb4 : b % 4 = 0) (he4 : e % 4 = 0) (hbe : b ≤ e) (he : e ≤ (writeAll rs).length) :
    (match findNextHead (writeAll rs) b, findNextHead (writeAll rs) e with
      | some pb, some pe =>
        ChunkReader.drainFuel ((writeAll rs).length + 1) { chunk := writeAll rs, pbegin := pb, pend := pe }
      | _, _ => none)
      = some ((rs.drop (startIdx rs 0 b)).take (startIdx rs 0 e - startIdx rs 0 b)) := by
  rw [findNextHead_writeAll rs h b hb4 (by omega), findNextHead_writeAll rs h e he4 he]
  simp only
  have hab := startIdx_mono rs 0 b e hbe
  have hbl := startIdx_le rs 0 e
  generalize ha : startIdx rs 0 b = a at *
  generalize hc : startIdx rs 0 e = c at *
  rw [nextStart_eq, nextStart_eq, ha, hc]
  simp only [Nat.zero_add]
  -- split rs = take a ++ (drop a).take (c - a) ++ drop c
  have hsplit : rs = rs.take a ++ ((rs.drop a).take (c - a) ++ rs.drop c) := by
    have : rs.drop c = (rs.drop a).drop (c - a) := by rw [List.drop_drop]; congr 1; omega
    rw [this, List.take_append_drop, List.take_append_drop]
  have hmid : ∀ r ∈ (rs.drop a).take (c - a), r.length < 2 ^ 29 :=
    fun r hr => h r (List.mem_of_mem_drop (List.mem_of_mem_take hr))
  have htake_c : rs.take c = rs.take a ++ (rs.drop a).take (c - a) := by
    have : c = a + (c - a) := by omega
    conv => lhs; rw [this, List.take_add]
  have hdrop : (writeAll rs).drop (writeAll (rs.take a)).length
      = writeAll ((rs.drop a).take (c - a)) ++ writeAll (rs.drop c) := by
    have : writeAll rs = writeAll (rs.take a) ++ (writeAll ((rs.drop a).take (c - a)) ++ writeAll (rs.drop c)) := by
      conv => lhs; rw [hsplit, writeAll_append, writeAll_append]
    rw [this, List.drop_left]
  have hpend : (writeAll (rs.take c)).length
      = (writeAll (rs.take a)).length + (writeAll ((rs.drop a).take (c - a))).length := by
    rw [htake_c, writeAll_append, List.length_append]
  rw [hpend]
  apply drain_records _ hmid _ _ _ _ _ hdrop
  have hl8 : ∀ (l : List Bytes), (∀ r ∈ l, r.length < 2 ^ 29) → l.length ≤ (writeAll l).length := by
    intro l hl
    induction l with
    | nil => simp
    | cons r l ih =>
      have := imageLen_pos r (hl r (by simp))
      have := ih (fun x hx => hl x (by simp [hx]))
      simp only [writeAll, List.length_append, List.length_cons]
      unfold imageLen at *; omega
  have h1 := hl8 _ hmid
  have h2 : (writeAll ((rs.drop a).take (c - a))).length ≤ (writeAll rs).length := by
    conv => rhs; rw [hsplit, writeAll_append, writeAll_append]
    simp only [List.length_append]; omega
  omega

theorem part_records' (rs : List Bytes) (h : ∀ r ∈ rs, r.length < 2 ^ 29) (b e : Nat)
    (hb4 : b % 4 = 0) (he4 : e % 4 = 0) (hbe : b ≤ e) (he : e ≤ (writeAll rs).length) :
    ChunkReader.drainFuel ((writeAll rs).length + 1)
        { chunk := writeAll rs, pbegin := nextStart rs 0 b, pend := nextStart rs 0 e }
      = some ((rs.drop (startIdx rs 0 b)).take (startIdx rs 0 e - startIdx rs 0 b)) := by
  have := part_records rs h b e hb4 he4 hbe he
  rw [findNextHead_writeAll rs h b hb4 (by omega), findNextHead_writeAll rs h e he4 he] at this
  exact this

end DmlcModel.RecordIO
