/-
Executable model of `RecordIOWriter::WriteRecord`, `RecordIOReader::NextRecord`,
`FindNextRecordIOHead` and `RecordIOChunkReader` (src/recordio.cc, include/dmlc/recordio.h).

All arithmetic (constants, lrec encoding, alignment, flags, loop bounds) comes from the *generated*
file `Gen/RecordIO.lean`, which tools/translate.py rewrites from /repo on every run.  Control flow
is modelled by hand, with the same branch structure as the C++, and tied to the code by the
correspondence harness (harness/recordio.cc).
-/
import DmlcModel.Basic
import DmlcModel.Gen.RecordIO

namespace DmlcModel.RecordIO
open DmlcModel DmlcModel.Gen.RecordIO

/-- the four bytes `reinterpret_cast<const char*>(&umagic)` on a little-endian host -/
def magicBytes : Bytes := le32 kMagic

def zeros (n : Nat) : Bytes := List.replicate n 0

/-- one `magic, lrec, payload` part as written by three `stream_->Write` calls -/
def part (flag len : Nat) (hasData : Bool) (data : Bytes) : Bytes :=
  magicBytes ++ le32 (encodeLRec flag len) ++ (if hasData then data.take len else [])

/--
The `for (i = 0; i < lower_align; i += 4)` loop of `WriteRecord` followed by the final part and the
padding.  `cur` holds `bhead[dptr, i)`, the remaining argument holds `bhead[i, len)`.
Returns the bytes appended to the stream and the increment of `except_counter_`.
-/
def writeGo (len : Nat) (i dptr : Nat) (cur : Bytes) : Bytes → Bytes × Nat
  | a :: b :: c :: d :: rest =>
    if i < wLowerAlign len then
      if [a, b, c, d] = magicBytes then
        let p := part (wPartFlag dptr) (wPartLen i dptr) (wPartHasData i dptr) cur
        let r := writeGo len (u32 (i + 4)) (wNextDptr i) [] rest
        (p ++ r.1, r.2 + 1)
      else
        writeGo len (u32 (i + 4)) dptr (cur ++ [a, b, c, d]) rest
    else
      writeLast len dptr (cur ++ a :: b :: c :: d :: rest)
  | tail => writeLast len dptr (cur ++ tail)
where
  /-- final part (flag 0 or 3) and zero padding; `data` holds `bhead[dptr, len)` -/
  writeLast (len dptr : Nat) (data : Bytes) : Bytes × Nat :=
    let p := part (wLastFlag dptr) (wLastLen len dptr) (len != dptr) data
    let ua := wUpperAlign len
    (p ++ (if wPadNeeded ua len then zeros (wPadLen ua len) else []), 0)

/-- bytes appended by `WriteRecord(r)` and the increment of the exception counter (size check apart) -/
def writeRecord (r : Bytes) : Bytes × Nat := writeGo (u32 r.length) 0 0 [] r

inductive Err | check | param | range | invalid
  deriving Repr, DecidableEq

/-- `WriteRecord` including its `CHECK(size < (1 << 29U))` -/
def writeRecordE (r : Bytes) : Except Err (Bytes × Nat) :=
  if sizeOk r.length then .ok (writeRecord r) else .error .check

/-- stream image of a sequence of `WriteRecord` calls -/
def writeAll : List Bytes → Bytes
  | [] => []
  | r :: rs => (writeRecord r).1 ++ writeAll rs

/-- result of one `RecordIOReader::NextRecord` call on the remaining stream bytes -/
inductive Rd
  | eos                       -- `Read` returned 0 bytes: returns false, `end_of_stream_` set
  | invalid                   -- one of the `CHECK`s fired (dmlc::Error)
  | record (r : Bytes) (rest : Bytes)
  deriving Repr, DecidableEq

/--
The `while (true)` loop of `RecordIOReader::NextRecord`; `acc` is `*out_rec` so far, the argument is
what the stream still holds.  `fuel` bounds the number of parts (every part consumes ≥ 8 bytes; the
wrapper below passes the stream length, which is always enough).
-/
def readGo : Nat → Bytes → Bytes → Rd
  | 0, _, _ => .invalid
  | _ + 1, _, [] => .eos
  | fuel + 1, acc, m0 :: m1 :: m2 :: m3 :: l0 :: l1 :: l2 :: l3 :: rest =>
    if word32 m0 m1 m2 m3 = kMagic then
      let lrec := word32 l0 l1 l2 l3
      let cflag := decodeFlag lrec
      let len := decodeLength lrec
      let ua := rUpperAlign len
      if rest.length < ua then .invalid      -- short read of the payload
      else
        let acc' := acc ++ (rest.take ua).take len
        if rStops cflag then .record acc' (rest.drop ua)
        else readGo fuel (acc' ++ magicBytes) (rest.drop ua)
    else .invalid
  | _ + 1, _, _ => .invalid                  -- 1..7 header bytes

def nextRecord (s : Bytes) : Rd := readGo (s.length + 1) [] s

/-- drain a reader: `some rs` if every call succeeded and the last one reported a clean end -/
def readAllFuel : Nat → Bytes → Option (List Bytes)
  | 0, _ => none
  | fuel + 1, s =>
    match nextRecord s with
    | .eos => some []
    | .invalid => none
    | .record r rest => (readAllFuel fuel rest).map (r :: ·)

def readAll (s : Bytes) : Option (List Bytes) := readAllFuel (s.length + 1) s

/-! ### chunk side: `FindNextRecordIOHead`, `RecordIOChunkReader` -/

/-- the chunk as a list of 32-bit words (`reinterpret_cast<uint32_t*>`); trailing bytes dropped -/
def toWords : Bytes → List Nat
  | a :: b :: c :: d :: rest => word32 a b c d :: toWords rest
  | _ => []

/--
`FindNextRecordIOHead(begin, end)` in word units: `ws` are the words from `begin` on, `p` the word
index of `begin`, `pend` the word index of `end`.  Returns the word index of the head found, or
`pend`.
-/
def findHead (pend : Nat) : Nat → List Nat → Nat
  | p, w0 :: w1 :: rest =>
    if headLoopCond p pend then
      if w0 = kMagic ∧ headAccept (decodeFlag w1) then p
      else findHead pend (p + 1) (w1 :: rest)
    else pend
  | _, _ => pend

/-- `FindNextRecordIOHead(head + b, head + size)` for byte offset `b` of a chunk; `none` = the
alignment `CHECK_EQ` fails -/
def findNextHead (chunk : Bytes) (b : Nat) : Option Nat :=
  if b % 4 = 0 ∧ chunk.length % 4 = 0 then
    some (4 * findHead (chunk.length / 4) (b / 4) ((toWords chunk).drop (b / 4)))
  else none

structure ChunkReader where
  chunk : Bytes
  pbegin : Nat
  pend : Nat
  deriving Repr

def ChunkReader.init (chunk : Bytes) (k nparts : Nat) : Option ChunkReader :=
  let nstep := crStepAlign (crStepRaw chunk.length nparts)
  let b := crBegin chunk.length nstep k
  let e := crEnd chunk.length nstep k
  match findNextHead chunk b, findNextHead chunk e with
  | some pb, some pe => some { chunk, pbegin := pb, pend := pe }
  | _, _ => none

inductive CRd
  | done
  | invalid
  | record (r : Bytes) (next : ChunkReader)

/-- header words at byte offset `o` -/
def headerAt (chunk : Bytes) (o : Nat) : Option (Nat × Nat) :=
  match chunk.drop o with
  | m0 :: m1 :: m2 :: m3 :: l0 :: l1 :: l2 :: l3 :: _ => some (word32 m0 m1 m2 m3, word32 l0 l1 l2 l3)
  | _ => none

/-- the reassembly loop of `RecordIOChunkReader::NextRecord` (cflag ≠ 0 path) -/
def crMulti : Nat → ChunkReader → Bytes → CRd
  | 0, _, _ => .invalid
  | fuel + 1, cr, temp =>
    if cr.pbegin + 8 ≤ cr.pend then
      match headerAt cr.chunk cr.pbegin with
      | none => .invalid
      | some (w0, w1) =>
        if w0 = kMagic then
          let cflag := decodeFlag w1
          let clen := decodeLength w1
          let temp' := temp ++ ((cr.chunk.drop (cr.pbegin + 8)).take clen)
          let cr' := { cr with pbegin := cr.pbegin + crAdvance clen }
          if cflag = 3 then .record temp' cr'
          else crMulti fuel cr' (temp' ++ magicBytes)
        else .invalid
    else .invalid

def ChunkReader.next (cr : ChunkReader) : CRd :=
  if crDone cr.pbegin cr.pend then .done
  else
    match headerAt cr.chunk cr.pbegin with
    | none => .invalid
    | some (w0, w1) =>
      if w0 = kMagic then
        let cflag := decodeFlag w1
        let clen := decodeLength w1
        if cflag = 0 then
          let nb := cr.pbegin + crAdvance clen
          if nb ≤ cr.pend then
            .record ((cr.chunk.drop (cr.pbegin + 8)).take clen) { cr with pbegin := nb }
          else .invalid
        else if cflag = 1 then crMulti (cr.chunk.length + 1) cr []
        else .invalid
      else .invalid

/-- all records of one chunk-reader part; `none` if a `CHECK` fired -/
def ChunkReader.drainFuel : Nat → ChunkReader → Option (List Bytes)
  | 0, _ => none
  | fuel + 1, cr =>
    match cr.next with
    | .done => some []
    | .invalid => none
    | .record r cr' => (ChunkReader.drainFuel fuel cr').map (r :: ·)

def chunkPart (chunk : Bytes) (k nparts : Nat) : Option (List Bytes) :=
  match ChunkReader.init chunk k nparts with
  | none => none
  | some cr => cr.drainFuel (chunk.length + 1)

end DmlcModel.RecordIO
