/-
Specification lemmas for the generated RecordIO kernels (`Gen/RecordIO.lean`) and helper lemmas for
the round-trip proof.  If a C++ expression changes, the generated definition changes and these
lemmas (hence everything downstream) stop compiling.
-/
import DmlcModel.RecordIO.Model

namespace DmlcModel.RecordIO
open DmlcModel DmlcModel.Gen.RecordIO

theorem kMagic_val : kMagic = 3470205706 := by decide

theorem magicBytes_eq : magicBytes = [0x0a, 0x23, 0xd7, 0xce] := by decide

theorem word32_le32 (x : Nat) (h : x < 4294967296) :
    word32 (UInt8.ofNat (x % 256)) (UInt8.ofNat (x / 256 % 256)) (UInt8.ofNat (x / 65536 % 256))
      (UInt8.ofNat (x / 16777216 % 256)) = x := by
  simp only [word32, UInt8.toNat_ofNat']
  omega

theorem encodeLRec_spec (f n : Nat) (hf : f < 8) (hn : n < 2 ^ 29) :
    encodeLRec f n = f * 2 ^ 29 + n := by
  unfold encodeLRec u32
  rw [Nat.mod_eq_of_lt (by rw [Nat.shiftLeft_eq]; omega)]
  rw [← Nat.shiftLeft_add_eq_or_of_lt hn, Nat.shiftLeft_eq]

theorem encodeLRec_lt (f n : Nat) (hf : f < 8) (hn : n < 2 ^ 29) : encodeLRec f n < 4294967296 := by
  rw [encodeLRec_spec f n hf hn]; omega

theorem decodeFlag_spec (x : Nat) : decodeFlag x = x / 2 ^ 29 % 8 := by
  unfold decodeFlag
  rw [Nat.shiftRight_eq_div_pow]
  exact Nat.and_two_pow_sub_one_eq_mod _ 3

theorem decodeLength_spec (x : Nat) : decodeLength x = x % 2 ^ 29 := by
  unfold decodeLength
  have : sub32 (u32 (1 <<< 29)) 1 = 2 ^ 29 - 1 := by decide
  rw [this]
  exact Nat.and_two_pow_sub_one_eq_mod _ 29

theorem decodeFlag_encode (f n : Nat) (hf : f < 8) (hn : n < 2 ^ 29) :
    decodeFlag (encodeLRec f n) = f := by
  rw [encodeLRec_spec f n hf hn, decodeFlag_spec]; omega

theorem decodeLength_encode (f n : Nat) (hf : f < 8) (hn : n < 2 ^ 29) :
    decodeLength (encodeLRec f n) = n := by
  rw [encodeLRec_spec f n hf hn, decodeLength_spec]; omega

/-- the documented reason the length word can never be mistaken for the magic word -/
theorem decodeFlag_kMagic : decodeFlag kMagic = 6 := by decide

theorem wLowerAlign_spec (len : Nat) (h : len < 2 ^ 32) : wLowerAlign len = len / 4 * 4 := by
  unfold wLowerAlign u32
  rw [Nat.shiftRight_eq_div_pow, Nat.shiftLeft_eq]
  omega

theorem wUpperAlign_spec (len : Nat) (h : len < 2 ^ 29) : wUpperAlign len = (len + 3) / 4 * 4 := by
  unfold wUpperAlign u32
  rw [Nat.shiftRight_eq_div_pow, Nat.shiftLeft_eq]
  omega

theorem rUpperAlign_spec (len : Nat) (h : len < 2 ^ 29) : rUpperAlign len = (len + 3) / 4 * 4 := by
  unfold rUpperAlign u32
  rw [Nat.shiftRight_eq_div_pow, Nat.shiftLeft_eq]
  omega

theorem sizeOk_iff (n : Nat) : sizeOk n = true ↔ n < 2 ^ 29 := by
  unfold sizeOk
  have : u32 (1 <<< 29) = 2 ^ 29 := by decide
  rw [this]; simp

end DmlcModel.RecordIO
