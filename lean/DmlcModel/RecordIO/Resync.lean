/- scanning a writer-produced stream from any aligned offset finds the next record start -/
import DmlcModel.RecordIO.Shape

namespace DmlcModel.RecordIO
open DmlcModel DmlcModel.Gen.RecordIO

/-- byte length of the image of one record -/
def imageLen (r : Bytes) : Nat := (writeRecord r).1.length

/-- least record start `≥ o` in the stream of `rs` placed at byte offset `base`, or the stream end -/
def nextStart : List Bytes → Nat → Nat → Nat
  | [], base, _ => base
  | r :: rs, base, o => if o ≤ base then base else nextStart rs (base + imageLen r) o

/-- word image of a record -/
def img (r : Bytes) : List Nat := toWords (writeRecord r).1

theorem imageLen_eq (r : Bytes) (h : r.length < 2 ^ 29) :
    imageLen r = 8 + 4 * alignedMagicCount r + (r.length + 3) / 4 * 4 := by
  have hw := writeGo_length _ 0 0 [] r (winv_init r h)
  unfold imageLen writeRecord
  rw [hw.1, hw.2, u32_length r h]
  simp only [List.length_nil]; omega

theorem img_length (r : Bytes) (h : r.length < 2 ^ 29) : 4 * (img r).length = imageLen r := by
  unfold img; rw [toWords_length]
  have := imageLen_eq r h
  unfold imageLen at this ⊢; omega

theorem toWords_writeAll (rs : List Bytes) (h : ∀ r ∈ rs, r.length < 2 ^ 29) :
    toWords (writeAll rs) = rs.flatMap img := by
  induction rs with
  | nil => rfl
  | cons r rs ih =>
    have hr := imageLen_eq r (h r (by simp))
    unfold imageLen at hr
    simp only [writeAll, List.flatMap_cons]
    rw [toWords_append _ _ (by omega), ih (fun x hx => h x (by simp [hx]))]
    rfl

theorem writeAll_length (rs : List Bytes) : (writeAll rs).length = (rs.map imageLen).sum := by
  induction rs with
  | nil => rfl
  | cons r rs ih => simp [writeAll, ih, imageLen]

theorem skippable_drop (ws : List Nat) (h : skippable ws = true) (j : Nat) : skippable (ws.drop j) = true := by
  induction j generalizing ws with
  | zero => simpa
  | succ j ih =>
    match ws, h with
    | [], _ => simp [skippable]
    | [w], _ => simp [skippable]
    | w0 :: w1 :: rest, h =>
      simp only [skippable, Bool.and_eq_true] at h
      simpa using ih (w1 :: rest) h.2

/-- word-level version of `nextStart` -/
def nextStartW : List Bytes → Nat → Nat → Nat
  | [], base, _ => base
  | r :: rs, base, j => if j ≤ base then base else nextStartW rs (base + (img r).length) j

theorem nextStartW_shift (rs : List Bytes) (base j : Nat) (h : base ≤ j) :
    nextStartW rs base j = base + nextStartW rs 0 (j - base) := by
  induction rs generalizing base j with
  | nil => simp [nextStartW]
  | cons r rs ih =>
    simp only [nextStartW]
    by_cases h1 : j ≤ base
    · have : j - base ≤ 0 := by omega
      simp [h1, this]
    · have h2 : ¬ (j - base ≤ 0) := by omega
      simp only [h1, h2, if_false, Nat.zero_add]
      by_cases h3 : j ≤ base + (img r).length
      · cases rs with
        | nil => simp [nextStartW]
        | cons r2 rs2 =>
          have : j - base ≤ (img r).length := by omega
          simp [nextStartW, h3, this]
      · rw [ih (base + (img r).length) j (by omega), ih (img r).length (j - base) (by omega)]
        have : j - (base + (img r).length) = j - base - (img r).length := by omega
        rw [this]; omega

theorem firstHead_flat_zero (rs : List Bytes) (h : ∀ r ∈ rs, r.length < 2 ^ 29) :
    firstHead (rs.flatMap img) = 0 := by
  cases rs with
  | nil => rfl
  | cons r rs =>
    obtain ⟨L, T, h1, h2, _⟩ := record_shape r (h r (by simp))
    simp only [List.flatMap_cons, img, h1, List.cons_append, firstHead, h2, and_self, if_true]

theorem resyncW (rs : List Bytes) (h : ∀ r ∈ rs, r.length < 2 ^ 29) (j : Nat)
    (hj : j ≤ (rs.flatMap img).length) :
    j + firstHead ((rs.flatMap img).drop j) = nextStartW rs 0 j := by
  induction rs generalizing j with
  | nil => simp at hj; subst hj; simp [nextStartW, firstHead]
  | cons r rs ih =>
    have hr := h r (by simp)
    have hrs : ∀ x ∈ rs, x.length < 2 ^ 29 := fun x hx => h x (by simp [hx])
    obtain ⟨L, T, h1, h2, h3⟩ := record_shape r hr
    have himg : img r = kMagic :: L :: T := h1
    simp only [List.flatMap_cons] at hj ⊢
    by_cases h0 : j = 0
    · subst h0
      simp only [List.drop_zero, nextStartW, Nat.le_refl, if_true, Nat.zero_add]
      rw [himg]; simp [firstHead, h2]
    · simp only [nextStartW, Nat.zero_add]
      have hj0 : ¬ j ≤ 0 := by omega
      simp only [hj0, if_false]
      by_cases hle : j ≤ (img r).length
      · rw [List.drop_append_of_le_length hle]
        have hsk : skippable ((img r).drop j) = true := by
          rw [himg]
          obtain ⟨k, rfl⟩ : ∃ k, j = k + 1 := ⟨j - 1, by omega⟩
          simpa using skippable_drop _ h3 k
        rw [firstHead_skip _ _ hsk, firstHead_flat_zero rs hrs]
        simp only [List.length_drop]
        cases rs with
        | nil => simp [nextStartW]; omega
        | cons r2 rs2 => simp [nextStartW, hle]
      · have hd : ((img r) ++ rs.flatMap img).drop j = (rs.flatMap img).drop (j - (img r).length) := by
          rw [List.drop_append]; simp [List.drop_eq_nil_of_le (by omega : (img r).length ≤ j)]
        rw [hd, nextStartW_shift rs _ j (by omega)]
        have := ih hrs (j - (img r).length) (by simp only [List.length_append] at hj; omega)
        omega

theorem nextStartW_bytes (rs : List Bytes) (h : ∀ r ∈ rs, r.length < 2 ^ 29) (b j : Nat) :
    4 * nextStartW rs b j = nextStart rs (4 * b) (4 * j) := by
  induction rs generalizing b with
  | nil => simp [nextStartW, nextStart]
  | cons r rs ih =>
    have hr := img_length r (h r (by simp))
    simp only [nextStartW, nextStart]
    by_cases h1 : j ≤ b
    · have : 4 * j ≤ 4 * b := by omega
      simp [h1, this]
    · have : ¬ 4 * j ≤ 4 * b := by omega
      simp only [h1, this, if_false]
      rw [ih (fun x hx => h x (by simp [hx])), ← hr]
      congr 1; omega

/-- `FindNextRecordIOHead(head + o, head + size)` on a writer-produced stream -/
theorem findNextHead_writeAll (rs : List Bytes) (h : ∀ r ∈ rs, r.length < 2 ^ 29) (o : Nat)
    (ha : o % 4 = 0) (hb : o ≤ (writeAll rs).length) :
    findNextHead (writeAll rs) o = some (nextStart rs 0 o) := by
  have hlen4 : (writeAll rs).length % 4 = 0 := by
    have : 4 * (toWords (writeAll rs)).length = (writeAll rs).length := by
      rw [toWords_writeAll rs h, writeAll_length]
      clear hb
      induction rs with
      | nil => rfl
      | cons r rs ih =>
        have := img_length r (h r (by simp))
        simp only [List.flatMap_cons, List.length_append, List.map_cons, List.sum_cons]
        have := ih (fun x hx => h x (by simp [hx]))
        omega
    omega
  unfold findNextHead
  simp only [ha, hlen4, and_self, if_true]
  have hwl : (toWords (writeAll rs)).length = (writeAll rs).length / 4 := toWords_length _
  rw [findHead_eq _ _ _ (by simp only [List.length_drop, hwl]; omega)]
  rw [toWords_writeAll rs h] at hwl ⊢
  rw [resyncW rs h (o / 4) (by omega), nextStartW_bytes rs h 0 (o / 4)]
  congr 2; omega

end DmlcModel.RecordIO
