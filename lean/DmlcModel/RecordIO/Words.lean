/-
Word-level view of RecordIO streams: `toWords`, the scanner `findHead` against its specification
`firstHead`, and the shape of a record image (`skippable`).
-/
import DmlcModel.RecordIO.RoundTrip

namespace DmlcModel.RecordIO
open DmlcModel DmlcModel.Gen.RecordIO

theorem toWords_append (a b : Bytes) (h : a.length % 4 = 0) : toWords (a ++ b) = toWords a ++ toWords b := by
  induction a using toWords.induct with
  | case1 x y z w rest ih =>
    simp only [List.length_cons] at h
    simp only [List.cons_append, toWords]
    rw [ih (by omega)]
  | case2 l hne =>
    match l, hne with
    | [], _ => simp [toWords]
    | [_], _ => simp at h
    | [_, _], _ => simp at h
    | [_, _, _], _ => simp at h
    | a :: b :: c :: d :: r, hne => exact absurd rfl (hne a b c d r)

theorem toWords_length (a : Bytes) : (toWords a).length = a.length / 4 := by
  induction a using toWords.induct with
  | case1 x y z w rest ih => simp only [toWords, List.length_cons, ih]; omega
  | case2 l hne =>
    match l, hne with
    | [], _ => simp [toWords]
    | [_], _ => simp [toWords]
    | [_, _], _ => simp [toWords]
    | [_, _, _], _ => simp [toWords]
    | a :: b :: c :: d :: r, hne => exact absurd rfl (hne a b c d r)

theorem toWords_magic : toWords magicBytes = [kMagic] := by decide

theorem toWords_le32 (x : Nat) (h : x < 4294967296) : toWords (le32 x) = [x] := by
  simp only [le32, toWords]
  rw [word32_le32 x h]

theorem word32_eq_magic_iff (a b c d : Byte) : word32 a b c d = kMagic ↔ [a, b, c, d] = magicBytes := by
  rw [magicBytes_eq, kMagic_val]
  constructor
  · intro h
    unfold word32 at h
    have ha := a.toNat_lt; have hb := b.toNat_lt; have hc := c.toNat_lt; have hd := d.toNat_lt
    have h1 : a.toNat = 10 := by omega
    have h2 : b.toNat = 35 := by omega
    have h3 : c.toNat = 215 := by omega
    have h4 : d.toNat = 206 := by omega
    have e1 : a = 10 := UInt8.toNat_inj.mp h1
    have e2 : b = 35 := UInt8.toNat_inj.mp h2
    have e3 : c = 215 := UInt8.toNat_inj.mp h3
    have e4 : d = 206 := UInt8.toNat_inj.mp h4
    rw [e1, e2, e3, e4]
  · intro h
    injection h with h1 h; injection h with h2 h; injection h with h3 h; injection h with h4 _
    subst h1 h2 h3 h4; decide

/-- relative index of the first record head in a word list (its length if there is none) -/
def firstHead : List Nat → Nat
  | w0 :: w1 :: rest =>
    if w0 = kMagic ∧ headAccept (decodeFlag w1) then 0 else 1 + firstHead (w1 :: rest)
  | [_] => 1
  | [] => 0

theorem firstHead_le (ws : List Nat) : firstHead ws ≤ ws.length := by
  induction ws using firstHead.induct with
  | case1 w0 w1 rest h => simp [firstHead, h]
  | case2 w0 w1 rest h ih => simp only [firstHead, h, if_false, List.length_cons] at ih ⊢; omega
  | case3 w => simp [firstHead]
  | case4 => simp [firstHead]

/-- the C++ scanner computes `firstHead` (as long as the word indices fit in 64 bits) -/
theorem findHead_eq (pend : Nat) (p : Nat) (ws : List Nat) (h : p + ws.length = pend) :
    findHead pend p ws = p + firstHead ws := by
  induction ws generalizing p with
  | nil => simp only [List.length_nil] at h; simp [findHead, firstHead]; omega
  | cons w0 rest ih =>
    cases rest with
    | nil => simp [findHead, firstHead]; simp at h; omega
    | cons w1 rest =>
      simp only [List.length_cons] at h
      have hc : headLoopCond p pend = true := by
        unfold headLoopCond u64; simp; omega
      simp only [findHead, hc, if_true, firstHead]
      split
      · rfl
      · rw [ih (p + 1) (by simp; omega)]; omega

/-- no position of `ws` is a record head, whatever follows `ws` -/
def skippable : List Nat → Bool
  | [] => true
  | [w] => w != kMagic
  | w0 :: w1 :: rest => (w0 != kMagic || !headAccept (decodeFlag w1)) && skippable (w1 :: rest)

theorem firstHead_skip (ws more : List Nat) (h : skippable ws = true) :
    firstHead (ws ++ more) = ws.length + firstHead more := by
  induction ws using skippable.induct with
  | case1 => simp
  | case2 w =>
    simp only [skippable, bne_iff_ne, ne_eq] at h
    cases more with
    | nil => simp [firstHead]
    | cons m ms => simp [firstHead, h]
  | case3 w0 w1 rest ih =>
    simp only [skippable, Bool.and_eq_true, Bool.or_eq_true, bne_iff_ne, ne_eq, Bool.not_eq_true'] at h
    have := ih h.2
    simp only [List.cons_append, firstHead] at this ⊢
    have hn : ¬ (w0 = kMagic ∧ headAccept (decodeFlag w1) = true) := by
      intro ⟨a, b⟩; cases h.1 with
      | inl h1 => exact h1 a
      | inr h1 => rw [h1] at b; exact absurd b (by simp)
    simp only [hn, if_false, this, List.length_cons]; omega

def allNonMagic (ws : List Nat) : Bool := ws.all (· != kMagic)

theorem skippable_of_nonMagic_append (a b : List Nat) (ha : allNonMagic a = true) (hb : skippable b = true) :
    skippable (a ++ b) = true := by
  induction a with
  | nil => simpa
  | cons w ws ih =>
    simp only [allNonMagic, List.all_cons, Bool.and_eq_true, bne_iff_ne, ne_eq] at ha
    have ih' := ih (by simpa [allNonMagic] using ha.2)
    rw [List.cons_append]
    cases hws : ws ++ b with
    | nil => simp [skippable, ha.1]
    | cons x xs =>
      simp only [skippable, Bool.and_eq_true, Bool.or_eq_true, bne_iff_ne, ne_eq]
      rw [hws] at ih'
      exact ⟨Or.inl ha.1, ih'⟩

theorem skippable_of_nonMagic (a : List Nat) (ha : allNonMagic a = true) : skippable a = true := by
  have := skippable_of_nonMagic_append a [] ha rfl
  simpa using this

end DmlcModel.RecordIO
