/- shape of the word image of one record: `magic, head-lrec, then nothing that looks like a head` -/
import DmlcModel.RecordIO.Words

namespace DmlcModel.RecordIO
open DmlcModel DmlcModel.Gen.RecordIO

theorem lrec_ne_magic (f n : Nat) (hf : f < 4) (hn : n < 2 ^ 29) : encodeLRec f n ≠ kMagic := by
  intro h
  have := decodeFlag_encode f n (by omega) hn
  rw [h, decodeFlag_kMagic] at this
  omega

theorem toWords_part (flag : Nat) (hf : flag < 8) (data : Bytes) (hd : data.length % 4 = 0)
    (hn : data.length < 2 ^ 29) :
    toWords (magicBytes ++ le32 (encodeLRec flag data.length) ++ data)
      = kMagic :: encodeLRec flag data.length :: toWords data := by
  rw [toWords_append _ _ (by simp [magicBytes_length, le32_length]),
    toWords_append _ _ (by simp [magicBytes_length]), toWords_magic,
    toWords_le32 _ (encodeLRec_lt _ _ hf hn)]
  rfl

/-- a 1..3 byte tail padded with zeros to one word is not the magic word (its top byte is 0) -/
theorem padded_tail_nonMagic (tail : Bytes) (h1 : 0 < tail.length) (h3 : tail.length < 4) :
    allNonMagic (toWords (tail ++ zeros (4 - tail.length))) = true := by
  match tail, h1, h3 with
  | [a], _, _ =>
    simp only [zeros, List.length_cons, List.length_nil, List.replicate, List.cons_append, List.nil_append,
      toWords, allNonMagic, List.all_cons, List.all_nil, Bool.and_true, bne_iff_ne, ne_eq]
    intro h; rw [word32_eq_magic_iff, magicBytes_eq] at h; simp at h
  | [a, b], _, _ =>
    simp only [zeros, List.length_cons, List.length_nil, List.replicate, List.cons_append, List.nil_append,
      toWords, allNonMagic, List.all_cons, List.all_nil, Bool.and_true, bne_iff_ne, ne_eq]
    intro h; rw [word32_eq_magic_iff, magicBytes_eq] at h; simp at h
  | [a, b, c], _, _ =>
    simp only [zeros, List.length_cons, List.length_nil, List.replicate, List.cons_append, List.nil_append,
      toWords, allNonMagic, List.all_cons, List.all_nil, Bool.and_true, bne_iff_ne, ne_eq]
    intro h; rw [word32_eq_magic_iff, magicBytes_eq] at h; simp at h
  | _ :: _ :: _ :: _ :: _, _, h3 => simp at h3; omega

theorem allNonMagic_append (a b : List Nat) :
    allNonMagic (a ++ b) = (allNonMagic a && allNonMagic b) := by
  simp [allNonMagic, List.all_append]

/-- the image of the final part: header, then only non-magic words -/
theorem writeLast_shape (len dptr : Nat) (cur tail : Bytes) (hlen : len < 2 ^ 29) (hd : dptr % 4 = 0)
    (hle : dptr ≤ len) (hcur4 : cur.length % 4 = 0) (ht : tail.length < 4)
    (hdata : cur.length + tail.length = len - dptr) (hcur : allNonMagic (toWords cur) = true) :
    ∃ T, toWords (writeGo.writeLast len dptr (cur ++ tail)).1
        = kMagic :: encodeLRec (wLastFlag dptr) (len - dptr) :: T ∧ allNonMagic T = true := by
  unfold writeGo.writeLast
  have hL : wLastLen len dptr = (cur ++ tail).length := by
    unfold wLastLen sub32; simp; omega
  have hflag : wLastFlag dptr < 8 := by unfold wLastFlag; split <;> simp
  have hpart : part (wLastFlag dptr) (wLastLen len dptr) (len != dptr) (cur ++ tail)
      = magicBytes ++ le32 (encodeLRec (wLastFlag dptr) (len - dptr)) ++ (cur ++ tail) := by
    have hLL : (cur ++ tail).length = len - dptr := by simp; omega
    have := part_eq (wLastFlag dptr) (wLastLen len dptr) (len != dptr) (cur ++ tail) hL.symm
      (bne_congr _ _ _ (by rw [hL, hLL]; omega))
    rw [this, hL, hLL]
  have hua := wUpperAlign_spec len hlen
  have hpad : (if wPadNeeded (wUpperAlign len) len = true then zeros (wPadLen (wUpperAlign len) len) else [])
      = zeros ((len + 3) / 4 * 4 - len) := by
    rw [hua]
    unfold wPadNeeded wPadLen sub32
    by_cases h : (len + 3) / 4 * 4 = len
    · simp [h, zeros]
    · have : ((len + 3) / 4 * 4 + 4294967296 - len % 4294967296) % 4294967296 = (len + 3) / 4 * 4 - len := by omega
      simp [h, this]
  simp only [hpart, hpad]
  rw [List.append_assoc, toWords_append _ _ (by simp [magicBytes_length, le32_length]),
    toWords_append _ _ (by simp [magicBytes_length]), toWords_magic,
    toWords_le32 _ (encodeLRec_lt _ _ hflag (by omega))]
  refine ⟨toWords ((cur ++ tail) ++ zeros ((len + 3) / 4 * 4 - len)), rfl, ?_⟩
  rw [List.append_assoc, toWords_append _ _ hcur4, allNonMagic_append, hcur, Bool.true_and]
  by_cases h0 : tail.length = 0
  · have : tail = [] := List.length_eq_zero_iff.mp h0
    subst this
    have : (len + 3) / 4 * 4 - len = 0 := by simp at hdata; omega
    rw [this]; rfl
  · have : (len + 3) / 4 * 4 - len = 4 - tail.length := by omega
    rw [this]
    exact padded_tail_nonMagic tail (by omega) ht

/-- `cur` only ever holds 4-byte groups that are not the magic word -/
theorem writeGo_shape (len i dptr : Nat) (cur rest : Bytes) (h : WInv len i dptr cur rest)
    (hcur : allNonMagic (toWords cur) = true) :
    ∃ L T, toWords (writeGo len i dptr cur rest).1 = kMagic :: L :: T
      ∧ headAccept (decodeFlag L) = (dptr == 0) ∧ L ≠ kMagic ∧ skippable (L :: T) = true := by
  fun_induction writeGo len i dptr cur rest with
  | case1 i dptr cur a b c d rest hlt hm p r ih =>
    obtain ⟨hlen, hi, hd, hle, hcurl, hrest⟩ := h
    simp only [List.length_cons] at hrest
    have hL : wPartLen i dptr = cur.length := by unfold wPartLen sub32; omega
    have hflag : wPartFlag dptr < 4 := by unfold wPartFlag; split <;> simp
    have hpart : p = magicBytes ++ le32 (encodeLRec (wPartFlag dptr) cur.length) ++ cur := by
      show part _ _ _ _ = _
      rw [hL]
      apply part_eq _ _ _ _ rfl
      unfold wPartHasData
      exact bne_congr _ _ _ (by omega)
    have hnext : u32 (i + 4) = i + 4 ∧ wNextDptr i = i + 4 := by unfold wNextDptr u32; omega
    have hinv : WInv len (i + 4) (i + 4) [] rest := ⟨hlen, by omega, by omega, by omega, by simp, by omega⟩
    rw [hnext.1, hnext.2] at ih
    obtain ⟨L2, T2, hw, hacc, hne, hsk⟩ := ih hinv rfl
    have hr : r = writeGo len (i + 4) (i + 4) [] rest := by
      show writeGo len (u32 (i + 4)) (wNextDptr i) [] rest = _
      rw [hnext.1, hnext.2]
    have hcur4 : cur.length % 4 = 0 := by omega
    refine ⟨encodeLRec (wPartFlag dptr) cur.length, toWords cur ++ kMagic :: L2 :: T2, ?_, ?_, ?_, ?_⟩
    · rw [hpart, toWords_append _ _ (by simp [magicBytes_length, le32_length]; omega),
        toWords_part _ (by omega) _ hcur4 (by omega), hr, hw]
      simp
    · rw [decodeFlag_encode _ _ (by omega) (by omega)]
      unfold wPartFlag headAccept
      by_cases h0 : dptr = 0 <;> simp [h0]
    · exact lrec_ne_magic _ _ hflag (by omega)
    · have h1 : skippable (kMagic :: L2 :: T2) = true := by
        have : headAccept (decodeFlag L2) = false := by rw [hacc]; simp
        simp [skippable, this, hsk]
      have h2 := skippable_of_nonMagic_append (toWords cur) _ hcur h1
      cases hc : toWords cur ++ kMagic :: L2 :: T2 with
      | nil => simp at hc
      | cons x xs =>
        rw [hc] at h2
        simp only [skippable, Bool.and_eq_true, Bool.or_eq_true, bne_iff_ne, ne_eq]
        exact ⟨Or.inl (lrec_ne_magic _ _ hflag (by omega)), h2⟩
  | case2 i dptr cur a b c d rest hlt hm ih =>
    obtain ⟨hlen, hi, hd, hle, hcurl, hrest⟩ := h
    simp only [List.length_cons] at hrest
    have hnext : u32 (i + 4) = i + 4 := by unfold u32; omega
    rw [hnext] at ih ⊢
    have hinv : WInv len (i + 4) dptr (cur ++ [a, b, c, d]) rest :=
      ⟨hlen, by omega, hd, by omega, by simp; omega, by omega⟩
    apply ih hinv
    rw [toWords_append _ _ (by omega), allNonMagic_append, hcur, Bool.true_and]
    simp only [toWords, allNonMagic, List.all_cons, List.all_nil, Bool.and_true, bne_iff_ne, ne_eq]
    rw [word32_eq_magic_iff]; exact hm
  | case3 i dptr cur a b c d rest hlt =>
    obtain ⟨hlen, hi, hd, hle, hcurl, hrest⟩ := h
    simp only [List.length_cons] at hrest
    exfalso
    rw [wLowerAlign_spec len (by omega)] at hlt
    omega
  | case4 i dptr cur tail hnot =>
    obtain ⟨hlen, hi, hd, hle, hcurl, hrest⟩ := h
    have ht : tail.length < 4 := by
      match tail, hnot with
      | [], _ => simp
      | [_], _ => simp
      | [_, _], _ => simp
      | [_, _, _], _ => simp
      | a :: b :: c :: d :: r, hnot => exact absurd rfl (hnot a b c d r)
    obtain ⟨T, hw, hT⟩ := writeLast_shape len dptr cur tail hlen hd (by omega) (by omega) ht (by omega) hcur
    have hflag : wLastFlag dptr < 4 := by unfold wLastFlag; split <;> simp
    refine ⟨_, T, hw, ?_, lrec_ne_magic _ _ hflag (by omega), ?_⟩
    · rw [decodeFlag_encode _ _ (by omega) (by omega)]
      unfold wLastFlag headAccept
      by_cases h0 : dptr = 0 <;> simp [h0]
    · have := skippable_of_nonMagic (encodeLRec (wLastFlag dptr) (len - dptr) :: T)
        (by simp only [allNonMagic, List.all_cons, Bool.and_eq_true, bne_iff_ne, ne_eq]
            exact ⟨lrec_ne_magic _ _ hflag (by omega), by simpa [allNonMagic] using hT⟩)
      exact this

/-- **record image shape**: the word image of one record is `magic, L, T` where `L` carries flag 0
or 1 and no later position of the image looks like a record head, whatever follows it -/
theorem record_shape (r : Bytes) (h : r.length < 2 ^ 29) :
    ∃ L T, toWords (writeRecord r).1 = kMagic :: L :: T
      ∧ headAccept (decodeFlag L) = true ∧ skippable (L :: T) = true := by
  obtain ⟨L, T, h1, h2, _, h4⟩ := writeGo_shape _ 0 0 [] r (winv_init r h) rfl
  exact ⟨L, T, h1, by simpa using h2, h4⟩

end DmlcModel.RecordIO
