/- `RecordIOChunkReader::NextRecord` started at a record start inside a chunk of whole records -/
import DmlcModel.RecordIO.Resync

namespace DmlcModel.RecordIO
open DmlcModel DmlcModel.Gen.RecordIO

theorem crAdvance_spec (clen : Nat) (h : clen < 2 ^ 29) : crAdvance clen = 8 + (clen + 3) / 4 * 4 := by
  unfold crAdvance u64 u32
  rw [Nat.shiftRight_eq_div_pow, Nat.shiftLeft_eq]
  omega

theorem headerAt_of_drop (chunk : Bytes) (pb L : Nat) (more : Bytes) (hL : L < 4294967296)
    (h : chunk.drop pb = magicBytes ++ le32 L ++ more) : headerAt chunk pb = some (kMagic, L) := by
  unfold headerAt
  rw [h, magicBytes_eq]
  simp only [le32, List.cons_append, List.nil_append]
  rw [word32_le32 L hL]
  have : word32 0x0a 0x23 0xd7 0xce = kMagic := by decide
  rw [this]

theorem take_after_header (L : Nat) (data more : Bytes) :
    ((magicBytes ++ le32 L ++ (data ++ more)).drop 8).take data.length = data := by
  have h8 : 8 = (magicBytes ++ le32 L).length := by simp [magicBytes_length, le32_length]
  rw [h8, List.drop_left, List.take_left]

theorem drop_after_part (L : Nat) (data more : Bytes) :
    (magicBytes ++ le32 L ++ data ++ more).drop (8 + data.length) = more := by
  have h8 : 8 + data.length = (magicBytes ++ le32 L ++ data).length := by
    simp [magicBytes_length, le32_length]; omega
  rw [h8, List.drop_left]

theorem alignedMagicCount_lt4 (tail : Bytes) (h : ∀ a b c d r, tail = a :: b :: c :: d :: r → False) :
    alignedMagicCount tail = 0 := by
  unfold alignedMagicCount
  split
  · exact absurd rfl (h _ _ _ _ _)
  · rfl

/-- a record without aligned magic words is written as a single part -/
theorem writeGo_nomagic (len i dptr : Nat) (cur rest : Bytes) (h : alignedMagicCount rest = 0) :
    writeGo len i dptr cur rest = writeGo.writeLast len dptr (cur ++ rest) := by
  fun_induction writeGo len i dptr cur rest with
  | case1 i dptr cur a b c d rest hlt hm p r ih =>
    simp only [alignedMagicCount, hm, if_true] at h; omega
  | case2 i dptr cur a b c d rest hlt hm ih =>
    simp only [alignedMagicCount, hm, if_false, Nat.zero_add] at h
    rw [ih h]; simp
  | case3 i dptr cur a b c d rest hlt => rfl
  | case4 i dptr cur tail hnot => rfl

/-- the reassembly loop over the image produced from writer state `(i, dptr, cur, rest)` -/
theorem crMulti_writeGo (len i dptr : Nat) (cur rest : Bytes) (h : WInv len i dptr cur rest)
    (hm : dptr ≠ 0 ∨ 0 < alignedMagicCount rest) :
    ∀ (fuel : Nat) (chunk post temp : Bytes) (pb pend : Nat),
      rest.length < fuel →
      chunk.drop pb = (writeGo len i dptr cur rest).1 ++ post →
      pb + (writeGo len i dptr cur rest).1.length ≤ pend →
      crMulti fuel { chunk := chunk, pbegin := pb, pend := pend } temp
        = CRd.record (temp ++ cur ++ rest)
            { chunk := chunk, pbegin := pb + (writeGo len i dptr cur rest).1.length, pend := pend } := by
  fun_induction writeGo len i dptr cur rest with
  | case1 i dptr cur a b c d rest hlt hmag p r ih =>
    intro fuel chunk post temp pb pend hf hdrop hfit
    obtain ⟨hlen, hi, hd, hle, hcur, hrest⟩ := h
    simp only [List.length_cons] at hrest hf
    obtain ⟨fuel, rfl⟩ : ∃ k, fuel = k + 1 := ⟨fuel - 1, by omega⟩
    have hL : wPartLen i dptr = cur.length := by unfold wPartLen sub32; omega
    have hflag : wPartFlag dptr < 8 ∧ wPartFlag dptr ≠ 3 := by
      unfold wPartFlag; split <;> simp
    have hpart : p = magicBytes ++ le32 (encodeLRec (wPartFlag dptr) cur.length) ++ cur := by
      show part _ _ _ _ = _
      rw [hL]
      apply part_eq _ _ _ _ rfl
      unfold wPartHasData
      exact bne_congr _ _ _ (by omega)
    have hnext : u32 (i + 4) = i + 4 ∧ wNextDptr i = i + 4 := by unfold wNextDptr u32; omega
    have hinv : WInv len (i + 4) (i + 4) [] rest := ⟨hlen, by omega, by omega, by omega, by simp, by omega⟩
    have hr : r = writeGo len (i + 4) (i + 4) [] rest := by
      show writeGo len (u32 (i + 4)) (wNextDptr i) [] rest = _
      rw [hnext.1, hnext.2]
    rw [hnext.1, hnext.2] at ih
    simp only [hr] at hdrop hfit ⊢
    have hplen : p.length = 8 + cur.length := by
      rw [hpart]; simp [magicBytes_length, le32_length]; omega
    simp only [List.length_append, hplen] at hfit ⊢
    have hLlt := encodeLRec_lt (wPartFlag dptr) cur.length hflag.1 (by omega)
    have hhdr : headerAt chunk pb = some (kMagic, encodeLRec (wPartFlag dptr) cur.length) := by
      apply headerAt_of_drop chunk pb _ (cur ++ ((writeGo len (i + 4) (i + 4) [] rest).1 ++ post)) hLlt
      rw [hdrop, hpart]; simp
    have hdata : (chunk.drop (pb + 8)).take cur.length = cur := by
      rw [← List.drop_drop, hdrop, hpart]
      have := take_after_header (encodeLRec (wPartFlag dptr) cur.length) cur
        ((writeGo len (i + 4) (i + 4) [] rest).1 ++ post)
      simpa using this
    have hdrop' : chunk.drop (pb + (8 + cur.length)) = (writeGo len (i + 4) (i + 4) [] rest).1 ++ post := by
      rw [← List.drop_drop, hdrop, hpart, List.append_assoc]
      exact drop_after_part _ cur _
    unfold crMulti
    have hc : pb + 8 ≤ pend := by omega
    simp only [hc, if_true, hhdr, decodeFlag_encode _ _ hflag.1 (show cur.length < 2 ^ 29 by omega),
      decodeLength_encode _ _ hflag.1 (show cur.length < 2 ^ 29 by omega), hflag.2, if_false, hdata,
      crAdvance_spec cur.length (by omega)]
    have hcl : (cur.length + 3) / 4 * 4 = cur.length := by omega
    rw [hcl]
    have := ih hinv (Or.inl (by omega)) fuel chunk post (temp ++ cur ++ magicBytes) (pb + (8 + cur.length)) pend
      (by omega) hdrop' (by omega)
    rw [this, ← hmag]
    simp [Nat.add_assoc]
  | case2 i dptr cur a b c d rest hlt hmag ih =>
    intro fuel chunk post temp pb pend hf hdrop hfit
    obtain ⟨hlen, hi, hd, hle, hcur, hrest⟩ := h
    simp only [List.length_cons] at hrest hf
    have hnext : u32 (i + 4) = i + 4 := by unfold u32; omega
    rw [hnext] at ih hdrop hfit ⊢
    have hinv : WInv len (i + 4) dptr (cur ++ [a, b, c, d]) rest :=
      ⟨hlen, by omega, hd, by omega, by simp; omega, by omega⟩
    have hm' : dptr ≠ 0 ∨ 0 < alignedMagicCount rest := by
      cases hm with
      | inl h => exact Or.inl h
      | inr h => simp only [alignedMagicCount, hmag, if_false, Nat.zero_add] at h; exact Or.inr h
    rw [ih hinv hm' fuel chunk post temp pb pend (by omega) hdrop hfit]
    simp
  | case3 i dptr cur a b c d rest hlt =>
    intro fuel chunk post temp pb pend hf hdrop hfit
    obtain ⟨hlen, hi, hd, hle, hcur, hrest⟩ := h
    simp only [List.length_cons] at hrest
    exfalso
    rw [wLowerAlign_spec len (by omega)] at hlt
    omega
  | case4 i dptr cur tail hnot =>
    intro fuel chunk post temp pb pend hf hdrop hfit
    obtain ⟨hlen, hi, hd, hle, hcur, hrest⟩ := h
    obtain ⟨fuel, rfl⟩ : ∃ k, fuel = k + 1 := ⟨fuel - 1, by omega⟩
    have hd0 : dptr ≠ 0 := by
      cases hm with
      | inl h => exact h
      | inr h => rw [alignedMagicCount_lt4 tail (fun a b c d r e => hnot a b c d r e)] at h; omega
    -- the final part
    have hdl : (cur ++ tail).length = len - dptr := by simp; omega
    have hL : wLastLen len dptr = (cur ++ tail).length := by unfold wLastLen sub32; omega
    have hflag : wLastFlag dptr = 3 := by unfold wLastFlag; simp [hd0]
    have hlast := writeLast_length len dptr (cur ++ tail) hlen (by omega) hdl
    have hpart : part (wLastFlag dptr) (wLastLen len dptr) (len != dptr) (cur ++ tail)
        = magicBytes ++ le32 (encodeLRec 3 (cur ++ tail).length) ++ (cur ++ tail) := by
      rw [hL, hflag]
      exact part_eq _ _ _ _ rfl (bne_congr _ _ _ (by omega))
    have hout : ∃ padz, (writeGo.writeLast len dptr (cur ++ tail)).1
        = magicBytes ++ le32 (encodeLRec 3 (cur ++ tail).length) ++ (cur ++ tail) ++ padz := by
      unfold writeGo.writeLast
      exact ⟨_, by rw [hpart]⟩
    obtain ⟨padz, hout⟩ := hout
    have hLlt := encodeLRec_lt 3 (cur ++ tail).length (by omega) (by omega)
    have hhdr : headerAt chunk pb = some (kMagic, encodeLRec 3 (cur ++ tail).length) := by
      apply headerAt_of_drop chunk pb _ ((cur ++ tail) ++ padz ++ post) hLlt
      rw [hdrop, hout]; simp
    have hdata : (chunk.drop (pb + 8)).take (cur ++ tail).length = cur ++ tail := by
      rw [← List.drop_drop, hdrop, hout]
      have := take_after_header (encodeLRec 3 (cur ++ tail).length) (cur ++ tail) (padz ++ post)
      simpa using this
    unfold crMulti
    have hc : pb + 8 ≤ pend := by omega
    simp only [hc, if_true, hhdr, decodeFlag_encode 3 _ (by omega) (show (cur ++ tail).length < 2 ^ 29 by omega),
      decodeLength_encode 3 _ (by omega) (show (cur ++ tail).length < 2 ^ 29 by omega), hdata,
      crAdvance_spec (cur ++ tail).length (by omega)]
    have : 8 + ((cur ++ tail).length + 3) / 4 * 4 = (writeGo.writeLast len dptr (cur ++ tail)).1.length := by
      rw [hlast.1]; omega
    rw [this]; simp

end DmlcModel.RecordIO

namespace DmlcModel.RecordIO
open DmlcModel DmlcModel.Gen.RecordIO

/-- the first header of the image written from state `(i, dptr, cur, rest)` -/
theorem writeGo_first_header (len i dptr : Nat) (cur rest : Bytes) (h : WInv len i dptr cur rest) :
    ∃ L more, (writeGo len i dptr cur rest).1 = magicBytes ++ le32 L ++ more ∧ L < 4294967296
      ∧ decodeFlag L = (if alignedMagicCount rest = 0 then wLastFlag dptr else wPartFlag dptr) := by
  fun_induction writeGo len i dptr cur rest with
  | case1 i dptr cur a b c d rest hlt hmag p r ih =>
    obtain ⟨hlen, hi, hd, hle, hcur, hrest⟩ := h
    simp only [List.length_cons] at hrest
    have hL : wPartLen i dptr = cur.length := by unfold wPartLen sub32; omega
    have hflag : wPartFlag dptr < 8 := by unfold wPartFlag; split <;> simp
    have hpart : p = magicBytes ++ le32 (encodeLRec (wPartFlag dptr) cur.length) ++ cur := by
      show part _ _ _ _ = _
      rw [hL]
      apply part_eq _ _ _ _ rfl
      unfold wPartHasData
      exact bne_congr _ _ _ (by omega)
    refine ⟨encodeLRec (wPartFlag dptr) cur.length, cur ++ r.1, by rw [hpart]; simp,
      encodeLRec_lt _ _ hflag (by omega), ?_⟩
    rw [decodeFlag_encode _ _ hflag (by omega)]
    simp [alignedMagicCount, hmag]
  | case2 i dptr cur a b c d rest hlt hmag ih =>
    obtain ⟨hlen, hi, hd, hle, hcur, hrest⟩ := h
    simp only [List.length_cons] at hrest
    have hnext : u32 (i + 4) = i + 4 := by unfold u32; omega
    rw [hnext] at ih ⊢
    have hinv : WInv len (i + 4) dptr (cur ++ [a, b, c, d]) rest :=
      ⟨hlen, by omega, hd, by omega, by simp; omega, by omega⟩
    obtain ⟨L, more, h1, h2, h3⟩ := ih hinv
    refine ⟨L, more, h1, h2, ?_⟩
    rw [h3]; simp [alignedMagicCount, hmag]
  | case3 i dptr cur a b c d rest hlt =>
    obtain ⟨hlen, hi, hd, hle, hcur, hrest⟩ := h
    simp only [List.length_cons] at hrest
    exfalso
    rw [wLowerAlign_spec len (by omega)] at hlt
    omega
  | case4 i dptr cur tail hnot =>
    obtain ⟨hlen, hi, hd, hle, hcur, hrest⟩ := h
    have hdl : (cur ++ tail).length = len - dptr := by simp; omega
    have hL : wLastLen len dptr = (cur ++ tail).length := by unfold wLastLen sub32; omega
    have hflag : wLastFlag dptr < 8 := by unfold wLastFlag; split <;> simp
    have hpart : part (wLastFlag dptr) (wLastLen len dptr) (len != dptr) (cur ++ tail)
        = magicBytes ++ le32 (encodeLRec (wLastFlag dptr) (cur ++ tail).length) ++ (cur ++ tail) := by
      rw [hL]
      exact part_eq _ _ _ _ rfl (bne_congr _ _ _ (by omega))
    unfold writeGo.writeLast
    refine ⟨encodeLRec (wLastFlag dptr) (cur ++ tail).length, (cur ++ tail) ++ _,
      by rw [hpart]; simp only [List.append_assoc]; rfl, encodeLRec_lt _ _ hflag (by omega), ?_⟩
    rw [decodeFlag_encode _ _ hflag (by omega)]
    simp [alignedMagicCount_lt4 tail (fun a b c d r e => hnot a b c d r e)]

/-- **one `NextRecord` of the chunk reader at a record start** returns that record and moves to the
start of the next one -/
theorem next_at_record (chunk post r : Bytes) (pb pend : Nat) (hr : r.length < 2 ^ 29)
    (hdrop : chunk.drop pb = (writeRecord r).1 ++ post) (hfit : pb + imageLen r ≤ pend) :
    ChunkReader.next { chunk := chunk, pbegin := pb, pend := pend }
      = CRd.record r { chunk := chunk, pbegin := pb + imageLen r, pend := pend } := by
  have hinv := winv_init r hr
  have himg := imageLen_eq r hr
  have hlenr := u32_length r hr
  unfold ChunkReader.next
  have hnd : crDone pb pend = false := by unfold crDone; simp; omega
  simp only [hnd, Bool.false_eq_true, if_false]
  obtain ⟨L, more, h1, h2, h3⟩ := writeGo_first_header _ 0 0 [] r hinv
  have hhdr : headerAt chunk pb = some (kMagic, L) := by
    apply headerAt_of_drop chunk pb L (more ++ post) h2
    rw [hdrop]; unfold writeRecord; rw [h1]; simp
  simp only [hhdr, if_true]
  by_cases hc : alignedMagicCount r = 0
  · -- single part
    have hf0 : decodeFlag L = 0 := by rw [h3]; simp [hc, wLastFlag]
    have hw : writeRecord r = writeGo.writeLast (u32 r.length) 0 r := by
      unfold writeRecord; rw [writeGo_nomagic _ 0 0 [] r hc]; simp
    rw [hlenr] at hw
    have hpart : part (wLastFlag 0) (wLastLen r.length 0) (r.length != 0) r
        = magicBytes ++ le32 (encodeLRec 0 r.length) ++ r := by
      have hL : wLastLen r.length 0 = r.length := by unfold wLastLen sub32; omega
      rw [hL]
      exact part_eq _ _ _ _ rfl rfl
    have hout : ∃ padz, (writeRecord r).1 = magicBytes ++ le32 (encodeLRec 0 r.length) ++ r ++ padz := by
      rw [hw]; unfold writeGo.writeLast
      exact ⟨_, by rw [hpart]⟩
    obtain ⟨padz, hout⟩ := hout
    have hLeq : L = encodeLRec 0 r.length := by
      have e := h1
      unfold writeRecord at hout
      rw [hout] at e
      have e2 : (magicBytes ++ le32 (encodeLRec 0 r.length) ++ r ++ padz).take 8
          = (magicBytes ++ le32 L ++ more).take 8 := by rw [e]
      have hx := encodeLRec_lt 0 r.length (by omega) hr
      have t1 : toWords ((magicBytes ++ le32 (encodeLRec 0 r.length) ++ r ++ padz).take 8)
          = [kMagic, encodeLRec 0 r.length] := by
        have : (magicBytes ++ le32 (encodeLRec 0 r.length) ++ r ++ padz).take 8
            = magicBytes ++ le32 (encodeLRec 0 r.length) := by
          rw [List.append_assoc, List.take_append_of_le_length (by simp [magicBytes_length, le32_length])]
          exact List.take_of_length_le (by simp [magicBytes_length, le32_length])
        rw [this, toWords_append _ _ (by simp [magicBytes_length]), toWords_magic, toWords_le32 _ hx]; rfl
      have t2 : toWords ((magicBytes ++ le32 L ++ more).take 8) = [kMagic, L] := by
        have : (magicBytes ++ le32 L ++ more).take 8 = magicBytes ++ le32 L := by
          rw [List.take_append_of_le_length (by simp [magicBytes_length, le32_length])]
          exact List.take_of_length_le (by simp [magicBytes_length, le32_length])
        rw [this, toWords_append _ _ (by simp [magicBytes_length]), toWords_magic, toWords_le32 _ h2]; rfl
      rw [e2, t2] at t1
      injection t1 with _ t; injection t with t _
    subst hLeq
    have hdata : (chunk.drop (pb + 8)).take r.length = r := by
      rw [← List.drop_drop, hdrop, hout]
      have := take_after_header (encodeLRec 0 r.length) r (padz ++ post)
      simpa using this
    have hadv : crAdvance r.length = imageLen r := by
      rw [crAdvance_spec _ hr, himg, hc]
    simp only [hf0, if_true, decodeLength_encode 0 _ (by omega) hr, hadv, hfit, hdata]
  · -- several parts
    have hf1 : decodeFlag L = 1 := by rw [h3]; simp [hc, wPartFlag]
    simp only [hf1, Nat.succ_ne_zero, if_false, if_true]
    have hlen_le : r.length < chunk.length + 1 := by
      have h4 : (chunk.drop pb).length = imageLen r + post.length := by
        rw [hdrop]; simp [imageLen]
      simp only [List.length_drop] at h4
      omega
    have := crMulti_writeGo _ 0 0 [] r hinv (Or.inr (by omega)) (chunk.length + 1) chunk post [] pb pend
      hlen_le hdrop hfit
    simpa [imageLen, writeRecord] using this

end DmlcModel.RecordIO
