import DmlcModel.Parse.ConvStrToNum
import DmlcModel.Parse.ParserNext
import Driver.Proto
/-! line-protocol driver of the Parse model (C11, C12); ops documented in harness/h_parsers.cc -/
namespace Driver.Parse
open DmlcModel DmlcModel.Parse

structure St where
  doc : Bytes := []

def showList (xs : List Nat) : String :=
  if xs.isEmpty then "-" else ",".intercalate (xs.map toString)

def showOpt : Option Nat → String
  | none => "~"
  | some x => toString x

def showOptList : Option (List Nat) → String
  | none => "~"
  | some xs => showList xs

def showRow (r : Row) : String :=
  s!"({showOpt r.label} {showOpt r.weight} {showOpt r.qid} {showOptList r.field} {showList r.index} {showOptList r.value})"

def showRows (rs : List Row) : String := String.join (rs.map showRow)

def showErr : Err → String
  | .check => "err:check"
  | .oob => "ub:oob"

def showContainer (c : Container) : String :=
  s!"c o={showList c.offset} l={showList c.label} w={showList c.weight} q={showList c.qid} f={showList c.field} i={showList c.index} v={showList c.value}"

def parseInt32 (s : String) : Option Nat :=
  match s.toInt? with
  | some i => some (i % 4294967296).toNat
  | none => none

/-- `svm:<iw>:<mode>` | `fm:<iw>:<mode>` | `csv:<iw>:<f32|i32|i64>:<label_column>:<weight_column>:<delimiter byte>` -/
def parseFmt (s : String) : Option (Format × Conv) :=
  match s.splitOn ":" with
  | ["svm", iw, mode] => do
    let iw ← iw.toNat?
    let mode ← mode.toNat?
    pure (.libsvm iw mode, ConvStrToNum.conv iw .f32)
  | ["fm", iw, mode] => do
    let iw ← iw.toNat?
    let mode ← mode.toNat?
    pure (.libfm iw mode, ConvStrToNum.conv iw .f32)
  | ["csv", iw, dt, lc, wc, d] => do
    let iw ← iw.toNat?
    let dt ← match dt with
      | "f32" => some ConvSimple.DT.f32 | "i32" => some .i32 | "i64" => some .i64 | _ => none
    let lc ← parseInt32 lc
    let wc ← parseInt32 wc
    let d ← d.toNat?
    pure (.csv { labelCol := lc, weightCol := wc, delim := d, isReal := dt == .f32 }, ConvStrToNum.conv iw dt)
  | _ => none

def fx : Fixes := Fixes.current

def memOf (body trail : Bytes) : Bytes := body ++ trail ++ [0]

def opBlock (f : Format) (conv : Conv) (doc trail : Bytes) : String :=
  match f.parseBlock fx conv (memOf doc trail) 0 doc.length with
  | .error e => showErr e
  | .ok c =>
    showContainer c ++ " => " ++
      (match rowsOf c with
       | .error e => showErr e
       | .ok rs => "rows " ++ showRows rs)

def opPerLine (f : Format) (conv : Conv) (doc : Bytes) : String :=
  let r : Res (List (List Row)) := (eolSplit doc).mapM fun l => do
    let c ← f.parseBlock fx conv (memOf l []) 0 l.length
    rowsOf c
  match r with
  | .error e => showErr e
  | .ok rss => "rows " ++ showRows rss.flatten

def showBlocks (bs : List (List Row)) : String :=
  "blocks " ++ String.join (bs.map fun b => "[" ++ showRows b ++ "]")

def opFill (f : Format) (conv : Conv) (nthread : Nat) (doc trail : Bytes) : String :=
  let mem := memOf doc trail
  if !Gen.Parse.fillNonEmpty doc.length then "sl  ; err:check" else
  let sl : Res (List (Nat × Nat)) := (List.range nthread).mapM fun tid => threadSlice mem doc.length nthread tid
  match sl with
  | .error e => showErr e
  | .ok sl =>
    let s := "sl " ++ ",".intercalate (sl.map fun (a, b) => s!"{a}-{b}")
    match fillData (f.parseBlock fx conv) mem doc.length nthread with
    | .error e => s ++ " ; " ++ showErr e
    | .ok cs =>
      match blocksOf cs with
      | .error e => s ++ " ; " ++ showErr e
      | .ok bs => s ++ " ; " ++ showBlocks bs

def parseChunks (s : String) : Option (List (Bytes × Nat)) :=
  if s == "." then some [] else
  (s.splitOn ",").mapM fun ch =>
    match ch.splitOn "/" with
    | [a, b] => do
      let a ← bytesOfHex a
      let b ← bytesOfHex b
      pure (memOf a b, a.length)
    | _ => none

def opPipe (f : Format) (conv : Conv) (nthread : Nat) (chunks : List (Bytes × Nat)) : String :=
  match pipeline f fx conv nthread chunks with
  | .error e => showErr e
  | .ok bs => showBlocks bs

/-- `pipe` through `ThreadedParser`: every block with the ownership observation made when `Next` returned -/
def opTPipe (f : Format) (conv : Conv) (nthread : Nat) (chunks : List (Bytes × Nat)) : String :=
  match DmlcModel.Parse.PNext.pipelineThreaded f fx conv nthread chunks with
  | .error e => showErr e
  | .ok bs => "blocks " ++ String.join (bs.map fun b => "[" ++ showRows b.1 ++ "]@" ++ (if b.2 then "1" else "0"))

def step (s : St) : List String → St × String
  | ["line", h] =>
    match bytesOfHex h with
    | some b => ({ s with doc := s.doc ++ b }, "ok")
    | none => (s, "bad-op")
  | "row" :: h :: _ =>
    match bytesOfHex h with
    | some b => ({ s with doc := s.doc ++ b }, "ok")
    | none => (s, "bad-op")
  | ["block", f, trail] =>
    match parseFmt f, bytesOfHex trail with
    | some (f, conv), some t => (s, opBlock f conv s.doc t)
    | _, _ => (s, "bad-op")
  | ["perline", f] =>
    match parseFmt f with
    | some (f, conv) => (s, opPerLine f conv s.doc)
    | none => (s, "bad-op")
  | ["fill", f, nt, trail] =>
    match parseFmt f, nt.toNat?, bytesOfHex trail with
    | some (f, conv), some nt, some t => (s, opFill f conv nt s.doc t)
    | _, _, _ => (s, "bad-op")
  | ["pipe", f, nt, _nparts, _bufwords, chunks] =>
    match parseFmt f, nt.toNat?, parseChunks chunks with
    | some (f, conv), some nt, some cs => (s, opPipe f conv nt cs)
    | _, _, _ => (s, "bad-op")
  | ["cpipe", f, maxt, _nparts, _bufwords, chunks] =>
    -- Parser::Create of src/data.cc: the factory passes `Gen.Parse.factoryThreads` (capped by what the host allows)
    match parseFmt f, maxt.toNat?, parseChunks chunks with
    | some (f, conv), some maxt, some cs => (s, opPipe f conv (min maxt Gen.Parse.factoryThreads) cs)
    | _, _, _ => (s, "bad-op")
  | ["tpipe", f, nt, _nparts, _bufwords, chunks] =>
    match parseFmt f, nt.toNat?, parseChunks chunks with
    | some (f, conv), some nt, some cs => (s, opTPipe f conv nt cs)
    | _, _, _ => (s, "bad-op")
  | _ => (s, "bad-op")

end Driver.Parse

def main : IO Unit := Driver.loop ({} : Driver.Parse.St) Driver.Parse.step
