import DmlcModel.TIter.Model
import Driver.Proto
/-!
Line-protocol driver for the ThreadedIter model: replays a (program, producer script, schedule) on
`DmlcModel.TIter.step` and prints one log line per transition, in the format of harness/h_titer.cc.

The model counts interchangeable consumer threads; the driver keeps the *concrete* threads (T0 = main,
T2 = consumer B; T1 is the producer) next to the model state, maps the chosen thread's program location
to the model event, and performs every state change through `step` (a `none` is printed as
`model-disabled`).
-/
namespace Driver.TIter
open DmlcModel DmlcModel.TIter DmlcModel.Gen.TIter

inductive CLoc where
  | idle | n0 | n1 | n2 | nW | nK | n4 | n5 | n6 | r0 | r1 | r2 | r3 | x | spawning | joining
  deriving DecidableEq, Repr

structure Thr where
  loc : CLoc := .idle
  held : List (Nat × Item) := []
  cur : Option (Nat × Item) := none
  rIdx : Nat := 0
  nv : Nat := 0            -- 0: plain call, 1: Recycle half of Next(), 2: Next half of Next()
  xcall : String := ""

structure PassSpec where
  n : Nat
  throws : Bool

structure D where
  s : State := {}
  passes : List PassSpec := []
  rew : List Bool := []
  cap : Nat := 1
  t0 : Thr := {}
  t2 : Thr := {}
  fine : Bool := false
  bTid : Nat := 2          -- tid of the current consumer thread B
  nextTid : Nat := 2       -- tid the next spawned thread gets (T1 is the producer)

def nthPass (ps : List PassSpec) (p : Nat) : PassSpec :=
  match ps[p]? with
  | some x => x
  | none =>
    match ps.getLast? with
    | some x => x
    | none => ⟨0, false⟩

def D.params (d : D) : Params where
  src := fun p i =>
    let ps := nthPass d.passes p
    if i < ps.n then .item (p * 100 + i) else if ps.throws then .throw else .fin
  rew := fun p => match d.rew[p]? with
    | some true => .throw
    | _ => .ok
  cap := d.cap

def parsePass (t : String) : PassSpec :=
  let cs := t.toList
  let digits := cs.takeWhile Char.isDigit
  ⟨(String.ofList digits).toNat?.getD 0, cs.getLast? == some 't'⟩

def parseHeader (ws : List String) : D :=
  let d0 : D := { fine := ws.head? == some "fine" }
  ws.foldl (fun d w =>
    match w.splitOn "=" with
    | ["cap", v] => { d with cap := v.toNat?.getD 1 }
    | ["src", v] => { d with passes := (v.splitOn ",").map parsePass }
    | ["rew", v] => { d with rew := if v = "-" then [] else v.toList.map (· == 't') }
    | _ => d) d0

def b01 (b : Bool) : String := if b then "1" else "0"

def snap (s : State) : String :=
  s!"q={s.queue.length} f={s.free.length} nc={s.nwaitC} np={s.nwaitP} end={b01 s.produceEnd} sig={s.sig} proc={b01 s.processed}"

def wakeP (s : State) : String := if s.ploc = .waitSet then "wake=1" else "wake=-"

def inCcWaitSet (s : State) (t : Thr) : Bool :=
  t.loc = .nW || (t.loc = .x && s.xloc = .bWait)

def wakeAllStr (d : D) : String :=
  let l := (if inCcWaitSet d.s d.t0 then ["0"] else []) ++ (if inCcWaitSet d.s d.t2 then [toString d.bTid] else [])
  "wake=" ++ (if l.isEmpty then "-" else ",".intercalate l)

def wokenThr (t : Thr) : Thr := if t.loc = .nW then { t with loc := .nK } else t

def retStr : Ret → String
  | .ok => "ok"
  | .err => "err"
  | .errCheck => "errcheck"
  | .nextEnd | .nextDestroyed => "end"
  | .nextItem => "item"
  | .none => "none"

def insertAt {α : Type} (l : List α) (i : Nat) (a : α) : List α := l.take i ++ a :: l.drop i

/-- result text of a finished Next (plain or as the second half of Next()) and the thread afterwards -/
def finishNext (t : Thr) (r : Ret) : Thr × String :=
  let t' := { t with loc := .idle, cur := none, nv := 0 }
  if t.nv = 2 then
    match r, t.cur with
    | .nextItem, some (_, it) => (t', s!" ret=nv:true:{it.val}")
    | .nextEnd, _ | .nextDestroyed, _ => (t', " ret=nv:false")
    | r, _ => (t', s!" ret=nv:{retStr r}")
  else
    match r, t.cur with
    | .nextItem, some (c, it) => ({ t' with held := t.held ++ [(c, it)] }, s!" ret=n:item:{it.val}:c{c}")
    | .err, some (c, it) => ({ t' with held := t.held ++ [(c, it)] }, " ret=n:err")
    | .nextEnd, _ | .nextDestroyed, _ => (t', " ret=n:end")
    | r, _ => (t', s!" ret=n:{retStr r}")

/-- after nLock / nRelock: where did the thread go -/
def afterTake (pre post : State) (t : Thr) : Thr × String :=
  if post.ret = .errCheck then finishNext t .errCheck
  else if post.nW > pre.nW then ({ t with loc := .nW }, "")
  else
    let t' := { t with cur := pre.queue.head? }
    if post.n4 > pre.n4 then ({ t' with loc := .n4 }, "")
    else if post.n5 > pre.n5 then ({ t' with loc := .n5 }, "")
    else if post.n6 > pre.n6 then ({ t with loc := .n6 }, "")
    else ({ t with loc := .idle }, " ret=n:ub")

structure Out where
  d : D
  line : String

def setThr (d : D) (tid : Nat) (t : Thr) : D := if tid = 0 then { d with t0 := t } else { d with t2 := t }

def apply1 (d : D) (e : Event) : Option State := step d.params d.s e

def disabled (d : D) (tid : Nat) (e : Event) : Out :=
  ⟨d, s!"T{tid} model-disabled {repr e} | {snap d.s}"⟩

def mk (d : D) (tid : Nat) (t : Thr) (s' : State) (txt : String) : Out :=
  let d' := setThr { d with s := s' } tid t
  ⟨d', s!"T{tid} {txt} | {snap s'}"⟩

def consumerStep (d : D) (tid : Nat) (ann : String) : Out :=
  let t := if tid = 0 then d.t0 else d.t2
  let s := d.s
  let run (e : Event) (k : State → Thr × String) (lbl : String) : Out :=
    match apply1 d e with
    | none => disabled d tid e
    | some s' => let (t', ev) := k s'; mk d tid t' s' (lbl ++ ev)
  match t.loc with
  | .idle =>
    if ann = "n" then run (.nStart false) (fun _ => ({ t with loc := .n0, nv := 0 }, " start=n")) "yield:op ok"
    else if ann = "nv" then
      if s.outData.isSome then run .rStartOut (fun _ => ({ t with loc := .r0, nv := 1 }, " start=nv")) "yield:op ok"
      else run (.nStart true) (fun _ => ({ t with loc := .n0, nv := 2 }, " start=nv")) "yield:op ok"
    else if ann = "v" then
      match s.outData with
      | some (_, it) => mk d tid t s s!"yield:op ok start=v ret=v:{it.val}"
      | none => mk d tid t s "yield:op ok start=v ret=v:errcheck"
    else if ann = "bf" then run .bStart (fun _ => ({ t with loc := .x, xcall := "bf" }, " start=bf")) "yield:op ok"
    else if ann = "d" then
      run .dStart (fun s' => if s'.xloc = .idle then (t, " start=d ret=d:ok") else ({ t with loc := .x, xcall := "d" }, " start=d"))
        "yield:op ok"
    else if ann = "sp" then mk d tid { t with loc := .spawning } s "yield:op ok start=sp"
    else if ann = "jn" then mk d tid { t with loc := .joining } s "yield:op ok start=jn"
    else if ann.startsWith "r" then
      let i := (ann.drop 1).toString.toNat?.getD 0
      match t.held[i]? with
      | none => mk d tid t s "yield:op ok start=r:none ret=r:skip"
      | some (c, it) =>
        run (.rStart c) (fun _ => ({ t with loc := .r0, nv := 0, cur := some (c, it), rIdx := i, held := t.held.eraseIdx i },
                                  s!" start=r:c{c}")) "yield:op ok"
    else mk d tid t s "yield:op ok start=?"
  | .spawning =>
    let d1 := { d with bTid := d.nextTid, nextTid := d.nextTid + 1, t2 := { held := d.t2.held } }
    mk d1 tid { t with loc := .idle } s s!"spawn:- T{d.nextTid} ret=sp:ok"
  | .joining => mk d tid { t with loc := .idle } s s!"join:T{d.bTid} ok ret=jn:ok"
  | .n0 =>
    run .nLoadSig (fun s' => if s'.ret = .nextDestroyed then finishNext t .nextDestroyed else ({ t with loc := .n1 }, ""))
      s!"load:sig {s.sig}"
  | .n1 => run .nExc (fun s' => if s'.ret = .err then finishNext t .err else ({ t with loc := .n2 }, "")) "lock:x ok"
  | .n2 => run .nLock (fun s' => afterTake s s' t) "lock:m ok"
  | .nW => disabled d tid .nRelock
  | .nK => run .nRelock (fun s' => afterTake s s' t) "relock:m ok"
  | .n4 => run .nNotify (fun _ => ({ t with loc := .n5 }, "")) s!"notify_one:cp {wakeP s}"
  | .n5 => run .nRetItem (fun s' => finishNext t s'.ret) "lock:x ok"
  | .n6 => run .nRetEnd (fun s' => finishNext t s'.ret) "lock:x ok"
  | .r0 =>
    run (.rExc (match t.cur with | some (c, _) => c | none => 0)) (fun s' =>
      if s'.ret = .err then
        if t.nv = 1 then ({ t with loc := .idle, nv := 0, cur := none }, " ret=nv:err")
        else
          match t.cur with
          | some ci => ({ t with loc := .idle, cur := none, held := insertAt t.held t.rIdx ci }, " ret=r:err")
          | none => ({ t with loc := .idle }, " ret=r:err")
      else ({ t with loc := .r1 }, "")) "lock:x ok"
  | .r1 =>
    let c := match t.cur with | some (c, _) => c | none => 0
    run (.rLock c) (fun s' => if s'.r2 > s.r2 then ({ t with loc := .r2 }, "") else ({ t with loc := .r3 }, "")) "lock:m ok"
  | .r2 => run .rNotify (fun _ => ({ t with loc := .r3 }, "")) s!"notify_one:cp {wakeP s}"
  | .r3 =>
    match apply1 d .rRet with
    | none => disabled d tid .rRet
    | some s' =>
      if t.nv = 1 then
        if s'.ret = .ok then
          -- Next(): the Recycle half returned, the plain code goes on into Next(&out_data_)
          match step d.params s' (.nStart true) with
          | some s'' => mk d tid { t with loc := .n0, nv := 2, cur := none } s'' "lock:x ok"
          | none => disabled { d with s := s' } tid (.nStart true)
        else mk d tid { t with loc := .idle, nv := 0, cur := none } s' s!"lock:x ok ret=nv:{retStr s'.ret}"
      else mk d tid { t with loc := .idle, cur := none } s' s!"lock:x ok ret=r:{retStr s'.ret}"
  | .x =>
    let lbl := match s.xloc with
      | .bExc0 | .bExc1 => "lock:x ok"
      | .bLock | .dLock => "lock:m ok"
      | .bWoken => "relock:m ok"
      | .bNotify => s!"notify_one:cp {wakeP s}"
      | .dJoin => "join:T1 ok"
      | _ => "?"
    run .xStep (fun s' => if s'.xloc = .idle then ({ t with loc := .idle }, s!" ret={t.xcall}:{retStr s'.ret}") else (t, "")) lbl

def producerStep (d : D) : Out :=
  let s := d.s
  match apply1 d .prod with
  | none => disabled d 1 .prod
  | some s' =>
    let lbl := match s.ploc with
      | .top | .publish | .catchLock => "lock:m ok"
      | .woken => "relock:m ok"
      | .call => "yield:cb ok"
      | .store => s!"store:end {b01 (pStoreEnd s.pres)}"
      | .notifyTop | .notifyExit => s!"notify_all:cc {wakeAllStr d}"
      | .catchRec => "lock:x ok"
      | _ => "?"
    let ev :=
      if s.ploc = .call then
        let tag := s!" cb=next:{s.pass}:{s.pidx}"
        if s'.thrown && !s.thrown then tag ++ ":throw"
        else if s'.srcEnded && !s.srcEnded then tag ++ ":end"
        else match s'.pcell with
          | some c => tag ++ s!":item:c{c}"
          | none => tag ++ ":item:?"
      else if s'.rewCalls > s.rewCalls then
        s!" cb=rew:{s.pass}:" ++ (if s'.thrown && !s.thrown then "throw" else "ok")
      else ""
    let d' := if s.ploc = .notifyTop ∨ s.ploc = .notifyExit then { d with t0 := wokenThr d.t0, t2 := wokenThr d.t2 } else d
    ⟨{ d' with s := s' }, s!"T1 {lbl}{ev} | {snap s'}"⟩

def spuriousStep (d : D) (tid : Nat) : Out :=
  if tid = 1 then
    match apply1 d .prodSpur with
    | some s' => ⟨{ d with s := s' }, s!"T1 spurious:cp ok | {snap s'}"⟩
    | none => disabled d 1 .prodSpur
  else
    let t := if tid = 0 then d.t0 else d.t2
    if t.loc = .nW then
      match apply1 d .nSpur with
      | some s' => mk d tid { t with loc := .nK } s' "spurious:cc ok"
      | none => disabled d tid .nSpur
    else
      match apply1 d .xSpur with
      | some s' => mk d tid t s' "spurious:cc ok"
      | none => disabled d tid .xSpur

def stepLine (d : D) (ws : List String) : Out :=
  match ws with
  | [] => ⟨d, "bad-op"⟩
  | ch :: rest =>
    let ann := rest.headD ""
    let cs := ch.toList
    let numS := String.ofList ((cs.drop 1).takeWhile Char.isDigit)
    match cs.head?, numS.toNat? with
    | some 't', some tid => if tid = 1 then producerStep d else consumerStep d tid ann
    | some 'w', some tid => spuriousStep d tid
    | _, _ => ⟨d, "bad-op"⟩

partial def mainLoop : IO Unit := do
  let stdin ← IO.getStdin
  let stdout ← IO.getStdout
  let rec go (d : D) : IO Unit := do
    let line ← stdin.getLine
    if line.isEmpty then
      stdout.flush
      return ()
    let ws := Driver.words line
    match ws with
    | "case" :: _ :: hdr =>
      stdout.putStrLn line.trimAscii.toString
      go (parseHeader hdr)
    | _ =>
      let o := stepLine d ws
      stdout.putStrLn o.line
      go o.d
  go {}

end Driver.TIter

def main : IO Unit := Driver.TIter.mainLoop
