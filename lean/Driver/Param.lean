import DmlcModel.Param.Model
import DmlcModel.Param.FloatImpl
import Driver.Proto
/-!
Line-protocol driver of the Param model (C17).

    schema <n> { f <name> <ty> <dflt> <lo> <hi> <na> <alias>* <ne> (<name> <int>)* }*   declare + zero the struct
    a <key> <value>            queue one argument (hex, `-` = empty) for the next call
    errno                      the next call starts with errno == ERANGE
    init <option> | update <option> | initallow | updateallow      (queued arguments, then inline k=v words)
    dict | updatedict | saveload | load <json hex>
    ext i32|u32|i64 <text>     `istringstream >> v` alone

Results: `<status> | <field values> | <unknown pairs>`; status `ok`, `err:param <kind>`, `err:check`.
-/
namespace Driver.Param
open DmlcModel DmlcModel.Param

structure St where
  S : Schema := []
  st : Struct := fun _ => .undef
  pend : List KV := []
  stale : Bool := false
  taint : List Nat := []

def tyOf : String → Option Ty
  | "int" => some .int | "uint" => some .uint | "int64" => some .int64 | "float" => some .float
  | "double" => some .double | "bool" => some .bool | "string" => some .string | "enumInt" => some .enumInt
  | "optInt" => some .optInt | "optEnum" => some .optEnum | "optBool" => some .optBool | _ => none

def valOf (w : String) : Option (Option Val) :=
  if w == "_" then some none
  else
    let body := (w.drop 1).toString
    match w.front with
    | 'i' => body.toInt?.map fun v => some (.int v)
    | 'x' => body.toNat?.map fun v => some (.flt v)
    | 'b' => if body == "1" then some (some (.bool true)) else if body == "0" then some (some (.bool false)) else none
    | 's' => (bytesOfHex body).map fun v => some (.str v)
    | 'o' => if body == "N" then some (some (.oint none)) else body.toInt?.map fun v => some (.oint (some v))
    | 'p' => if body == "N" then some (some (.obool none)) else if body == "1" then some (some (.obool (some true)))
             else if body == "0" then some (some (.obool (some false))) else none
    | _ => none

def takeHex : Nat → List String → Option (List Bytes × List String)
  | 0, ws => some ([], ws)
  | n + 1, w :: ws => do
    let b ← bytesOfHex w
    let (r, rest) ← takeHex n ws
    pure (b :: r, rest)
  | _, [] => none

def takeEnums : Nat → List String → Option (List (Bytes × Int) × List String)
  | 0, ws => some ([], ws)
  | n + 1, k :: v :: ws => do
    let b ← bytesOfHex k
    let x ← v.toInt?
    let (r, rest) ← takeEnums n ws
    pure ((b, x) :: r, rest)
  | _, _ => none

def parseFields : Nat → List String → Option Schema
  | 0, [] => some []
  | 0, _ => none
  | n + 1, "f" :: name :: ty :: d :: lo :: hi :: na :: rest => do
    let name ← bytesOfHex name
    let ty ← tyOf ty
    let d ← valOf d
    let lo ← valOf lo
    let hi ← valOf hi
    let na ← na.toNat?
    let (als, rest) ← takeHex na rest
    match rest with
    | ne :: rest => do
      let ne ← ne.toNat?
      let (ens, rest) ← takeEnums ne rest
      let fs ← parseFields n rest
      pure ({ name := name, aliases := als, ty := ty, dflt := d, lo := lo, hi := hi, enums := ens } :: fs)
    | [] => none
  | _, _ => none

def showVal : Val → String
  | .int v => toString v
  | .flt b => "x" ++ String.ofList (Nat.toDigits 16 b)
  | .bool b => if b then "1" else "0"
  | .str s => hexOrDash s
  | .oint none => "N"
  | .oint (some v) => toString v
  | .obool none => "N"
  | .obool (some b) => if b then "1" else "0"
  | .undef => "undef"

def showKind : ErrKind → String
  | .unknown => "err:param unknown" | .format => "err:param format" | .enum => "err:param enum"
  | .trailing => "err:param trailing" | .oor => "err:param oor" | .range => "err:param range"
  | .required => "err:param required" | .check => "err:check"

def showStatus : Option ErrKind → String
  | none => "ok"
  | some k => showKind k

def showFields (s : St) (st : Struct) (taint : List Nat) : String :=
  " ".intercalate ((List.range s.S.length).map fun i => if taint.contains i then "?" else showVal (st i))

def showKVs (kvs : List KV) : String :=
  " ".intercalate (kvs.map fun kv => hexOrDash kv.1 ++ "=" ++ hexOrDash kv.2)

def parseInline : List String → Option (List KV)
  | [] => some []
  | w :: ws =>
    match w.splitOn "=" with
    | [k, v] => do
      let k ← bytesOfHex k
      let v ← bytesOfHex v
      let r ← parseInline ws
      pure ((k, v) :: r)
    | _ => none

/-- fields whose content is indeterminate after a failed call: an `optional<int>` field that was given
an empty / all-blank value (the extraction copies an unwritten temporary into it) -/
def newTaint (S : Schema) (kw : List KV) : List Nat :=
  kw.filterMap fun kv =>
    match find S kv.1 with
    | some (i, f) => if f.ty == .optInt && kv.2.all cIsSpace then some i else none
    | none => none

def mentioned (S : Schema) (kw : List KV) : List Nat :=
  kw.filterMap fun kv => (find S kv.1).map (·.1)

def finish (s : St) (kw : List KV) (r : UpdOut) (isInit : Bool) : St × String :=
  let taint :=
    match r.err with
    | some _ => s.taint ++ newTaint s.S kw
    | none => if isInit then [] else s.taint.filter fun i => !(mentioned s.S kw).contains i
  -- an `undef` the rule does not cover would be printed as such and break the comparison on purpose
  ({ s with st := r.st, pend := [], stale := false, taint := taint },
   showStatus r.err ++ " | " ++ showFields s r.st taint ++ " | " ++
     (match r.err with | none => showKVs r.unk | some _ => ""))   -- the list is returned only without exception

def optionOf (w : String) : Option Nat :=
  match w with
  | "allowunknown" => some Gen.Param.kAllowUnknown
  | "allmatch" => some Gen.Param.kAllMatch
  | "allowhidden" => some Gen.Param.kAllowHidden
  | _ => none

def showExt : Option (Int × Bool × Bytes) → String
  | none => "sentry-fail"
  | some (v, fail, rest) => s!"v={v} fail={if fail then 1 else 0} rest={hexOrDash rest}"

def step (s : St) : List String → St × String
  | "schema" :: n :: rest =>
    match n.toNat? with
    | some n =>
      match parseFields n rest with
      | some S => ({ S := S, st := zeroStruct S }, "ok")
      | none => (s, "bad-schema")
    | none => (s, "bad-schema")
  | ["a", k, v] =>
    match bytesOfHex k, bytesOfHex v with
    | some k, some v => ({ s with pend := s.pend ++ [(k, v)] }, "ok")
    | _, _ => (s, "bad-op")
  | ["errno"] => ({ s with stale := true }, "ok")
  | "init" :: o :: ws =>
    match optionOf o, parseInline ws with
    | some o, some kv =>
      let kw := s.pend ++ kv
      finish s kw (init (FloatImpl.ops s.stale) s.S o s.st kw) true
    | _, _ => (s, "bad-op")
  | "update" :: o :: ws =>
    match optionOf o, parseInline ws with
    | some o, some kv =>
      let kw := s.pend ++ kv
      finish s kw (update (FloatImpl.ops s.stale) s.S o s.st kw) false
    | _, _ => (s, "bad-op")
  | "initallow" :: ws =>
    match parseInline ws with
    | some kv =>
      let kw := s.pend ++ kv
      finish s kw (initAllowUnknown (FloatImpl.ops s.stale) s.S s.st kw) true
    | none => (s, "bad-op")
  | "updateallow" :: ws =>
    match parseInline ws with
    | some kv =>
      let kw := s.pend ++ kv
      finish s kw (updateAllowUnknown (FloatImpl.ops s.stale) s.S s.st kw) false
    | none => (s, "bad-op")
  | ["dict"] =>
    if !s.taint.isEmpty then ({ s with pend := [], stale := false }, "skip-tainted")
    else
      match dict (FloatImpl.ops false) s.S s.st with
      | .ok kvs => ({ s with pend := [], stale := false }, "ok " ++ showKVs kvs)
      | .error e => ({ s with pend := [], stale := false }, showKind e)
  | ["updatedict"] =>
    if !s.taint.isEmpty then ({ s with pend := [], stale := false }, "skip-tainted")
    else
      let d0 := s.pend.foldl (fun m e => mapInsert e.1 e.2 m) []
      match updateDict (FloatImpl.ops false) s.S s.st d0 with
      | .ok kvs => ({ s with pend := [], stale := false }, "ok " ++ showKVs kvs)
      | .error e => ({ s with pend := [], stale := false }, showKind e)
  | ["saveload"] =>
    if !s.taint.isEmpty then ({ s with pend := [], stale := false }, "skip-tainted")
    else
      match save (FloatImpl.ops false) s.S s.st with
      | .error e => ({ s with pend := [], stale := false }, showKind e)
      | .ok js =>
        let r := load (FloatImpl.ops s.stale) s.S (zeroStruct s.S) js
        let s' := match r.err with
          | none => { s with st := r.st, pend := [], stale := false }
          | some _ => { s with pend := [], stale := false }
        (s', "json=" ++ hexOrDash js ++ " " ++ showStatus r.err ++ " | " ++ showFields s r.st [] ++ " |")
  | ["load", h] =>
    match bytesOfHex h with
    | none => (s, "bad-op")
    | some js =>
      let r := load (FloatImpl.ops s.stale) s.S (zeroStruct s.S) js
      let s' := match r.err with
        | none => { s with st := r.st, pend := [], stale := false, taint := [] }
        | some _ => { s with pend := [], stale := false }
      (s', showStatus r.err ++ " | " ++ showFields s r.st [] ++ " |")
  | ["ext", k, h] =>
    match bytesOfHex h with
    | none => (s, "bad-op")
    | some t =>
      match k with
      | "i32" => (s, showExt (extract .i32 t))
      | "u32" => (s, showExt (extract .u32 t))
      | "i64" => (s, showExt (extract .i64 t))
      | _ => (s, "bad-op")
  | _ => (s, "bad-op")

end Driver.Param

def main : IO Unit := Driver.loop ({} : Driver.Param.St) Driver.Param.step
