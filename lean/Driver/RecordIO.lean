import DmlcModel.RecordIO.Model
import DmlcModel.Split.Model
import Driver.Proto
namespace Driver.RecordIO
open DmlcModel DmlcModel.RecordIO

structure St where
  stream : Bytes := []
  counter : Nat := 0

def showRecs (rs : List Bytes) : String := String.join (rs.map fun r => hexOrDash r ++ " ")

def showOpt : Option (List Bytes) → String
  | none => "invalid"
  | some rs => "recs " ++ showRecs rs ++ "end"

def step (s : St) : List String → St × String
  | ["write", h] =>
    match bytesOfHex h with
    | none => (s, "bad-op")
    | some r =>
      match writeRecordE r with
      | .ok (bs, c) => ({ stream := s.stream ++ bs, counter := s.counter + c }, s!"ok {c}")
      | .error _ => (s, "err:check")
  | ["sizecheck", n] =>
    match n.toNat? with
    | some k => (s, if Gen.RecordIO.sizeOk k then "ok" else "err:check")
    | none => (s, "bad-op")
  | ["bigrt", spec] =>
    -- a large record given by segments (`m` = magic word, `x<n>` / `r<n>` = n bytes), too large to execute on
    -- lists: the answer is the statement of C01_roundtrip / C01_reject_large for a record of that length
    let segLen (seg : String) : Option Nat :=
      if seg == "m" then some 4
      else if seg.startsWith "x" || seg.startsWith "r" then (seg.drop 1).toNat?
      else none
    match (spec.splitOn "+").mapM segLen with
    | some ls =>
      let n := ls.foldl (· + ·) 0
      (s, if Gen.RecordIO.sizeOk n then s!"ok {n}" else "err:check")
    | none => (s, "bad-op")
  | ["raw", h] =>
    match bytesOfHex h with
    | none => (s, "bad-op")
    | some r => ({ s with stream := s.stream ++ r }, "ok")
  | ["dump"] => (s, "bytes " ++ hexOrDash s.stream)
  | ["counter"] => (s, s!"counter {s.counter}")
  | ["readall"] => (s, showOpt (readAll s.stream))
  | ["fixedrt"] => (s, showOpt (readAll s.stream))   -- same records through exact-size fixed buffers
  | ["read1"] =>
    match nextRecord s.stream with
    | .eos => (s, "eos")
    | .invalid => (s, "invalid")
    | .record r rest => ({ s with stream := rest }, "rec " ++ hexOrDash r)
  | ["chunk", k, n] =>
    match k.toNat?, n.toNat? with
    | some k, some n => (s, showOpt (chunkPart s.stream k n))
    | _, _ => (s, "bad-op")
  | ["sseek", o] =>
    match o.toNat? with
    | some o =>
      if s.stream.isEmpty then (s, "no-file")
      else if o > s.stream.length then (s, "out-of-range")
      else match DmlcModel.Split.Fmt.recordio.seekRecordBegin (s.stream.drop o) with
        | .ok (n, _) => (s, s!"nstep {n}")
        | .error _ => (s, "err:check")
    | none => (s, "bad-op")
  | ["slast", e] =>
    match e.toNat? with
    | some e =>
      if s.stream.isEmpty then (s, "no-file")
      else if e > s.stream.length then (s, "out-of-range")
      else match DmlcModel.Split.Fmt.recordio.findLastRecordBegin (s.stream.take e) with
        | .ok n => (s, s!"last {n}")
        | .error _ => (s, "err:check")
    | none => (s, "bad-op")
  | ["scan", o] =>
    match o.toNat? with
    | some o =>
      match findNextHead s.stream o with
      | some r => (s, s!"head {r}")
      | none => (s, "err:check")
    | none => (s, "bad-op")
  | _ => (s, "bad-op")

end Driver.RecordIO

def main : IO Unit := Driver.loop ({} : Driver.RecordIO.St) Driver.RecordIO.step

