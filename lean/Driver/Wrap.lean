import DmlcModel.Wrap.Base
import DmlcModel.Wrap.Name
import Driver.Proto
/-! line-protocol driver of the `Wrap` model (protocol: see harness/h_wrappers.cc).  The abstract base
split of `DmlcModel.Wrap` is instantiated with the chunk sequence of the `Split` model. -/
namespace Driver.Wrap
open DmlcModel DmlcModel.Wrap

inductive Kind | threaded | cached | createdT | createdC
  deriving DecidableEq

structure Spec where
  kind : Kind
  isText : Bool
  k : Nat
  n : Nat
  w : Nat
  cname : String          -- cache file as the harness looks it up ("" = none)
  defw : Nat

inductive Obj
  | none
  | thr (s : TSt)
  | cac (s : CSt)
  | nd                     -- replays a cache file whose content is not determined by the history

structure DSt where
  files : List Bytes := []
  fs : List (String × Option Bytes) := []     -- cache files; `none` = content not determined
  spec : Option Spec := none
  obj : Obj := .none
  poisoned : Bool := false
  ub : Bool := false

def fmtOf (isText : Bool) : Split.Fmt := if isText then Split.Fmt.text else Split.Fmt.recordio

def basePass (isText : Bool) (files : List Bytes) (w defw : Nat) : BasePass :=
  splitPass (fmtOf isText) files w defw

def toChunk (w : Win) : Split.Chunk := { dataWords := w.cap / 4, begin := w.begin, rest := w.rest }
def ofChunk (c : Split.Chunk) : Win := { cap := 4 * c.dataWords, begin := c.begin, rest := c.rest }

def extRec (isText : Bool) : Extract := fun w =>
  match (fmtOf isText).extractNext (toChunk w) with
  | .error e => .error (convErr e)
  | .ok none => .ok none
  | .ok (some (b, c)) => .ok (some (b, { ofChunk c with cap := w.cap }))

def showErr : Err → String
  | .check => "err:check"
  | .oob => "ub:oob"

def setAt (l : List Bytes) (i : Nat) (v : Bytes) : Option (List Bytes) :=
  if i < l.length then some (l.set i v) else if i = l.length then some (l ++ [v]) else none

def parseHexes : List String → Option (List Bytes)
  | [] => some []
  | h :: t => do
    let b ← bytesOfHex h
    let r ← parseHexes t
    pure (b :: r)

def fsGet (fs : List (String × Option Bytes)) (name : String) : Option (Option Bytes) :=
  match fs.find? (·.1 = name) with
  | some (_, v) => some v
  | none => none

def fsPut (fs : List (String × Option Bytes)) (name : String) (v : Option Bytes) : List (String × Option Bytes) :=
  (name, v) :: fs.filter (·.1 ≠ name)

/-- the name the MODEL gives the cache file (`URISpec`, generated suffix) -/
def modelCacheName (sp : Spec) (base : String) : String :=
  match sp.kind with
  | .createdC => String.ofList (cacheName base.toList sp.k sp.n)
  | _ => base

/-- the documented name (what the harness opens) -/
def docCacheName (sp : Spec) (base : String) : String :=
  match sp.kind with
  | .createdC => if sp.n = 1 then base else s!"{base}.split{sp.n}.part{sp.k}"
  | _ => base

def isCached (sp : Spec) : Bool := sp.kind = .cached ∨ sp.kind = .createdC

/-- the object dies: what it leaves in the cache file -/
def endObj (d : DSt) : DSt :=
  match d.spec, d.obj with
  | some sp, .cac s =>
    match s.phase with
    | .preproc => { d with fs := fsPut d.fs (modelCacheName sp sp.cname) (cClose s), obj := .none }
    | .replay => { d with obj := .none }
  | _, _ => { d with obj := .none }

def construct (d : DSt) (sp : Spec) : DSt × String :=
  let d := { d with spec := some sp, obj := .none, poisoned := false }
  let B := basePass sp.isText d.files sp.w sp.defw
  if (sp.kind = .createdT ∨ sp.kind = .createdC) ∧ ¬ (sp.k < sp.n) then (d, "err:check")     -- CHECK(part < nsplit)
  else if isCached sp then
    match fsGet d.fs (modelCacheName sp sp.cname) with
    | some none => ({ d with obj := .nd }, "nd")
    | ex =>
      -- the base split is constructed first (its constructor may raise)
      match B sp.k sp.n with
      | .error e => (d, showErr e)
      | .ok cs =>
        match cOpen (ex.bind id) cs with
        | .error .oob => ({ d with ub := true }, "ub:oob")
        | .error e => (d, showErr e)
        | .ok s => ({ d with obj := .cac s }, "ok")
  else
    match tOpen B sp.k sp.n with
    | .error e => (d, showErr e)
    | .ok s => ({ d with obj := .thr s }, "ok")

def fail (d : DSt) (e : Err) : DSt × String :=
  match e with
  | .oob => ({ d with ub := true }, "ub:oob")
  | .check => ({ d with poisoned := true }, "err:check")

/-- one NextRecord / NextChunk -/
def next1 (d : DSt) (sp : Spec) (rec : Bool) : Except Err (Option Bytes × Obj) :=
  let ext : Extract := if rec then extRec sp.isText else extractChunk
  match d.obj with
  | .thr s =>
    match tNext ext s with
    | .error e => .error e
    | .ok (r, s') => .ok (r, .thr s')
  | .cac s =>
    match cNext ext s with
    | .error e => .error e
    | .ok (r, s') => .ok (r, .cac s')
  | o => .ok (none, o)

def drainGo (sp : Spec) (rec : Bool) : Nat → DSt → List Bytes → Except Err (List Bytes × DSt)
  | 0, d, acc => .ok (acc, d)
  | fuel + 1, d, acc =>
    match next1 d sp rec with
    | .error e => .error e
    | .ok (none, o) => .ok (acc, { d with obj := o })
    | .ok (some b, o) => drainGo sp rec fuel { d with obj := o } (acc ++ [b])

def withObj (d : DSt) (f : Spec → DSt × String) : DSt × String :=
  match d.spec, d.obj with
  | _, .none => (d, "no-object")
  | none, _ => (d, "no-object")
  | some _, .nd => (d, "nd")
  | some sp, _ => if d.poisoned then (d, "poisoned") else f sp

def step0 (d : DSt) : List String → DSt × String
  | ["file", i, h] =>
    match i.toNat?, bytesOfHex h with
    | some i, some b =>
      match setAt d.files i b with
      | some fs => ({ d with files := fs }, "ok")
      | none => (d, "bad-op")
    | _, _ => (d, "bad-op")
  | "recfile" :: i :: hs =>
    match i.toNat?, parseHexes hs with
    | some i, some recs =>
      let img := RecordIO.writeAll recs
      match setAt d.files i img with
      | some fs => ({ d with files := fs }, "file " ++ hexOrDash img)
      | none => (d, "bad-op")
    | _, _ => (d, "bad-op")
  | ["newt", fmt, k, n, w, _batch, _us] =>
    match k.toNat?, n.toNat?, w.toNat? with
    | some k, some n, some w =>
      if n = 0 ∨ w = 0 then (d, "bad-op")
      else construct (endObj d) { kind := .threaded, isText := fmt = "text", k := k, n := n, w := w, cname := "", defw := w }
    | _, _, _ => (d, "bad-op")
  | ["newc", fmt, k, n, w, name] =>
    match k.toNat?, n.toNat?, w.toNat? with
    | some k, some n, some w =>
      if n = 0 ∨ w = 0 then (d, "bad-op")
      else construct (endObj d) { kind := .cached, isText := fmt = "text", k := k, n := n, w := w, cname := name, defw := w }
    | _, _, _ => (d, "bad-op")
  | ["create", fmt, k, n, name, defw] =>
    match k.toNat?, n.toNat?, defw.toNat? with
    | some k, some n, some defw =>
      if n = 0 then (d, "bad-op")
      else
        construct (endObj d) { kind := if name = "-" then .createdT else .createdC, isText := fmt = "text", k := k, n := n,
                               w := defw, cname := if name = "-" then "" else name, defw := defw }
    | _, _, _ => (d, "bad-op")
  | ["cname", k, n] =>
    match k.toNat?, n.toNat? with
    | some k, some n => (d, "cname " ++ String.ofList (cacheName "cb".toList k n))
    | _, _ => (d, "bad-op")
  | ["reopen"] =>
    match d.spec with
    | none => (d, "no-object")
    | some sp => construct (endObj d) sp
  | ["destroy"] =>
    match d.obj with
    | .none => (d, "no-object")
    | _ => (endObj d, "ok")
  | ["cache"] =>
    match d.spec with
    | none => (d, "cache none")
    | some sp =>
      if ¬ isCached sp then (d, "cache none")
      else
        let alivePre : Bool := match d.obj with
          | .cac s => s.phase == .preproc
          | .nd => true
          | _ => false
        match fsGet d.fs (docCacheName sp sp.cname) with
        | some none => (d, "cache nd")
        | r =>
          if alivePre then (d, "cache nd")
          else
            match r with
            | some (some b) => (d, "cache " ++ hexOrDash b)
            | _ => (d, "cache none")
  | ["rec"] => withObj d fun sp =>
    match next1 d sp true with
    | .error e => fail d e
    | .ok (none, o) => ({ d with obj := o }, "false")
    | .ok (some b, o) => ({ d with obj := o }, "rec " ++ hexOrDash b)
  | ["chunk"] => withObj d fun sp =>
    match next1 d sp false with
    | .error e => fail d e
    | .ok (none, o) => ({ d with obj := o }, "false")
    | .ok (some b, o) => ({ d with obj := o }, "chunk " ++ hexOrDash b)
  | ["drain", mode] => withObj d fun sp =>
    match drainGo sp (mode = "rec") 100001 d [] with
    | .error e => fail d e
    | .ok (bs, d') => (d', "blobs" ++ String.join (bs.map fun b => " " ++ hexOrDash b) ++ " end")
  | ["hint", m] =>
    -- HintChunkSize only sizes cells the wrapper allocates later; `Chunk::Load` resizes every cell anyway
    match m.toNat? with
    | some _ => withObj d fun _ => (d, "ok")
    | none => (d, "bad-op")
  | ["bf"] => withObj d fun sp =>
    match d.obj with
    | .thr s =>
      match tBeforeFirst (basePass sp.isText d.files sp.w sp.defw) s with
      | .error e => fail d e
      | .ok s' => ({ d with obj := .thr s' }, "ok")
    | .cac s =>
      match cBeforeFirst s with
      | .error e => fail d e
      | .ok s' =>
        let fs := if s.phase = .preproc then fsPut d.fs (modelCacheName sp sp.cname) (some s'.file) else d.fs
        ({ d with obj := .cac s', fs := fs }, "ok")
    | _ => (d, "no-object")
  | ["reset", k, n] =>
    match k.toNat?, n.toNat? with
    | some k, some n =>
      if n = 0 then (d, "bad-op")
      else withObj d fun sp =>
        match d.obj with
        | .thr s =>
          match tReset (basePass sp.isText d.files sp.w sp.defw) s k n with
          | .error e => fail d e
          | .ok s' => ({ d with obj := .thr s' }, "ok")
        | .cac _ => ({ d with poisoned := true }, "err:check")     -- LOG(FATAL) "not supported"
        | _ => (d, "no-object")
    | _, _ => (d, "bad-op")
  | _ => (d, "bad-op")

/-- after undefined behaviour nothing is predicted any more: the harness prints `ub:oob` for the rest of the case -/
def step (d : DSt) (ws : List String) : DSt × String :=
  if d.ub then (d, "ub:oob")
  else step0 d ws

end Driver.Wrap

def main : IO Unit := Driver.loop ({} : Driver.Wrap.DSt) Driver.Wrap.step
