import DmlcModel.Json.Model
import Driver.Proto
/-!
Line-protocol driver of the Json model (C16).

    write <ty> <val>   ->  text <hex> | err:check | ub:scope | err:type
    read  <ty> <hex>   ->  ok <val> rest=<unread bytes> lr=<line_count_r_> ln=<line_count_n_> | err:check | hang | ub:scope
    wf <hex>           ->  wf 1 | wf 0          (the model's RFC 8259 recogniser)

type descriptors (no blanks):   s | i16 i32 i64 u16 u32 u64 | b | p(T,T) | v(T) | l(T) | m(T) | um(T)
                                | a(HEXNAME=T,…) | c(p|n;HEXNAME:r|o:T,…)
value descriptors (no blanks):  "HEX" | -?DIGITS | t | f | (V,V) | [V,…] | {"HEX":V,…} | @"HEX"=V | <V,…>
-/
namespace Driver.Json
open DmlcModel DmlcModel.Json

abbrev P := List Char

def expect (c : Char) : P → Option P
  | d :: r => if c = d then some r else none
  | [] => none

/-- pairs of hex digits up to the first non-hex character -/
partial def hexRun : P → Bytes → Option (Bytes × P)
  | a :: b :: r, acc =>
    match hexVal a, hexVal b with
    | some x, some y => hexRun r (UInt8.ofNat (16 * x + y) :: acc)
    | some _, none => none
    | none, _ => some (acc.reverse, a :: b :: r)
  | [a], acc => match hexVal a with
    | some _ => none
    | none => some (acc.reverse, [a])
  | [], acc => some (acc.reverse, [])

def quoted (s : P) : Option (Bytes × P) := do
  let r ← expect '"' s
  let (bs, r1) ← hexRun r []
  let r2 ← expect '"' r1
  pure (bs, r2)

mutual
partial def parseTy : P → Option (JTy × P)
  | 's' :: r => some (.str, r)
  | 'b' :: r => some (.bool, r)
  | 'i' :: '1' :: '6' :: r => some (.int 16 true, r)
  | 'i' :: '3' :: '2' :: r => some (.int 32 true, r)
  | 'i' :: '6' :: '4' :: r => some (.int 64 true, r)
  | 'u' :: '1' :: '6' :: r => some (.int 16 false, r)
  | 'u' :: '3' :: '2' :: r => some (.int 32 false, r)
  | 'u' :: '6' :: '4' :: r => some (.int 64 false, r)
  | 'u' :: 'm' :: '(' :: r => do
    let (e, r1) ← parseTy r
    let r2 ← expect ')' r1
    pure (.umap e, r2)
  | 'p' :: '(' :: r => do
    let (a, r1) ← parseTy r
    let r2 ← expect ',' r1
    let (b, r3) ← parseTy r2
    let r4 ← expect ')' r3
    pure (.pair a b, r4)
  | 'v' :: '(' :: r => do
    let (e, r1) ← parseTy r
    let r2 ← expect ')' r1
    pure (.vec e, r2)
  | 'l' :: '(' :: r => do
    let (e, r1) ← parseTy r
    let r2 ← expect ')' r1
    pure (.list e, r2)
  | 'm' :: '(' :: r => do
    let (e, r1) ← parseTy r
    let r2 ← expect ')' r1
    pure (.map e, r2)
  | 'a' :: '(' :: r => do
    let (alts, r1) ← parseAlts r
    pure (.any alts, r1)
  | 'c' :: '(' :: p :: ';' :: r => do
    let (fs, r1) ← parseFields r
    pure (.cls (p == 'p') fs, r1)
  | _ => none
partial def parseAlts : P → Option (Alts × P)
  | ')' :: r => some (.nil, r)
  | ',' :: r => parseAlts r
  | s => do
    let (name, r1) ← hexRun s []
    let r2 ← expect '=' r1
    let (t, r3) ← parseTy r2
    let (rest, r4) ← parseAlts r3
    pure (.cons name t rest, r4)
partial def parseFields : P → Option (Fields × P)
  | ')' :: r => some (.nil, r)
  | ',' :: r => parseFields r
  | s => do
    let (name, r1) ← hexRun s []
    let r2 ← expect ':' r1
    match r2 with
    | o :: ':' :: r3 =>
      let (t, r4) ← parseTy r3
      let (rest, r5) ← parseFields r4
      pure (.cons name (o == 'o') t rest, r5)
    | _ => none
end

def digitsOf : P → Nat → Nat × P
  | c :: r, acc => if c.isDigit then digitsOf r (acc * 10 + (c.toNat - 48)) else (acc, c :: r)
  | [], acc => (acc, [])

mutual
partial def parseVal : P → Option (Val × P)
  | '"' :: r => do
    let (bs, r1) ← quoted ('"' :: r)
    pure (.str bs, r1)
  | 't' :: r => some (.bool true, r)
  | 'f' :: r => some (.bool false, r)
  | '-' :: r =>
    let (n, r1) := digitsOf r 0
    some (.int (-(n : Int)), r1)
  | '(' :: r => do
    let (a, r1) ← parseVal r
    let r2 ← expect ',' r1
    let (b, r3) ← parseVal r2
    let r4 ← expect ')' r3
    pure (.pair a b, r4)
  | '[' :: r => do
    let (xs, r1) ← parseVals ']' r
    pure (.arr xs, r1)
  | '<' :: r => do
    let (xs, r1) ← parseVals '>' r
    pure (.cls xs, r1)
  | '{' :: r => do
    let (kvs, r1) ← parseKVs r
    pure (.obj kvs, r1)
  | '@' :: r => do
    let (name, r1) ← quoted r
    let r2 ← expect '=' r1
    let (v, r3) ← parseVal r2
    pure (.any name v, r3)
  | c :: r =>
    if c.isDigit then
      let (n, r1) := digitsOf (c :: r) 0
      some (.int (n : Int), r1)
    else none
  | [] => none
partial def parseVals (close : Char) : P → Option (List Val × P)
  | c :: r =>
    if c = close then some ([], r)
    else if c = ',' then parseVals close r
    else do
      let (v, r1) ← parseVal (c :: r)
      let (vs, r2) ← parseVals close r1
      pure (v :: vs, r2)
  | [] => none
partial def parseKVs : P → Option (List (Bytes × Val) × P)
  | '}' :: r => some ([], r)
  | ',' :: r => parseKVs r
  | s => do
    let (k, r1) ← quoted s
    let r2 ← expect ':' r1
    let (v, r3) ← parseVal r2
    let (kvs, r4) ← parseKVs r3
    pure ((k, v) :: kvs, r4)
end

def q (bs : Bytes) : String := "\"" ++ hexOfBytes bs ++ "\""

partial def showVal : Val → String
  | .str s => q s
  | .int i => toString i
  | .bool b => if b then "t" else "f"
  | .pair a b => "(" ++ showVal a ++ "," ++ showVal b ++ ")"
  | .arr xs => "[" ++ ",".intercalate (xs.map showVal) ++ "]"
  | .obj kvs => "{" ++ ",".intercalate (kvs.map fun kv => q kv.1 ++ ":" ++ showVal kv.2) ++ "}"
  | .any n v => "@" ++ q n ++ "=" ++ showVal v
  | .cls xs => "<" ++ ",".intercalate (xs.map showVal) ++ ">"

def showErr : Err → String
  | .check => "err:check"
  | .scope => "ub:scope"
  | .fuel => "hang"
  | .type => "err:type"

def tyOf (s : String) : Option JTy :=
  match parseTy s.toList with
  | some (t, []) => some t
  | _ => none

def valOf (s : String) : Option Val :=
  match parseVal s.toList with
  | some (v, []) => some v
  | _ => none

def step (_ : Unit) : List String → Unit × String
  | ["write", ty, val] =>
    match tyOf ty, valOf val with
    | some t, some v =>
      match writeTop t v with
      | .ok bs => ((), "text " ++ hexOrDash bs)
      | .error e => ((), showErr e)
    | _, _ => ((), "bad-op")
  | ["read", ty, h] =>
    match tyOf ty, bytesOfHex h with
    | some t, some bs =>
      match readTop t bs with
      | .ok (v, st) => ((), s!"ok {showVal v} rest={st.inp.length} lr={st.lineR} ln={st.lineN}")
      | .error e => ((), showErr e)
    | _, _ => ((), "bad-op")
  | ["wf", h] =>
    match bytesOfHex h with
    | some bs => ((), if wellFormed bs then "wf 1" else "wf 0")
    | none => ((), "bad-op")
  | _ => ((), "bad-op")

end Driver.Json

def main : IO Unit := Driver.loop () Driver.Json.step
