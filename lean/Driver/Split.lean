import DmlcModel.Split.Files
import DmlcModel.Split.Shuffle
import DmlcModel.Gen.Split
import Driver.Proto
/-! line-protocol driver of the `Split` model (protocol: see harness/h_split.cc) -/
namespace Driver.Split
open DmlcModel DmlcModel.Split

structure DSt where
  files : List Bytes := []
  fs : FileSys := []
  isText : Bool := true
  obj : Option St := none
  poisoned : Bool := false
  -- InputSplitShuffle object (ops sh*): wrapper state + what the inner split was created with
  sh : Option (Shuffle.Sh Bytes) := none
  shText : Bool := true
  shParts : Nat := 1       -- num_parts * num_shuffle_parts
  shDefw : Nat := 0

def fmtOf (isText : Bool) : Fmt := if isText then Fmt.text else Fmt.recordio

def showChunk (c : Chunk) : String :=
  s!"{if c.rest.isEmpty then 0 else c.begin} {c.rest.length} {c.dataWords}"

def showState (s : St) : String :=
  let b := s.base
  let fp := match b.fpos with
    | none => "- -"
    | some p => s!"{b.filePtr} {p}"
  let core := s!"{b.offBegin} {b.offEnd} {b.offCurr} {fp} {b.overflow.length} {showChunk b.chunk} {b.bufWords}"
  match s.wrap with
  | none => core
  | some w =>
    let wc := match w.chunk with
      | none => "1 0 0 0"
      | some c => "0 " ++ showChunk c
    s!"{core} w {wc} {w.bufWords}"

def showErr : Err → String
  | .check => "err:check"
  | .oob => "ub:oob"
  | .uninit => "ub:uninit"
  | .div => "ub:div"
  | .fuel => "model:fuel"

def showList (tag : String) (bs : List Bytes) : String :=
  tag ++ String.join (bs.map fun b => " " ++ hexOrDash b) ++ " end"

def parsePerm (t : String) : Option (List Nat) :=
  if t == "-" then some [] else (t.splitOn ",").mapM String.toNat?

/-- the records of a freshly created split for part `idx` of `parts` (what the inner split of InputSplitShuffle
delivers after a reset to that part: C05 / C10) -/
def shSub (isText : Bool) (files : List Bytes) (parts defw : Nat) (idx : Nat) : Except Err (List Bytes) :=
  let F := fmtOf isText
  match mkSt F files idx parts defw false defw with
  | .error e => .error e
  | .ok s =>
    match drain F (fun _ => true) s with
    | (_, .ok bs) => .ok bs
    | (_, .error e) => .error e

def setAt (l : List Bytes) (i : Nat) (v : Bytes) : Option (List Bytes) :=
  if i < l.length then some (l.set i v) else if i = l.length then some (l ++ [v]) else none

/-- `std::string::operator<` (bytewise lexicographic) -/
def bytesLt : Bytes → Bytes → Bool
  | [], [] => false
  | [], _ :: _ => true
  | _ :: _, [] => false
  | a :: x, b :: y => a < b || (a == b && bytesLt x y)

/-- `MemFS::Put`: insert / replace in key order -/
def fsPut : FileSys → Name → Bytes → FileSys
  | [], nm, c => [(nm, c)]
  | (k, v) :: rest, nm, c =>
    if k == nm then (nm, c) :: rest
    else if bytesLt nm k then (nm, c) :: (k, v) :: rest
    else (k, v) :: fsPut rest nm c

/-- the name `/m/f<i>` the harness gives to file `i` of the indexed table -/
def tableName (i : Nat) : Name := ("/m/f" ++ toString i).toUTF8.toList

def showInfos (infos : List Info) : String :=
  "files" ++ String.join (infos.map fun i => s!" {hexOrDash i.name}:{i.size}") ++
  " offs" ++ String.join ((initOffsets 0 infos).map fun o => s!" {o}")

def parseHexes : List String → Option (List Bytes)
  | [] => some []
  | h :: t => do
    let b ← bytesOfHex h
    let r ← parseHexes t
    pure (b :: r)

/-- records of the chunks through `RecordIOChunkReader` with `q` parts each (C01 model); `none` = a
CHECK fired -/
def chunkReaderRecs (q : Nat) : List Bytes → Option (List Bytes)
  | [] => some []
  | c :: cs => do
    let rs ← (List.range q).foldlM (fun acc j => do
      let r ← RecordIO.chunkPart c j q
      pure (acc ++ r)) []
    let rest ← chunkReaderRecs q cs
    pure (rs ++ rest)

def pickOf (mode : String) (arg : Nat) : Nat → Bool := fun i =>
  mode = "rec" ∨ (mode = "mix" ∧ (arg >>> (i % 16)) % 2 = 1)

def withObj (d : DSt) (f : St → DSt × String) : DSt × String :=
  match d.obj with
  | none => (d, "no-object")
  | some s => if d.poisoned then (d, "poisoned") else f s

def runOp (d : DSt) (s : St) (op : Op) (tag : String) : DSt × String :=
  match step (fmtOf d.isText) s op with
  | (s', .blob b) => ({ d with obj := some s' }, s!"{tag} {hexOrDash b} | {showState s'}")
  | (s', .eof) => ({ d with obj := some s' }, s!"false | {showState s'}")
  | (s', .done) => ({ d with obj := some s' }, s!"ok | {showState s'}")
  | (_, .err e) => ({ d with poisoned := true }, showErr e)

def step (d : DSt) : List String → DSt × String
  | ["file", i, h] =>
    match i.toNat?, bytesOfHex h with
    | some i, some b =>
      match setAt d.files i b with
      | some fs => ({ d with files := fs, fs := fsPut d.fs (tableName i) b }, "ok")
      | none => (d, "bad-op")
    | _, _ => (d, "bad-op")
  | "recfile" :: i :: hs =>
    match i.toNat?, parseHexes hs with
    | some i, some recs =>
      let img := RecordIO.writeAll recs
      match setAt d.files i img with
      | some fs => ({ d with files := fs, fs := fsPut d.fs (tableName i) img }, "file " ++ hexOrDash img)
      | none => (d, "bad-op")
    | _, _ => (d, "bad-op")
  | ["put", nm, h] =>
    match bytesOfHex nm, bytesOfHex h with
    | some nm, some b => ({ d with fs := fsPut d.fs nm b }, "ok")
    | _, _ => (d, "bad-op")
  | "putrec" :: nm :: hs =>
    match bytesOfHex nm, parseHexes hs with
    | some nm, some recs =>
      let img := RecordIO.writeAll recs
      ({ d with fs := fsPut d.fs nm img }, "file " ++ hexOrDash img)
    | _, _ => (d, "bad-op")
  | ["newuri", fmt, uri, rc, k, n, w, st, defw] =>
    match bytesOfHex uri, k.toNat?, n.toNat?, w.toNat?, defw.toNat? with
    | some uri, some k, some n, some w, some defw =>
      if n = 0 ∨ w = 0 then (d, "bad-op")
      else
        let isText := fmt = "text"
        let d := { d with isText := isText, obj := none, poisoned := false }
        -- LineSplitter never recurses; the regex branch is run with the literal matcher
        match mkStUri (fmtOf isText) (fun p c => p == c) d.fs uri (rc = "1" && !isText) k n w (st = "1") defw with
        | .error e => (d, showErr e)
        | .ok (infos, s) => ({ d with obj := some s }, "ok " ++ showInfos infos ++ " | " ++ showState s)
    | _, _, _, _, _ => (d, "bad-op")
  | ["new", fmt, k, n, w, st, defw] =>
    match k.toNat?, n.toNat?, w.toNat?, defw.toNat? with
    | some k, some n, some w, some defw =>
      if n = 0 ∨ w = 0 then (d, "bad-op")
      else
        let isText := fmt = "text"
        let d := { d with isText := isText, obj := none, poisoned := false }
        match mkSt (fmtOf isText) d.files k n w (st = "1") defw with
        | .error e => (d, showErr e)
        | .ok s => ({ d with obj := some s }, "ok | " ++ showState s)
    | _, _, _, _ => (d, "bad-op")
  | ["create", fmt, k, n, defw] =>
    match k.toNat?, n.toNat?, defw.toNat? with
    | some k, some n, some defw =>
      if ¬ (k < n) then (d, "err:check")       -- CHECK(part < nsplit) in InputSplit::Create
      else
        let F := fmtOf (fmt = "text")
        match mkSt F d.files k n defw false defw with
        | .error e => (d, showErr e)
        | .ok s =>
          match drain F (fun _ => true) s with
          | (_, .ok bs) => (d, showList "recs" bs)
          | (_, .error e) => (d, showErr e)
    | _, _, _ => (d, "bad-op")
  | ["createreset", fmt, k0, n0, n, defw] =>
    -- one Create'd object moved through parts 0..n-1 by ResetPartition: by C05_reset each part reads as a fresh split
    match k0.toNat?, n0.toNat?, n.toNat?, defw.toNat? with
    | some k0, some n0, some n, some defw =>
      if ¬ (k0 < n0) then (d, "err:check") else
      let r : Except Err (List Bytes) := (List.range n).foldlM (fun acc k => do
        let bs ← shSub (fmt = "text") d.files n defw k
        pure (acc ++ bs)) []
      match r with
      | .ok bs => (d, showList "recs" bs)
      | .error e => (d, showErr e)
    | _, _, _, _ => (d, "bad-op")
  | ["rec"] => withObj d fun s => runOp d s .nextRec "rec"
  | ["chunk"] => withObj d fun s => runOp d s .nextChunk "chunk"
  | ["bf"] => withObj d fun s => runOp d s .beforeFirst ""
  | ["hint", m] =>
    match m.toNat? with
    | some m => withObj d fun s => runOp d s (.hint m) ""
    | none => (d, "bad-op")
  | ["reset", k, n] =>
    match k.toNat?, n.toNat? with
    | some k, some n => if n = 0 then (d, "bad-op") else withObj d fun s => runOp d s (.reset k n) ""
    | _, _ => (d, "bad-op")
  | "drain" :: mode :: rest =>
    let arg := match rest with
      | [a] => a.toNat?.getD 0
      | _ => 0
    withObj d fun s =>
      match drain (fmtOf d.isText) (pickOf mode arg) s with
      | (_, .error e) => ({ d with poisoned := true }, showErr e)
      | (s', .ok bs) =>
        let recs := if mode = "chunkrd" then
            match chunkReaderRecs arg bs with
            | some rs => " " ++ showList "recs" rs
            | none => " recs invalid"
          else ""
        ({ d with obj := some s' }, showList "blobs" bs ++ recs ++ " | " ++ showState s')
  | ["shnew", fmt, k, n, m, defw, perm, _seed] =>
    match k.toNat?, n.toNat?, m.toNat?, defw.toNat?, parsePerm perm with
    | some k, some n, some m, some defw, some perm =>
      let isText := fmt = "text"
      let d := { d with sh := none, shText := isText, shParts := n * m, shDefw := defw }
      -- CHECK(num_shuffle_parts > 0); InputSplit::Create: CHECK(part < nsplit)
      match Shuffle.idxAt perm 0 k m with
      | .ok idx =>
        if m = 0 || ¬ (idx < n * m) then (d, "err:check") else
        match Shuffle.create (shSub isText d.files (n * m) defw) k n m perm with
        | .ok s => ({ d with sh := some s }, "ok")
        | .error e => (d, showErr e)
      | .error e => (d, if m = 0 then "err:check" else showErr e)
    | _, _, _, _, _ => (d, "bad-op")
  | ["shrec"] =>
    match d.sh with
    | none => (d, "no-object")
    | some s =>
      match Shuffle.next (shSub d.shText d.files d.shParts d.shDefw) s with
      | .ok (some r, s') => ({ d with sh := some s' }, "rec " ++ hexOrDash r)
      | .ok (none, s') => ({ d with sh := some s' }, "false")
      | .error e => ({ d with sh := none }, showErr e)
  | ["shdrain"] =>
    match d.sh with
    | none => (d, "no-object")
    | some s =>
      -- the state after a full drain: cursor on the last sub-part, nothing left
      match Shuffle.drain (shSub d.shText d.files d.shParts d.shDefw) s with
      | .ok rs => ({ d with sh := some { s with cur := s.m - 1, rest := [] } }, showList "recs" rs)
      | .error e => ({ d with sh := none }, showErr e)
  -- drained through NextChunk; the harness cuts the chunks into records (the chunks of a part tile its records)
  | ["shdrainc"] =>
    match d.sh with
    | none => (d, "no-object")
    | some s =>
      -- the state after a full drain: cursor on the last sub-part, nothing left
      match Shuffle.drain (shSub d.shText d.files d.shParts d.shDefw) s with
      | .ok rs => ({ d with sh := some { s with cur := s.m - 1, rest := [] } }, showList "recs" rs)
      | .error e => ({ d with sh := none }, showErr e)
  | ["shbf", perm] =>
    match d.sh, parsePerm perm with
    | some s, some perm =>
      match Shuffle.beforeFirst (shSub d.shText d.files d.shParts d.shDefw) s perm with
      | .ok s' => ({ d with sh := some s' }, "ok")
      | .error e => ({ d with sh := none }, showErr e)
    | none, _ => (d, "no-object")
    | _, none => (d, "bad-op")
  | ["shreset", k, n] =>
    match d.sh, k.toNat?, n.toNat? with
    | some s, some k, some n =>
      match Shuffle.resetPartition Gen.Split.shuffleResetSetsPart (shSub d.shText d.files d.shParts d.shDefw) s k n with
      | .ok s' => ({ d with sh := some s' }, "ok")
      | .error e => ({ d with sh := none }, showErr e)
    | none, _, _ => (d, "no-object")
    | _, _, _ => (d, "bad-op")
  | _ => (d, "bad-op")

end Driver.Split

def main : IO Unit := Driver.loop ({} : Driver.Split.DSt) Driver.Split.step
