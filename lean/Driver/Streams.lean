import DmlcModel.Streams.Model
import Driver.Proto
/-!
Line protocol of the Streams subsystem (C19).  The first op of a case opens an object:

    open memstr <hex>        MemoryStringStream over a std::string with that content
    open memfixed <hex>      MemoryFixedSizeStream over a buffer with that content
    open file <hex>          FileStream ("r+") over a file with that content
    open ostream <bufsize>   dmlc::ostream over a recording stream
    open istream <bufsize> <hex0> [<hex1> ...]   dmlc::istream over recording stream 0; stream k holds <hexk>

then `read n | write <hex> | seek p | tell | dump | close` for the three stores,
`put <hex1> | write <hex> [how] | flush | reattach | sstream j | oveof | destroy | useek p | udump` for the
ostream (three recording streams 0..2, stream 0 attached first),
`get [i|r] | peek [i|r] | read n [i|r] | clear | sstream j | useek p | useekat j p` for the istream
(`i` = through the std::istream members, with state bits; `r` = through rdbuf()).
-/
namespace Driver.Streams
open DmlcModel DmlcModel.Streams

inductive St
  | closed
  | fx (s : MemFixed) (dead : Bool)
  | ms (s : MemStr) (dead : Bool)
  | file (s : File) (isOpen : Bool)
  | os (s : OSt) (alive : Bool) (dead : Bool)
  | is (s : IOS) (dead : Bool)

def showErr : Err → String
  | .check => "err:check"
  | .range => "err:range"

/-- the first `min ret n` bytes of a destination that was pre-filled with 0xEE -/
def showRead (ret : Nat) (bs : Bytes) (n : Nat) : String :=
  s!"r {ret} " ++ hexOrDash ((bs ++ List.replicate (min ret n - bs.length) 0xEE).take (min ret n))

def showOut (o : Out) (n : Nat) (cur : Nat) : String :=
  match o with
  | .bytes ret bs => showRead ret bs n ++ s!" @{cur}"
  | .count k => s!"w {k} @{cur}"
  | .unit => s!"ok @{cur}"
  | .pos p => s!"pos {p}"
  | .err e => showErr e ++ s!" @{cur}"
  | .ub => "ub:oob"
  | .dead => "dead"

/-- content of a big file: the harness's 64-bit LCG (`open filebig <len> <seed>`) -/
def lcgBytes (len seed : Nat) : Bytes :=
  let rec go : Nat → Nat → Bytes → Bytes
    | 0, _, acc => acc.reverse
    | n + 1, x, acc =>
      let x' := (x * 6364136223846793005 + 1442695040888963407) % 18446744073709551616
      go n x' (UInt8.ofNat (x' / 72057594037927936) :: acc)
  go len seed []

/-- FNV-1a (64 bit) of the bytes a big read returned, as the harness prints it -/
def fnvHex (bs : Bytes) : String :=
  let h := bs.foldl (fun h b => ((h ^^^ b.toNat) * 1099511628211) % 18446744073709551616) 14695981039346656037
  String.ofList (Nat.toDigits 16 h)

def parseOp : List String → Option (Op × Nat)
  | ["read", n] => n.toNat?.map fun k => (.read k, k)
  | ["write", h] => (bytesOfHex h).map fun bs => (.write bs, 0)
  | ["seek", p] => p.toNat?.map fun k => (.seek k, 0)
  | ["tell"] => some (.tell, 0)
  | _ => none

/-- every call of one operation goes to the stream attached when the operation starts -/
def showCalls (idx : Nat) (cs : List Bytes) : String :=
  s!"calls {cs.length}" ++ String.join (cs.map fun c => s!" {idx}:" ++ hexOrDash c)

def parseOOp : List String → Option OOp
  | ["put", h] => match bytesOfHex h with
    | some [c] => some (.put c)
    | _ => none
  | ["write", h] => (bytesOfHex h).map .write
  | ["write", h, _] => (bytesOfHex h).map .write
  | ["flush"] => some .flush
  | ["reattach"] => some .reattach
  | ["sstream", j] => j.toNat?.map .setStream
  | ["oveof"] => some .ovEof
  | ["destroy"] => some .destroy
  | ["useek", p] => p.toNat?.map .useek
  | _ => none

def parseFOp : List String → Option FOp
  | ["get", "i"] => some .get
  | ["get"] => some (.raw .get)
  | ["get", _] => some (.raw .get)
  | ["peek", "i"] => some .peek
  | ["peek"] => some (.raw .peek)
  | ["peek", _] => some (.raw .peek)
  | ["read", n, "i"] => n.toNat?.map .read
  | ["read", n] => n.toNat?.map fun k => .raw (.read k)
  | ["read", n, _] => n.toNat?.map fun k => .raw (.read k)
  | ["clear"] => some .clear
  | ["sstream", j] => j.toNat?.map .setStream
  | ["useek", p] => p.toNat?.map fun k => .raw (.useek k)
  | ["useekat", j, p] => match j.toNat?, p.toNat? with
    | some a, some b => some (.useek a b)
    | _, _ => none
  | _ => none

def showIState (s : IOS) : String :=
  s!" br={s.st.ib.count} g={s.st.ib.gptr} e={s.st.ib.egptr} u={s.st.src.cur} st={(if s.eofbit then 2 else 0) + (if s.failbit then 4 else 0)} a={s.idx}"

def FOp.inRange (n : Nat) : FOp → Bool
  | .setStream j => j < n
  | .useek j _ => j < n
  | _ => true

def allHex : List String → Option (List Bytes)
  | [] => some []
  | h :: t => match bytesOfHex h, allHex t with
    | some b, some r => some (b :: r)
    | _, _ => none

def step (st : St) (ws : List String) : St × String :=
  match st, ws with
  | .closed, ["open", "memstr", h] =>
    match bytesOfHex h with
    | some bs => (.ms { buf := bs, cur := 0 } false, "ok")
    | none => (st, "bad-op")
  | .closed, ["open", "memfixed", h] =>
    match bytesOfHex h with
    | some bs => (.fx { buf := bs, cur := 0 } false, "ok")
    | none => (st, "bad-op")
  | .closed, ["open", "file", h] =>
    match bytesOfHex h with
    | some bs => (.file { data := bs, pos := 0 } true, "ok")
    | none => (st, "bad-op")
  | .closed, ["open", "filew", h] =>
    -- the same file opened "w+": truncated, an empty byte array with the cursor at 0
    match bytesOfHex h with
    | some _ => (.file { data := [], pos := 0 } true, "ok")
    | none => (st, "bad-op")
  -- the same two objects reached through a "file://" URI: read-only ("r", SeekStream::CreateForRead) and
  -- write-only ("w", Stream::Create); the harness issues only reads / only writes on them
  | .closed, ["open", "filer", h] =>
    match bytesOfHex h with
    | some bs => (.file { data := bs, pos := 0 } true, "ok")
    | none => (st, "bad-op")
  | .closed, ["open", "filewo", h] =>
    match bytesOfHex h with
    | some _ => (.file { data := [], pos := 0 } true, "ok")
    | none => (st, "bad-op")
  | .closed, ["open", "filebig", len, seed] =>
    match len.toNat?, seed.toNat? with
    | some l, some sd => (.file { data := lcgBytes l sd, pos := 0 } true, "ok")
    | _, _ => (st, "bad-op")
  | .closed, ["open", "ostream", n] =>
    match n.toNat? with
    | some k => (.os { ob := OBuf.create k, sink := { data := [], cur := 0 }, idx := 0,
                       parked := List.replicate 3 { data := [], cur := 0 } } true false, "ok")
    | none => (st, "bad-op")
  | .closed, "open" :: "istream" :: n :: h :: hs =>
    match n.toNat?, allHex (h :: hs) with
    | some k, some (bs :: rest) =>
      (.is { st := { ib := IBuf.create k, src := { data := bs, cur := 0 } }, idx := 0,
             parked := (bs :: rest).map fun d => { data := d, cur := 0 }, eofbit := false, failbit := false } false, "ok")
    | _, _ => (st, "bad-op")
  -- the three stores
  | .fx _ true, _ => (st, "dead")
  | .fx s dead, ["dump"] => (.fx s dead, "bytes " ++ hexOrDash s.buf)
  | .fx s dead, ws =>
    if dead then (st, "dead") else
    match parseOp ws with
    | none => (st, "bad-op")
    | some (op, n) =>
      let r := MemFixed.step Arith.gen s op
      if r.1.isUb then (.fx s true, "ub:oob") else (.fx r.2 false, showOut r.1 n r.2.cur)
  | .ms _ true, _ => (st, "dead")
  | .ms s dead, ["dump"] => (.ms s dead, "bytes " ++ hexOrDash s.buf)
  | .ms s dead, ws =>
    if dead then (st, "dead") else
    match parseOp ws with
    | none => (st, "bad-op")
    | some (op, n) =>
      let r := MemStr.step Arith.gen s op
      if r.1.isUb then (.ms s true, "ub:oob") else (.ms r.2 false, showOut r.1 n r.2.cur)
  | .file s true, ["close"] => (.file s false, "ok")
  | .file s false, ["dump"] => (.file s false, "bytes " ++ hexOrDash s.data)
  | .file s true, ["readh", n] =>
    match n.toNat? with
    | some k =>
      match File.step s (.read k) with
      | (.bytes ret bs, s') => (.file s' true, s!"rh {ret} {fnvHex bs} @{s'.pos}")
      | (_, _) => (st, "bad-op")
    | none => (st, "bad-op")
  | .file s true, ws =>
    match parseOp ws with
    | none => (st, "bad-op")
    | some (op, n) =>
      let r := File.step s op
      (.file r.2 true, showOut r.1 n r.2.pos)
  -- ostream
  | .os s alive dead, ["udump"] =>
    (.os s alive dead, "bytes" ++ String.join ((s.parked.set s.idx s.sink).map fun a => " " ++ hexOrDash a.data ++ s!" @{a.cur}"))
  | .os s true false, ws =>
    match parseOOp ws with
    | none => (st, "bad-op")
    | some op =>
      if (match op with | .setStream j => decide (s.parked.length ≤ j) | _ => false) then (st, "bad-op") else
      match s.step op with
      | none => (.os s true true, "ub:oob")
      | some (s1, cs) =>
        if op = .destroy then (.os s1 false false, showCalls s.idx cs ++ " destroyed")
        else (.os s1 true false, showCalls s.idx cs ++ s!" bw={s1.ob.count} pp={s1.ob.pptr} a={s1.idx}")
  | .os _ true true, _ => (st, "dead")
  -- istream
  | .is s false, ws =>
    match parseFOp ws with
    | none => (st, "bad-op")
    | some op =>
      if !(FOp.inRange s.parked.length op) then (st, "bad-op") else
      match s.step op with
      | none => (.is s true, "ub:oob")
      | some (s1, .char none) => (.is s1 false, "c eof" ++ showIState s1)
      | some (s1, .char (some c)) => (.is s1 false, "c " ++ hexOfBytes [c] ++ showIState s1)
      | some (s1, .block bs) => (.is s1 false, "b " ++ hexOrDash bs ++ showIState s1)
      | some (s1, .unit) => (.is s1 false, "ok" ++ showIState s1)
  | .is _ true, _ => (st, "dead")
  | _, _ => (st, "bad-op")

end Driver.Streams

def main : IO Unit := Driver.loop Driver.Streams.St.closed Driver.Streams.step
