import Driver.RecordIO

def main (args : List String) : IO UInt32 := do
  match args with
  | ["RecordIO"] => Driver.RecordIO.run; return 0
  | _ => IO.eprintln "usage: modeldrv <subsystem>"; return 2
