import DmlcModel.CQueue.Model
import Driver.Proto
/-!
Driver of the C18 models: replays a program + schedule (the choice list of harness/common/vsched.h) on
the counter-abstraction transition systems `qstep` / `estep` and prints the log the harness prints for
the real code.  The driver only does the bookkeeping the counters abstract from (which NAMED thread is
at which location, what each call returned); every state change is an event of the model, and an
event the model does not enable is reported as `model:not-enabled`.

ops:   prog <fifo|prio|event> T0=<call,call,..> T1=..   calls: push:<v>:<p> pushf:<v>:<p> pop size kill
                                                         wait signal reset fin (= quiesce, then kill/signal)
       t<k> | t<k>/<j> | w<k>  [h=<v>:<p>]               one scheduler step (h: element a priority Pop took)
-/
namespace Driver.CQueue
open DmlcModel DmlcModel.CQueue DmlcModel.Gen.CQueue

inductive Call
  | push (v : Nat) (p : Int) (front : Bool)
  | pop | size | kill | quiesce | wait | signal | reset
deriving Repr

inductive TLoc
  | idle | inCS | waiting | woken | pendNotify | pendKill | sigStored | done
deriving DecidableEq, Repr

structure Thread where
  script : List Call := []
  loc : TLoc := .done
  results : List String := []
  taken : Option Elem := none
  sizeSeen : Nat := 0

inductive Kind | fifo | prio | event
deriving DecidableEq

structure St where
  kind : Kind := .fifo
  qs : QState := {}
  es : EState := {}
  thr : Array Thread := #[]
  owner : Option Nat := none
  idx : Nat := 0
  loaded : Bool := false

def mode (s : St) : Mode := if s.kind = .prio then .prio else .fifo

/-! ### parsing -/
def natOfChars (cs : List Char) : Option Nat :=
  if cs.isEmpty then none
  else cs.foldl (fun acc c => acc.bind fun n => if c.isDigit then some (n * 10 + (c.toNat - 48)) else none) (some 0)

def intOfChars : List Char → Option Int
  | '-' :: cs => (natOfChars cs).map fun n => -(Int.ofNat n)
  | cs => (natOfChars cs).map Int.ofNat

def splitChars (sep : Char) (cs : List Char) : List (List Char) :=
  let (cur, acc) := cs.foldl (fun (st : List Char × List (List Char)) c =>
    if c = sep then ([], st.1.reverse :: st.2) else (c :: st.1, st.2)) ([], [])
  (cur.reverse :: acc).reverse

def parseCall (cs : List Char) : Option (List Call) :=
  match splitChars ':' cs with
  | [n] =>
    match String.ofList n with
    | "pop" => some [.pop]
    | "size" => some [.size]
    | "kill" => some [.kill]
    | "wait" => some [.wait]
    | "signal" => some [.signal]
    | "reset" => some [.reset]
    | _ => none
  | [n, v, p] =>
    match String.ofList n, natOfChars v, intOfChars p with
    | "push", some v, some p => some [.push v p false]
    | "pushf", some v, some p => some [.push v p true]
    | _, _, _ => none
  | _ => none

def parseThread (k : Kind) (w : String) : Option Thread :=
  match splitChars '=' w.toList with
  | [_, body] =>
    let calls := (splitChars ',' body).foldl (fun acc c =>
      acc.bind fun l =>
        if String.ofList c = "fin" then some (l ++ [Call.quiesce, if k = .event then Call.signal else Call.kill])
        else (parseCall c).map fun x => l ++ x) (some [])
    calls.map fun cs => { script := cs, loc := if cs.isEmpty then .done else .idle }
  | _ => none

/-- "t3" "t3/1" "w2" -> (spurious, tid, target) -/
def parseChoice (w : String) : Option (Bool × Nat × Option Nat) :=
  match w.toList with
  | 'w' :: cs => (natOfChars cs).map fun k => (true, k, none)
  | 't' :: cs =>
    match splitChars '/' cs with
    | [a] => (natOfChars a).map fun k => (false, k, none)
    | [a, b] =>
      match natOfChars a, natOfChars b with
      | some k, some j => some (false, k, some j)
      | _, _ => none
    | _ => none
  | _ => none

def parseHint (w : String) : Option Elem :=
  match w.toList with
  | 'h' :: '=' :: cs =>
    match splitChars ':' cs with
    | [v, p] =>
      match natOfChars v, intOfChars p with
      | some v, some p => some ⟨v, p⟩
      | _, _ => none
    | _ => none
  | _ => none

/-! ### printing -/
def b01 (b : Bool) : String := if b then "1" else "0"

def joinOr (dash : String) (sep : String) (l : List String) : String :=
  if l.isEmpty then dash else sep.intercalate l

def insertSorted (x : Elem) : List Elem → List Elem
  | [] => [x]
  | y :: ys => if x.val < y.val ∨ (x.val = y.val ∧ x.prio ≤ y.prio) then x :: y :: ys else y :: insertSorted x ys

def showQ (s : St) : String :=
  match s.kind with
  | .prio => joinOr "-" "," ((s.qs.q.foldr insertSorted []).map fun e => s!"{e.val}:{e.prio}")
  | _ => joinOr "-" "," (s.qs.q.map fun e => toString e.val)

def waitingTids (s : St) : List Nat :=
  (List.range s.thr.size).filter fun i => match s.thr[i]? with
    | some t => t.loc = .waiting
    | none => false

def snapshot (s : St) : String :=
  let own := match s.owner with
    | some k => toString k
    | none => "-"
  let rs := joinOr "-" "/" (s.thr.toList.map fun t => joinOr "-" "," t.results)
  let ws := (waitingTids s).length
  match s.kind with
  | .event => s!"sig={b01 s.es.signaled} own={own} ws={ws} r={rs}"
  | _ => s!"q={showQ s} nw={s.qs.nwait} ex={b01 s.qs.exit} own={own} ws={ws} r={rs}"

/-! ### one scheduler step -/
def setThr (s : St) (k : Nat) (t : Thread) : St := { s with thr := s.thr.setIfInBounds k t }

/-- the current call of thread `t` returned `r` (none: no visible result) -/
def complete (t : Thread) (r : Option String) : Thread :=
  let rest := t.script.drop 1
  { t with script := rest, loc := if rest.isEmpty then .done else .idle,
           results := match r with
             | some x => t.results ++ [x]
             | none => t.results }

def enabled (s : St) (t : Thread) : Bool :=
  match t.loc with
  | .idle =>
    match t.script with
    | .signal :: _ => true
    | .quiesce :: _ => false
    | _ :: _ => s.owner.isNone
    | [] => false
  | .inCS | .pendNotify | .pendKill => true
  | .woken | .sigStored => s.owner.isNone
  | .waiting | .done => false

structure Out where
  st : St
  op : String
  obj : String
  res : String

def fail (s : St) (what : String) : Out := ⟨s, "?", "?", what⟩

/-- apply a queue event of thread `k`; `f` builds the output from the new model state -/
def qev (s : St) (e : QEvent) (f : QState → Out) : Out :=
  match qstep (mode s) s.qs e with
  | some qs' => f qs'
  | none => fail s "model:not-enabled"

def eev (s : St) (e : EEvent) (f : EState → Out) : Out :=
  match estep evWaitLoops s.es e with
  | some es' => f es'
  | none => fail s "model:not-enabled"

def wakeAll (s : St) : St × String :=
  let w := waitingTids s
  let thr := s.thr.map fun t => if t.loc = .waiting then { t with loc := .woken } else t
  ({ s with thr := thr }, "wake=" ++ joinOr "-" "," (w.map toString))

def stepThread (s : St) (k : Nat) (t : Thread) (target : Option Nat) (hint : Option Elem) : Out :=
  let cvObj := "cv"
  let flag := if s.kind = .event then "sig" else "exit"
  match t.loc with
  | .idle =>
    match t.script with
    | .push v p f :: _ =>
      qev s (.pushLock ⟨v, p⟩ f) fun qs => ⟨setThr { s with qs := qs, owner := some k } k { t with loc := .inCS }, "lock", "m", "ok"⟩
    | .pop :: _ =>
      qev s .popLock fun qs => ⟨setThr { s with qs := qs, owner := some k } k { t with loc := .inCS }, "lock", "m", "ok"⟩
    | .kill :: _ =>
      qev s .killLock fun qs => ⟨setThr { s with qs := qs, owner := some k } k { t with loc := .inCS }, "lock", "m", "ok"⟩
    | .size :: _ =>
      qev s .sizeLock fun qs =>
        ⟨setThr { s with qs := qs, owner := some k } k { t with loc := .inCS, sizeSeen := qs.q.length }, "lock", "m", "ok"⟩
    | .quiesce :: _ =>
      -- enabled only when no other thread is: checked against the model's view of the threads
      if s.thr.toList.any (enabled s) then fail s "model:not-quiescent"
      else ⟨setThr s k (complete t none), "quiesce", "fin", "ok"⟩
    | .wait :: _ =>
      eev s .wLock fun es => ⟨setThr { s with es := es, owner := some k } k { t with loc := .inCS }, "lock", "m", "ok"⟩
    | .reset :: _ =>
      eev s .rLock fun es => ⟨setThr { s with es := es, owner := some k } k { t with loc := .inCS }, "lock", "m", "ok"⟩
    | .signal :: _ =>
      eev s .sStore fun es => ⟨setThr { s with es := es } k { t with loc := .sigStored }, "store", flag, b01 es.signaled⟩
    | [] => fail s "model:thread-done"
  | .sigStored =>
    eev s .sLock fun es => ⟨setThr { s with es := es, owner := some k } k { t with loc := .inCS }, "lock", "m", "ok"⟩
  | .inCS =>
    if s.kind = .event then
      match s.es.holder with
      | .wLoad => eev s .wLoad fun es => ⟨{ s with es := es }, "load", flag, b01 s.es.signaled⟩
      | .wWait =>
        eev s .wWait fun es => ⟨setThr { s with es := es, owner := none } k { t with loc := .waiting }, "wait", cvObj, "blocked"⟩
      | .wU => eev s .wUnlock fun es => ⟨setThr { s with es := es, owner := none } k (complete t (some "W")), "unlock", "m", "ok"⟩
      | .sNotify =>
        eev s .sNotify fun es =>
          let (s1, r) := wakeAll { s with es := es }
          ⟨s1, "notify_all", cvObj, r⟩
      | .sU => eev s .sUnlock fun es => ⟨setThr { s with es := es, owner := none } k (complete t (some "S")), "unlock", "m", "ok"⟩
      | .rStore => eev s .rStore fun es => ⟨{ s with es := es }, "store", flag, b01 es.signaled⟩
      | .rU => eev s .rUnlock fun es => ⟨setThr { s with es := es, owner := none } k (complete t (some "R")), "unlock", "m", "ok"⟩
      | .free => fail s "model:no-holder"
    else
      match s.qs.holder with
      | .pushU n =>
        qev s .pushUnlock fun qs =>
          let t' := if n then { t with loc := .pendNotify } else complete t (some "P")
          ⟨setThr { s with qs := qs, owner := none } k t', "unlock", "m", "ok"⟩
      | .popPred => qev s .popPredLoad fun qs => ⟨{ s with qs := qs }, "load", flag, b01 s.qs.exit⟩
      | .popWait =>
        qev s .popWait fun qs => ⟨setThr { s with qs := qs, owner := none } k { t with loc := .waiting }, "wait", cvObj, "blocked"⟩
      | .popAfter =>
        qev s (.popAfterLoad hint) fun qs =>
          let tk := if qs.holder = .popU true then qs.popped.getLast? else none
          ⟨setThr { s with qs := qs } k { t with taken := tk }, "load", flag, b01 s.qs.exit⟩
      | .popU ok =>
        qev s .popUnlock fun qs =>
          let r := if ok then
              match t.taken with
              | some e => s!"T{e.val}"
              | none => "T?"
            else "F"
          ⟨setThr { s with qs := qs, owner := none } k (complete { t with taken := none } (some r)), "unlock", "m", "ok"⟩
      | .killStore => qev s .killStore fun qs => ⟨{ s with qs := qs }, "store", flag, b01 qs.exit⟩
      | .killU =>
        qev s .killUnlock fun qs => ⟨setThr { s with qs := qs, owner := none } k { t with loc := .pendKill }, "unlock", "m", "ok"⟩
      | .sizeU =>
        qev s .sizeUnlock fun qs =>
          ⟨setThr { s with qs := qs, owner := none } k (complete t (some s!"S{t.sizeSeen}")), "unlock", "m", "ok"⟩
      | .ub => fail s "ub:empty-pop"
      | .free => fail s "model:no-holder"
  | .woken =>
    if s.kind = .event then
      eev s .wRelock fun es => ⟨setThr { s with es := es, owner := some k } k { t with loc := .inCS }, "relock", "m", "ok"⟩
    else
      qev s .popRelock fun qs => ⟨setThr { s with qs := qs, owner := some k } k { t with loc := .inCS }, "relock", "m", "ok"⟩
  | .pendNotify =>
    qev s .pushNotify fun qs =>
      let s1 := setThr { s with qs := qs } k (complete t (some "P"))
      match target with
      | some j =>
        match s1.thr[j]? with
        | some tj =>
          if tj.loc = .waiting ∧ 0 < s.qs.waitset then
            ⟨setThr s1 j { tj with loc := .woken }, "notify_one", cvObj, s!"wake={j}"⟩
          else fail s "model:bad-notify-target"
        | none => fail s "model:bad-notify-target"
      | none => if s.qs.waitset = 0 then ⟨s1, "notify_one", cvObj, "wake=-"⟩ else fail s "model:waiter-not-woken"
  | .pendKill =>
    qev s .killNotify fun qs =>
      let (s1, r) := wakeAll { s with qs := qs }
      ⟨setThr s1 k (complete t (some "K")), "notify_all", cvObj, r⟩
  | .waiting => fail s "model:thread-blocked"
  | .done => fail s "model:thread-done"

def doStep (s : St) (spur : Bool) (k : Nat) (target : Option Nat) (hint : Option Elem) : St × String :=
  match s.thr[k]? with
  | none => (s, "bad-op")
  | some t =>
    let out :=
      if spur then
        if t.loc = .waiting then
          if s.kind = .event then
            eev s .spurious fun es => ⟨setThr { s with es := es } k { t with loc := .woken }, "spurious", "cv", "ok"⟩
          else
            qev s .spurious fun qs => ⟨setThr { s with qs := qs } k { t with loc := .woken }, "spurious", "cv", "ok"⟩
        else fail s "model:not-waiting"
      else if !(enabled s t) ∧ !(match t.loc, t.script with
                                  | .idle, .quiesce :: _ => true
                                  | _, _ => false) then fail s "model:not-enabled"
      else stepThread s k t target hint
    let s' := { out.st with idx := s.idx + 1 }
    let fin := match s'.thr[k]? with
      | some t' => if t'.loc = TLoc.done && !spur then " fin" else ""
      | none => ""
    (s', s!"{s.idx} T{k} {out.op} {out.obj} {out.res}{fin} | {snapshot s'}")

def step (s : St) : List String → St × String
  | "prog" :: kind :: ts =>
    let k := match kind with
      | "prio" => some Kind.prio
      | "fifo" => some Kind.fifo
      | "event" => some Kind.event
      | _ => none
    match k with
    | none => (s, "bad-op")
    | some k =>
      let thr := ts.foldl (fun acc w => acc.bind fun (a : Array Thread) => (parseThread k w).map a.push) (some #[])
      match thr with
      | some a => ({ kind := k, thr := a, loaded := true }, "ok")
      | none => (s, "bad-op")
  | [c] =>
    match parseChoice c with
    | some (spur, k, tg) => if s.loaded then doStep s spur k tg none else (s, "bad-op")
    | none => (s, "bad-op")
  | [c, h] =>
    match parseChoice c, parseHint h with
    | some (spur, k, tg), some e => if s.loaded then doStep s spur k tg (some e) else (s, "bad-op")
    | _, _ => (s, "bad-op")
  | _ => (s, "bad-op")

end Driver.CQueue

def main : IO Unit := Driver.loop ({} : Driver.CQueue.St) Driver.CQueue.step
