import DmlcModel.Ser.Model
import Driver.Proto
/-!
Line-protocol driver of the serializer model.

type descriptor  `u1 u2 u4 u8 i1 i2 i4 i8 f4 f8 s P(a,b) V(t) L(t) D(t) S(t) MS(t) US(t) M(k,v) MM(k,v)
                  UM(k,v) C(f1,…) R<size>a<align>`
value            arithmetic: 2·n hex digits of the bit pattern (most significant first); string `"hex"`;
                 POD struct `#hex`; pair `(a,b)`; class `{f1,…}`; containers `[e1,…]` in iteration order
configuration    `le` = little-endian host, default build; `be` = little-endian host,
                 DMLC_IO_USE_LITTLE_ENDIAN=0 (swap path); `xle` / `xbe` = big-endian host (model only)
ops              enc cfg ty val            -> bytes <hex>
                 dec cfg ty hex            -> ok <val> rest <n> | fail
                 rt cfg ty val resthex     -> ok <val> rest <n> | fail
                 rtd cfg ty val dest resthex / decd cfg ty dest hex
                                           -> as rt / dec; `dest` is the value the C++ destination object
                                              holds before the read.  The model's `decode` is a function of the
                                              bytes only, so `dest` is parsed (a malformed one is `bad-op`) and
                                              otherwise ignored: the result must not depend on it
                 truncall cfg ty val       -> trunc <one letter per strict prefix: F = Read returned false>
                 seq cfg ty1 val1 …        -> ok <val1> … rest <n> | fail <index>
decoded values are printed canonically (unordered containers sorted by element text).
-/
namespace Driver.Ser
open DmlcModel DmlcModel.Ser

abbrev Parser (α : Type) := List Char → Option (α × List Char)

def stripPrefix (p : String) (cs : List Char) : Option (List Char) :=
  let pl := p.toList
  if cs.take pl.length = pl then some (cs.drop pl.length) else none

def expect (ch : Char) : List Char → Option (List Char)
  | c :: cs => if c = ch then some cs else none
  | [] => none

def parseNat : Parser Nat := fun cs =>
  let ds := cs.takeWhile Char.isDigit
  if ds.isEmpty then none
  else some (ds.foldl (fun a c => 10 * a + (c.toNat - 48)) 0, cs.drop ds.length)

def akOf : Char → Option AK
  | 'u' => some .u
  | 'i' => some .i
  | 'f' => some .f
  | _ => none

partial def parseTy : Parser Ty := fun cs =>
  let un (ctor : Ty → Ty) (rest : List Char) : Option (Ty × List Char) := do
    let (t, r) ← parseTy rest
    let r ← expect ')' r
    pure (ctor t, r)
  let bin (ctor : Ty → Ty → Ty) (rest : List Char) : Option (Ty × List Char) := do
    let (a, r) ← parseTy rest
    let r ← expect ',' r
    let (b, r) ← parseTy r
    let r ← expect ')' r
    pure (ctor a b, r)
  let rec fields (rest : List Char) (acc : List Ty) : Option (List Ty × List Char) :=
    match rest with
    | ')' :: r => some (acc.reverse, r)
    | _ => do
      let (t, r) ← parseTy rest
      match r with
      | ',' :: r' => fields r' (t :: acc)
      | ')' :: r' => some ((t :: acc).reverse, r')
      | _ => none
  match stripPrefix "MS(" cs with
  | some r => un .mset r
  | none =>
  match stripPrefix "MM(" cs with
  | some r => bin .mmap r
  | none =>
  match stripPrefix "US(" cs with
  | some r => un .uset r
  | none =>
  match stripPrefix "UM(" cs with
  | some r => bin .umap r
  | none =>
  match stripPrefix "M(" cs with
  | some r => bin .map r
  | none =>
  match stripPrefix "S(" cs with
  | some r => un .set r
  | none =>
  match stripPrefix "V(" cs with
  | some r => un .vec r
  | none =>
  match stripPrefix "L(" cs with
  | some r => un .list r
  | none =>
  match stripPrefix "D(" cs with
  | some r => un .deque r
  | none =>
  match stripPrefix "P(" cs with
  | some r => bin .pair r
  | none =>
  match stripPrefix "C(" cs with
  | some r => (fields r []).map fun (fs, r') => (Ty.cls fs, r')
  | none =>
  match cs with
  | 'R' :: r => do
    let (sz, r) ← parseNat r
    let r ← expect 'a' r
    let (al, r) ← parseNat r
    pure (.pod sz al, r)
  | 's' :: r => some (.str, r)
  | k :: r => do
    let ak ← akOf k
    let (n, r) ← parseNat r
    pure (.arith ak n, r)
  | [] => none

def parseHexNat (digits : Nat) : Parser Nat := fun cs =>
  let hd := cs.take digits        -- (not `cs.length`: the rest of the line may be long)
  if hd.length < digits then none
  else
    hd.foldlM (fun a c => (hexVal c).map fun d => 16 * a + d) 0 |>.map fun v => (v, cs.drop digits)

def parseHexBytes : Parser Bytes := fun cs =>
  let hs := cs.takeWhile fun c => (hexVal c).isSome
  (bytesOfHexAux hs).map fun bs => (bs, cs.drop hs.length)

/-- `[e,e,…]` -/
partial def parseListOf {α : Type} (p : Parser α) : Parser (List α) := fun cs =>
  let rec go (rest : List Char) (acc : List α) : Option (List α × List Char) :=
    match rest with
    | ']' :: r => some (acc.reverse, r)
    | _ =>
      match p rest with
      | none => none
      | some (x, r) =>
        match r with
        | ',' :: r' => go r' (x :: acc)
        | ']' :: r' => some ((x :: acc).reverse, r')
        | _ => none
  match cs with
  | '[' :: r => go r []
  | _ => none

def parsePairOf {α β : Type} (op cl : Char) (pa : Parser α) (pb : Parser β) : Parser (α × β) := fun cs => do
  let r ← expect op cs
  let (a, r) ← pa r
  let r ← expect ',' r
  let (b, r) ← pb r
  let r ← expect cl r
  pure ((a, b), r)

mutual
/-- value of type `t` -/
partial def parseVal : (t : Ty) → Parser (Val t)
  | .arith _ n => parseHexNat (2 * n)
  | .str => fun cs => do
    let r ← expect '"' cs
    let (bs, r) ← parseHexBytes r
    let r ← expect '"' r
    pure (bs, r)
  | .pod _ _ => fun cs => do
    let r ← expect '#' cs
    parseHexBytes r
  | .pair a b => parsePairOf '(' ')' (parseVal a) (parseVal b)
  | .vec t => parseListOf (parseVal t)
  | .list t => parseListOf (parseVal t)
  | .deque t => parseListOf (parseVal t)
  | .set t => parseListOf (parseVal t)
  | .mset t => parseListOf (parseVal t)
  | .uset t => parseListOf (parseVal t)
  | .map k v => parseListOf (parsePairOf '(' ')' (parseVal k) (parseVal v))
  | .mmap k v => parseListOf (parsePairOf '(' ')' (parseVal k) (parseVal v))
  | .umap k v => parseListOf (parsePairOf '(' ')' (parseVal k) (parseVal v))
  | .cnil => fun cs => do
    let r ← expect '{' cs
    let r ← expect '}' r
    pure ((), r)
  | .ccons f r => fun cs => do
    let rest ← expect '{' cs
    let (x, rest) ← parseVal f rest
    let (y, rest) ← parseRest r rest
    let rest ← expect '}' rest
    pure ((x, y), rest)
/-- the remaining fields of a class, each preceded by a comma -/
partial def parseRest : (t : Ty) → Parser (Val t)
  | .cnil => fun cs => some ((), cs)
  | .ccons f r => fun cs => do
    let rest ← expect ',' cs
    let (x, rest) ← parseVal f rest
    let (y, rest) ← parseRest r rest
    pure ((x, y), rest)
  | _ => fun _ => none
end

def hexNat (digits v : Nat) : String :=
  String.ofList ((List.range digits).reverse.map fun i => hexDigit (v / 16 ^ i % 16))

def insertSorted (x : String) : List String → List String
  | [] => [x]
  | y :: ys => if x ≤ y then x :: y :: ys else y :: insertSorted x ys

def sortStrings (xs : List String) : List String := xs.foldr insertSorted []

def bracket (xs : List String) : String := "[" ++ ",".intercalate xs ++ "]"

mutual
/-- canonical text of a value (unordered containers sorted by element text) -/
partial def showVal : (t : Ty) → Val t → String
  | .arith _ n, v => hexNat (2 * n) v
  | .str, bs => "\"" ++ hexOfBytes bs ++ "\""
  | .pod _ _, bs => "#" ++ hexOfBytes bs
  | .pair a b, p => "(" ++ showVal a p.1 ++ "," ++ showVal b p.2 ++ ")"
  | .vec t, xs => bracket (xs.map (showVal t))
  | .list t, xs => bracket (xs.map (showVal t))
  | .deque t, xs => bracket (xs.map (showVal t))
  | .set t, xs => bracket (xs.map (showVal t))
  | .mset t, xs => bracket (xs.map (showVal t))
  | .uset t, xs => bracket (sortStrings (xs.map (showVal t)))
  | .map k v, xs => bracket (xs.map fun p => "(" ++ showVal k p.1 ++ "," ++ showVal v p.2 ++ ")")
  | .mmap k v, xs => bracket (xs.map fun p => "(" ++ showVal k p.1 ++ "," ++ showVal v p.2 ++ ")")
  | .umap k v, xs => bracket (sortStrings (xs.map fun p => "(" ++ showVal k p.1 ++ "," ++ showVal v p.2 ++ ")"))
  | .cnil, _ => "{}"
  | .ccons f r, p => "{" ++ showVal f p.1 ++ showRest r p.2 ++ "}"
partial def showRest : (t : Ty) → Val t → String
  | .ccons f r, p => "," ++ showVal f p.1 ++ showRest r p.2
  | _, _ => ""
end

def cfgOf : String → Option Cfg
  | "le" => some ⟨true, true⟩
  | "be" => some ⟨true, false⟩
  | "xle" => some ⟨false, true⟩
  | "xbe" => some ⟨false, false⟩
  | _ => none

def tyOf (s : String) : Option Ty :=
  match parseTy s.toList with
  | some (t, []) => if t.ok then some t else none
  | _ => none

def valOf (t : Ty) (s : String) : Option (Val t) :=
  match parseVal t s.toList with
  | some (v, []) => some v
  | _ => none

def showDec (t : Ty) : Option (Val t × Bytes) → String
  | none => "fail"
  | some (v, r) => s!"ok {showVal t v} rest {r.length}"

/-- `seq`: write all, then read all from the one stream -/
def seqOp (c : Cfg) : List String → Option (List TVal)
  | [] => some []
  | ts :: vs :: rest => do
    let t ← tyOf ts
    if !supported c t then none
    let v ← valOf t vs
    let more ← seqOp c rest
    pure (⟨t, v⟩ :: more)
  | _ => none

def readSeq (c : Cfg) : List TVal → Nat → Bytes → List String → String
  | [], _, s, acc => "ok " ++ " ".intercalate acc.reverse ++ (if acc.isEmpty then "" else " ") ++ s!"rest {s.length}"
  | ⟨t, _⟩ :: more, i, s, acc =>
    match decode c t s with
    | none => s!"fail {i}"
    | some (v, s') => readSeq c more (i + 1) s' (showVal t v :: acc)

def step (_ : Unit) : List String → Unit × String
  | ["enc", cs, ts, vs] =>
    match cfgOf cs, tyOf ts with
    | some c, some t =>
      if !supported c t then ((), "bad-op") else
      match valOf t vs with
      | some v => ((), "bytes " ++ hexOrDash (encode c t v))
      | none => ((), "bad-op")
    | _, _ => ((), "bad-op")
  | ["dec", cs, ts, hs] =>
    match cfgOf cs, tyOf ts, bytesOfHex hs with
    | some c, some t, some bs => if !supported c t then ((), "bad-op") else ((), showDec t (decode c t bs))
    | _, _, _ => ((), "bad-op")
  | ["rt", cs, ts, vs, hs] =>
    match cfgOf cs, tyOf ts, bytesOfHex hs with
    | some c, some t, some rest =>
      if !supported c t then ((), "bad-op") else
      match valOf t vs with
      | some v => ((), showDec t (decode c t (encode c t v ++ rest)))
      | none => ((), "bad-op")
    | _, _, _ => ((), "bad-op")
  | ["rtd", cs, ts, vs, ds, hs] =>
    match cfgOf cs, tyOf ts, bytesOfHex hs with
    | some c, some t, some rest =>
      if !supported c t then ((), "bad-op") else
      match valOf t vs, valOf t ds with
      | some v, some _ => ((), showDec t (decode c t (encode c t v ++ rest)))
      | _, _ => ((), "bad-op")
    | _, _, _ => ((), "bad-op")
  | ["decd", cs, ts, ds, hs] =>
    match cfgOf cs, tyOf ts, bytesOfHex hs with
    | some c, some t, some bs =>
      if !supported c t then ((), "bad-op") else
      match valOf t ds with
      | some _ => ((), showDec t (decode c t bs))
      | none => ((), "bad-op")
    | _, _, _ => ((), "bad-op")
  | ["truncall", cs, ts, vs] =>
    match cfgOf cs, tyOf ts with
    | some c, some t =>
      if !supported c t then ((), "bad-op") else
      match valOf t vs with
      | some v =>
        let e := encode c t v
        let marks := (List.range e.length).map fun k => if (decode c t (e.take k)).isNone then 'F' else 'T'
        ((), "trunc " ++ (if marks.isEmpty then "-" else String.ofList marks))
      | none => ((), "bad-op")
    | _, _ => ((), "bad-op")
  | "seq" :: cs :: rest =>
    match cfgOf cs with
    | some c =>
      match seqOp c rest with
      | some tvs => ((), readSeq c tvs 0 (encodeAll c tvs) [])
      | none => ((), "bad-op")
    | none => ((), "bad-op")
  | _ => ((), "bad-op")

end Driver.Ser

def main : IO Unit := Driver.loop () Driver.Ser.step
