import DmlcModel.Tracker.Model
import Driver.Proto
/-!
Line protocol of the Tracker model driver (one result line per op line; `case …` resets the state):

  n <N>                 set the worker count                                   -> ok
  ord <r> <c1> <c2> …   CPython's iteration order of `set(tree_map[r]) - {parent_map[r]}` as observed
                        by the harness -> ok | bad-ord (not an order of the model's child set of r)
  tree0 / parent0       get_tree(N) before relabelling (internal)              -> tree0 k:a,b … / parent0 k:p …
  rlst                  find_share_ring(tree_map, parent_map, 0) (internal)    -> rlst a b c … | err:<e>
  linkmap               get_link_map(N), result kept in the state              -> ok | err:<e>
  tree / parent / ring  the three returned dicts, sorted by key                -> tree k:a,b … etc.
-/
namespace Driver.Tracker
open DmlcModel DmlcModel.Tracker

structure St where
  n : Nat := 0
  tp : Option (Dict (List Nat) × Dict Int) := none   -- get_tree(n), computed at most once per case
  ords : List (Nat × List Nat) := []
  res : Option (R LinkMap) := none

/-- `get_tree(n)` of the current case (cached in the state) -/
def withTree (s : St) : St × (Dict (List Nat) × Dict Int) :=
  match s.tp with
  | some tp => (s, tp)
  | none => let tp := getTree s.n; ({ s with tp := some tp }, tp)

def ordFn (s : St) (r : Nat) : List Nat :=
  match s.ords.lookup r with
  | some l => l
  | none => []

def errStr : Err → String
  | .key => "err:key"
  | .assert => "err:assert"
  | .index => "err:index"
  | .depth => "err:depth"

def byKey {α : Type} (d : Dict α) : Dict α := d.mergeSort fun a b => a.1 ≤ b.1

def showNats (l : List Nat) : String :=
  if l.isEmpty then "-" else ",".intercalate (l.map toString)

def showDict {α : Type} (tag : String) (f : α → String) (d : Dict α) : String :=
  " ".intercalate (tag :: (byKey d).map fun kv => toString kv.1 ++ ":" ++ f kv.2)

def natsOf (ws : List String) : Option (List Nat) :=
  ws.foldr (fun w acc => match w.toNat?, acc with
    | some k, some l => some (k :: l)
    | _, _ => none) (some [])

def withRes (s : St) (f : LinkMap → String) : St × String :=
  match s.res with
  | some (.ok lm) => (s, f lm)
  | some (.error e) => (s, errStr e)
  | none => (s, "no-linkmap")

def step (s : St) : List String → St × String
  | ["n", k] =>
    match k.toNat? with
    | some k => ({ n := k }, "ok")
    | none => (s, "bad-op")
  | "ord" :: r :: cs =>
    match r.toNat?, natsOf cs with
    | some r, some cs =>
      let (s, tp) := withTree s
      match dget tp.1 r, dget tp.2 r with
      | .ok nb, .ok p =>
        if cs.isPerm (cset nb p) then ({ s with ords := (r, cs) :: s.ords }, "ok") else (s, "bad-ord")
      | _, _ => (s, "bad-ord")
    | _, _ => (s, "bad-op")
  | ["tree0"] => let (s, tp) := withTree s; (s, showDict "tree0" showNats tp.1)
  | ["parent0"] => let (s, tp) := withTree s; (s, showDict "parent0" (fun (p : Int) => toString p) tp.2)
  | ["rlst"] =>
    match ringList s.n (ordFn s) with
    | .ok l => (s, " ".intercalate ("rlst" :: l.map toString))
    | .error e => (s, errStr e)
  | ["linkmap"] =>
    let r := getLinkMap s.n (ordFn s)
    ({ s with res := some r }, match r with | .ok _ => "ok" | .error e => errStr e)
  | ["tree"] => withRes s fun lm => showDict "tree" showNats lm.tree
  | ["parent"] => withRes s fun lm => showDict "parent" (fun (p : Int) => toString p) lm.parent
  | ["ring"] => withRes s fun lm => showDict "ring" (fun (p : Nat × Nat) => s!"{p.1},{p.2}") lm.ring
  | _ => (s, "bad-op")

end Driver.Tracker

def main : IO Unit := Driver.loop ({} : Driver.Tracker.St) Driver.Tracker.step
