import DmlcModel.StrToNum.Model
import Driver.Proto
/-!
Line protocol of the StrToNum model (see harness/h_strtonum.cc):
  strtof|strtod|strtof_check_range|strtod_check_range|stof|stod <hex> [errno_before]
      -> `val <bits> end <n> errno <0|ERANGE|EINVAL|n>` | `throw:invalid` | `throw:range` | `err:check` | `ub:oob`
  atof <hex> -> `val <bits>`;  atol <hex> -> `val <16 hex>`
  strtoull|parse_i32|parse_i64|parse_u32 <hex> <base> -> `val <hex> end <n>` | `err:check`
  str2type <i32|u32|i64|u64|f32|f64> <hex> -> `val <hex>`
The hex string is the C string without its terminating NUL (`-` = empty).  Values are bit patterns.
-/
namespace Driver.StrToNum
open DmlcModel DmlcModel.StrToNum

def hexN (digits : Nat) (n : Nat) : String :=
  String.ofList ((List.range digits).reverse.map fun i => hexDigit (n / 16 ^ i % 16))

def errnoOf (t : String) : Nat :=
  if t = "ERANGE" then 34 else if t = "EINVAL" then 22 else t.toNat?.getD 0

def errnoStr (e : Nat) : String :=
  if e = 34 then "ERANGE" else if e = 22 then "EINVAL" else toString e

def faultStr : Fault → String
  | .oob => "ub:oob"
  | .check => "err:check"

def hexW (f : Fmt) : Nat := match f with | .F32 => 8 | .F64 => 16

def floatOp (f : Fmt) (chk : Bool) (h : String) (e0 : Nat) : String :=
  match bytesOfHex h with
  | none => "bad-op"
  | some s =>
    match parseFloat f chk (s ++ [0]) with
    | .error e => faultStr e
    | .ok r => s!"val {hexN (hexW f) (r.val.bits f)} end {r.endIdx} errno {errnoStr (if r.erange then ERANGE else e0)}"

def stoOp (f : Fmt) (h : String) (e0 : Nat) : String :=
  match bytesOfHex h with
  | none => "bad-op"
  | some s =>
    match sto f e0 (s ++ [0]) with
    | .fault e => faultStr e
    | .throwInvalid => "throw:invalid"
    | .throwRange => "throw:range"
    | .ok v pos e => s!"val {hexN (hexW f) (v.bits f)} end {pos} errno {errnoStr e}"

def intOp (signed : Bool) (bits : Nat) (h : String) (base : String) : String :=
  match bytesOfHex h, base.toNat? with
  | some s, some b =>
    match (if signed then parseSigned bits b (s ++ [0]) else parseUnsigned bits b (s ++ [0])) with
    | .error e => faultStr e
    | .ok (v, e) => s!"val {hexN (bits / 4) v} end {e}"
  | _, _ => "bad-op"

def tyOf : String → Option (NumTy × Nat)
  | "i32" => some (.i32, 8) | "u32" => some (.u32, 8) | "i64" => some (.i64, 16)
  | "u64" => some (.u64, 16) | "f32" => some (.f32, 8) | "f64" => some (.f64, 16)
  | _ => none

def step (u : Unit) (ws : List String) : Unit × String :=
  let e0 (rest : List String) : Nat := match rest with | [e] => errnoOf e | _ => 0
  let out : String :=
    match ws with
    | "strtof" :: h :: r => floatOp .F32 false h (e0 r)
    | "strtod" :: h :: r => floatOp .F64 false h (e0 r)
    | "strtof_check_range" :: h :: r => floatOp .F32 true h (e0 r)
    | "strtod_check_range" :: h :: r => floatOp .F64 true h (e0 r)
    | "stof" :: h :: r => stoOp .F32 h (e0 r)
    | "stod" :: h :: r => stoOp .F64 h (e0 r)
    | ["atof", h] =>
      match bytesOfHex h with
      | none => "bad-op"
      | some s => match atof (s ++ [0]) with
        | .error e => faultStr e
        | .ok v => s!"val {hexN 8 (v.bits .F32)}"
    | ["atol", h] =>
      match bytesOfHex h with
      | none => "bad-op"
      | some s => match atol (s ++ [0]) with
        | .error e => faultStr e
        | .ok v => s!"val {hexN 16 v}"
    | ["strtoull", h, b] => intOp false 64 h b
    | ["parse_i32", h, b] => intOp true 32 h b
    | ["parse_i64", h, b] => intOp true 64 h b
    | ["parse_u32", h, b] => intOp false 32 h b
    | ["str2type", t, h] =>
      match tyOf t, bytesOfHex h with
      | some (ty, w), some s => match str2type ty (s ++ [0]) with
        | .error e => faultStr e
        | .ok v => s!"val {hexN w v}"
      | _, _ => "bad-op"
    | _ => "bad-op"
  (u, out)

end Driver.StrToNum

def main : IO Unit := Driver.loop () Driver.StrToNum.step
