import DmlcModel.Indexed.Model
import Driver.Proto
/-!
Line protocol of the Indexed subsystem (harness/h_indexed.cc):

  cfg <kBufferSize words>            ok
  write <hex>                        ok <offset>      append one record with the RecordIO writer model
  index <o1> <o2> ...                ok               offsets of the index file lines, in file order
  perm <i1> <i2> ...                 ok               result of the next std::shuffle (queued)
  new <k> <n> <batch> <shuf> <seed>  <state> | error  bare IndexedRecordIOSplitter
  create <k> <n> <batch> <shuf> <seed>  ok ib ie nidx | error      InputSplit::Create(...)
  rec | batch <b> | chunk            blob <hex> [| state] / eof [| state] / error
  bf | reset <k> <n>                 ok [| state] / error
  drainrec | drainbatch <b> | drainchunk     blobs <hex>.. end [| state] / error

After an abnormal outcome the object is gone (`dead` for every later operation).
-/
namespace Driver.Indexed
open DmlcModel DmlcModel.Indexed

inductive Obj
  | none
  | bare (s : St)
  | wrapped (w : W)

structure D where
  file : Bytes := []
  offs : List Nat := []
  perms : List (List Nat) := []
  words : Nat := 4
  obj : Obj := .none

def showOpt : Option Nat → String
  | some n => toString n
  | none => "?"

def showSt (s : St) : String :=
  s!"ib={showOpt s.idxBegin} ie={showOpt s.idxEnd} ci={showOpt s.curIdx} no={showOpt s.nOverflow} " ++
  s!"ob={showOpt s.offBegin} oe={showOpt s.offEnd} oc={showOpt s.offCurr} nidx={s.index.length} " ++
  s!"bw={s.bufWords} cw={s.chunk.dataWords} rest={s.chunk.rest.length}"

def showW (w : W) : String :=
  s!"ib={showOpt w.base.idxBegin} ie={showOpt w.base.idxEnd} nidx={w.base.index.length}"

def showErr : Err → String
  | .check => "err:check"
  | .oob => "ub:oob"
  | .uninit => "ub:uninit"
  | .div => "ub:div"
  | .perm => "perm-mismatch"
  | .fuel => "err:fuel"

def nats (ws : List String) : Option (List Nat) := ws.mapM String.toNat?

def firstPerm (d : D) : List Nat := match d.perms with | p :: _ => p | [] => []
def lastPerm (d : D) : List Nat := match d.perms.reverse with | p :: _ => p | [] => []

def showBlob : Option Bytes → String
  | some b => "blob " ++ hexOrDash b
  | none => "eof"

/-- one pull on whichever object there is -/
def pull (d : D) (o : Obj) (kind : String) (b : Nat) : Except Err (Option Bytes × Obj) :=
  match o with
  | .none => .error .fuel
  | .bare s =>
    match (if kind = "rec" then nextRecord s else if kind = "batch" then nextBatch s b else nextChunk s) with
    | .error e => .error e
    | .ok (r, s) => .ok (r, .bare s)
  | .wrapped w =>
    match (if kind = "rec" then w.nextRecord d.words else w.nextChunk d.words) with
    | .error e => .error e
    | .ok (r, w) => .ok (r, .wrapped w)

def tail : Obj → String
  | .bare s => " | " ++ showSt s
  | _ => ""

def drain (d : D) (kind : String) (b : Nat) : Nat → Obj → List Bytes → Except Err (List Bytes × Obj)
  | 0, _, _ => .error .fuel
  | fuel + 1, o, acc =>
    match pull d o kind b with
    | .error e => .error e
    | .ok (none, o) => .ok (acc, o)
    | .ok (some x, o) => drain d kind b fuel o (acc ++ [x])

def done (d : D) (r : Except Err (String × Obj)) : D × String :=
  match r with
  | .error e => ({ d with obj := .none, perms := [] }, showErr e)
  | .ok (out, o) => ({ d with obj := o, perms := [] }, out ++ tail o)

def step (d : D) : List String → D × String
  | ["cfg", w] =>
    match w.toNat? with
    | some w => ({ d with words := w }, "ok")
    | none => (d, "bad-op")
  | ["write", h] =>
    match bytesOfHex h with
    | none => (d, "bad-op")
    | some r => ({ d with file := d.file ++ (RecordIO.writeRecord r).1 }, s!"ok {d.file.length}")
  | "index" :: ws =>
    match nats ws with
    | some os => ({ d with offs := os }, "ok")
    | none => (d, "bad-op")
  | "perm" :: ws =>
    match nats ws with
    | some p => ({ d with perms := d.perms ++ [p] }, "ok")
    | none => (d, "bad-op")
  | ["new", k, n, b, sh, _seed] =>
    match k.toNat?, n.toNat?, b.toNat? with
    | some k, some n, some b =>
      done d ((mk d.file d.offs k n b (sh = "1") d.words (firstPerm d)).map fun s => ("ok", Obj.bare s))
    | _, _, _ => (d, "bad-op")
  | ["create", k, n, b, sh, _seed] => mkWrapped d k n b sh
  | ["wrap", k, n, b, sh, _seed] => mkWrapped d k n b sh
  | ["rec"] =>
    match d.obj with
    | .none => ({ d with perms := [] }, "dead")
    | o => done d ((pull d o "rec" 0).map fun (r, o) => (showBlob r, o))
  | ["chunk"] =>
    match d.obj with
    | .none => ({ d with perms := [] }, "dead")
    | o => done d ((pull d o "chunk" 0).map fun (r, o) => (showBlob r, o))
  | ["batch", b] =>
    match d.obj, b.toNat? with
    | .none, _ => ({ d with perms := [] }, "dead")
    | .wrapped _, _ => (d, "bad-op")
    | o, some b => done d ((pull d o "batch" b).map fun (r, o) => (showBlob r, o))
    | _, none => (d, "bad-op")
  | ["bf"] =>
    match d.obj with
    | .none => ({ d with perms := [] }, "dead")
    | .bare s => done d ((beforeFirst s (firstPerm d)).map fun s => ("ok", Obj.bare s))
    | .wrapped w => done d ((w.beforeFirst (firstPerm d)).map fun w => ("ok " ++ showW w, Obj.wrapped w))
  | ["reset", k, n] =>
    match d.obj, k.toNat?, n.toNat? with
    | .none, _, _ => ({ d with perms := [] }, "dead")
    | .bare s, some k, some n => done d ((resetPartition s k n (firstPerm d)).map fun s => ("ok", Obj.bare s))
    | .wrapped w, some k, some n =>
      done d ((w.resetPartition k n (firstPerm d) (lastPerm d)).map fun w => ("ok " ++ showW w, Obj.wrapped w))
    | _, _, _ => (d, "bad-op")
  | "drainrec" :: [] => drainOp d "rec" 0
  | "drainchunk" :: [] => drainOp d "chunk" 0
  | ["drainbatch", b] =>
    match b.toNat?, d.obj with
    | _, .wrapped _ => (d, "bad-op")
    | some b, _ => drainOp d "batch" b
    | none, _ => (d, "bad-op")
  | _ => (d, "bad-op")
where
  mkWrapped (d : D) (k n b sh : String) : D × String :=
    match k.toNat?, n.toNat?, b.toNat? with
    | some k, some n, some b =>
      done d ((W.create d.file d.offs k n b (sh = "1") d.words (firstPerm d)).map fun w => ("ok " ++ showW w, Obj.wrapped w))
    | _, _, _ => (d, "bad-op")
  drainOp (d : D) (kind : String) (b : Nat) : D × String :=
    match d.obj with
    | .none => ({ d with perms := [] }, "dead")
    | o =>
      done d ((drain d kind b (d.file.length + 4) o []).map fun (bs, o) =>
        match o with
        | .wrapped _ =>
          if kind = "rec" then ("blobs " ++ String.join (bs.map fun x => hexOrDash x ++ " ") ++ "end", o)
          else ("cat " ++ hexOrDash bs.flatten, o)       -- chunk boundaries depend on the prefetch depth
        | _ => ("blobs " ++ String.join (bs.map fun x => hexOrDash x ++ " ") ++ "end", o))

end Driver.Indexed

def main : IO Unit := Driver.loop ({} : Driver.Indexed.D) Driver.Indexed.step
