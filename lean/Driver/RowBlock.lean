import DmlcModel.RowBlock.Model
import Driver.Proto
/-!
Line-protocol driver of the RowBlock model (C13).

Descriptors
  row    `<label>/<weight>/<qid>/<entries>`   label, weight: hex bits of the float or `-`; qid decimal or `-`
         entries: `-` or `e,e,…` with e = `<field>:<index>:<value>` (field decimal or `-`, value hex or `-`)
  block  `-` (no rows) or `row;row;…`; an optional array is present iff every row (entry) carries it
  lines  like a block, presence free per line / per entry; a trailing `/!` marks csv's LOG(FATAL) line
-/
namespace Driver.RowBlock
open DmlcModel DmlcModel.RowBlock

structure St where
  iw : Nat := 4
  c : Container := Container.empty
  stream : Bytes := []
  rpos : Nat := 0

def limOf (iw : Nat) : Nat := 2 ^ (8 * iw) - 1

-- ---------------------------------------------------------------- parsing of descriptors
def hexNat? (s : String) : Option Nat :=
  if s.isEmpty then none
  else s.toList.foldl (fun acc ch => match acc, hexVal ch with
    | some a, some d => some (16 * a + d)
    | _, _ => none) (some 0)

def optTok (f : String → Option Nat) (s : String) : Option (Option Nat) :=
  if s = "-" then some none else (f s).map some

structure DEntry where
  field : Option Nat
  index : Nat
  value : Option Nat

structure DLine where
  label : Option Nat
  weight : Option Nat
  qid : Option Nat
  entries : List DEntry
  fatal : Bool

def parseEntry (s : String) : Option DEntry :=
  match s.splitOn ":" with
  | [f, i, v] =>
    match optTok String.toNat? f, i.toNat?, optTok hexNat? v with
    | some f, some i, some v => some { field := f, index := i, value := v }
    | _, _, _ => none
  | _ => none

def parseEntries (s : String) : Option (List DEntry) :=
  if s = "-" then some [] else (s.splitOn ",").mapM parseEntry

def parseLine (s : String) : Option DLine :=
  let go (l w q e : String) (fatal : Bool) : Option DLine :=
    match optTok hexNat? l, optTok hexNat? w, optTok String.toNat? q, parseEntries e with
    | some l, some w, some q, some es => some { label := l, weight := w, qid := q, entries := es, fatal := fatal }
    | _, _, _, _ => none
  match s.splitOn "/" with
  | [l, w, q, e] => go l w q e false
  | [l, w, q, e, "!"] => go l w q e true
  | _ => none

def parseLines (s : String) : Option (List DLine) :=
  if s = "-" then some [] else (s.splitOn ";").mapM parseLine

/-- all `some`, all `none` (→ `none`), or mixed (→ failure) -/
def uniform (xs : List (Option Nat)) : Option (Option (List Nat)) :=
  if xs.all Option.isSome then some (some (xs.filterMap id))
  else if xs.all Option.isNone then some none
  else none

def rowOfLine (ln : DLine) : Option RowVal :=
  if ln.fatal then none
  else
    match uniform (ln.entries.map (·.field)), uniform (ln.entries.map (·.value)) with
    | some f, some v =>
      let ix := ln.entries.map (·.index)
      some { label := ln.label, weight := ln.weight, qid := ln.qid,
             field := if ix.isEmpty then none else f, index := ix, value := if ix.isEmpty then none else v }
    | _, _ => none

def modelLine (ln : DLine) : Line :=
  { label := ln.label, weight := ln.weight, qid := ln.qid, fatal := ln.fatal,
    entries := ln.entries.map fun e =>
      { field := (match e.field with | some f => f | none => 0), index := e.index, value := e.value } }

def offsetsOf : Nat → List Nat → List Nat
  | acc, [] => [acc]
  | acc, n :: ns => acc :: offsetsOf (acc + n) ns

/-- the block a harness builds from whole rows (vectors + BeginPtr) -/
def blockOfLines (lns : List DLine) : Option Block :=
  match lns.mapM rowOfLine with
  | none => none
  | some rows =>
    let ents := lns.flatMap (·.entries)
    match uniform (rows.map (·.label)), uniform (rows.map (·.weight)), uniform (rows.map (·.qid)),
          uniform (ents.map (·.field)), uniform (ents.map (·.value)) with
    | some l, some w, some q, some f, some v =>
      let nz (p : Option (List Nat)) : Option (List Nat) :=
        match p with
        | some (x :: xs) => some (x :: xs)
        | _ => none
      some { size := rows.length, offset := offsetsOf 0 (rows.map (·.index.length)),
             label := nz l, weight := nz w, qid := nz q, field := nz f,
             index := nz (some (ents.map (·.index))), value := nz v }
    | _, _, _, _, _ => none

def blockFits (srcw : Nat) (b : Block) : Bool :=
  (ext b.field).all (· ≤ limOf srcw) && (ext b.index).all (· ≤ limOf srcw)

-- ---------------------------------------------------------------- printing
def hex8 (n : Nat) : String :=
  String.ofList ((List.range 8).reverse.map fun k => hexDigit (n / 16 ^ k % 16))

def showOpt (f : Nat → String) : Option Nat → String
  | none => "-"
  | some x => f x

def showRow (r : RowVal) : String :=
  let n := r.index.length
  let ents := (List.range n).map fun k =>
    let f := match r.field with
      | some fs => showOpt toString fs[k]?
      | none => "-"
    let v := match r.value with
      | some vs => showOpt hex8 vs[k]?
      | none => "-"
    f ++ ":" ++ showOpt toString r.index[k]? ++ ":" ++ v
  showOpt hex8 r.label ++ "/" ++ showOpt hex8 r.weight ++ "/" ++ showOpt toString r.qid ++ "/" ++
    (if n = 0 then "-" else ",".intercalate ents)

def showRows (rs : List RowVal) : String :=
  if rs.isEmpty then "-" else ";".intercalate (rs.map showRow)

def showErr : Err → String
  | .check => "err:check"
  | .oob => "ub:oob"

def flag (p : Option (List Nat)) : String := if p.isSome then "1" else "0"

def showBlock (b : Block) : String :=
  s!"block size={b.size} l={flag b.label} w={flag b.weight} q={flag b.qid} f={flag b.field} i={flag b.index} v={flag b.value}"

def showSizes (c : Container) : String :=
  s!"sizes o={c.offset.length} l={c.label.length} w={c.weight.length} q={c.qid.length} f={c.field.length} i={c.index.length} v={c.value.length} mf={c.maxField} mi={c.maxIndex}"

def showPush (s : St) (res : Container × Option Err) : St × String :=
  ({ s with c := res.1 }, match res.2 with | none => "ok" | some e => showErr e)

def showPasses (ps : List (List RowVal)) : String :=
  " | ".intercalate (ps.map fun rs => "pass " ++ showRows rs)

/-- the blocks a parser hands out for one chunk of lines (at most one), or the error it raises -/
def parserBlocks (fmt : String) (lns : List DLine) : R (List Block) :=
  let parsed : R Container :=
    if fmt = "svm" then parseSvm (lns.map modelLine)
    else if fmt = "fm" then parseFm (lns.map modelLine)
    else parseCsv (lns.map modelLine)
  match parsed with
  | .error e => .error e
  | .ok c =>
    match handOut c with
    | .error e => .error e
    | .ok none => .ok []
    | .ok (some b) => .ok [b]

def fmtOf (tok : String) : String := (tok.splitOn ":").headD ""

def diskPasses (iw : Nat) (blocks : List Block) (n : Nat) : R (Nat × List (List RowVal)) :=
  match buildCache iw (limOf iw) blocks with
  | .error e => .error e
  | .ok (file, _) =>
    match readPages iw (file.length + 1) file, diskPass iw file with
    | .ok pages, .ok rs => .ok (pages.length, List.replicate n rs)
    | .error e, _ => .error e
    | _, .error e => .error e

/-- size-level shadow of `buildGo` for the page-size case (`diskbig`): the blocks are far too large to be
materialised as lists, but `MemCostBytes` depends on the vector lengths only.  Every block has `rows`
rows with a label and `ents` (index, value) entries each, no weight/qid/field; a uint32 container. -/
def bigPages (nb rows ents : Nat) : List Nat :=
  let cost (o : Nat) : Nat := Gen.RowBlock.memCost o (o - 1) 0 0 0 ((o - 1) * ents) ((o - 1) * ents) 4 4
  let rec go : Nat → Nat → List Nat
    | 0, o => if Gen.RowBlock.finalSave (Gen.RowBlock.gbSize o) then [o - 1] else []
    | k + 1, o =>
      let o' := o + rows
      if Gen.RowBlock.pageFull (cost o') then (o' - 1) :: go k 1 else go k o'
  go nb 1

def swOk (s : St) (sw : Nat) : Bool := (sw = 4 || sw = 8) && !(s.iw = 8 && sw = 4)

def step (s : St) : List String → St × String
  | ["new", iw] =>
    match iw.toNat? with
    | some w => if w = 4 ∨ w = 8 then ({ iw := w }, "ok") else (s, "bad-op")
    | none => (s, "bad-op")
  | ["pushrow", srcw, d] =>
    match srcw.toNat?, (parseLine d).bind rowOfLine with
    | some sw, some r =>
      if !swOk s sw then (s, "bad-op") else
      if r.index.all (· ≤ limOf sw) && (match r.field with | some fs => fs.all (· ≤ limOf sw) | none => true) then
        showPush s (pushRow (limOf s.iw) s.c r)
      else (s, "bad-op")
    | _, _ => (s, "bad-op")
  | ["pushblock", srcw, d] =>
    match srcw.toNat?, (parseLines d).bind blockOfLines with
    | some sw, some b =>
      if swOk s sw && blockFits sw b then showPush s (pushBlock (limOf s.iw) s.c b) else (s, "bad-op")
    | _, _ => (s, "bad-op")
  | ["pushslice", srcw, bg, e, d] =>
    match srcw.toNat?, bg.toNat?, e.toNat?, (parseLines d).bind blockOfLines with
    | some sw, some bg, some e, some b =>
      if swOk s sw && blockFits sw b then
        match b.slice bg e with
        | .error er => (s, showErr er)
        | .ok sl => showPush s (pushBlock (limOf s.iw) s.c sl)
      else (s, "bad-op")
    | _, _, _, _ => (s, "bad-op")
  | ["clear"] => ({ s with c := s.c.clear }, "ok")
  | ["getblock"] =>
    match getBlock s.c with
    | .ok b => (s, showBlock b)
    | .error e => (s, showErr e)
  | ["readrow", i] =>
    match i.toNat? with
    | some i =>
      match getBlock s.c with
      | .error e => (s, showErr e)
      | .ok b =>
        match b.row i with
        | .ok r => (s, "row " ++ showRow r)
        | .error e => (s, showErr e)
    | none => (s, "bad-op")
  | ["readall"] =>
    match getBlock s.c with
    | .error e => (s, showErr e)
    | .ok b =>
      match b.rows with
      | .ok rs => (s, "rows " ++ showRows rs)
      | .error e => (s, showErr e)
  | ["readslice", bg, e] =>
    match bg.toNat?, e.toNat? with
    | some bg, some e =>
      match getBlock s.c with
      | .error er => (s, showErr er)
      | .ok b =>
        match b.slice bg e with
        | .error er => (s, showErr er)
        | .ok sl =>
          match sl.rows with
          | .ok rs => (s, "rows " ++ showRows rs)
          | .error er => (s, showErr er)
    | _, _ => (s, "bad-op")
  | ["sizes"] => (s, showSizes s.c)
  | ["save"] =>
    let bs := save s.iw s.c
    ({ s with stream := s.stream ++ bs }, s!"saved {bs.length}")
  | ["dump"] => (s, "bytes " ++ hexOrDash s.stream)
  | ["rewind"] => ({ s with rpos := 0 }, "ok")
  | ["trunc", k] =>
    match k.toNat? with
    | some k =>
      if k ≤ s.stream.length then
        let n := s.stream.length - k
        ({ s with stream := s.stream.take n, rpos := Nat.min s.rpos n }, "ok")
      else (s, "bad-op")
    | none => (s, "bad-op")
  | ["load"] =>
    let input := s.stream.drop s.rpos
    match load s.iw s.c input with
    | .eof => ({ s with c := Container.empty, rpos := s.stream.length }, "eof")
    | .bad => ({ s with c := Container.empty, rpos := s.stream.length }, "err:check")
    | .ok c rest => ({ s with c := c, rpos := s.stream.length - rest.length }, s!"ok {input.length - rest.length}")
  | ["parse", fmt, _text, d] =>
    match parseLines d with
    | none => (s, "bad-op")
    | some lns =>
      let f := fmtOf fmt
      let parsed : R Container :=
        if f = "svm" then parseSvm (lns.map modelLine)
        else if f = "fm" then parseFm (lns.map modelLine)
        else parseCsv (lns.map modelLine)
      match parsed with
      | .ok c => ({ s with c := c }, "ok")
      | .error e => ({ s with c := Container.empty }, showErr e)
  | ["ptext", _fmt, _text] => ({ s with c := Container.empty }, "checked")
  | ["diskbig", nb, rows, ents] =>
    match nb.toNat?, rows.toNat?, ents.toNat? with
    | some nb, some rows, some ents => (s, "pages" ++ String.join ((bigPages nb rows ents).map fun r => s!" {r}"))
    | _, _, _ => (s, "bad-op")
  | "iterbasic" :: srcw :: npass :: ds =>
    match srcw.toNat?, npass.toNat?, ds.mapM (fun d => (parseLines d).bind blockOfLines) with
    | some sw, some n, some bs =>
      if sw = s.iw && bs.all (blockFits sw) then
        match basicPasses (limOf s.iw) bs n with
        | .ok ps => (s, showPasses ps)
        | .error e => (s, showErr e)
      else (s, "bad-op")
    | _, _, _ => (s, "bad-op")
  | "iterdisk" :: reuse :: npass :: ds =>
    match reuse.toNat?, npass.toNat?, ds.mapM (fun d => (parseLines d).bind blockOfLines) with
    | some ru, some n, some bs =>
      if bs.all (blockFits s.iw) then
        match diskPasses s.iw bs (n * (1 + ru)) with
        | .ok (k, ps) => (s, s!"pages {k} " ++ showPasses ps)
        | .error e => (s, showErr e)
      else (s, "bad-op")
    | _, _, _ => (s, "bad-op")
  | ["iterfile", fmt, cache, npass, _text, d] =>
    match cache.toNat?, npass.toNat?, parseLines d with
    | some ca, some n, some lns =>
      match parserBlocks (fmtOf fmt) lns with
      | .error e => (s, showErr e)
      | .ok bs =>
        if ca = 0 then
          match basicPasses (limOf s.iw) bs n with
          | .ok ps => (s, showPasses ps)
          | .error e => (s, showErr e)
        else
          match diskPasses s.iw bs (n * ca) with
          | .ok (_, ps) => (s, showPasses ps)
          | .error e => (s, showErr e)
    | _, _, _ => (s, "bad-op")
  | _ => (s, "bad-op")

end Driver.RowBlock

def main : IO Unit := Driver.loop ({} : Driver.RowBlock.St) Driver.RowBlock.step
