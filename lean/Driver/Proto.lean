import DmlcModel.Basic
/-! line-protocol helpers shared by the subsystem drivers -/
namespace Driver

def words (line : String) : List String :=
  (line.trimAscii.toString.splitOn " ").filter (· ≠ "")

/-- generic loop: `step` maps a state and the words of one line to a new state and one output line -/
partial def loop {σ : Type} (init : σ) (step : σ → List String → σ × String) : IO Unit := do
  let stdin ← IO.getStdin
  let stdout ← IO.getStdout
  let rec go (s : σ) (n : Nat) : IO Unit := do
    let line ← stdin.getLine
    if line.isEmpty then
      stdout.flush
      return ()
    let ws := words line
    match ws with
    | "case" :: _ =>
      stdout.putStrLn line.trimAscii.toString
      go init (n + 1)
    | _ =>
      let (s', out) := step s ws
      stdout.putStrLn out
      go s' (n + 1)
  go init 0

end Driver
